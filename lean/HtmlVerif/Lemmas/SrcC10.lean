/-
Helper lemmas and embeddings for the source tie of `_resolve_dependencies`, `Tag/TagList.get_dependencies` and
`Tag/TagList.tagify` (Props/SrcC10.lean).
-/
import HtmlVerif.Generated.Src
import HtmlVerif.Lemmas.SrcRender
import HtmlVerif.Lemmas.Tagify
import HtmlVerif.Model.Deps
import HtmlVerif.Model.Tagify
import HtmlVerif.Spec.Deps

namespace HtmlVerif.SrcTie
open HtmlVerif HtmlVerif.Py HtmlVerif.Generated.Src

/-! ## `_resolve_dependencies`: the dict `name ↦ dependency` against the association list of the model -/

section resolve
variable {α : Type} (e : α → PVal) (nm : α → Str) (rk : α → Int)

def embMap (m : List (Str × α)) : PVal := .dict (m.map fun kv => (kv.1, e kv.2))

theorem dictGet?_embMap (k : Str) (m : List (Str × α)) :
    Py.dictGet? k (m.map fun kv => (kv.1, e kv.2)) = (amapGet? k m).map e := by
  induction m with
  | nil => rfl
  | cons x t ih =>
    obtain ⟨k', v⟩ := x
    simp only [List.map_cons, Py.dictGet?, amapGet?]
    by_cases h : k' = k <;> simp [h, ih]

theorem dictSet_embMap (k : Str) (v : α) (m : List (Str × α)) :
    Py.dictSet k (e v) (m.map fun kv => (kv.1, e kv.2)) = (amapSet k v m).map fun kv => (kv.1, e kv.2) := by
  induction m with
  | nil => rfl
  | cons x t ih =>
    obtain ⟨k', v'⟩ := x
    simp only [List.map_cons, Py.dictSet, amapSet]
    by_cases h : k' = k <;> simp [h, ih]

theorem foldlM_ok {β γ ε : Type} (g : β → γ → β) (l : List γ) (b : β) :
    l.foldlM (m := Except ε) (fun b c => .ok (g b c)) b = .ok (l.foldl g b) := by
  induction l generalizing b with
  | nil => rfl
  | cons a t ih => simp only [List.foldlM_cons, List.foldl_cons, bind, Except.bind]; exact ih _

end resolve



theorem amapSet_vals {α : Type} (k : Str) (v : α) (m : List (Str × α)) :
    ∀ kv ∈ amapSet k v m, kv.2 = v ∨ kv ∈ m := by
  induction m with
  | nil => intro kv h; simp [amapSet] at h; exact Or.inl (by rw [h])
  | cons x t ih =>
    obtain ⟨k', v'⟩ := x
    intro kv h
    simp only [amapSet] at h
    by_cases hk : k' = k
    · simp only [hk, if_true, List.mem_cons] at h
      rcases h with rfl | h
      · exact Or.inl rfl
      · exact Or.inr (by simp [h])
    · simp only [hk, if_false, List.mem_cons] at h
      rcases h with rfl | h
      · exact Or.inr (by simp)
      · rcases ih kv h with h' | h'
        · exact Or.inl h'
        · exact Or.inr (by simp [h'])

theorem amapGet?_vals {α : Type} (k : Str) (v : α) (m : List (Str × α)) (h : amapGet? k m = some v) :
    ∃ kv ∈ m, kv.2 = v := by
  induction m with
  | nil => simp [amapGet?] at h
  | cons x t ih =>
    obtain ⟨k', v'⟩ := x
    simp only [amapGet?] at h
    by_cases hk : k' = k
    · simp only [hk, if_true, Option.some.injEq] at h
      exact ⟨(k', v'), by simp, h⟩
    · simp only [hk, if_false] at h
      obtain ⟨kv, h1, h2⟩ := ih h
      exact ⟨kv, by simp [h1], h2⟩

theorem resolveStep_vals {α : Type} (nm : α → Str) (gt : α → α → Bool) (P : α → Prop) (m : List (Str × α)) (c : α)
    (hm : ∀ kv ∈ m, P kv.2) (hc : P c) : ∀ kv ∈ resolveStep gt nm m c, P kv.2 := by
  intro kv h
  unfold resolveStep at h
  split at h
  · rcases amapSet_vals _ _ _ kv h with h' | h'
    · rw [h']; exact hc
    · exact hm kv h'
  · split at h
    · rcases amapSet_vals _ _ _ kv h with h' | h'
      · rw [h']; exact hc
      · exact hm kv h'
    · exact hm kv h

/-- the loop of `_resolve_dependencies`, whatever its body and whatever other locals its state carries (`get` reads
    the dict out of the state): if each pass does to the dict what `resolveStep` does to the
    association list, the loop leaves the embedding of `resolveMap`; `k` is the code after the loop -/
theorem resolve_loop_k {α β σ : Type} (get : σ → PVal) (e : α → PVal) (nm : α → Str) (gt : α → α → Bool) (ds : List α)
    (init : σ) (hinit : get init = embMap e [])
    (f : PVal → σ → PyM (ForInStep σ))
    (hstep : ∀ c ∈ ds, ∀ (s : σ) (m : List (Str × α)), get s = embMap e m → (∀ kv ∈ m, kv.2 ∈ ds) →
      ∃ s', f (e c) s = .ok (.yield s') ∧ get s' = embMap e (resolveStep gt nm m c))
    (k : σ → PyM β) (r : PyM β)
    (hk : ∀ s, get s = embMap e (resolveMap gt nm ds) → k s = r) :
    (forIn (ds.map e) init f >>= k) = r := by
  have sim := forIn_sim (fun (s : σ) (m : List (Str × α)) => get s = embMap e m ∧ ∀ kv ∈ m, kv.2 ∈ ds) embErr e ds f
    (fun c m => .ok (resolveStep gt nm m c)) init [] ⟨hinit, by simp⟩
    (by
      intro c hc s m hR
      obtain ⟨s', h1, h2⟩ := hstep c hc s m hR.1 hR.2
      exact ⟨_, h1, s', rfl, h2, resolveStep_vals nm gt (· ∈ ds) m c hR.2 hc⟩)
  rw [foldlM_ok (fun m c => resolveStep gt nm m c)] at sim
  obtain ⟨s, hs, hR⟩ := sim
  rw [hs, ok_bind]
  exact hk s hR.1

theorem pyGt_version (x y : Int) (fa fb : List (String × PVal)) :
    pyGt (.obj "Version" (("rank", .int x) :: fa)) (.obj "Version" (("rank", .int y) :: fb)) = .ok (.bool (decide (x > y))) := by
  simp [pyGt, fieldGet?]

theorem pyIn_embMap {α : Type} (e : α → PVal) (k : Str) (m : List (Str × α)) :
    pyIn (.str k) (embMap e m) = .ok (.bool (amapGet? k m).isSome) := by
  simp [pyIn, embMap, dictGet?_embMap]

theorem pyGetItem_embMap {α : Type} (e : α → PVal) (k : Str) (m : List (Str × α)) (v : α) (h : amapGet? k m = some v) :
    pyGetItem (embMap e m) (.str k) = .ok (e v) := by
  simp [pyGetItem, embMap, dictGet?_embMap, h]

theorem pySetItem_embMap {α : Type} (e : α → PVal) (k : Str) (m : List (Str × α)) (v : α) :
    pySetItem (embMap e m) (.str k) (e v) = .ok (embMap e (amapSet k v m)) := by
  simp [pySetItem, embMap, dictSet_embMap]

theorem values_embMap {α : Type} (e : α → PVal) (m : List (Str × α)) :
    (pyValues (embMap e m) >>= pyList) = .ok (.list ((m.map Prod.snd).map e)) := by
  simp [pyValues, embMap, pyList, pyIter, Function.comp_def]


/-! ## the tree as the Python objects `get_dependencies` / `tagify` see -/

/-- the fields of an HTMLDependency these functions read — `name`, `version` (a `packaging` Version carrying its rank in
    the order `packaging` reports, and its text) — and `meta`, which holds the marker the harness gives every object
    (the model's notion of which object is which) -/
def embDepFields (d : DepInfo) : List (String × PVal) :=
  [("name", .str d.name),
   ("version", .obj "Version" [("rank", .int d.vrank), ("text", .str d.version)]),
   ("meta", .list (d.metas.map fun m => PVal.dict (m.map fun kv => (kv.1, PVal.str kv.2))))]

def reprField : Option Str → List (String × PVal)
  | some s => [("_repr_html_", .str s)]
  | none => []

mutual
  /-- a node as a Python value.  `tv n` is the value the call `n.tagify()` returns for a tagifiable object `n` of a class
      outside the library (recorded in the instance under `tagify`, read by `pyTagifyObj`). -/
  def embT (tv : Node → PVal) : Node → PVal
    | .tag name ws attrs kids =>
      .obj "Tag" [("name", .str name), ("attrs", embAttrs attrs),
                  ("children", .obj "TagList" [("data", .list (embTs tv kids))]), ("add_ws", .bool ws)]
    | .text s => .str s
    | .html s => .html s
    | .robj s => .obj "ReprObj" [("_repr_html_", .str s)]
    | .mnode n => .obj "MetadataNode" [("id", .int n)]
    | .dep d _ _ => .obj "HTMLDependency" (embDepFields d)
    | .tobjL rh c => .obj "TagifyObj" (("tagify", tv (.tobjL rh c)) :: reprField rh)
    | .tobj1 rh c => .obj "TagifyObj" (("tagify", tv (.tobj1 rh c)) :: reprField rh)
  def embTs (tv : Node → PVal) : Nodes → List PVal
    | .nil => []
    | .cons h t => embT tv h :: embTs tv t
end

/-- a TagList instance holding these items -/
def tagListOf (items : List PVal) : PVal := .obj "TagList" [("data", .list items)]

theorem embTs_toList (tv : Node → PVal) (ks : Nodes) : embTs tv ks = ks.toList.map (embT tv) := by
  induction ks using Nodes.rec (motive_1 := fun _ => True) with
  | nil => rfl
  | cons h t _ ih => simp [embTs, Nodes.toList, ih]
  | _ => trivial

theorem embT_dep_name (tv : Node → PVal) (d : Node) (h : d.isDep = true) :
    pyGetAttr (embT tv d) "name" = .ok (.str d.depName) := by
  cases d <;> simp [Node.isDep] at h
  simp [embT, embDepFields, pyGetAttr, fieldGet?, Node.depName]

theorem embT_dep_version (tv : Node → PVal) (d : Node) (h : d.isDep = true) :
    ∃ fs, pyGetAttr (embT tv d) "version" = .ok (.obj "Version" (("rank", .int ((d.vrank : Nat) : Int)) :: fs)) := by
  cases d <;> simp [Node.isDep] at h
  rename_i d _ _
  exact ⟨[("text", .str d.version)], by simp [embT, embDepFields, pyGetAttr, fieldGet?, Node.vrank]⟩

theorem isDep_embT (tv : Node → PVal) (c : Node) : isInstance (embT tv c) ["HTMLDependency"] = c.isDep := by
  cases c <;> simp [embT, isInstance, builtinClasses, classBases, Node.isDep]

theorem isTag_embT (tv : Node → PVal) (c : Node) : isInstance (embT tv c) ["Tag"] = c.isTag := by
  cases c <;> simp [embT, isInstance, builtinClasses, classBases, Node.isTag]


/-! ## `TagList.get_dependencies`: the loop, one pass at the model level -/

/-- what one pass of `for x in self: …` does to `deps` -/
def depsStep (acc : List Node) (h : Node) : List Node :=
  match h with
  | .dep .. => acc ++ [h]
  | .tag .. => acc ++ h.collect
  | _ => acc

theorem deps_fold (ks : Nodes) (acc : List Node) : ks.toList.foldl depsStep acc = acc ++ ks.collect := by
  induction ks using Nodes.rec (motive_1 := fun _ => True) generalizing acc with
  | nil => simp [Nodes.toList, Nodes.collect]
  | cons h t _ ih =>
    simp only [Nodes.toList, List.foldl_cons]
    rw [ih]
    cases h <;> simp [depsStep, Nodes.collect]
  | _ => trivial

/-- the loop of `TagList.get_dependencies`, whatever its body: if each pass does to `deps` what `depsStep` does, the
    loop leaves the embedding of `collect`; `k` is the code after the loop -/
theorem deps_loop_k {β σ : Type} (get : σ → PVal) (tv : Node → PVal) (ks : Nodes)
    (init : σ) (hinit : get init = .list [])
    (f : PVal → σ → PyM (ForInStep σ))
    (hstep : ∀ c ∈ ks.toList, ∀ (s : σ) (b : List Node), get s = .list (b.map (embT tv)) →
      ∃ s', f (embT tv c) s = .ok (.yield s') ∧ get s' = .list ((depsStep b c).map (embT tv)))
    (k : σ → PyM β) (r : PyM β)
    (hk : ∀ s, get s = .list (ks.collect.map (embT tv)) → k s = r) :
    (forIn (ks.toList.map (embT tv)) init f >>= k) = r := by
  have sim := forIn_sim (fun (s : σ) (b : List Node) => get s = .list (b.map (embT tv))) embErr (embT tv) ks.toList f
    (fun c b => .ok (depsStep b c)) init [] (by simpa using hinit)
    (by
      intro c hc s b hR
      obtain ⟨s', h1, h2⟩ := hstep c hc s b hR
      exact ⟨_, h1, s', rfl, h2⟩)
  rw [foldlM_ok depsStep, deps_fold] at sim
  obtain ⟨s, hs, hR⟩ := sim
  rw [hs, ok_bind]
  exact hk s (by simpa using hR)

theorem collect_isDep (ks : Nodes) : ∀ d ∈ ks.collect, d.isDep = true := by
  induction ks using Nodes.rec (motive_1 := fun n => ∀ d ∈ n.collect, d.isDep = true) with
  | nil => simp [Nodes.collect]
  | cons h t ih1 ih2 =>
    intro d hd
    cases h with
    | tag n w a k =>
      simp only [Nodes.collect, List.mem_append] at hd
      rcases hd with hd | hd
      · exact ih1 d hd
      · exact ih2 d hd
    | dep dd hh hdd =>
      simp only [Nodes.collect, List.mem_cons] at hd
      rcases hd with rfl | hd
      · rfl
      · exact ih2 d hd
    | _ => exact ih2 d (by simpa [Nodes.collect] using hd)
  | tag n w a k ih => rename_i d hd; exact ih d (by simpa [Node.collect] using hd)
  | _ => rename_i d hd; simp [Node.collect] at hd

theorem depGt_int : (fun a b : Node => decide ((a.vrank : Int) > (b.vrank : Int))) = depGt := by
  funext a b; simp [depGt]

theorem getattr_tagT (tv : Node → PVal) (nm : Str) (ws : Bool) (a : Attrs) (k : Nodes) :
    pyGetAttr (embT tv (.tag nm ws a k)) "children" = .ok (tagListOf (embTs tv k)) := by
  simp [embT, pyGetAttr, fieldGet?, tagListOf]


end HtmlVerif.SrcTie
