/- Constants tie, dependency files (obligations of C12): defaults of save_html / as_html_tags / as_dict / copy_to. -/
import HtmlVerif.Lemmas.ConstTie

namespace HtmlVerif.ConstsDeps
open HtmlVerif HtmlVerif.Generated HtmlVerif.ConstTie

theorem deps_defaults :
    (dfltStr dSaveLibdir (some ['l', 'i', 'b']) && dfltBool dSaveInclVersion true
      && dfltStr dTagSaveLibdir (some ['l', 'i', 'b']) && dfltStr dListSaveLibdir (some ['l', 'i', 'b'])
      && dfltStr dAsTagsLibPrefix (some ['l', 'i', 'b']) && dfltBool dAsTagsInclVersion true
      && dfltStr dAsDictLibPrefix (some ['l', 'i', 'b']) && dfltBool dAsDictInclVersion true
      && dfltBool dCopyInclVersion true && dfltBool dAllFiles false) = true := by decide +kernel

end HtmlVerif.ConstsDeps
