/-
Specification-side definitions for C10 (used in the statements, never in the model).
-/
import HtmlVerif.Model.Deps

namespace HtmlVerif

/-! ### document order -/

mutual
  /-- every node of a tree in document (pre-) order: a tag, then its children left to right.
      Nothing below a dependency (its `head`) or inside an un-expanded tagifiable object is part of
      the tree that is walked. -/
  def Node.preorder : Node → List Node
    | .tag n w a k => .tag n w a k :: k.preorder
    | x => [x]
  def Nodes.preorder : Nodes → List Node
    | .nil => []
    | .cons h t => h.preorder ++ t.preorder
end

/-- the dependencies of a child list: the dependency nodes among all nodes, in document order -/
def Nodes.depsOf (ks : Nodes) : List Node := ks.preorder.filter Node.isDep

/-- `d` sits at some nesting level below `ks` (reached through tags only) -/
inductive Nodes.Reach : Nodes → Node → Prop
  | here (h : Node) (t : Nodes) : Nodes.Reach (.cons h t) h
  | later (h : Node) (t : Nodes) (d : Node) : Nodes.Reach t d → Nodes.Reach (.cons h t) d
  | inside (n : Str) (w : Bool) (a : Attrs) (k t : Nodes) (d : Node) :
      Nodes.Reach k d → Nodes.Reach (.cons (.tag n w a k) t) d

/-! ### one per name, ordered by first occurrence -/

/-- keep the first occurrence of every element -/
def dedupKeepFirst {κ} [DecidableEq κ] : List κ → List κ
  | [] => []
  | x :: r => x :: (dedupKeepFirst r).filter (· ≠ x)

/-! ### highest version, earliest on ties -/

/-- the first element that no element of the list exceeds -/
def firstMaxBy {α} (gt : α → α → Bool) (l : List α) : Option α :=
  l.find? (fun d => l.all (fun y => !gt y d))

/-- positional form: `d` occurs in `l` at a place where everything before it is strictly smaller
    and nothing after it is strictly greater -/
def IsFirstMax {α} (gt : α → α → Bool) (l : List α) (d : α) : Prop :=
  ∃ pre post, l = pre ++ d :: post ∧ (∀ y ∈ pre, gt d y = true) ∧ (∀ y ∈ post, gt y d = false)

/-- `gt` is the strict part of a total preorder (a strict weak order) -/
structure StrictWeak {α} (gt : α → α → Bool) : Prop where
  asymm : ∀ a b, gt a b = true → gt b a = false
  /-- `a > b` and `c ≤ b` give `a > c` -/
  gt_of_gt_of_le : ∀ a b c, gt a b = true → gt c b = false → gt a c = true

/-- `le` is a total preorder -/
structure TotalPreorder {α} (le : α → α → Bool) : Prop where
  total : ∀ a b, le a b = true ∨ le b a = true
  trans : ∀ a b c, le a b = true → le b c = true → le a c = true

/-! ### validation, declaratively -/

/-- the errors an item list provokes, item by item, key by key -/
def itemViolations (req : List Str) : PyItem → List Err
  | .other => [.typeError]
  | .dict d => (req.filter (fun k => !hasKey k d)).map (fun _ => Err.keyError)

/-- the record a well-formed call produces: every item list normalised to a list of dicts -/
def ItemsArg.items : ItemsArg → List PyItem
  | .none => []
  | .one d => [.dict d]
  | .many l => l
  | .scalar => [.other]

def itemsViolations (req : List Str) (x : ItemsArg) : List Err :=
  x.items.flatMap (itemViolations req)

def sourceViolations : SourceArg → List Err
  | .none => []
  | .other => [.typeError]
  | .dict d => if hasKey ['h','r','e','f'] d || hasKey ['s','u','b','d','i','r'] d then [] else [.typeError]

/-- everything wrong with the arguments, in the order the constructor looks -/
def DepArg.violations (a : DepArg) : List Err :=
  (if a.verOk then [] else [Err.valueError]) ++ sourceViolations a.source
    ++ itemsViolations reqScript a.script ++ itemsViolations reqStylesheet a.stylesheet
    ++ itemsViolations reqMeta a.metas

/-- a non-dict item somewhere -/
def ItemsArg.hasNonDict (x : ItemsArg) : Bool := x.items.any (fun i => i == .other)

/-- a dict item lacking one of its required keys -/
def ItemsArg.lacksKey (req : List Str) (x : ItemsArg) : Bool :=
  x.items.any fun i => match i with
    | .dict d => req.any (fun k => !hasKey k d)
    | .other => false

/-- the property's own wording of "malformed" -/
def DepArg.Malformed (a : DepArg) : Prop :=
  a.verOk = false
  ∨ a.source = .other
  ∨ (∃ d, a.source = .dict d ∧ hasKey ['h','r','e','f'] d = false ∧ hasKey ['s','u','b','d','i','r'] d = false)
  ∨ a.script.hasNonDict = true ∨ a.stylesheet.hasNonDict = true ∨ a.metas.hasNonDict = true
  ∨ a.script.lacksKey reqScript = true ∨ a.stylesheet.lacksKey reqStylesheet = true
  ∨ a.metas.lacksKey reqMeta = true

def PyItem.dict? : PyItem → Option (List (Str × Str))
  | .dict d => some d
  | .other => none

def ItemsArg.dicts (x : ItemsArg) : List (List (Str × Str)) := x.items.filterMap PyItem.dict?

end HtmlVerif
