"""C10 — Dependencies are validated, then resolve one per name to the highest version."""
from __future__ import annotations

import functools
import itertools
import time

import core
import gen
from wire import enode, enodes, eb, es, elist, Toks, p_list, p_node
from adapters import versions_in, Ranks, Version
from ops_deps import edeparg

PID = "C10"
MANIFEST = dict(
    text="Lean theorems, for all trees and all dependency lists: C10_collect_preorder/_mem (collection = the dependency nodes in "
         "document order from every tag-nesting level), C10_resolve_names (each name once, ordered by first occurrence), "
         "C10_resolve_rep/_rep_pos/_firstMax_unique (representative = first object of that name none exceeds: highest version, earliest on "
         "ties), C10_resolve_idem, C10_resolve_placement, C10_nodedup_is_collect — the resolution laws for ANY strict part of a total "
         "preorder (StrictWeak gt), instantiated for the order packaging reports (vrank) and for the concrete release order; "
         "C10_release_order (packaging's strip-trailing-zeros tuple comparison = numeric zero-padded component order) with 1.9<1.10, "
         "1.10=1.10.0, 2<10; C10_depInit_rejects (iff, with the error kind of the first violation in check order), "
         "C10_depInit_rejects_iff_malformed, C10_depInit_single_*. Model tied to /repo by comparing the returned object sequence "
         "(unique marker per object + identity check) of Tag/TagList.get_dependencies(dedup=True/False), render()['dependencies'], "
         "HTMLDependency(...) outcomes and Version comparisons; the executable statement (spec-side definitions only) is evaluated by "
         "the Lean driver on every real answer, plus Python-side placement and independent-resolution oracles.",
    design="DESIGN.md §6 C10",
    note="Modelled, not verified: packaging.version.Version parsing and the full PEP 440 key (epochs, pre/post/dev/local) — its verdict "
         "is passed in as ranks and the laws hold for any total preorder; Python dict insertion order; isinstance dispatch; "
         "head= handling of the constructor; dict arguments with non-string keys/values.",
    technique="Lean 4 proofs (fold decomposition by name, mutual structural induction over the tree, decision logic for validation) + "
              "differential correspondence check with exhaustive small scopes",
)
PROP_FILES = ["HtmlVerif/Props/C10.lean", "HtmlVerif/Props/SrcC10.lean"]

NAMES = ["a", "b"]
VERSIONS = ["1.9", "1.10", "1.10.0", "2"]
KINDS = [(n, v) for n in NAMES for v in VERSIONS]
PROP_FILES.append("HtmlVerif/Props/SrcC10b.lean")   # source tie: HTMLDependency.__init__, _validate_dict(s)
WIDE_VERSIONS = ["1.9", "1.10", "1.10.0", "2", "10", "2.0.0", "1.0a1", "1.0rc1", "1.0", "1.0.post1", "1.0.dev0", "1!0.5",
                 "1.0+local", "0.0.1", "0", "1.10.1", "1.9.9", "2.0.1", "1.0b2", "2.dev3"]


@functools.lru_cache(maxsize=None)
def V(s: str) -> Version:
    return Version(s)


def mk_dep(name: str, version: str, head=None, extra_meta=None, script=None, source=None):
    info = dict(name=name, version=str(V(version)), vrank=0, source=source, script=script or [], stylesheet=[],
                metas=[[("name", "id"), ("content", "?")]] + (extra_meta or []), all_files=False)
    return ("dep", info, head is not None, list(head or []))


def walk_deps(n, f):
    """apply f to every dep term anywhere (also heads and tagifiable contents), document order"""
    k = n[0]
    if k == "tag":
        for c in n[4]:
            walk_deps(c, f)
    elif k == "dep":
        f(n)
        for c in n[3]:
            walk_deps(c, f)
    elif k == "tobjL":
        for c in n[2]:
            walk_deps(c, f)
    elif k == "tobj1":
        walk_deps(n[2], f)


def finish_terms(terms):
    """unique marker for every dependency object; rank of its version among the versions in play"""
    ctr = itertools.count()
    vs = set()

    def mark(d):
        d[1]["metas"][0] = [("name", "id"), ("content", str(next(ctr)))]
        vs.add(d[1]["version"])

    for t in terms:
        walk_deps(t, mark)
    order = sorted({V(v) for v in vs})
    rk = {v: i for i, v in enumerate(order)}

    def setrank(d):
        d[1]["vrank"] = rk[V(d[1]["version"])]

    for t in terms:
        walk_deps(t, setrank)
    return terms


def collected(terms):
    """reference: the dep terms reachable through tags only, document order (independent of the model)"""
    out = []

    def go(n):
        if n[0] == "dep":
            out.append(n)
        elif n[0] == "tag":
            for c in n[4]:
                go(c)

    for t in terms:
        go(t)
    return out


def oracle_resolve(deps):
    """independent Python statement of the property: one per name in first-occurrence order, highest
    version (packaging order), earliest on ties -> list of markers"""
    names = []
    for d in deps:
        if d[1]["name"] not in names:
            names.append(d[1]["name"])
    res = []
    for nm in names:
        same = [d for d in deps if d[1]["name"] == nm]
        top = max(V(d[1]["version"]) for d in same)
        res.append(next(d for d in same if V(d[1]["version"]) == top))
    return res


def marker(d) -> str:
    return dict(d[1]["metas"][0])["content"]


def fill(shape, it):
    """replace every slot leaf by the next dependency"""
    if shape[0] == "text":
        n, v = next(it)
        return mk_dep(n, v)
    return ("tag", shape[1], shape[2], shape[3], [fill(c, it) for c in shape[4]])


def n_slots(shape) -> int:
    if shape[0] == "text":
        return 1
    return sum(n_slots(c) for c in shape[4])


# ------------------------------------------------------------------ validation scope
def kv(*pairs):
    return [(k, "v" + k) for k in pairs]


def source_variants():
    return [("none",), ("other",), ("dict", []), ("dict", kv("href")), ("dict", kv("subdir")), ("dict", kv("package")),
            ("dict", kv("package", "subdir")), ("dict", kv("subdir", "href")), ("dict", kv("other"))]


def items_variants(req, extra=()):
    good = kv(*req)
    lack_all = kv("zz")
    out = [("none",), ("scalar",), ("one", good), ("one", kv(*req, "integrity")), ("one", lack_all), ("one", []),
           ("many", []), ("many", [("d", good)]), ("many", [("o",)]), ("many", [("d", good), ("o",)]),
           ("many", [("o",), ("d", [])]), ("many", [("d", []), ("o",)]), ("many", [("d", good), ("d", lack_all)]),
           ("many", [("d", good), ("d", good + kv("x"))])]
    for partial in extra:
        out.append(("one", kv(*partial)))
        out.append(("many", [("d", good), ("d", kv(*partial)), ("o",)]))
    return out


def is_bad_items(x, req) -> bool:
    items = {"none": [], "scalar": [("o",)], "one": [("d", x[1])] if x[0] == "one" else [], "many": x[1] if x[0] == "many" else []}[x[0]]
    return any(i[0] == "o" or any(r not in dict(i[1]) for r in req) for i in items)


def dep_arg(source, script, stylesheet, metas, version="1.2", name="lib", all_files=False, vrank=0):
    try:
        V(version)
        ok = True
    except Exception:
        ok = False
    return dict(name=name, version=version if not ok else str(V(version)), ver_ok=ok, vrank=vrank, source=source,
                script=script, stylesheet=stylesheet, metas=metas, all_files=all_files)


# ------------------------------------------------------------------ reproduction snippets for replay files
def py_of(n) -> str:
    k = n[0]
    if k == "tag":
        return f"Tag({n[1]!r}, " + "".join(py_of(c) + ", " for c in n[4]) + f"_add_ws={n[2]})"
    if k == "text":
        return repr(n[1])
    if k == "html":
        return f"HTML({n[1]!r})"
    if k == "dep":
        i = n[1]
        kw = ""
        if i["source"] is not None:
            kw += f", source={{{i['source'][0]!r}: {i['source'][1]!r}}}" if i["source"][0] == "href" else f", source={{'subdir': {i['source'][2]!r}}}"
        if i["script"]:
            kw += f", script={[dict(x) for x in i['script']]!r}"
        if i["metas"]:
            kw += f", meta={[dict(x) for x in i['metas']]!r}"
        if n[2]:
            kw += ", head=TagList(" + ", ".join(py_of(c) for c in n[3]) + ")"
        return f"HTMLDependency({i['name']!r}, {i['version']!r}{kw})"
    if k == "meta":
        return "MetadataNode()"
    if k == "robj":
        return f"ReprObj({n[1]!r})  # object with _repr_html_ only"
    if k == "tobjL":
        return "Tagifiable_returning_TagList(" + ", ".join(py_of(c) for c in n[2]) + ")"
    if k == "tobj1":
        return "Tagifiable_returning(" + py_of(n[2]) + ")"
    return repr(n)


def snippet(line: str) -> str:
    from ops_deps import p_deparg, realize_items, realize_sourcearg
    opn, rest = line.split(" ", 1)
    t = Toks(rest)
    pre = "from htmltools import *; "
    try:
        if opn in ("deps_list", "deps_twice"):
            ns = p_list(t, p_node)
            e = "TagList(" + ", ".join(py_of(n) for n in ns) + ")"
            if opn == "deps_twice":
                return pre + f"TagList(*{e}.get_dependencies()).get_dependencies()"
            return pre + f"{e}.get_dependencies(dedup={t.next() == 'T'})"
        if opn in ("deps_tag", "deps_render"):
            n = p_node(t)
            if opn == "deps_render":
                return pre + f"{py_of(n)}.render()['dependencies']"
            return pre + f"{py_of(n)}.get_dependencies(dedup={t.next() == 'T'})"
        if opn == "dep_init":
            a = p_deparg(t)
            salt = sum(map(ord, a["name"])) + a["vrank"]
            return pre + (f"HTMLDependency({a['name']!r}, {a['version']!r}, source={realize_sourcearg(a['source'], salt)!r}, "
                          f"script={realize_items(a['script'], salt + 1)!r}, stylesheet={realize_items(a['stylesheet'], salt + 2)!r}, "
                          f"meta={realize_items(a['metas'], salt + 3)!r}, all_files={a['all_files']})")
        if opn == "vcmp":
            a = ".".join(p_list(t, lambda t: t.next()))
            b = ".".join(p_list(t, lambda t: t.next()))
            return f"from packaging.version import Version; Version({a!r}) <= Version({b!r}), Version({a!r}) > Version({b!r})"
    except Exception as e:  # never let the explanation break the report
        return f"(no snippet: {e})"
    return ""


def explain(f):
    if not f.py:
        f.py = snippet(f.line)
    return f


# ------------------------------------------------------------------ the run
def sharing_oracle(ck) -> int:
    """object sharing (not expressible in the alias-free wire terms): one Tag / TagList / dependency object placed at
    several positions of a tree must contribute at every position exactly what a separately built equal object
    contributes — with dedup disabled nothing is dropped, with dedup the same names, versions and order result, and the
    markup is the same"""
    from htmltools import HTMLDependency, Tag, TagList
    n = 0

    def sub(k):
        return Tag("div", HTMLDependency(f"a{k}", "1.0"), Tag("span", HTMLDependency(f"b{k}", "2.0"), "t"), HTMLDependency(f"a{k}", "1.1"))

    shapes = [
        lambda mk: TagList(*(lambda x: [x, x])(mk())) if mk.shared else TagList(mk(), mk()),
        lambda mk: Tag("section", *((lambda x: [x, Tag("p", x), x])(mk()) if mk.shared else [mk(), Tag("p", mk()), mk()])),
        lambda mk: TagList(*((lambda x: [Tag("ul", x, "s"), Tag("ol", Tag("li", x))])(mk()) if mk.shared else [Tag("ul", mk(), "s"), Tag("ol", Tag("li", mk()))])),
        lambda mk: Tag("main", *((lambda x: [x] * 5)(mk()) if mk.shared else [mk() for _ in range(5)])),
    ]

    class Mk:
        def __init__(self, k, shared):
            self.k, self.shared = k, shared

        def __call__(self):
            return sub(self.k)

    for si, shape in enumerate(shapes):
        for k in range(3):
            for dedup in (False, True):
                n += 1
                ck.holds_checked += 1
                try:
                    a = shape(Mk(k, True))
                    b = shape(Mk(k, False))
                    da = [(d.name, str(d.version)) for d in a.get_dependencies(dedup=dedup)]
                    db = [(d.name, str(d.version)) for d in b.get_dependencies(dedup=dedup)]
                    ha, hb = a.render()["html"], b.render()["html"]
                    ra = [(d.name, str(d.version)) for d in a.render()["dependencies"]]
                    rb = [(d.name, str(d.version)) for d in b.render()["dependencies"]]
                except Exception as e:  # noqa: BLE001
                    ck.py_violation(f"sharing shape {si} k={k} dedup={dedup}", f"raised {type(e).__name__}: {e}",
                                    "a tree in which one object sits at several positions raised", py=f"shape {si}")
                    continue
                if da != db or ha != hb or ra != rb:
                    ck.py_violation(f"sharing shape {si} k={k} dedup={dedup}", repr(da)[:300],
                                    f"one object at several positions: get_dependencies(dedup={dedup}) = {da}, but the same tree built from "
                                    f"separate equal objects gives {db}" + ("" if ha == hb else "; the markup differs too"),
                                    py="x = Tag('div', HTMLDependency('a','1.0'), Tag('span', HTMLDependency('b','2.0'), 't'), HTMLDependency('a','1.1')); "
                                       f"TagList(x, Tag('p', x), x).get_dependencies(dedup={dedup})   # shape {si}")
    ck.exhaustive_scopes.append({"scope": "object sharing: 4 shapes in which one subtree object (with three dependencies, two of one name) "
                                          "sits at 2-5 positions x dedup on/off, against the same tree built from separate equal objects", "n": n, "exhaustive": True})
    return n


def run(tier: str) -> int:
    ck = core.Check(PID, tier, PROP_FILES)
    t_start = time.time()
    ck.prepare()
    phase = {"build_audit": round(time.time() - t_start, 1)}
    t1 = time.time()
    rng = ck.rng
    thorough = tier == "thorough"
    ck.rule = ("a case is one call: get_dependencies on a Tag/TagList (dedup on/off), a second resolution, render()['dependencies'], one "
               "HTMLDependency(...) construction, or one Version comparison; non-trivial = at least two dependencies share a name (resolution "
               "cases), a dependency sits below a tag (collection cases), at least one argument is malformed or given as a single item "
               "(constructor cases), the releases differ in length or only numerically (comparison cases); distinct by wire term")
    lines: list[str] = []
    meta: list[dict] = []   # per line: kind, nontrivial, deps (collected terms) for the Python-side oracles

    def add(line, kind, nontrivial, deps=None, group=None):
        lines.append(line)
        meta.append(dict(kind=kind, nt=nontrivial, deps=deps, group=group))

    def add_tree_cases(forest, ops=("lt", "lf", "tt", "tf"), group=True, twice=False, render=False):
        forest = finish_terms(list(forest))
        deps = collected(forest)
        names = [d[1]["name"] for d in deps]
        shared = len(set(names)) < len(names)
        nested = any(t[0] == "tag" for t in forest)
        key = tuple((d[1]["name"], d[1]["version"]) for d in deps) if group else None
        enc = enodes(forest)
        if "lt" in ops:
            add(f"deps_list {enc} T", "deps", shared, deps, (key, "T") if group else None)
        if "lf" in ops:
            add(f"deps_list {enc} F", "deps", nested and bool(deps), deps, (key, "F") if group else None)
        root_enc = "tag " + es("div") + " T [ ] " + enc      # = enode(("tag", "div", True, [], forest))
        if "tt" in ops:
            add(f"deps_tag {root_enc} T", "deps", shared, deps, (key, "T") if group else None)
        if "tf" in ops:
            add(f"deps_tag {root_enc} F", "deps", bool(deps), deps, (key, "F") if group else None)
        if twice:
            add(f"deps_twice {enc}", "deps", shared, deps, (key, "T") if group else None)
        if render:
            add(f"deps_render {root_enc}", "render", shared, deps, None)

    # 0. corpus: hand-picked cases
    corpus = [
        [mk_dep("a", "1.9"), mk_dep("a", "1.10")],
        [mk_dep("a", "1.10"), mk_dep("a", "1.9")],
        [mk_dep("a", "1.10"), mk_dep("a", "1.10.0")],
        [mk_dep("a", "1.10.0"), mk_dep("a", "1.10")],
        [mk_dep("a", "2"), mk_dep("a", "10")],
        [mk_dep("b", "1"), mk_dep("a", "1"), mk_dep("b", "2"), mk_dep("a", "1.0")],
        [("tag", "div", True, [], [mk_dep("a", "1"), ("tag", "span", False, [], [mk_dep("a", "2")])]), mk_dep("a", "2.0")],
        [mk_dep("a", "1", head=[mk_dep("a", "3")]), ("tobjL", None, [mk_dep("a", "4")]), ("tobj1", "<i>", mk_dep("b", "4")),
         ("tag", "p", True, [], [("text", "x"), ("meta", 1), mk_dep("a", "2")])],
        [mk_dep("a", "1.0a1"), mk_dep("a", "1.0.dev0"), mk_dep("a", "1.0rc1"), mk_dep("a", "1.0"), mk_dep("a", "1.0.post1"),
         mk_dep("a", "1!0.1"), mk_dep("a", "1.0+local")],
        [],
    ]
    for f in corpus:
        add_tree_cases(f, group=False, twice=True)
    ck.tagc("corpus", len(corpus))

    # 1. exhaustive: every sequence of <= L dependencies over 2 names x 4 versions, placed in every
    #    forest shape (one tag kind, dependency leaves) with <= N nodes in total
    N = 5 if thorough else 4
    shapes = list(gen.forests_upto(N, leaves=[("text", "S")], tags=[("div", True)]))
    n_fill = 0
    for si, shape in enumerate(shapes):
        k = sum(n_slots(s) for s in shape)
        if thorough and k >= 4:
            # 100k placements: both receivers and both dedup settings, two calls per placement (alternating by shape)
            ops_ = ("lt", "tf") if si % 2 else ("tt", "lf")
        else:
            ops_ = ("lt", "lf", "tt", "tf")
        for seq in itertools.product(KINDS, repeat=k):
            it = iter(seq)
            add_tree_cases([fill(s, it) for s in shape], ops=ops_)
            n_fill += 1
    ck.exhaustive_scopes.append({
        "scope": f"every sequence (= every multiset in every order) of dependencies over names {NAMES} x versions {VERSIONS}, each object "
                 f"uniquely marked, placed in every ordered forest shape with <= {N} nodes in total (tags + dependency leaves); "
                 "TagList and wrapping Tag, dedup on and off",
        "shapes": len(shapes), "placements": n_fill, "exhaustive": True})
    if not thorough:
        # flat lists of exactly 5 (the N=5 shape without tags), quick tier
        for seq in itertools.product(KINDS, repeat=5):
            add_tree_cases([mk_dep(n, v) for n, v in seq], ops=("lt",))
        ck.exhaustive_scopes.append({"scope": "every flat sequence of exactly 5 dependencies over the same 8 kinds, dedup on",
                                     "sequences": 8 ** 5, "exhaustive": True})

    # 2. exhaustive: distractors — dependencies in heads and in un-expanded tagifiable objects are not collected
    def leafs():
        return [lambda: mk_dep("a", "1.10"), lambda: mk_dep("a", "1.10.0"), lambda: mk_dep("b", "2"),
                lambda: mk_dep("a", "1.9", head=[mk_dep("a", "2"), ("tag", "i", False, [], [mk_dep("b", "3")])]),
                lambda: ("tobjL", None, [mk_dep("a", "2")]), lambda: ("tobj1", "<r>", mk_dep("b", "3")),
                lambda: ("tobj1", None, ("tag", "u", False, [], [mk_dep("a", "3")])),
                lambda: ("text", "t"), lambda: ("meta", 7), lambda: ("html", "<b>")]
    lf = leafs()
    n_d = 0
    for shape in gen.forests_upto(3, leaves=[("text", str(i)) for i in range(len(lf))], tags=[("div", True), ("span", False)]):
        def inst(s):
            if s[0] == "text":
                return lf[int(s[1])]()
            return ("tag", s[1], s[2], s[3], [inst(c) for c in s[4]])
        add_tree_cases([inst(s) for s in shape], group=False, twice=(n_d % 3 == 0))
        n_d += 1
    ck.exhaustive_scopes.append({"scope": "every forest with <= 3 nodes over 2 tag kinds x 10 leaf kinds (3 plain dependencies, a dependency "
                                          "with dependencies in its head, 3 tagifiable objects containing dependencies, text, metadata, HTML)",
                                 "forests": n_d, "exhaustive": True})

    # 2b. every tag function's name as the enclosing tag, at two depths (collection must not depend on the tag)
    fns = gen.fn_catalogue(ck.proof.translate_info)
    for (nm, ws) in fns:
        add_tree_cases([mk_dep("a", "1.9"), ("tag", nm, ws, [], [mk_dep("a", "1.10"), ("tag", nm, ws, [], [mk_dep("b", "1"), mk_dep("a", "1.10.0")])]),
                        mk_dep("b", "1.0")], group=False)
    ck.exhaustive_scopes.append({"scope": "every tags/svg function name as enclosing tag of dependencies at depth 1 and 2", "functions": len(fns),
                                 "exhaustive": True})

    # 3. random large trees, wide version pool (pre/post/dev/epoch/local: packaging's verdict enters as ranks)
    def rand_forest(depth, names, versions):
        out = []
        for _ in range(rng.choice([0, 1, 2, 2, 3, 4])):
            r = rng.random()
            if r < 0.45:
                hd = None
                if rng.random() < 0.15:
                    hd = [mk_dep(rng.choice(names), rng.choice(versions)), ("text", "h")]
                out.append(mk_dep(rng.choice(names), rng.choice(versions), head=hd,
                                  script=[[("src", "x.js")]] if rng.random() < 0.2 else None,
                                  source=("href", "http://x") if rng.random() < 0.2 else None))
            elif r < 0.8 and depth > 0:
                nm, ws = gen.rand_name(rng, fns)
                out.append(("tag", nm, ws, [], rand_forest(depth - 1, names, versions)))
            elif r < 0.86:
                out.append(("tobjL", rng.choice([None, "<q>"]), rand_forest(min(depth - 1, 1), names, versions)))
            elif r < 0.9:
                out.append(("tobj1", None, mk_dep(rng.choice(names), rng.choice(versions))))
            else:
                out.append(rng.choice([("text", "x<y"), ("html", "<hr>"), ("meta", 3), ("robj", "<u>")]))
        return out

    def has_tobj(n):
        return n[0] in ("tobjL", "tobj1") or (n[0] == "tag" and any(has_tobj(c) for c in n[4]))

    for _ in range(ck.budget(2500, 40000)):
        # names that are distinct and nearly equal (case, a trailing blank, '_' for '-', a trailing underscore, a dot, composed
        # and decomposed accents, full-width forms): "each name appears once" is about the name as given
        names = rng.choice([["a"], ["a", "b"], ["a", "b", "c", "dd"], ["x", "X", "x ", ""],
                            ["my-lib", "my_lib", "my-lib_", "my.lib", "My-Lib"], ["jq", "jq ", " jq", "jq\t", "JQ"],
                            ["caf\u00e9", "cafe\u0301", "cafe", "\uff43afe"], ["d3", "d3_", "d3-", "d3.", "D3"]])
        if gen.EXTRA and rng.random() < 0.4:      # literals the source has gained (§14.4) as dependency names
            names = names + [rng.choice(gen.EXTRA)]
        versions = rng.sample(WIDE_VERSIONS, rng.choice([1, 2, 3, 5, 8]))
        f = rand_forest(rng.randint(1, 5), names, versions)
        add_tree_cases(f, ops=rng.choice([("lt", "tf"), ("tt", "lf"), ("lt", "tt")]), group=False,
                       twice=rng.random() < 0.3, render=(rng.random() < 0.3 and not any(has_tobj(n) for n in f)))

    # 4. constructor: every combination of source x script x stylesheet x meta variants
    srcs = source_variants()
    scs = items_variants(["src"])
    sts = items_variants(["href"]) + [("one", kv("href", "rel")), ("many", [("d", kv("href")), ("d", kv("href", "rel"))])]
    mes = items_variants(["name", "content"], extra=[("name",), ("content",)])
    if not thorough:
        # quick tier: the 4-way product over slightly shorter variant lists; the full lists are the thorough tier's
        # (dropped: a benign extra key, the empty list, a second dict with an extra key; for stylesheet/meta also the
        #  dict with only a foreign key and [good, foreign-key dict] — their script twins stay)
        scs = [x for i, x in enumerate(scs) if i not in (3, 6, 13)]
        sts = [x for i, x in enumerate(sts) if i not in (3, 4, 6, 12, 13)]
        mes = [x for i, x in enumerate(mes) if i not in (3, 4, 6, 12, 13)]
    n_v = 0
    for s, sc, st, me in itertools.product(srcs, scs, sts, mes):
        a = dep_arg(s, sc, st, me, name="lib" + str(n_v % 7), vrank=n_v % 5, all_files=bool(n_v % 2))
        bad = s[0] == "other" or (s[0] == "dict" and not ({"href", "subdir"} & set(dict(s[1])))) or is_bad_items(sc, ["src"]) \
            or is_bad_items(st, ["href"]) or is_bad_items(me, ["name", "content"])
        single = "one" in (sc[0], st[0], me[0])
        add("dep_init " + edeparg(a), "init", bad or single)
        n_v += 1
    for ver in ["", "x", "1..2", "1.2.", "not a version"]:
        for s, sc in itertools.product(srcs, scs[:6]):
            add("dep_init " + edeparg(dep_arg(s, sc, ("none",), ("none",), version=ver)), "init", True)
            n_v += 1
    ck.exhaustive_scopes.append({"scope": f"HTMLDependency(...): every combination of {len(srcs)} source x {len(scs)} script x {len(sts)} stylesheet x "
                                          f"{len(mes)} meta argument shapes (None / non-dict / dict lacking keys / single dict / list / list with "
                                          "non-dict / list with a dict lacking its key, in both orders), plus invalid version strings",
                                 "calls": n_v, "exhaustive": True})

    # 5. release comparison: exhaustive over short releases on an adversarial digit alphabet
    digs = [0, 1, 2, 9, 10] if thorough else [0, 1, 9, 10]
    rels = [list(r) for k in (1, 2, 3) for r in itertools.product(digs, repeat=k)]
    for a in rels:
        for b in rels:
            nt = len(a) != len(b) or (a != b and sorted([".".join(map(str, a)), ".".join(map(str, b))])
                                      != [".".join(map(str, x)) for x in sorted([a, b])])
            add(f"vcmp {elist([str(x) for x in a])} {elist([str(x) for x in b])}", "vcmp", nt)
    ck.exhaustive_scopes.append({"scope": f"Version(a) <= / > Version(b) for every pair of releases of length <= 3 over components {digs}",
                                 "pairs": len(rels) ** 2, "exhaustive": True})
    for _ in range(ck.budget(300, 3000)):
        a = [rng.choice([0, 0, 1, 2, 9, 10, 11, 99, 100]) for _ in range(rng.randint(1, 6))]
        b = list(a)
        for _ in range(rng.randint(0, 2)):
            r = rng.random()
            if r < 0.4:
                b.append(0)
            elif r < 0.6 and b:
                b[rng.randrange(len(b))] = rng.choice([0, 1, 9, 10])
            elif r < 0.8 and len(b) > 1:
                b.pop()
        add(f"vcmp {elist([str(x) for x in a])} {elist([str(x) for x in b])}", "vcmp", True)
    for s in ["1.10.0", "1.9", "10", "0", "01.02", "1..2", "1.", ".1", "", "1.2.3.4.5", "007"]:
        add(f"vparse {es(s)}", "vparse", True)
    for _ in range(200):
        s = "".join(rng.choice("0123456789.") for _ in range(rng.randint(0, 7)))
        add(f"vparse {es(s)}", "vparse", True)

    # ------------------------------------------------------------------ run the real code
    phase["generate"] = round(time.time() - t1, 1)
    t1 = time.time()
    impl = core.impl_many(lines)
    phase["implementation"] = round(time.time() - t1, 1)
    t1 = time.time()
    for l, im, m in zip(lines, impl, meta):
        ck.add(l, im, nontrivial=m["nt"], tag=l.split(" ", 1)[0])

    # Python-side oracles (independent of the Lean model)
    groups: dict = {}
    n_or = 0
    for l, im, m in zip(lines, impl, meta):
        if m["kind"] in ("deps", "render"):
            if not im.startswith("ok "):
                ck.py_violation(l, im, "get_dependencies did not return the tree's own dependency objects "
                                       "(copied, foreign or non-dependency result)")
                continue
        if m["group"] is not None:
            # placement independence: same document-order sequence => same reported object sequence
            first = groups.setdefault(m["group"], (im, l))
            if first[0] != im:
                ck.py_violation(l, im, f"same dependencies in the same document order, placed differently, give a different answer: {first[1][:300]} -> {first[0][:300]}")
        if m["kind"] in ("deps", "render") and (m["group"] is None or len(m["deps"]) <= 3 or n_or % 7 == 0):
            # independent statement of the whole property on the markers
            dedup = not l.endswith(" F")
            want = [marker(d) for d in (oracle_resolve(m["deps"]) if dedup else m["deps"])]
            got = [marker(d) for d in p_list(Toks(im[3:]), p_node)]
            ck.holds_checked += 1
            if got != want:
                ck.py_violation(l, im, f"expected objects {want} (one per name in first-occurrence order, highest version, earliest on ties"
                                       f"{'' if dedup else '; dedup off: all, in document order'}), got {got}")
        n_or += 1
    import srctie_c10b   # source tie of the constructor: translator validation (`__init__` needs packaging's answers: op srcc10b)
    srctie_c10b.add_src_c10b(ck, ['HTMLDependency_init'])
    ck.add_src(['HTMLDependency_validate_dict', 'HTMLDependency_validate_dicts'])
    ck.extra_cov["placement_groups"] = len(groups)
    phase["python_oracles"] = round(time.time() - t1, 1)
    t1 = time.time()
    ck.add_src(['resolve_dependencies', 'Tag_get_dependencies', 'TagList_get_dependencies'])
    ck.extra_cov["sharing_cases"] = sharing_oracle(ck)
    ck.correspond(holds=True)
    phase["model_and_statement"] = round(time.time() - t1, 1)
    ck.extra_cov["phase_s"] = phase
    return ck.finish(shrink=explain)
