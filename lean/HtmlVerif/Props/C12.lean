/-
C12 — Dependency URLs and copied files agree.   (file-system half: PARTIAL — the operating system is modelled)

Model: Model/Paths.lean (bytes, quote/unquote, posixpath.join), Model/DepTags.lean (source_path_map, as_dict,
as_html_tags), Model/FS.lean (abstract file system, copy_to, save_html).  Guards: Spec/Paths.lean.
Model/SaveDoc.lean (save_html of HTMLDocument / Tag / TagList over `Doc.docRender`).
Helper lemmas: Lemmas/{Paths,Guards,FS,Copy,CopyTo,CopyAll,Save,SaveDoc}.lean; the head of the document: Props/C11.lean.

Finding F-C12.  Clause 1 of the statement fixes the URL as `prefix/name[-version]/percent-encoded relative path`:
only the relative path is encoded.  Clause 2 ("percent-decoded, names a copied file") therefore fails when the prefix
(libdir), the name or the version contains `%XX`, `#`, `?` (or a `:` in the first component): the guards `CleanDirOpt`
and `SafeSeg` exclude exactly these among printable ASCII, `C12_urls_resolve_full_is_false` proves that they cannot be
dropped, and the check reports the class as KNOWN-FINDING.
-/
import HtmlVerif.Lemmas.Guards
import HtmlVerif.Lemmas.CopyAll
import HtmlVerif.Lemmas.DepTags
import HtmlVerif.Lemmas.Save
import HtmlVerif.Lemmas.SaveDoc
import HtmlVerif.Props.C11

namespace HtmlVerif.C12
open HtmlVerif FS

/-! ## 1. percent-encoding -/

/-- percent-decoding undoes `quote`, for every byte string -/
theorem C12_quote_roundtrip (bs : Bytes) : unquoteB (quoteB bs) = bs := by
  have := unquoteB_quoteB bs []
  simpa [unquoteB_nil] using this

/-- … hence for every string: decoding the quoted path gives back its UTF-8 bytes -/
theorem C12_quote_roundtrip_str (s : Str) : unquoteB (quote s) = utf8 s :=
  C12_quote_roundtrip (utf8 s)

/-- `quote` emits only unreserved characters, `/` and `%`: in particular none of `? # " & < > '` or a space,
    so neither URL parsing nor HTML attribute escaping changes or cuts the path -/
theorem C12_quote_inert (bs : Bytes) :
    ∀ c ∈ quoteB bs, isUnreservedC c = true ∨ c = '/' ∨ c = '%' := by
  intro c hc
  simp only [quoteB, List.mem_flatMap] at hc
  obtain ⟨b, _, hb⟩ := hc
  exact quoteByte_inert b c hb

/-! ## 2. the URLs of `source_path_map` / `as_dict` -/

/-- local source: `source` is the resolved directory and the base URL is `[lib_prefix/]name[-version]` -/
theorem C12_url_local (d : DepInfo) (pkg : Option Str) (dir abs : Str) (hsrc : d.source = .subdir pkg dir abs)
    (lp : Option Str) (iv : Bool) (p : Str) (hdn : (dirName d iv).head? ≠ some '/') :
    (sourcePathMap d lp iv).source = abs
    ∧ (sourcePathMap d lp iv).href = hrefBaseSpec lp (dirName d iv)
    ∧ dirName d iv = d.name ++ (if iv then '-' :: d.version else [])
    ∧ urlOf d lp iv p = posixJoin (hrefBaseSpec lp (dirName d iv)) (quote p) := by
  have hh : (sourcePathMap d lp iv).href = hrefBaseSpec lp (dirName d iv) := by
    rw [sourcePathMap_subdir hsrc]
    cases lp with
    | none => rfl
    | some l =>
      simp only [withPrefix, hrefBaseSpec]
      by_cases hl : l.isEmpty = true
      · simp [hl]
      · have hne : l ≠ [] := by simpa using hl
        simp only [hl]
        by_cases hs : l.getLast? = some '/'
        · simp [hs, posixJoin_slash hdn hs]
        · simp [hs, posixJoin_plain hdn hne hs]
  refine ⟨by rw [sourcePathMap_subdir hsrc], hh, rfl, ?_⟩
  simp [urlOf, hh]

/-- local source, the directory name a single component (any characters), the path clean:
    exactly `base "/" quote(path)` — prefix, name and version are written as they are, only the path is encoded -/
theorem C12_url_local_closed (d : DepInfo) (pkg : Option Str) (dir abs : Str)
    (hsrc : d.source = .subdir pkg dir abs) (lp : Option Str) (iv : Bool) (p : Str)
    (hn : WideSeg (dirName d iv) = true) (hp : CleanRel p = true) :
    urlOf d lp iv p = hrefBaseSpec lp (dirName d iv) ++ '/' :: quote p := by
  have hq : (quote p).head? ≠ some '/' := quoteB_head (cleanRel_bytesHead hp)
  rw [(C12_url_local d pkg dir abs hsrc lp iv p (wideSeg_head hn)).2.2.2]
  have hne : hrefBaseSpec lp (dirName d iv) ≠ [] := by
    have h0 := wideSeg_ne_nil hn
    unfold hrefBaseSpec
    cases lp with
    | none => exact h0
    | some l => simp only []; split; exact h0; split <;> simp [h0]
  have hlast : (hrefBaseSpec lp (dirName d iv)).getLast? ≠ some '/' := by
    have h0 := wideSeg_ne_nil hn
    have h1 := wideSeg_last hn
    have hl : ∀ x : Str, (x ++ dirName d iv).getLast? = (dirName d iv).getLast? := by
      intro x; rw [List.getLast?_append]
      cases hg : (dirName d iv).getLast? with
      | none => exact absurd (List.getLast?_eq_none_iff.mp hg) h0
      | some y => simp
    unfold hrefBaseSpec
    cases lp with
    | none => exact h1
    | some l =>
      simp only []
      split
      · exact h1
      · split
        · rw [hl]; exact h1
        · have := hl (l ++ ['/'])
          simp only [List.append_assoc, List.singleton_append] at this
          rw [this]; exact h1
  exact posixJoin_plain hq hne hlast

/-- URL source: `href "/" quote(path)` — exactly one separator whether or not the href ends in one — and neither
    `lib_prefix` nor `include_version` plays any part -/
theorem C12_url_remote (d : DepInfo) (h : Str) (hsrc : d.source = .href h) (lp : Option Str) (iv : Bool) (p : Str) :
    sourcePathMap d lp iv = { source := [], href := h }
    ∧ urlOf d lp iv p = posixJoin h (quote p)
    ∧ (h ≠ [] → CleanRel p = true →
        urlOf d lp iv p = if h.getLast? = some '/' then h ++ quote p else h ++ '/' :: quote p) := by
  have hm : sourcePathMap d lp iv = { source := [], href := h } := by simp [sourcePathMap, hsrc]
  refine ⟨hm, by simp [urlOf, hm], ?_⟩
  intro hne hp
  have hq : (quote p).head? ≠ some '/' := quoteB_head (cleanRel_bytesHead hp)
  simp only [urlOf, hm]
  by_cases hs : h.getLast? = some '/'
  · simp [hs, posixJoin_slash hq hs]
  · simp [hs, posixJoin_plain hq hne hs]

/-- `as_dict` writes exactly these URLs: the `src` of every script is `urlOf` of the script's path -/
theorem C12_dict_scripts (base : Str) (l l' : List KVs) (h : asDictScripts base l = .ok l') :
    l'.map (alookup dtKSrc) = l.map (fun s => (alookup dtKSrc s).map fun p => posixJoin base (quote p)) := by
  induction l generalizing l' with
  | nil => simp [asDictScripts] at h; subst h; rfl
  | cons s r ih =>
    simp only [asDictScripts] at h
    cases hs : alookup dtKSrc s with
    | none => simp [hs] at h
    | some p =>
      simp only [hs] at h
      cases hr : asDictScripts base r with
      | error e => simp [hr] at h
      | ok r' =>
        simp only [hr, Except.ok.injEq] at h
        subst h
        simp [alookup_kvSet, hs, ih r' hr]

/-- … and the `href` of every stylesheet, whose `rel` is forced to `stylesheet` -/
theorem C12_dict_sheets (base : Str) (l l' : List KVs) (h : asDictSheets base l = .ok l') :
    l'.map (alookup dtKHref) = l.map (fun s => (alookup dtKHref s).map fun p => posixJoin base (quote p))
    ∧ ∀ s ∈ l', alookup dtKRel s = some vStylesheet := by
  induction l generalizing l' with
  | nil => simp [asDictSheets] at h; subst h; simp
  | cons s r ih =>
    simp only [asDictSheets] at h
    cases hs : alookup dtKHref s with
    | none => simp [hs] at h
    | some p =>
      simp only [hs] at h
      cases hr : asDictSheets base r with
      | error e => simp [hr] at h
      | ok r' =>
        simp only [hr, Except.ok.injEq] at h
        subst h
        have hne : dtKHref ≠ dtKRel := by decide
        obtain ⟨i1, i2⟩ := ih r' hr
        refine ⟨by simp [alookup_kvSet_ne _ _ _ _ hne, alookup_kvSet, hs, i1], ?_⟩
        intro x hx
        rcases List.mem_cons.mp hx with hx | hx
        · subst hx; exact alookup_kvSet ..
        · exact i2 x hx

/-! ## 3. the writer of the HTML and the copier of the files agree -/

/-- the directory the files of `d` are copied to by `save_html(file, libdir, iv)`, in components:
    `dirname(file) / libdir / name[-version]` -/
theorem C12_target (d : DepInfo) (fileAbs : Str) (libdir : Option Str) (iv : Bool)
    (hl : CleanDirOpt libdir = true) (hn : SafeSeg (dirName d iv) = true) :
    tgtDir d (destDir fileAbs libdir) iv
      = pathResolve (dirname fileAbs) ++ segsOpt libdir ++ [utf8 (dirName d iv)] := by
  have hdest : pathResolve (destDir fileAbs libdir) = pathResolve (dirname fileAbs) ++ segsOpt libdir := by
    unfold destDir
    cases libdir with
    | none => simp [destDir.withPrefix', segsOpt]
    | some l =>
      by_cases hle : l.isEmpty = true
      · have : l = [] := by simpa using hle
        subst this
        simp [destDir.withPrefix', segsOpt, utf8, segs_nil]
      · have hcd : CleanDir l = true := by simpa [CleanDirOpt, hle] using hl
        simp only [destDir.withPrefix', hle, segsOpt]
        exact resolve_posixJoin _ l (cleanDir_head hcd)
  unfold tgtDir
  rw [resolve_posixJoin _ _ (safeSeg_head hn), hdest, safeSeg_segs hn]

/-- **agreement**: for a clean relative path, a clean `libdir` and a URL-inert directory name, the URL written into
    the HTML (with `lib_prefix = libdir`) is a plain relative reference which, percent-decoded and resolved against
    the directory of the HTML file, is exactly the path `copy_to` writes the file to. -/
theorem C12_agree (d : DepInfo) (pkg : Option Str) (dir abs : Str) (hsrc : d.source = .subdir pkg dir abs)
    (fileAbs : Str) (libdir : Option Str) (iv : Bool) (p : Str)
    (hp : CleanRel p = true) (hl : CleanDirOpt libdir = true) (hn : SafeSeg (dirName d iv) = true) :
    relRefOk (urlOf d libdir iv p) = true
    ∧ segs (unquoteB (urlOf d libdir iv p)) = segsOpt libdir ++ [utf8 (dirName d iv)] ++ segs (utf8 p)
    ∧ pathResolve (posixJoin (posixJoin (destDir fileAbs libdir) (dirName d iv)) p)
        = pathResolve (dirname fileAbs) ++ segsOpt libdir ++ [utf8 (dirName d iv)] ++ segs (utf8 p)
    ∧ resolveRef (pathResolve (dirname fileAbs)) (urlOf d libdir iv p)
        = pathResolve (posixJoin (posixJoin (destDir fileAbs libdir) (dirName d iv)) p) := by
  have hloc := C12_url_local d pkg dir abs hsrc libdir iv p (safeSeg_head hn)
  have hclosed := C12_url_local_closed d pkg dir abs hsrc libdir iv p (safeSeg_wide hn) hp
  -- characters of the base URL
  have hbase : ∀ c ∈ hrefBaseSpec libdir (dirName d iv), (inertC c = true ∨ c = '/') := by
    intro c hc
    rcases mem_hrefBaseSpec hc with ⟨l, hlp, hne, hcl⟩ | h | h
    · subst hlp
      have hle : l.isEmpty = false := by cases l <;> simp_all
      have hcd : CleanDir l = true := by simpa [CleanDirOpt, hle] using hl
      exact cleanDir_chars hcd c hcl
    · exact .inr h
    · exact .inl (safeSeg_inert hn c h)
  have hnopct : ∀ c ∈ hrefBaseSpec libdir (dirName d iv), c ≠ '%' := by
    intro c hc
    rcases hbase c hc with h | h
    · exact (inertC_ne h).1
    · subst h; decide
  have hsegs : segs (unquoteB (urlOf d libdir iv p))
      = segsOpt libdir ++ [utf8 (dirName d iv)] ++ segs (utf8 p) := by
    rw [hloc.2.2.2, unquoteB_posixJoin_quote _ _ hnopct (cleanRel_bytesHead hp),
      segs_utf8_posixJoin _ _ (cleanRel_head hp), segs_hrefBaseSpec hn]
  have hcopy : pathResolve (posixJoin (posixJoin (destDir fileAbs libdir) (dirName d iv)) p)
      = pathResolve (dirname fileAbs) ++ segsOpt libdir ++ [utf8 (dirName d iv)] ++ segs (utf8 p) := by
    rw [resolve_posixJoin _ p (cleanRel_head hp)]
    have := C12_target d fileAbs libdir iv hl hn
    unfold tgtDir at this
    rw [this]
  refine ⟨?_, hsegs, hcopy, ?_⟩
  · apply relRefOk_of
    · intro c hc
      rw [hclosed] at hc
      rcases List.mem_append.mp hc with h | h
      · rcases hbase c h with h | h
        · exact (inertC_ne h).2.2.1
        · subst h; exact urlPlain_slash
      · rcases List.mem_cons.mp h with h | h
        · subst h; exact urlPlain_slash
        · rcases C12_quote_inert _ c h with h | h | h
          · exact unreservedC_plain h
          · subst h; exact urlPlain_slash
          · subst h; exact urlPlain_pct
    · rw [hclosed]
      have hne : hrefBaseSpec libdir (dirName d iv) ≠ [] := by
        intro e
        have := segs_hrefBaseSpec (lp := libdir) hn
        rw [e] at this
        simp [utf8, segs_nil] at this
      have hh : (hrefBaseSpec libdir (dirName d iv)).head? ≠ some '/' := by
        rw [hrefBaseSpec_head]
        cases libdir with
        | none => exact safeSeg_head hn
        | some l =>
          simp only []
          split
          · exact safeSeg_head hn
          · next hle =>
            have hcd : CleanDir l = true := by simpa [CleanDirOpt, hle] using hl
            exact cleanDir_head hcd
      cases hb : hrefBaseSpec libdir (dirName d iv) with
      | nil => exact absurd hb hne
      | cons x r => rw [hb] at hh; simpa using hh
  · unfold resolveRef
    rw [hsegs, hcopy]
    simp [List.append_assoc]

/-! ## 4. copy_to over the abstract file system -/

/-- every listed source is present as a regular file ⇒ `copy_to` succeeds; afterwards the target directory holds
    **exactly** the listed files, byte-identical to their sources (whatever was there before is gone), and nothing
    outside the target directory has changed. -/
theorem C12_copy_ok (d : DepInfo) (pkg : Option Str) (dir abs : Str) (hsrc : d.source = .subdir pkg dir abs)
    (habs : abs ≠ []) (haf : d.allFiles = false) (fl : List Str) (hfl : listedFiles d = .ok fl)
    (path : Str) (iv : Bool) (fs : FS)
    (hclean : ∀ f ∈ fl, CleanRel f = true)
    (hfiles : ∀ f ∈ fl, (fs.read (pathResolve abs ++ segs (utf8 f))).isSome = true)
    (hST : Apart (pathResolve abs) (tgtDir d path iv)) (hpath : fs.fileOnPath (tgtDir d path iv) = false) :
    ∃ fs', copyTo d path iv fs = (fs', .ok ())
      ∧ (∀ q, fs'.read (tgtDir d path iv ++ q)
          = if q ∈ fl.map (fun f => segs (utf8 f)) then fs.read (pathResolve abs ++ q) else none)
      ∧ (∀ q, ¬ tgtDir d path iv <+: q → fs'.read q = fs.read q) := by
  obtain ⟨fs', h1, h2, h3⟩ := copyTo_listed d pkg dir abs hsrc habs haf fl hfl path iv fs
    (fun f hf => cleanRel_head (hclean f hf)) hfiles hST hpath
  exact ⟨fs', h1, h3, h2⟩

/-- `all_files`: the whole source directory arrives, byte-identical, and nothing else is in the target -/
theorem C12_copy_ok_all (d : DepInfo) (pkg : Option Str) (dir abs : Str) (hsrc : d.source = .subdir pkg dir abs)
    (habs : abs ≠ []) (haf : d.allFiles = true) (path : Str) (iv : Bool) (fs : FS)
    (hwf : SrcWF fs (pathResolve abs))
    (hST : Apart (pathResolve abs) (tgtDir d path iv)) (hpath : fs.fileOnPath (tgtDir d path iv) = false) :
    ∃ fs', copyTo d path iv fs = (fs', .ok ())
      ∧ (∀ q, q ≠ [] → fs'.read (tgtDir d path iv ++ q) = fs.read (pathResolve abs ++ q))
      ∧ (∀ q, ¬ tgtDir d path iv <+: q → fs'.read q = fs.read q) := by
  obtain ⟨fs', h1, h2, h3⟩ := copyTo_all d pkg dir abs hsrc habs haf path iv fs hwf hST hpath
  refine ⟨fs', h1, ?_, h2⟩
  intro q hq
  rw [h3 q]; simp [hq]

/-- a file the dependency lists explicitly is missing ⇒ `copy_to` raises `Exception` and the returned file system
    **is the initial one**: neither the target directory nor anything else was touched -/
theorem C12_copy_missing (d : DepInfo) (pkg : Option Str) (dir abs : Str) (hsrc : d.source = .subdir pkg dir abs)
    (habs : abs ≠ []) (haf : d.allFiles = false) (fl : List Str) (hfl : listedFiles d = .ok fl)
    (path : Str) (iv : Bool) (fs : FS)
    (f : Str) (hf : f ∈ fl) (hmiss : fs.exists (pathResolve (posixJoin abs f)) = false) :
    copyTo d path iv fs = (fs, .error .exception) := by
  have hne : abs.isEmpty = false := by cases abs <;> simp_all
  have hall : ((fl.map fun f => (pathResolve (posixJoin abs f),
      pathResolve (posixJoin (posixJoin path (dirName d iv)) f))).all fun it => fs.exists it.1) = false := by
    rw [List.all_eq_false]
    exact ⟨_, List.mem_map.mpr ⟨f, hf, rfl⟩, by simp [hmiss]⟩
  simp [copyTo, sourcePathMap_subdir hsrc, withPrefix, hne, copyItems, haf, hfl, hall]

/-- a script / stylesheet entry without its path key ⇒ `KeyError`, nothing touched -/
theorem C12_copy_keyerror (d : DepInfo) (pkg : Option Str) (dir abs : Str) (hsrc : d.source = .subdir pkg dir abs)
    (habs : abs ≠ []) (haf : d.allFiles = false) (e : Err) (hfl : listedFiles d = .error e)
    (path : Str) (iv : Bool) (fs : FS) : copyTo d path iv fs = (fs, .error e) := by
  have hne : abs.isEmpty = false := by cases abs <;> simp_all
  simp [copyTo, sourcePathMap_subdir hsrc, withPrefix, hne, copyItems, haf, hfl]

/-- URL-sourced and source-less dependencies copy nothing -/
theorem C12_no_copy (d : DepInfo) (h : d.source = .none ∨ ∃ u, d.source = .href u) (path : Str) (iv : Bool)
    (fs : FS) : copyTo d path iv fs = (fs, .ok ()) := by
  apply copyTo_noSource
  rcases h with h | ⟨u, h⟩ <;> simp [isLocal, h]

/-! ## 5. save_html -/

/-- the destination of the dependencies is `dirname(file)` when `libdir` is `None` or `""`, else `dirname(file)/libdir` -/
theorem C12_save_destdir (fileAbs : Str) (libdir : Option Str) (hl : CleanDirOpt libdir = true) :
    pathResolve (destDir fileAbs libdir) = pathResolve (dirname fileAbs) ++ segsOpt libdir := by
  unfold destDir
  cases libdir with
  | none => simp [destDir.withPrefix', segsOpt]
  | some l =>
    by_cases hle : l.isEmpty = true
    · have : l = [] := by simpa using hle
      subst this
      simp [destDir.withPrefix', segsOpt, utf8, segs_nil]
    · have hcd : CleanDir l = true := by simpa [CleanDirOpt, hle] using hl
      simp only [destDir.withPrefix', hle, segsOpt]
      exact resolve_posixJoin _ l (cleanDir_head hcd)

/-- **copies and URLs, for any rendering.**  Let `deps` be the dependencies of the rendering, with URL-inert, pairwise different directory
    names, each ready to be copied, sources apart from all targets, and the HTML file apart from all targets and
    creatable.  Then `save_html` succeeds and returns `file`; the file holds the rendering; **every local URL of a wanted
    file, percent-decoded and resolved against the file's directory, names a copy byte-identical to its source**;
    every target directory holds nothing but wanted files (stale content gone); everything else is unchanged. -/
theorem C12_save_urls (render : Option Str → Bool → FsRendered) (file fileAbs : Str) (libdir : Option Str)
    (iv : Bool) (fs : FS)
    (hl : CleanDirOpt libdir = true)
    (hnames : ∀ d ∈ (render libdir iv).deps, isLocal d = true → SafeSeg (dirName d iv) = true)
    (hdistinct : (render libdir iv).deps.Pairwise (fun a b => dirName a iv ≠ dirName b iv))
    (hready : ∀ d ∈ (render libdir iv).deps, CopyReady d (destDir fileAbs libdir) iv fs)
    (hST : ∀ a ∈ (render libdir iv).deps, ∀ b ∈ (render libdir iv).deps, isLocal a = true → isLocal b = true →
      Apart (srcDir a) (tgtDir b (destDir fileAbs libdir) iv))
    (hF : ∀ d ∈ (render libdir iv).deps, isLocal d = true →
      Apart (pathResolve fileAbs) (tgtDir d (destDir fileAbs libdir) iv))
    (hFd : fs.isDir (pathResolve fileAbs) = false) (hFp : fs.fileOnPath (pathResolve fileAbs).dropLast = false) :
    ∃ fs', saveHtml render file fileAbs libdir iv fs = (fs', .ok file)
      ∧ fs'.read (pathResolve fileAbs) = some (utf8 (render libdir iv).html)
      ∧ (∀ d ∈ (render libdir iv).deps, isLocal d = true → ∀ p, CleanRel p = true →
          wantedB d (segs (utf8 p)) = true →
          relRefOk (urlOf d libdir iv p) = true ∧
          fs'.read (resolveRef (pathResolve (dirname fileAbs)) (urlOf d libdir iv p))
            = fs.read (srcDir d ++ segs (utf8 p)))
      ∧ (∀ d ∈ (render libdir iv).deps, isLocal d = true → ∀ r, wantedB d r = false →
          fs'.read (tgtDir d (destDir fileAbs libdir) iv ++ r) = none)
      ∧ (∀ q, q ≠ pathResolve fileAbs →
          (∀ d ∈ (render libdir iv).deps, isLocal d = true → ¬ tgtDir d (destDir fileAbs libdir) iv <+: q) →
          fs'.read q = fs.read q) := by
  generalize hdeps : (render libdir iv).deps = deps at *
  -- distinct directory names give target directories that are apart
  have hTT : deps.Pairwise (fun a b => isLocal a = true → isLocal b = true →
      Apart (tgtDir a (destDir fileAbs libdir) iv) (tgtDir b (destDir fileAbs libdir) iv)) := by
    have : ∀ a ∈ deps, ∀ b ∈ deps, dirName a iv ≠ dirName b iv → isLocal a = true → isLocal b = true →
        Apart (tgtDir a (destDir fileAbs libdir) iv) (tgtDir b (destDir fileAbs libdir) iv) := by
      intro a ha b hb hne hla hlb
      rw [C12_target a fileAbs libdir iv hl (hnames a ha hla), C12_target b fileAbs libdir iv hl (hnames b hb hlb)]
      apply apart_of_ne_last
      intro e
      exact hne (utf8_inert_inj _ _ (safeSeg_inert (hnames a ha hla)) (safeSeg_inert (hnames b hb hlb)) e)
    exact List.Pairwise.imp_of_mem (fun ha hb h => this _ ha _ hb h) hdistinct
  obtain ⟨fs1, hc, hframe, hspec⟩ := copyAll_spec (destDir fileAbs libdir) iv deps fs hready hTT hST
  -- the file can be written after the copies
  have hw := writable_transfer fs fs1 (pathResolve fileAbs)
    ((deps.filter fun d => isLocal d).map fun d => tgtDir d (destDir fileAbs libdir) iv)
    (by
      intro q hq
      apply hframe
      intro d hd hld
      exact hq _ (List.mem_map.mpr ⟨d, List.mem_filter.mpr ⟨hd, hld⟩, rfl⟩))
    (by
      intro T hT
      obtain ⟨d, hd, rfl⟩ := List.mem_map.mp hT
      have := List.mem_filter.mp hd
      exact hF d this.1 this.2)
    hFd hFp
  have hsave := saveHtml_of_copyAll_ok (render := render) (file := file) (by rw [hdeps]; exact hc) hw.1 hw.2
  -- a path inside a target directory is not the HTML file
  have hneF : ∀ d ∈ deps, isLocal d = true → ∀ r, tgtDir d (destDir fileAbs libdir) iv ++ r ≠ pathResolve fileAbs := by
    intro d hd hld r e
    exact (hF d hd hld).2 (e ▸ List.prefix_append _ r)
  refine ⟨_, hsave, by rw [read_write]; simp, ?_, ?_, ?_⟩
  · intro d hd hld p hp hwant
    obtain ⟨pkg, dir, abs, hsrc⟩ := isLocal_cases hld
    have hag := C12_agree d pkg dir abs hsrc fileAbs libdir iv p hp hl (hnames d hd hld)
    refine ⟨hag.1, ?_⟩
    rw [hag.2.2.2, resolve_posixJoin _ p (cleanRel_head hp)]
    have e : pathResolve (posixJoin (destDir fileAbs libdir) (dirName d iv)) = tgtDir d (destDir fileAbs libdir) iv := rfl
    rw [e, read_write]
    simp only [hneF d hd hld _, if_false]
    rw [hspec d hd hld]
    simp [hwant]
  · intro d hd hld r hwant
    rw [read_write]
    simp only [hneF d hd hld _, if_false]
    rw [hspec d hd hld]
    simp [hwant]
  · intro q hq hout
    rw [read_write]
    simp only [hq, if_false]
    exact hframe q hout

/-! ## 6. save_html of a document, a tag, a list: what is written names what is copied -/

open HtmlVerif.Doc in
/-- **the markup that is written carries the URLs of `as_dict`.**  The rendering made with `lib_prefix = libdir`
    is the doctype and the markup of a tree whose one head holds (after `<meta charset>` and the user's head children)
    the listing and the block `ms`; for **every dependency of the resolved list** `ms` contains, in place, that
    dependency's block: its `<meta>` tags, one `<link>` per stylesheet whose `href` attribute is exactly
    `urlOf d libdir iv path`, one `<script>` per script whose `src` attribute is exactly `urlOf d libdir iv path`,
    then the dependency's own head nodes.  (Attribute values are written attribute-escaped: C03.) -/
theorem C12_head_urls {cfg : Cfg} {content : Nodes} {kw : List (Str × AttrArg)} {libdir : Option Str} {iv : Bool}
    {r : DocRendered} (h : docRender cfg content kw libdir iv = .ok r) :
    ∃ n w a ks ms,
      r.html = doctype ++ (Node.tag n w a (withHead (listing (docDeps content) ++ ms) ks)).render cfg 0 ['\n'] ∧
      ∀ d hh hd, Node.dep d hh hd ∈ docDeps content → SoleKeys d = true →
        ∃ metas links scripts pre post,
          ms = pre ++ (Nodes.ofList (metas ++ links ++ scripts) ++ (if hh then hd.expandAll else .nil)) ++ post ∧
          (∀ t ∈ metas, ∃ a, t = .tag nMeta true a .nil) ∧ (∀ t ∈ links, ∃ a, t = .tag nLink true a .nil) ∧
          (∀ t ∈ scripts, ∃ a, t = .tag nScript true a .nil) ∧
          links.map (tagAttr nLink dtKHref)
            = d.stylesheet.map (fun s => (alookup dtKHref s).map fun p => AttrVal.plain (urlOf d libdir iv p)) ∧
          scripts.map (tagAttr nScript dtKSrc)
            = d.script.map (fun s => (alookup dtKSrc s).map fun p => AttrVal.plain (urlOf d libdir iv p)) := by
  obtain ⟨t, ht, hhtml, _⟩ := C11.C11_doctype_prefix h
  obtain ⟨n, w, a, ks, ms, _, hm, rfl, _, _⟩ := C11.C11_head ht
  refine ⟨n, w, a, ks, ms, hhtml, ?_⟩
  intro d hh hd hmem hk
  obtain ⟨ts, pre, post, hts, rfl⟩ := depMarkupAll_mem hm _ hmem
  obtain ⟨metas, links, scripts, rfl, hmeta, hlk, hsc, hl, hs⟩ := asHtmlTags_urls (by simpa [depTags] using hts) hk
  refine ⟨metas, links, scripts, pre, post, ?_, hmeta, hlk, hsc, hl, hs⟩
  have hc : ChildlessTags (metas ++ links ++ scripts) := by
    intro x hx
    simp only [List.mem_append] at hx
    rcases hx with (hx | hx) | hx
    · obtain ⟨a, ha⟩ := hmeta x hx; exact ⟨_, a, ha⟩
    · obtain ⟨a, ha⟩ := hlk x hx; exact ⟨_, a, ha⟩
    · obtain ⟨a, ha⟩ := hsc x hx; exact ⟨_, a, ha⟩
  rw [Nodes.expandAll_append, (childless_expand hc).1]
  cases hh <;> simp [Nodes.expandAll]

/-- what `save_html` copies are the dependencies `render()` returns; under C11's guard that is the resolved list -/
theorem C12_saved_deps_resolved {cfg : Cfg} {content : Nodes} {kw : List (Str × AttrArg)} {libdir : Option Str}
    {iv : Bool} {r : Doc.DocRendered} (guard : Doc.noDepInDepHead content = true)
    (h : Doc.docRender cfg content kw libdir iv = .ok r) :
    (docFs cfg content kw libdir iv).deps = depInfos (Doc.docDeps content)
    ∧ ∀ d hh hd, Node.dep d hh hd ∈ Doc.docDeps content → d ∈ (docFs cfg content kw libdir iv).deps := by
  have e : (docFs cfg content kw libdir iv).deps = depInfos (Doc.docDeps content) := by
    rw [docFs_of_ok h, C11.C11_returned guard h]
  exact ⟨e, fun d hh hd hm => e ▸ mem_depInfos hm⟩

/-- **save_html, end to end, on a document, a tag or a list.**  Let `r` be the rendering of the saving document
    (`HTMLDocument(self)` for a tag / list) with `lib_prefix = libdir`, and let the dependencies it returns satisfy the
    guards of `C12_save_urls`.  Then `save_html` **returns the `file` argument**, the file at that path holds exactly
    `r.html` (whose head carries `urlOf d libdir iv p` for every resolved dependency: `C12_head_urls`), and for every
    returned local dependency `d` and every wanted clean path `p`: the URL `urlOf d libdir iv p` is a plain relative
    reference which, resolved against the file's directory and percent-decoded, names a file **byte-identical to the
    source** `srcDir d / p`; the target directories hold nothing else (stale content gone); nothing else changed. -/
theorem C12_save_doc (cfg : Cfg) (recv : Receiver) (file fileAbs : Str) (libdir : Option Str) (iv : Bool) (fs : FS)
    (r : Doc.DocRendered) (h : Doc.docRender cfg recv.doc.1 recv.doc.2 libdir iv = .ok r)
    (hl : CleanDirOpt libdir = true)
    (hnames : ∀ d ∈ depInfos r.deps, isLocal d = true → SafeSeg (dirName d iv) = true)
    (hdistinct : (depInfos r.deps).Pairwise (fun a b => dirName a iv ≠ dirName b iv))
    (hready : ∀ d ∈ depInfos r.deps, CopyReady d (destDir fileAbs libdir) iv fs)
    (hST : ∀ a ∈ depInfos r.deps, ∀ b ∈ depInfos r.deps, isLocal a = true → isLocal b = true →
      Apart (srcDir a) (tgtDir b (destDir fileAbs libdir) iv))
    (hF : ∀ d ∈ depInfos r.deps, isLocal d = true →
      Apart (pathResolve fileAbs) (tgtDir d (destDir fileAbs libdir) iv))
    (hFd : fs.isDir (pathResolve fileAbs) = false) (hFp : fs.fileOnPath (pathResolve fileAbs).dropLast = false) :
    ∃ fs', saveOn cfg recv file fileAbs libdir iv fs = (fs', .ok file)
      ∧ fs'.read (pathResolve fileAbs) = some (utf8 r.html)
      ∧ (∀ d ∈ depInfos r.deps, isLocal d = true → ∀ p, CleanRel p = true →
          wantedB d (segs (utf8 p)) = true →
          relRefOk (urlOf d libdir iv p) = true ∧
          fs'.read (resolveRef (pathResolve (dirname fileAbs)) (urlOf d libdir iv p))
            = fs.read (srcDir d ++ segs (utf8 p)))
      ∧ (∀ d ∈ depInfos r.deps, isLocal d = true → ∀ q, wantedB d q = false →
          fs'.read (tgtDir d (destDir fileAbs libdir) iv ++ q) = none)
      ∧ (∀ q, q ≠ pathResolve fileAbs →
          (∀ d ∈ depInfos r.deps, isLocal d = true → ¬ tgtDir d (destDir fileAbs libdir) iv <+: q) →
          fs'.read q = fs.read q) := by
  have e := docFs_of_ok h
  have hu := C12_save_urls (docFs cfg recv.doc.1 recv.doc.2) file fileAbs libdir iv fs hl
    (by rw [e]; exact hnames) (by rw [e]; exact hdistinct) (by rw [e]; exact hready) (by rw [e]; exact hST)
    (by rw [e]; exact hF) hFd hFp
  rw [e] at hu
  obtain ⟨fs', h1, h2⟩ := hu
  exact ⟨fs', by simp only [saveOn, saveDoc, h]; exact h1, h2⟩

/-- a listed file of a returned dependency is missing (or any other copy fails) ⇒ `save_html` raises that error, the
    state is the one the copies made so far left (the failing dependency's target untouched: `C12_copy_missing`), and
    **the HTML file is not written**: its old content, if any, is still what the copies left; a `render()` that
    raises leaves the file system as it was -/
theorem C12_save_fail (cfg : Cfg) (recv : Receiver) (file fileAbs : Str) (libdir : Option Str) (iv : Bool)
    (fs : FS) :
    (∀ e, Doc.docRender cfg recv.doc.1 recv.doc.2 libdir iv = .error e →
      saveOn cfg recv file fileAbs libdir iv fs = (fs, .error e))
    ∧ (∀ r fs1 e, Doc.docRender cfg recv.doc.1 recv.doc.2 libdir iv = .ok r →
        copyAll (depInfos r.deps) (destDir fileAbs libdir) iv fs = (fs1, .error e) →
        saveOn cfg recv file fileAbs libdir iv fs = (fs1, .error e)) := by
  constructor
  · intro e h; simp [saveOn, saveDoc, h]
  · intro r fs1 e h hc
    simp only [saveOn, saveDoc, h]
    exact saveHtml_of_copyAll_error (by rw [docFs_of_ok h]; exact hc)

/-! ### the concrete instance used below and in the non-vacuity examples -/

/-- `HTMLDependency("my-dep", "1.0+x", source={"subdir": "/s"}, script={"src": "a b/100%é.js"}, stylesheet={"href": "q#?.css"})` -/
def exDep : DepInfo :=
  { name := ['m', 'y', '-', 'd', 'e', 'p'], version := ['1', '.', '0', '+', 'x'], vrank := 0,
    source := .subdir none ['/', 's'] ['/', 's'],
    script := [[(dtKSrc, ['a', ' ', 'b', '/', '1', '0', '0', '%', 'é', '.', 'j', 's'])]],
    stylesheet := [[(dtKHref, ['q', '#', '?', '.', 'c', 's', 's']), (dtKRel, vStylesheet)]],
    metas := [], allFiles := false }

def exJs : Path := [[0x61, 0x20, 0x62], [0x31, 0x30, 0x30, 0x25, 0xC3, 0xA9, 0x2E, 0x6A, 0x73]]
def exCss : Path := [[0x71, 0x23, 0x3F, 0x2E, 0x63, 0x73, 0x73]]

/-- sources under `/s`, stale content and a sentinel in the target `/o/lib/my-dep-1.0+x`, an unrelated file -/
def exFS : FS :=
  ⟨[([[0x73]] ++ exJs, [1, 2, 3]), ([[0x73]] ++ exCss, [4]),
    ([[0x6F], [0x6C, 0x69, 0x62], utf8 (dirName exDep true), [0x6F, 0x6C, 0x64]], [9]),
    ([[0x75]], [7])]⟩

def exFile : Str := ['/', 'o', '/', 'i', '.', 'h', 't', 'm', 'l']
def exLib : Option Str := some ['l', 'i', 'b']

/-! ## 7. finding F-C12: the character guards cannot be dropped -/

/-- **the statement's clause 2 is false without the character guards** (the code writes prefix, name and version
    unencoded, as clause 1 prescribes): for every clean path, *any* relative `libdir` without dot segments and *any*
    single-component directory name, the URL would have to be a plain relative reference that, percent-decoded and
    resolved against the file's directory, is the path `copy_to` writes to.  Witnesses: `libdir = "my%20lib"` (decodes to
    `my lib`, the files are in `my%20lib`), `libdir = "a#b"` (cut at the fragment), name `a%41` (decodes to `aA`). -/
theorem C12_urls_resolve_full_is_false :
    ¬ ∀ (d : DepInfo) (fileAbs : Str) (libdir : Option Str) (iv : Bool) (p : Str),
        isLocal d = true → CleanRel p = true → WideDirOpt libdir = true → WideSeg (dirName d iv) = true →
        relRefOk (urlOf d libdir iv p) = true
        ∧ resolveRef (pathResolve (dirname fileAbs)) (urlOf d libdir iv p)
            = pathResolve (posixJoin (posixJoin (destDir fileAbs libdir) (dirName d iv)) p) := by
  intro h
  have h1 := h exDep exFile (some ['m', 'y', '%', '2', '0', 'l', 'i', 'b']) true ['a', '.', 'j', 's']
    (by decide) (by decide) (by decide) (by decide)
  revert h1
  decide

/-- the same for the other two shapes of the class: a fragment character in the prefix makes the URL no plain
    relative reference; a `%XX` in the *name* decodes to another directory -/
theorem C12_urls_resolve_full_is_false_more :
    relRefOk (urlOf exDep (some ['a', '#', 'b']) true ['a', '.', 'j', 's']) = false
    ∧ resolveRef (pathResolve (dirname exFile)) (urlOf { exDep with name := ['a', '%', '4', '1'] } none false ['a', '.', 'j', 's'])
        ≠ pathResolve (posixJoin (posixJoin (destDir exFile none) ['a', '%', '4', '1']) ['a', '.', 'j', 's'])
    ∧ urlSpecial ['m', 'y', '%', '2', '0', 'l', 'i', 'b'] = true ∧ urlSpecial ['a', '#', 'b'] = true
    ∧ urlSpecial ['a', '%', '4', '1'] = true := by
  decide

/-- conversely, under the guards nothing of the class is left: a guarded base URL has no special character -/
theorem C12_guards_exclude_special (libdir : Option Str) (dn : Str)
    (hl : CleanDirOpt libdir = true) (hn : SafeSeg dn = true) : urlSpecial (hrefBaseSpec libdir dn) = false := by
  have hbase : ∀ c ∈ hrefBaseSpec libdir dn, (inertC c = true ∨ c = '/') := by
    intro c hc
    rcases mem_hrefBaseSpec hc with ⟨l, hlp, hne, hcl⟩ | h | h
    · subst hlp
      have hle : l.isEmpty = false := by cases l <;> simp_all
      have hcd : CleanDir l = true := by simpa [CleanDirOpt, hle] using hl
      exact cleanDir_chars hcd c hcl
    · exact .inr h
    · exact .inl (safeSeg_inert hn c h)
  have hplain : ∀ c ∈ hrefBaseSpec libdir dn, c ≠ '%' ∧ c ≠ '#' ∧ c ≠ '?' ∧ c ≠ ':' := by
    intro c hc
    rcases hbase c hc with h | h
    · have := inertC_ne h
      exact ⟨this.1, this.2.2.1.2.1, this.2.2.1.1, this.2.2.1.2.2⟩
    · subst h; decide
  simp only [urlSpecial, Bool.or_eq_false_iff, List.any_eq_false, urlSpecialC, Bool.or_eq_true, beq_iff_eq, not_or]
  refine ⟨fun c hc => ⟨⟨(hplain c hc).1, (hplain c hc).2.1⟩, (hplain c hc).2.2.1⟩, ?_⟩
  rw [Bool.eq_false_iff]
  intro hm
  have hm' : ':' ∈ (hrefBaseSpec libdir dn).takeWhile (· != '/') := by simpa using hm
  exact (hplain ':' (List.takeWhile_subset _ hm')).2.2.2 rfl

/-! ## non-vacuity: a concrete instance satisfying every guard used above -/

example : SafeSeg (dirName exDep true) = true ∧ CleanDirOpt exLib = true
    ∧ (∀ f ∈ [['a', ' ', 'b', '/', '1', '0', '0', '%', 'é', '.', 'j', 's'], ['q', '#', '?', '.', 'c', 's', 's']],
        CleanRel f = true) := by decide

example : listedFiles exDep = .ok [['a', ' ', 'b', '/', '1', '0', '0', '%', 'é', '.', 'j', 's'],
    ['q', '#', '?', '.', 'c', 's', 's']] := by rfl

/-- the guards of `C12_copy_ok` / `C12_save_urls` hold of the instance … -/
example : Apart (srcDir exDep) (tgtDir exDep (destDir exFile exLib) true)
    ∧ exFS.fileOnPath (tgtDir exDep (destDir exFile exLib) true) = false
    ∧ (exFS.read (srcDir exDep ++ exJs)).isSome = true ∧ (exFS.read (srcDir exDep ++ exCss)).isSome = true
    ∧ segs (utf8 ['a', ' ', 'b', '/', '1', '0', '0', '%', 'é', '.', 'j', 's']) = exJs := by
  unfold Apart; decide

/-- … and the model computes what the theorems say: the URL is `lib/my-dep-1.0+x/a%20b/100%25%C3%A9.js`, it resolves to
    the copied file, the stale file is gone, the unrelated file is still there -/
example :
    urlOf exDep exLib true ['a', ' ', 'b', '/', '1', '0', '0', '%', 'é', '.', 'j', 's']
      = ['l', 'i', 'b', '/', 'm', 'y', '-', 'd', 'e', 'p', '-', '1', '.', '0', '+', 'x', '/',
         'a', '%', '2', '0', 'b', '/', '1', '0', '0', '%', '2', '5', '%', 'C', '3', '%', 'A', '9', '.', 'j', 's']
    ∧ ((copyTo exDep (destDir exFile exLib) true exFS).1.read
        (resolveRef (pathResolve (dirname exFile))
          (urlOf exDep exLib true ['a', ' ', 'b', '/', '1', '0', '0', '%', 'é', '.', 'j', 's']))) = some [1, 2, 3]
    ∧ ((copyTo exDep (destDir exFile exLib) true exFS).1.read
        [[0x6F], [0x6C, 0x69, 0x62], utf8 (dirName exDep true), [0x6F, 0x6C, 0x64]]) = none
    ∧ ((copyTo exDep (destDir exFile exLib) true exFS).1.read [[0x75]]) = some [7] := by
  decide

/-- `Tag("div", exDep).save_html("/o/i.html", libdir="lib")` on `exFS`, with the document model doing the rendering:
    the hypotheses of `C12_save_doc` / `C12_head_urls` hold of it (`SoleKeys`, C11's guard, a successful rendering),
    it returns the file, the written markup contains the URL, and the URL leads to the copy -/
def exRecv : Receiver := .tag (.tag ['d', 'i', 'v'] true [] (.cons (.dep exDep false .nil) .nil))

example : SoleKeys exDep = true ∧ Doc.noDepInDepHead exRecv.doc.1 = true := by decide +kernel

example :
    (match Doc.docRender C11.cfg0 exRecv.doc.1 exRecv.doc.2 exLib true with
      | .ok r => depInfos r.deps == [exDep]
          && isInfix (['s', 'r', 'c', '=', '"', 'l', 'i', 'b', '/', 'm', 'y', '-', 'd', 'e', 'p', '-', '1', '.', '0', '+', 'x', '/',
                'a', '%', '2', '0', 'b', '/', '1', '0', '0', '%', '2', '5', '%', 'C', '3', '%', 'A', '9', '.', 'j', 's', '"'] : Str) r.html
      | .error _ => false) = true
    ∧ (match (saveOn C11.cfg0 exRecv exFile exFile exLib true exFS).2 with
        | .ok f => f == exFile
        | .error _ => false) = true
    ∧ (saveOn C11.cfg0 exRecv exFile exFile exLib true exFS).1.read
        (resolveRef (pathResolve (dirname exFile))
          (urlOf exDep exLib true ['a', ' ', 'b', '/', '1', '0', '0', '%', 'é', '.', 'j', 's'])) = some [1, 2, 3] := by
  decide +kernel

/-- with the JavaScript file missing, `copy_to` fails and returns the file system it was given -/
example : copyTo exDep (destDir exFile exLib) true ⟨exFS.files.drop 1⟩ = (⟨exFS.files.drop 1⟩, .error .exception) := by
  rfl

end HtmlVerif.C12
