/-
Primitives of the Python fragment used by the translations of the rest of `htmltools/_jsx.py` (harness/pytr_c20b.py:
`JSXTagAttrDict.__setitem__ / _update / update / __init__`, `JSXTag.__init__ / extend / append / __copy__`, the walk and
`JSXTag.tagify`) that Py/Prim.lean, PrimC10, PrimC15b and PrimC20 lack.  Same contract: what CPython does on that argument
shape, the exception kind CPython raises, or `unsupported` (never a claim about Python).  Each was compared with
`/venv/bin/python`: through the `srcc20b` lines of every run (harness/srctie_c20b.py), and — for the cases those lines cannot
reach — by `python harness/srctie_c20b.py --prims`.
-/
import HtmlVerif.Py.Prim
import HtmlVerif.Py.PrimC10
import HtmlVerif.Py.PrimC20

namespace HtmlVerif.Py
open HtmlVerif

/-- `x.upper()`: `str.upper` is what the running interpreter contributes (`Globals.upperC20b`; `none`: not supplied).
    `HTML("a").upper()` is `HTML("A")` (`UserString.upper` rewraps); `None.upper()`, `(5).upper()`, `[].upper()` and an
    instance without such a method raise AttributeError. -/
def pyUpperC20b (G : Globals) : PVal → PyM PVal
  | .str s =>
    match G.upperC20b s with
    | some r => pure (.str r)
    | Option.none => throw .unsupported
  | .html s =>
    match G.upperC20b s with
    | some r => pure (.html r)
    | Option.none => throw .unsupported
  | _ => throw .attributeError

/-- `dict.update(d, **kw)` on an instance of a `dict` subclass (`super().update(**kw)`): the items of `kw` are set in `d`
    in order (`dict.update` does not go through an overridden `__setitem__`).  `d.update(**None)`, `**5`, `**[1]`, `**"ab"`,
    `**(1,)` raise TypeError ("argument after ** must be a mapping"); mapping objects other than dicts are outside the
    fragment. -/
def pyDictUpdateKwC20b (d kw : PVal) : PyM PVal :=
  match kw with
  | .dict _ => pyDictUpdate d kw
  | .obj _ _ => throw .unsupported
  | _ => throw .typeError

mutual
  /-- does a `jsx` string reach `flatten` / `_tagchilds_to_tagnodes` through this value: the value itself, or an item of a
      list / tuple / `UserList` (`data`) nested to any depth -/
  def hasJsxArgC20b : PVal → Bool
    | .list xs => hasJsxArgsC20b xs
    | .tuple xs => hasJsxArgsC20b xs
    | .obj cls fs => cls == "jsx" || hasJsxDataC20b fs
    | _ => false
  def hasJsxArgsC20b : List PVal → Bool
    | [] => false
    | x :: r => hasJsxArgC20b x || hasJsxArgsC20b r
  def hasJsxDataC20b : List (String × PVal) → Bool
    | [] => false
    | (k, v) :: r => (k == "data" && hasJsxArgC20b v) || hasJsxDataC20b r
end

/-- the argument of a translated function of `_core.py` (`TagList.__init__ / extend / append`) called from `_jsx.py`.
    Those translations use the base primitives, for which an instance is an object without special methods — not true of a
    `jsx` string (`isinstance(x, str)` holds) —, so a call in which a `jsx` string would reach them is `unsupported`;
    otherwise the argument as it is. -/
def pyNoJsxArgsC20b (x : PVal) : PyM PVal :=
  if hasJsxArgC20b x then throw .unsupported else pure x

/-- `copy.copy(x)`.  A value has no identity, so the copy is the value (`pyCopy`, Py/PrimC10.lean), with one exception: an
    instance of a `dict` subclass is carried as a dict in this universe, and `copy.copy` rebuilds such an instance through
    `__reduce_ex__`: a new instance whose items are set one by one by the subclass's `__setitem__` — for a JSXTagAttrDict
    that normalises every name again (`copy.copy` of a JSXTagAttrDict holding the key `on_click`, put there by
    `dict.update`, has the key `on-click`).  Normalising is the identity on a name without `_`; a dict with a key that
    contains `_` is outside the fragment. -/
def pyCopyC20b (x : PVal) : PyM PVal :=
  match x with
  | .dict kvs => if kvs.any (fun kv => kv.1.contains '_') then throw .unsupported else pure x
  | _ => pyCopy x

/-- `self.__class__.__new__(self.__class__)` for an instance of a class without `__new__` / `__slots__`: a new instance of
    the same class with an empty `__dict__` -/
def pyNewLikeC20b : PVal → PyM PVal
  | .obj cls _ => pure (.obj cls [])
  | _ => throw .unsupported

/-- `cp.__dict__.update(self.__dict__)`: every attribute of `self` is set in `cp`, in order -/
def pyDictAttrUpdateC20b (cp self : PVal) : PyM PVal :=
  match cp, self with
  | .obj c fs, .obj _ gs => pure (.obj c (gs.foldl (fun acc kv => fieldSet kv.1 kv.2 acc) fs))
  | _, _ => throw .unsupported

/-! ### the walk and its visitor -/

/-- the iterable handed to `enumerate` by the walk (`x.children`): `unsupported` for a `jsx` string, which the base `pyIter`
    does not know (it is iterable, character by character); every other value as it is -/
def pyNotJsxC20b (x : PVal) : PyM PVal :=
  match x with
  | .obj cls _ => if cls == "jsx" then throw .unsupported else pure x
  | _ => pure x

/-- `d[k] = v` through `JSXTagAttrDict.__setitem__` while `d` is being iterated over (`for key, value in x.attrs.items():
    x.attrs[key] = …`): `new` is the dict afterwards.  When the keys are what they were, the iteration goes on as over a
    snapshot; when the assignment added a key (the name `key` normalises to another name that is not stored yet), CPython
    raises RuntimeError ("dictionary changed size during iteration") at the next step of the iteration, also when it was the
    last item; when it normalises to a name that *is* stored, the size stays and the other item is overwritten: such
    receivers (filled behind the dict's back) are outside the fragment. -/
def pySameKeysC20b (old new : PVal) : PyM PVal :=
  match old, new with
  | .dict a, .dict b => if a.map (·.1) == b.map (·.1) then pure new else throw .unsupported
  | _, _ => throw .unsupported

/-- an attribute value as a `TagAttrDict` stores it: a `str` or an `HTML` -/
def isStoredAttrC20b : PVal → Bool
  | .str _ => true
  | .html _ => true
  | _ => false

/-- `copy.copy(x)` for everything but a JSXTag (which goes to the translated `JSXTag.__copy__`).  A value has no identity, so
    the copy is the value (`pyCopyC20b`), provided copying does not *change* it: `Tag.__copy__` copies every attribute, and
    `copy.copy` of its `attrs` (a TagAttrDict, a `dict` subclass) sets every item again through `TagAttrDict.__setitem__`,
    which normalises name and value — the identity on a name without `_` and a `str` / `HTML` value (what a TagAttrDict
    holds unless it was filled behind its back); any other Tag is outside the fragment. -/
def pyCopyObjC20b (x : PVal) : PyM PVal :=
  match x with
  | .obj cls fs =>
    if cls == "JSXTag" then throw .unsupported
    else if isInstance x ["Tag"] then
      match fieldGet? "attrs" fs with
      | some (.dict kvs) =>
        if kvs.all (fun kv => !kv.1.contains '_' && isStoredAttrC20b kv.2) then pyCopy x else throw .unsupported
      | _ => throw .unsupported
    else pyCopy x
  | _ => pyCopyC20b x

/-- `HTML(x)`: `HTML.__init__` stores `str(x)`; `str()` of a `jsx` string is the exact `str` with its text
    (`type(HTML(jsx("a")).data) is str`), of every other value what `mkHTML` says -/
def mkHTMLC20b (x : PVal) : PyM PVal := mkHTML (asStr x)

/-! ### `jsx.__new__`, `jsx.__add__`, `jsx_tag_create` -/

/-- `str.__new__(jsx, e)` (`super().__new__(cls, e)` in `class jsx(str)`, for `cls = jsx`): a new `jsx` string with the text
    of the `str` `e` (`"\n".join(args)` is one); other arguments (`str(e)` of an object) are outside the fragment -/
def pyJsxNewC20b (x : PVal) : PyM PVal :=
  match asStr x with
  | .str s => pure (mkJsx s)
  | _ => throw .unsupported

/-- `str.__add__(a, b)`: the concatenation, an exact `str`, when `b` is a `str` (also of a subclass); for any other `b` — a
    number, None, a list, an `HTML` — the slot wrapper raises TypeError ("can only concatenate str") itself (it does not return
    `NotImplemented`, so inside `jsx.__add__` no reflected method is tried); `str.__add__(5, "a")` raises TypeError too (the
    descriptor requires a `str`) -/
def pyStrAddC20b (a b : PVal) : PyM PVal :=
  match asStr a, asStr b with
  | .str x, .str y => pure (.str (x ++ y))
  | _, _ => throw .typeError

/-- `f.__name__ = v` on a function object: TypeError ("__name__ must be set to a string object") unless `v` is a `str`
    (a `jsx` string is one) -/
def pySetFuncNameC20b (f v : PVal) : PyM PVal :=
  match asStr v with
  | .str _ => pySetAttr f "__name__" v
  | _ => throw .typeError

end HtmlVerif.Py
