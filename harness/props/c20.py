"""C20 — JSX components convert purely and surface all dependencies."""
from __future__ import annotations

import itertools
import os

import core
import ops
import ops_jsx as oj
from ops_jsx import ejnode, ejnodes, ejval, ejprops, eallowed
from wire import es, Toks

PID = "C20"
MANIFEST = dict(
    text="Lean theorems over an own component-tree model (JNode/JVal, mutual inductive) of htmltools/_jsx.py, for all trees: "
         "C20_pure (tagify under the copy discipline the property demands returns the component unchanged, however often it is "
         "called; the pinned discipline is proved impure, C20_pure_fails_for_pinned), C20_script (result = <script "
         "type=text/javascript data-needs-render=\"\"> with children HTML(\"\\n\"+js+\"\\n\") :: react :: react-dom :: collected), "
         "C20_collected (collected = every metadata node reachable through children, nested tags/components, tag/component/"
         "tagifiable prop values and expansions, in walk order; sound and complete w.r.t. an inductive reachability relation), "
         "C20_react (versions from Generated.reactVersions, one script each), C20_mirror (_render_react_js = print of a JS expression "
         "tree that has each prop once under its stored name and each non-metadata child once in order, nested correspondingly), "
         "C20_props_normalised (stored names are the normalised keyword names, each once), C20_values, C20_strings (the emitted literal "
         "denotes the original text for strings free of backslashes and line breaks, w.r.t. a JS string-literal denotation), "
         "C20_allowed. Tie: exact equality of str(component), of the returned script Tag (children incl. dependencies), and of a deep "
         "canonical snapshot + id() graph of the component before/after 1 and 4 tagify() calls, on exhaustive small scopes and random "
         "large trees; the react script files are checked to exist in the package under test.",
    design="DESIGN.md §6 C20, §7 F-C20",
    note="Modelled, not verified: Python isinstance dispatch and copy.copy protocol; str() of numbers (passed in as text); "
         "str.upper of the name's initial (passed in); aliasing (one object at two positions of a tree) is not generated; "
         "dict/prop keys are written unescaped by the library (keys containing a double quote are outside the claim); "
         "metadata nodes or un-expanded tagifiable objects inside list/dict prop values are outside the model (runtime repr).",
    technique="Lean 4 proof by mutual structural induction over the component tree + differential correspondence check "
              "(exact string, returned tag, snapshots, id() graph)",
)
PROP_FILES = ["HtmlVerif/Props/C20.lean"]

DEP_A = dict(name="a", version="1.1", vrank=0, source=("subdir", None, "foo", ""), script=[[("src", "a1.js")]],
             stylesheet=[], metas=[], all_files=False)
DEP_B = dict(name="b", version="2.0", vrank=0, source=("href", "https://x/y"), script=[],
             stylesheet=[[("href", "b.css"), ("rel", "stylesheet")]],
             metas=[], all_files=False)
DEP_REACT = dict(name="react", version="99.0", vrank=0, source=None, script=[], stylesheet=[], metas=[], all_files=False)


def S(s, k="p"):
    return ("str", k, s)


# ------------------------------------------------------------------ exhaustive small scope
def small_alphabet(level: str):
    """(leaf nodes, scalar prop values, tag heads, component names, style props)"""
    if level == "mini":
        leaves = [("dep", DEP_A)]
        scalars = []
        tags = [("div", [])]
        comps = ["Foo"]
        styles = []
    elif level == "core":
        leaves = [S('a"b'), ("dep", DEP_A)]
        scalars = [("num", "1")]
        tags = [("div", [])]
        comps = ["Foo"]
        styles = []
    else:
        leaves = [S('a"b'), S("`e`", "j"), S("<i>", "h"), ("meta", 1), ("dep", DEP_A)]
        scalars = [("null",), ("bool", True), ("num", "2.5"), ("node", S("s")), ("node", S("() => 1", "j"))]
        tags = [("div", []), ("span", [("style", ("p", "a:b")), ("id", ("p", 'q"'))])]
        comps = ["Foo", "a.Bar"]
        styles = [("node", S("c:d;e: f")), ("dict", [("k", ("num", "1"))])]
    return leaves, scalars, tags, comps, styles


def enumerate_components(max_units: int, level: str):
    """all component trees with at most `max_units` units over the alphabet: a unit is a node (component, tag, string,
    metadata node, tagifiable object) or a prop value node (scalar, list, dict); tag/component/tagifiable prop values count
    as their nodes.  Every child kind and every prop kind occurs at every depth."""
    leaves, scalars, tags, comps, styles = small_alphabet(level)
    memo_n, memo_f, memo_v, memo_p = {}, {}, {}, {}

    def nodes(n):   # nodes with exactly n units
        if n in memo_n:
            return memo_n[n]
        out = []
        if n == 1:
            out += leaves
        if n >= 1:
            for name in comps:
                for a in range(0, n):
                    for ps in props(a, 0):
                        for ks in forests(n - 1 - a):
                            out.append(("comp", name, list(ps), list(ks)))
            for (tn, ta) in tags:
                for ks in forests(n - 1):
                    out.append(("tag", tn, ta, list(ks)))
        if n >= 2:
            for e in nodes(n - 1):
                out.append(("tobj", e))
        if n >= 1:
            for ks in forests(n - 1):
                if level == "full" or (level == "core" and n <= 2):
                    out.append(("tobjL", list(ks)))
        memo_n[n] = out
        return out

    def forests(n):
        if n in memo_f:
            return memo_f[n]
        out = []
        if n == 0:
            out.append(())
        else:
            for k in range(1, n + 1):
                for t in nodes(k):
                    for rest in forests(n - k):
                        out.append((t,) + rest)
        memo_f[n] = out
        return out

    def values(n):   # prop values with exactly n units
        if n in memo_v:
            return memo_v[n]
        out = []
        if n == 1:
            out += scalars
        if n >= 1:
            for vs in vlists(n - 1):
                out.append(("list", False, list(vs)))
                if level == "full":
                    out.append(("list", True, list(vs)))
            for vs in vlists(n - 1):
                if level != "mini":
                    out.append(("dict", [("k%d" % i, v) for i, v in enumerate(vs)]))
        for x in nodes(n):
            if x[0] in ("comp", "tag", "tobj"):
                out.append(("node", x))
        memo_v[n] = out
        return out

    def vlists(n):
        key = ("l", n)
        if key in memo_v:
            return memo_v[key]
        out = []
        if n == 0:
            out.append(())
        else:
            for k in range(1, n + 1):
                for v in values(k):
                    # inside a list/dict only what `_serialize_attr` is defined on: no tagifiable object
                    if v[0] == "node" and v[1][0] == "tobj":
                        continue
                    for rest in vlists(n - k):
                        out.append((v,) + rest)
        memo_v[key] = out
        return out

    def props(n, idx):   # ordered prop lists with exactly n units; keys by position
        key = (n, idx)
        if key in memo_p:
            return memo_p[key]
        out = []
        if n == 0:
            out.append(())
        else:
            for k in range(1, n + 1):
                for v in values(k):
                    for rest in props(n - k, idx + 1):
                        out.append((("p%d" % idx, v),) + rest)
                if k == 1:
                    for sv in styles:
                        for rest in props(n - k, idx + 1):
                            out.append((("style", sv),) + rest)
        memo_p[key] = out
        return out

    for n in range(1, max_units + 1):
        for x in nodes(n):
            if x[0] == "comp":
                yield x


# ------------------------------------------------------------------ random large
STR_POOL = ["", "a", 'a"b', "back\\slash", "x\ny", "\r", "</script>", "<!--", "é😀", "'q'", '""', "\\\"", "a:b;c:d", " ", "\u2028",
            "${x}", "`t`", "&amp;", "<b>"]
KEY_POOL = ["a", "b", "className", "data-x", "x-", "style", "id", "on-click", "k", "é"]
NUM_POOL = ["0", "1", "-3", "2.5", "1e+20", "-0.0", "123456789012345678901234567890", "0.1"]
COMP_NAMES = ["Foo", "Bar", "a.B", "X1", "Ünit", "", "_x", "lib.ns.Comp"]
TAG_NAMES = ["div", "span", "p", "br", "script", "my-elem"]


def rand_str(rng, kinds="pjh"):
    k = rng.choice(kinds)
    if rng.random() < 0.5:
        return S(rng.choice(STR_POOL), k)
    n = rng.randint(0, 8)
    return S("".join(rng.choice('ab "\\\n\r:;\'<>/&é`${}') for _ in range(n)), k)


def rand_dep(rng):
    return ("dep", rng.choice([DEP_A, DEP_B, DEP_REACT]))


def rand_tag_attrs(rng):
    out = []
    for k in rng.sample(["id", "class", "style", "data-x", "title"], rng.choice([0, 0, 1, 2])):
        if k == "style":
            v = rng.choice(["color:red", "a:b;c:d", "a : b ;", "", "x", "a:b;a:c", "a:b:c", 'q:"1"'])
            kind = "h" if rng.random() < 0.1 else "p"
        else:
            v = rng.choice(STR_POOL)
            kind = "h" if rng.random() < 0.2 else "p"
        out.append((k, (kind, v)))
    return out


def rand_node(rng, depth, ok_only=False):
    r = rng.random()
    if depth <= 0 or r < 0.25:
        q = rng.random()
        if q < 0.55:
            return rand_str(rng, "ppj" if ok_only else "pppjjh")
        if q < 0.75:
            return rand_dep(rng)
        if q < 0.85:
            return ("meta", rng.randint(0, 9))
        return rand_str(rng, "p")
    if r < 0.5:
        return rand_comp(rng, depth - 1, ok_only)
    if r < 0.75:
        return ("tag", rng.choice(TAG_NAMES), rand_tag_attrs(rng) if not ok_only else [],
                [rand_node(rng, depth - 1, ok_only) for _ in range(rng.choice([0, 1, 2, 3]))])
    if r < 0.97 or ok_only:
        return ("tobj", rand_exp(rng, depth - 1, ok_only))
    return ("tobjL", [rand_node(rng, depth - 1, ok_only) for _ in range(rng.choice([0, 1, 2]))])


def rand_exp(rng, depth, ok_only=False):
    """what a tagifiable object's tagify() returns: tag, component, string, metadata node (rarely another tagifiable)"""
    r = rng.random()
    if r < 0.4:
        return ("tag", rng.choice(TAG_NAMES), [], [rand_node(rng, depth - 1, ok_only) for _ in range(rng.choice([0, 1, 2, 3]))])
    if r < 0.6:
        return rand_comp(rng, depth - 1, ok_only)
    if r < 0.75:
        return rand_dep(rng)
    if r < 0.97 or ok_only:
        return rand_str(rng, "pj")
    return ("tobj", S("z"))


def rand_val(rng, depth, top=True, ok_only=False, walked=True):
    r = rng.random()
    if depth <= 0 or r < 0.45:
        q = rng.random()
        if q < 0.12:
            return ("null",)
        if q < 0.27:
            return ("bool", rng.random() < 0.5)
        if q < 0.5:
            return ("num", rng.choice(NUM_POOL))
        return ("node", rand_str(rng, "ppj" if ok_only else "pppjjh"))
    if r < 0.6:
        return ("list", rng.random() < 0.3, [rand_val(rng, depth - 1, False, ok_only) for _ in range(rng.choice([0, 1, 2, 3]))])
    if r < 0.72:
        keys = rng.sample(KEY_POOL + ['q"k'], rng.choice([0, 1, 2, 3]))
        return ("dict", [(k, rand_val(rng, depth - 1, False, ok_only)) for k in keys])
    if r < 0.82:
        return ("node", ("tag", rng.choice(TAG_NAMES), rand_tag_attrs(rng) if not ok_only else [],
                         [rand_node(rng, depth - 1, ok_only) for _ in range(rng.choice([0, 1, 2]))]))
    if r < 0.92 or not top or not walked:
        return ("node", rand_comp(rng, depth - 1, ok_only))
    # a tagifiable object as a prop value (top level of the props only); its expansion is not a metadata node
    e = rand_exp(rng, depth - 1, ok_only)
    while e[0] in ("dep", "meta", "tobj"):
        e = rand_exp(rng, depth - 1, ok_only)
    return ("node", ("tobj", e))


def rand_comp(rng, depth, ok_only=False):
    keys = rng.sample(KEY_POOL, rng.choice([0, 0, 1, 2, 3]))
    props = []
    for k in keys:
        if k == "style":
            q = rng.random()
            if q < 0.5:
                v = ("node", S(rng.choice(["color:red", "a:b;c:d", "a : b ;", "", "x", "a:b;a:c", 'q:"1"']
                                          + ([] if ok_only else ["a:b:c"])), rng.choice("ppj")))
            elif q < 0.75:
                v = ("dict", [(kk, rand_val(rng, 1, False, ok_only)) for kk in rng.sample(KEY_POOL, rng.choice([0, 1, 2]))])
            elif q < 0.85 or ok_only:
                v = ("null",)
            else:
                v = rng.choice([("num", "1"), ("bool", True), ("list", False, []), ("node", S("a:b", "h"))])
        else:
            v = rand_val(rng, depth, True, ok_only)
        props.append((k, v))
    kids = [rand_node(rng, depth, ok_only) for _ in range(rng.choice([0, 1, 1, 2, 3, 4]))]
    return ("comp", rng.choice(COMP_NAMES[:4]) if ok_only else rng.choice(COMP_NAMES), props, kids)


# ------------------------------------------------------------------ features / python rendering of a term
def units(n) -> int:
    k = n[0]
    if k == "comp":
        return 1 + sum(vunits(v) for _, v in n[2]) + sum(units(c) for c in n[3])
    if k == "tag":
        return 1 + sum(units(c) for c in n[3])
    if k == "tobj":
        return 1 + units(n[1])
    if k == "tobjL":
        return 1 + sum(units(c) for c in n[1])
    return 1


def vunits(v) -> int:
    if v[0] == "list":
        return 1 + sum(vunits(x) for x in v[2])
    if v[0] == "dict":
        return 1 + sum(vunits(x) for _, x in v[1])
    if v[0] == "node":
        return units(v[1])
    return 1


def features(n, acc=None, top=True):
    """which parts of the statement a tree exercises"""
    acc = set() if acc is None else acc
    k = n[0]
    if k == "comp":
        if not top:
            acc.add("nested-component")
        for _, v in n[2]:
            vfeatures(v, acc)
        for c in n[3]:
            features(c, acc, False)
    elif k == "tag":
        acc.add("tag")
        for c in n[3]:
            features(c, acc, False)
    elif k in ("meta", "dep"):
        acc.add("metadata")
    elif k == "tobj":
        acc.add("tagifiable")
        features(n[1], acc, False)
    elif k == "tobjL":
        acc.add("tagifiable")
    return acc


def vfeatures(v, acc):
    if v[0] == "list":
        for x in v[2]:
            vfeatures(x, acc)
    elif v[0] == "dict":
        for _, x in v[1]:
            vfeatures(x, acc)
    elif v[0] == "node" and v[1][0] != "str":
        acc.add("node-prop")
        features(v[1], acc, False)


def py_metas(n, out=None, expanded=False):
    """independent (Python) reading of the statement: the metadata nodes attached anywhere in a component"""
    out = [] if out is None else out
    k = n[0]
    if k == "comp":
        for _, v in n[2]:
            if v[0] == "node":
                py_metas(v[1], out)
        for c in n[3]:
            py_metas(c, out)
    elif k == "tag":
        for c in n[3]:
            py_metas(c, out)
    elif k in ("meta", "dep"):
        out.append(n)
    elif k == "tobj" and not expanded:
        py_metas(n[1], out, True)
    return out


def to_python(n) -> str:
    """source text building the term with the public API (for replay files)"""
    k = n[0]
    if k == "comp":
        kw = ", ".join([to_python(c) for c in n[3]] + (["**{%s}" % ", ".join("%r: %s" % (key, val_python(v)) for key, v in n[2])] if n[2] else []))
        return "JSXTag(%r%s)" % (n[1], (", " + kw) if kw else "")
    if k == "tag":
        args = [to_python(c) for c in n[3]]
        if n[2]:
            args.append("{%s}" % ", ".join("%r: %s" % (key, ("HTML(%r)" if v[0] == "h" else "%r") % v[1]) for key, v in n[2]))
        return "Tag(%s)" % ", ".join([repr(n[1])] + args)
    if k == "str":
        return {"p": "%r", "j": "jsx(%r)", "h": "HTML(%r)"}[n[1]] % n[2]
    if k == "meta":
        return "Meta(%d)" % n[1]
    if k == "dep":
        d = n[1]
        src = None if d["source"] is None else ({"href": d["source"][1]} if d["source"][0] == "href" else {"subdir": d["source"][2]})
        return "HTMLDependency(%r, %r, source=%r, script=%r, stylesheet=%r)" % (
            d["name"], d["version"], src, [dict(x) for x in d["script"]], [dict(x) for x in d["stylesheet"]])
    if k == "tobj":
        return "TObj(%s)" % to_python(n[1])
    if k == "tobjL":
        return "TObj(TagList(%s))" % ", ".join(to_python(c) for c in n[1])
    raise ValueError(n)


def val_python(v) -> str:
    k = v[0]
    if k == "null":
        return "None"
    if k == "bool":
        return repr(v[1])
    if k == "num":
        return v[1]
    if k == "list":
        xs = ", ".join(val_python(x) for x in v[2])
        return ("(%s,)" % xs if v[2] else "()") if v[1] else "[%s]" % xs
    if k == "dict":
        return "{%s}" % ", ".join("%r: %s" % (key, val_python(x)) for key, x in v[1])
    return to_python(v[1])


PY_PRELUDE = (
    "from htmltools import *\nfrom htmltools._jsx import JSXTag, jsx\n"
    "class TObj:\n    def __init__(self, e): self.e = e\n    def tagify(self): return self.e\n"
    "class Meta(MetadataNode):\n    def __init__(self, n): self.n = n\n"
)


def py_snippet(term) -> str:
    return (PY_PRELUDE + "x = " + to_python(term) + "\n"
            "before = (list(map(id, x.children)), [type(c).__name__ for c in x.children], {k: type(v).__name__ for k, v in x.attrs.items()})\n"
            "x.tagify()\n"
            "after = (list(map(id, x.children)), [type(c).__name__ for c in x.children], {k: type(v).__name__ for k, v in x.attrs.items()})\n"
            "print(before); print(after); assert before == after, 'tagify() changed the component'\n")


# ------------------------------------------------------------------ shrinking a failing tree
def shrink_candidates(n):
    """smaller trees: drop a child / a prop, replace a node by one of its children, recursively"""
    k = n[0]
    if k == "comp":
        name, ps, ks = n[1], n[2], n[3]
        for i in range(len(ks)):
            yield ("comp", name, ps, ks[:i] + ks[i + 1:])
        for i in range(len(ps)):
            yield ("comp", name, ps[:i] + ps[i + 1:], ks)
        for i, c in enumerate(ks):
            for c2 in shrink_candidates(c):
                yield ("comp", name, ps, ks[:i] + [c2] + ks[i + 1:])
            if c[0] == "comp":
                pass
            elif c[0] in ("tag",):
                for g in c[3]:
                    yield ("comp", name, ps, ks[:i] + [g] + ks[i + 1:])
        for i, (key, v) in enumerate(ps):
            if v[0] == "node":
                for c2 in shrink_candidates(v[1]):
                    yield ("comp", name, ps[:i] + [(key, ("node", c2))] + ps[i + 1:], ks)
            elif v[0] in ("list", "dict"):
                yield ("comp", name, ps[:i] + [(key, ("null",))] + ps[i + 1:], ks)
    elif k == "tag":
        for i in range(len(n[3])):
            yield ("tag", n[1], n[2], n[3][:i] + n[3][i + 1:])
        if n[2]:
            yield ("tag", n[1], [], n[3])
        for i, c in enumerate(n[3]):
            for c2 in shrink_candidates(c):
                yield ("tag", n[1], n[2], n[3][:i] + [c2] + n[3][i + 1:])
    elif k == "tobj":
        for c2 in shrink_candidates(n[1]):
            yield ("tobj", c2)
        if n[1][0] != "str":
            yield ("tobj", S("s"))
    elif k == "tobjL":
        for i in range(len(n[1])):
            yield ("tobjL", n[1][:i] + n[1][i + 1:])
    elif k == "dep":
        yield ("meta", 0)
    elif k == "str" and n[2] not in ("s", ""):
        yield ("str", n[1], "s")


def make_shrinker(ck):
    def holds_of(line):
        im = ops.run_line(line)
        h = ck.driver.run([f"holds {PID} {line} | {im}"])[0]
        return im, h

    def shrink(f: core.Failure):
        if ck.driver is None or not f.line.startswith("jsx_tagify "):
            return f
        term = oj.p_jnode(Toks(f.line[len("jsx_tagify "):]))
        clause = f.detail
        best, best_im = term, f.impl
        progress = True
        steps = 0
        while progress and steps < 400:
            progress = False
            for cand in shrink_candidates(best):
                steps += 1
                if cand[0] != "comp":
                    continue
                im, h = holds_of("jsx_tagify " + ejnode(cand))
                if h != "T" and not h.startswith("bad-op") and h.split(":")[0] == clause.split(":")[0]:
                    best, best_im, clause, progress = cand, im, h, True
                    break
        line = "jsx_tagify " + ejnode(best)
        model = ck.driver.run([line])[0]
        return core.Failure("property", line=line, impl=best_im, model=model,
                            detail=clause + " | term: " + repr(best), py=py_snippet(best))
    return shrink


# ------------------------------------------------------------------ case generation
RAW_KEYS = ["class_", "x__", "x_", "x", "a_b", "_", "data_x_", "clAsS_2"]
NAMES = ["Foo", "foo", "a.b", "a.B", "", "a.", "1", "_x", "ß", "ǆ", "é", "É", "lib.comp", "Lib.Comp", "x.Y.z"]


def upper_initial(name: str) -> str:
    return name.split(".")[-1][:1].upper()


def init_lines(rng, n_random):
    lines = []
    vals = [("num", "1"), ("node", S("v")), ("null",)]
    kids_opts = [[], [S("c")], [S("c"), ("tag", "br", [], []), ("comp", "In", [("k", ("bool", True))], [S("d")])]]
    allow_opts = [None, [], ["x"], ["x_", "class_"], ["x", "x_", "x__", "class_", "a_b", "_", "data_x_", "clAsS_2"], ["class"]]
    # every name x one prop
    for nm in NAMES:
        for allowed in (None, ["x"]):
            lines.append(f"jsx_init {es(nm)} {es(upper_initial(nm))} {eallowed(allowed)} {ejprops([('x', vals[0])])} {ejnodes(kids_opts[1])}")
    # all ordered selections of <= 3 raw keys (same normalised name given several times, in every order) x allow-lists
    n_ex = 0
    for r in range(0, 4):
        for keys in itertools.permutations(RAW_KEYS[:6] if r == 3 else RAW_KEYS, r):
            kw = [(k, ("node", S(k))) for k in keys]
            for allowed in (allow_opts if r <= 2 else allow_opts[:1] + allow_opts[3:5]):
                lines.append(f"jsx_init {es('Foo')} {es('F')} {eallowed(allowed)} {ejprops(kw)} {ejnodes(kids_opts[(r + len(keys)) % 3])}")
                n_ex += 1
    for _ in range(n_random):
        nm = rng.choice(NAMES + COMP_NAMES)
        keys = rng.sample(RAW_KEYS + KEY_POOL, rng.choice([0, 1, 2, 3, 4]))
        kw = [(k, rand_val(rng, 2, True, False)) for k in keys if k not in ("_name", "allowedProps")]
        kw = [(k, v) for k, v in kw if val_in_model(v, True, True)]
        allowed = rng.choice([None, None, [], keys, keys[:1], rng.sample(RAW_KEYS, 3)])
        kids = [c for c in (rand_node(rng, 2) for _ in range(rng.choice([0, 1, 2, 4]))) if in_model(c)]
        lines.append(f"jsx_init {es(nm)} {es(upper_initial(nm))} {eallowed(allowed)} {ejprops(kw)} {ejnodes(kids)}")
    return lines, n_ex


def value_lines(rng, tier, n_random):
    lines = []
    # strings: all strings of length <= L over an adversarial alphabet, as str / jsx / HTML prop values
    alpha = ['a', '"', '\\', '\n', "'", ' ']
    L = 4 if tier == "quick" else 5
    n_s = 0
    for l in range(0, L + 1):
        for tup in itertools.product(alpha, repeat=l):
            s = "".join(tup)
            lines.append("jsx_attr " + ejval(("node", S(s))))
            n_s += 1
            if l <= 3:
                lines.append("jsx_attr " + ejval(("node", S(s, "j"))))
                lines.append("jsx_attr " + ejval(("node", S(s, "h"))))
    # style strings: all strings of length <= M over {a, b, :, ;, space, "}
    salpha = ['a', 'b', ':', ';', ' ', '"']
    M = 5 if tier == "quick" else 6
    n_st = 0
    for l in range(0, M + 1):
        for tup in itertools.product(salpha, repeat=l):
            lines.append("jsx_style " + ejval(("node", S("".join(tup)))))
            n_st += 1
    for v in [("null",), ("bool", True), ("num", "3"), ("list", False, []), ("dict", []), ("dict", [("a", ("list", False, [("num", "1"), ("dict", [("b", ("null",))])]))]),
              ("node", S("a:b", "j")), ("node", S("a:b", "h")), ("node", ("tag", "div", [], [])), ("node", ("comp", "Foo", [], []))]:
        lines.append("jsx_style " + ejval(v))
        lines.append("jsx_attr " + ejval(v))
    for _ in range(n_random):
        v = rand_val(rng, 3, False, False)
        if val_in_model(v, False, False):
            lines.append("jsx_attr " + ejval(v))
    return lines, n_s, n_st


def render_lines(rng, n_random):
    lines = []
    for _ in range(n_random):
        x = rand_node(rng, rng.randint(1, 4), ok_only=rng.random() < 0.7)
        if not in_model(x, False):
            continue
        lines.append(f"jsx_render {ejnode(x)} {rng.choice([0, 0, 1, 2, 5])} {es(rng.choice([chr(10), chr(10), '', '<!>', chr(13) + chr(10), ' ']))}")
    return lines


class ParallelDriver(core.Driver):
    """the same driver executable, several processes: answers are per line, so chunks are independent"""

    def run(self, lines):
        if len(lines) < 8000:
            return super().run(lines)
        from concurrent.futures import ThreadPoolExecutor
        n = max(1, min(8, (os.cpu_count() or 2) // 2))
        size = (len(lines) + n - 1) // n
        chunks = [lines[i:i + size] for i in range(0, len(lines), size)]
        single = super().run
        with ThreadPoolExecutor(n) as ex:
            parts = list(ex.map(single, chunks))
        return [x for p in parts for x in p]


def run(tier: str) -> int:
    ck = core.Check(PID, tier, PROP_FILES)
    import time
    t_0 = time.time()

    def lap(what):
        if os.environ.get("VERIF_TIMING"):
            print(f"[timing] {what}: {time.time() - t_0:.1f}s", flush=True)

    ck.prepare()
    lap("prepare")
    if ck.driver is not None:
        ck.driver = ParallelDriver()
    rng = ck.rng
    ck.rule = ("a case is one component tree taken through 4 tagify()/str() calls (jsx_tagify), one construction (jsx_init), or one call "
               "of _render_react_js/_serialize_attr/_serialize_style_attr; a jsx_tagify case is non-trivial when the tree contains a "
               "tagifiable object, a nested tag/component, a metadata node or a tag/component prop value; distinct by wire term")
    ck.assumptions += [
        "input trees are alias-free (no object occurs at two positions); tagifiable helper objects return a stored expansion",
        "prop names are stored names (normalised: no underscore); raw keyword names are exercised through jsx_init",
        "numbers are passed as their str() text; str.upper() of the name's initial is computed by the interpreter and passed in",
        "metadata nodes / un-expanded tagifiable objects / TagLists in prop-value position inside lists or dicts (written as a "
        "runtime repr by _serialize_attr) are outside the model and are not generated",
    ]
    lines, nontriv, tags = [], [], []

    def push(l, nt, tag):
        lines.append(l)
        nontriv.append(nt)
        tags.append(tag)

    # 0. corpus: the F-C20 witness of DESIGN §7 and the shapes of tests/test_jsx_tags.py
    corpus = [
        ("comp", "Foo", [("p", ("node", ("tobj", ("tag", "span", [], []))))], [("tobj", ("tag", "span", [], []))]),
        ("comp", "Foo", [], [("tag", "div", [], [("tobj", ("dep", DEP_A)), ("tobj", ("tag", "span", [], [S("Hello"), ("comp", "Foo", [], [S("world")]), ("dep", DEP_B)]))])]),
        ("comp", "Foo", [("int", ("num", "1")), ("float", ("num", "2.0")), ("bool", ("bool", True)), ("None", ("null",)), ("string", ("node", S("string"))),
                         ("list", ("list", False, [("num", "1"), ("num", "2"), ("num", "3")]))],
         [("tag", "span", [], []), S("childtext"), S("`childexpression`", "j"), ("comp", "Foo", [], []), ("comp", "Bar", [], []),
          ("tag", "span", [], [("comp", "Foo", [], [("tag", "span", [], [])]), ("comp", "Bar", [], [])])]),
        ("comp", "Foo", [("htmlTag", ("list", False, [("node", ("tag", "div", [], [])), ("node", ("tag", "div", [("foo", ("p", "1"))], []))]))], []),
        ("comp", "Foo", [("func", ("node", S("() => console.log('foo')", "j"))), ("style", ("dict", [("margin", ("node", S("1rem")))]))],
         [("tag", "div", [("style", ("p", "color:red;"))], [])]),
        ("comp", "Foo", [], [("comp", "Bar", [], [("tobj", ("comp", "Baz", [("q", ("node", ("tobj", ("tag", "i", [], [("meta", 4)]))))], [("tobj", ("meta", 1))]))])]),
        ("comp", "Foo", [], [("tobjL", [S("a")])]),
        ("comp", "Foo", [], [("tobj", ("tobj", S("z")))]),
    ]
    for t in corpus:
        push("jsx_tagify " + ejnode(t), True, "corpus")
    push("jsx_libfiles", True, "libfiles")

    # 1. exhaustive small scopes (three alphabets: the richer the alphabet, the smaller the bound)
    scopes = [("full", 3), ("core", 4), ("mini", 6)] if tier == "quick" else [("full", 4), ("core", 6)]
    descr = {
        "full": "2 component names x 2 tags (one with style/id attributes) x 5 leaf kinds (str, jsx, HTML, bare metadata node, dependency) x "
                "tagifiable objects (single expansion of any kind; TagList expansion) as children at every depth, and props with "
                "null/bool/number/str/jsx/list/tuple/dict/tag/component/tagifiable values and two style values, nested at every depth",
        "core": "1 component name x 1 tag x 2 leaf kinds (str with a quote, dependency) x tagifiable objects x props with "
                "number/list/dict/tag/component/tagifiable values, at every depth",
        "mini": "1 component name x 1 tag x dependency leaves x tagifiable objects x props with list/tag/component/tagifiable values, "
                "at every depth",
    }
    seen = set()
    for level, bound in scopes:
        n_sc = 0
        for t in enumerate_components(bound, level):
            if not in_model(t):
                continue
            l = "jsx_tagify " + ejnode(t)
            if l in seen:
                continue
            seen.add(l)
            push(l, bool(features(t)), "exhaustive-" + level)
            n_sc += 1
        ck.exhaustive_scopes.append({"scope": f"all component trees with <= {bound} units over " + descr[level], "trees": n_sc,
                                     "exhaustive": True})
    del seen

    # 2. random large trees
    for _ in range(ck.budget(2500, 60000)):
        ok_only = rng.random() < 0.75
        t = rand_comp(rng, rng.randint(1, 5), ok_only)
        while not in_model(t):
            t = rand_comp(rng, rng.randint(1, 5), ok_only)
        push("jsx_tagify " + ejnode(t), bool(features(t)), "random-ok" if ok_only else "random-any")

    # 3. construction: name rule, allow-list, normalised names, children however added
    il, n_init = init_lines(rng, ck.budget(400, 8000))
    for l in il:
        push(l, True, "init")
    ck.exhaustive_scopes.append({"scope": "jsx_init: 15 names x {no allow-list, ['x']}; every ordered selection of <= 3 of 8 raw keyword names "
                                          "(trailing/inner underscores, several spellings of one normalised name) x 6 allow-lists x 3 child lists",
                                 "cases": n_init + 2 * len(NAMES), "exhaustive": True})

    # 4. values, strings, style strings; direct renderer calls
    vl, n_s, n_st = value_lines(rng, tier, ck.budget(400, 8000))
    for l in vl:
        push(l, True, l.split(" ", 1)[0])
    ck.exhaustive_scopes.append({"scope": "_serialize_attr on every string of length <= %d over {a, \", \\, LF, ', space} (str; jsx and HTML up to 3); "
                                          "_serialize_style_attr on every string of length <= %d over {a, b, :, ;, space, \"}" % (4 if tier == "quick" else 5, 5 if tier == "quick" else 6),
                                 "strings": n_s, "style_strings": n_st, "exhaustive": True})
    for l in render_lines(rng, ck.budget(600, 12000)):
        push(l, True, "jsx_render")

    lap("generate")
    impl = core.impl_many(lines)
    lap("impl")
    for l, im, nt, tg in zip(lines, impl, nontriv, tags):
        ck.add(l, im, nontrivial=nt, tag=tg)

    # Python-side oracles, independent of the Lean definitions
    pkg_dir = os.path.join(core.REPO, "htmltools", "lib")
    for pkg, fn in (("react", "react.production.min.js"), ("react-dom", "react-dom.production.min.js")):
        if not os.path.isfile(os.path.join(pkg_dir, pkg, fn)):
            ck.py_violation("jsx_libfiles", impl[lines.index("jsx_libfiles")], f"{pkg}/{fn} is missing from the package directory {pkg_dir}")
    n_or = 0
    for l, im in zip(lines, impl):
        if not l.startswith("jsx_tagify ") or not im.startswith("ok "):
            continue
        n_or += 1
        if n_or > (3000 if tier == "quick" else 30000):
            break
        term = oj.p_jnode(Toks(l[len("jsx_tagify "):]))
        want = [("meta", m[1]) if m[0] == "meta" else ("dep", m[1]["name"], m[1]["version"]) for m in py_metas(term)]
        t = Toks(im)
        t.next(); t.next()
        from wire import p_node
        res = p_node(t)
        got = [("meta", c[1]) if c[0] == "meta" else ("dep", c[1]["name"], c[1]["version"]) for c in res[4] if c[0] in ("meta", "dep")]
        if got[2:] != want or [g[1] for g in got[:2]] != ["react", "react-dom"]:
            ck.py_violation(l, im, f"metadata on the script tag {got} != react, react-dom + attached {want}", py=py_snippet(term))
    ck.extra_cov["python_oracle_cases"] = n_or
    lap("oracle")
    ck.correspond(holds=True)
    lap("correspond")
    return ck.finish(shrink=make_shrinker(ck))


# ------------------------------------------------------------------ the modelled domain
def in_model(n, walked=True) -> bool:
    """False for trees on which `_serialize_attr` would write the runtime repr of an object (a metadata node, an
    un-expanded tagifiable object or a TagList in prop-value position): positions inside list/dict values are not walked."""
    k = n[0]
    if k == "comp":
        if len({key for key, _ in n[2]}) != len(n[2]):
            return False
        for _, v in n[2]:
            if not val_in_model(v, walked, True):
                return False
        return all(in_model(c, walked) for c in n[3])
    if k == "tag":
        return all(in_model(c, walked) for c in n[3])
    if k == "tobj":
        return in_model(n[1], walked)
    if k == "tobjL":
        return all(in_model(c, False) for c in n[1])
    return True


def val_in_model(v, walked, top) -> bool:
    k = v[0]
    if k == "list":
        return all(val_in_model(x, False, False) for x in v[2])
    if k == "dict":
        return len({key for key, _ in v[1]}) == len(v[1]) and all(val_in_model(x, False, False) for _, x in v[1])
    if k == "node":
        x = v[1]
        if x[0] in ("meta", "dep", "tobjL"):
            return False
        if x[0] == "tobj":
            return walked and top and x[1][0] in ("comp", "tag", "str") and in_model(x[1], walked)
        return in_model(x, walked and top)
    return True
