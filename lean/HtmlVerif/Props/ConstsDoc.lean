/- Constants tie, documents (obligations of C11): doctype, listing script, charset, render defaults. -/
import HtmlVerif.Lemmas.ConstTie
import HtmlVerif.Model.Document

namespace HtmlVerif.ConstsDoc
open HtmlVerif HtmlVerif.Generated HtmlVerif.ConstTie

theorem doc_literals :
    (strIs doctypeLit Doc.doctype
      && strIs listingTypeDoc (plainAttr ['t', 'y', 'p', 'e'] (Doc.listingNode []))
      && strIs listingSepDoc [';']
      && strIs charsetLit (plainAttr ['c', 'h', 'a', 'r', 's', 'e', 't'] Doc.metaCharset)) = true := by decide +kernel

theorem doc_defaults :
    (dfltStr dDocLibPrefix (some ['l', 'i', 'b']) && dfltBool dDocInclVersion true && dfltBool dDedup true) = true := by
  decide +kernel

end HtmlVerif.ConstsDoc
