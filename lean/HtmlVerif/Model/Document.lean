/-
HTMLDocument (htmltools/_core.py):

  __init__ / append          1064-1091   (`docInit`, `docAppend`: the stored `_content` TagList)
  render                     1093-1110   (`docRender`)
  _gen_html_tag_tree         1146-1179   (`genTree`: sole `<html>` / sole `<body>` / wrap in `<body>`)
  _hoist_head_content        1184-1229   (`headIndex`, `hoistHead`, `listing`, `depTagsAll`, `hoist`)
  Tag.render                 918-924     (`cp = self.tagify(); deps = cp.get_dependencies(); html = cp.get_html_string()`)

Builds on `Model/Tagify.lean` (`tagifyTag`), `Model/Deps.lean` (`Node.getDeps`, `resolve`), `Model/Attrs.lean`
(`attrsUpdate`, `tagInitAttrs`), `Model/DepTags.lean` (`asHtmlTags`), `Model/Render.lean`.

Where the pinned code deviates from the property the model follows the property:
  * F-C08a — in the sole-`<html>` case the code calls `html.attrs.update(**kw)` on the *user's* tag before
    copying it.  `render()` is a read-only operation (C08/C11): the model returns the stored content after the
    call alongside the result, and returns it unchanged.  The markup is not affected by the deviation.
The returned dependency list is modelled as the code computes it (recomputed from the hoisted tree); that it
equals the resolved list only when no dependency's head contains a dependency is F-C11 (`Props/C11.lean`).
-/
import HtmlVerif.Model.Tagify
import HtmlVerif.Model.Deps
import HtmlVerif.Model.DepTags

namespace HtmlVerif.Doc
open HtmlVerif

def nHtml : Str := ['h', 't', 'm', 'l']
def nHead : Str := ['h', 'e', 'a', 'd']
def nBody : Str := ['b', 'o', 'd', 'y']

/-- `"<!DOCTYPE html>\n"` -/
def doctype : Str := ['<', '!', 'D', 'O', 'C', 'T', 'Y', 'P', 'E', ' ', 'h', 't', 'm', 'l', '>', '\n']

/-- `Tag("meta", charset="utf-8")` -/
def metaCharset : Node :=
  .tag nMeta true [(['c', 'h', 'a', 'r', 's', 'e', 't'], .plain ['u', 't', 'f', '-', '8'])] .nil

/-- `Tag("head")` -/
def emptyHead : Node := .tag nHead true [] .nil

/-- `isinstance(x, Tag) and x.name == nm` -/
def isTagNamed (nm : Str) : Node → Bool
  | .tag n _ _ _ => n == nm
  | _ => false

/-! ### the stored content -/

/-- `HTMLDocument(*args, **kwargs)`: `self._content = TagList(*args)` (the arguments arrive flattened) -/
def docInit (args : Nodes) : Nodes := args

/-- `doc.append(*args)`: `self._content.append(*args)` -/
def docAppend (content args : Nodes) : Nodes := content ++ args

/-- the content after construction followed by any number of `append` calls -/
def docContent (args : Nodes) (later : List Nodes) : Nodes := later.foldl docAppend (docInit args)

/-! ### `_gen_html_tag_tree`, up to the call of `_hoist_head_content` -/

/-- `html.attrs.update(**self._html_attr_args)`: with no keyword arguments nothing is passed on -/
def updateKw (cfg : Cfg) (cur : Attrs) (kw : List (Str × AttrArg)) : Except Err Attrs :=
  attrsUpdate cfg cur (if kw.isEmpty then [] else [kw])

/-- `Tag("html", Tag("head"), body, _add_ws=True, **self._html_attr_args)` -/
def wrapHtml (cfg : Cfg) (body : Node) (kw : List (Str × AttrArg)) : Except Err Node :=
  match tagInitAttrs cfg [] kw with
  | .error e => .error e
  | .ok a => .ok (.tag nHtml true a (.cons emptyHead (.cons body .nil)))

/-- The `<html>` tag handed to `_hoist_head_content`, and `self._content` after the call.
    `len(content) == 1` counts every stored node (metadata nodes too); the test is on the stored,
    un-expanded content.  Sole `<html>`: its attributes updated with the keyword arguments, then `tagify()`;
    sole `<body>`: that tag, tagified, under a new `<html>` after an empty `<head>`; otherwise
    `Tag("body", content)` in that place.  The content itself is returned unchanged (see the header: F-C08a). -/
def genTree (cfg : Cfg) (content : Nodes) (kw : List (Str × AttrArg)) : Except Err (Node × Nodes) :=
  match content with
  | .cons (.tag n w a kids) .nil =>
    if n = nHtml then
      match updateKw cfg a kw with
      | .error e => .error e
      | .ok a' => .ok (tagifyTag (.tag n w a' kids), content)
    else
      let body : Node := if n = nBody then .tag n w a kids else .tag nBody true [] content
      match wrapHtml cfg (tagifyTag body) kw with
      | .error e => .error e
      | .ok h => .ok (h, content)
  | _ =>
    match wrapHtml cfg (tagifyTag (.tag nBody true [] content)) kw with
    | .error e => .error e
    | .ok h => .ok (h, content)

/-! ### `_hoist_head_content` -/

/-- `for i, child in enumerate(res.children): if isinstance(child, Tag) and child.name == "head": head_index = i; break` -/
def headIndex : Nodes → Option Nat
  | .nil => none
  | .cons h t => if isTagNamed nHead h then some 0 else (headIndex t).map (· + 1)

/-- `children[i] = f(children[i])` -/
def modifyAt (f : Node → Node) : Nodes → Nat → Nodes
  | .nil, _ => .nil
  | .cons h t, 0 => .cons (f h) t
  | .cons h t, i + 1 => .cons h (modifyAt f t i)

/-- `";".join([d.name + "[" + str(d.version) + "]" for d in deps])` -/
def listingText (deps : List Node) : Str :=
  joinStr [';'] (deps.map fun d =>
    match d with
    | .dep i _ _ => i.name ++ '[' :: i.version ++ [']']
    | _ => [])

/-- `Tag("script", listing, type="application/html-dependencies")` -/
def listingNode (deps : List Node) : Node :=
  .tag nScript true
    [(['t', 'y', 'p', 'e'], .plain ['a', 'p', 'p', 'l', 'i', 'c', 'a', 't', 'i', 'o', 'n', '/', 'h', 't', 'm', 'l', '-',
      'd', 'e', 'p', 'e', 'n', 'd', 'e', 'n', 'c', 'i', 'e', 's'])]
    (.cons (.text (listingText deps)) .nil)

/-- `if len(deps) > 0: head.append(listing script)` -/
def listing (deps : List Node) : Nodes :=
  if deps.isEmpty then .nil else .cons (listingNode deps) .nil

/-- `d.as_html_tags(lib_prefix=…, include_version=…)` for a node that is a dependency -/
def depTags (cfg : Cfg) (lp : Option Str) (iv : Bool) : Node → Except Err Nodes
  | .dep d hh hd => asHtmlTags cfg d hh hd lp iv
  | _ => .ok .nil

/-- `[d.as_html_tags(…) for d in deps]`, flattened by `head.extend(…)`; the first failure propagates -/
def depTagsAll (cfg : Cfg) (lp : Option Str) (iv : Bool) : List Node → Except Err Nodes
  | [] => .ok .nil
  | d :: r =>
    match depTags cfg lp iv d with
    | .error e => .error e
    | .ok ts =>
      match depTagsAll cfg lp iv r with
      | .error e => .error e
      | .ok rs => .ok (ts ++ rs)

/-- the copied head: `head.insert(0, meta charset)`, then `extra` (listing and dependency tags) at the end -/
def hoistHead (extra : Nodes) : Node → Node
  | .tag n w a kids => .tag n w a (.cons metaCharset (kids ++ extra))
  | x => x

/-- `HTMLDocument._hoist_head_content(x, lib_prefix, include_version)` -/
def hoist (cfg : Cfg) (x : Node) (lp : Option Str) (iv : Bool) : Except Err Node :=
  match x with
  | .tag n w a kids =>
    if n ≠ nHtml then .error .valueError else
    -- first direct `head` child, or a new one inserted at index 0
    let kids1 := match headIndex kids with
      | some _ => kids
      | none => Nodes.cons emptyHead kids           -- `res.insert(0, Tag("head")); head_index = 0`
    let i := (headIndex kids).getD 0
    let deps := x.getDeps true                       -- `x.get_dependencies()`
    match depTagsAll cfg lp iv deps with
    | .error e => .error e
    | .ok tags => .ok (.tag n w a (modifyAt (hoistHead (listing deps ++ tags)) kids1 i))
  | _ => .error .valueError

/-- `HTMLDocument._gen_html_tag_tree(lib_prefix, include_version)` and the content afterwards -/
def genHtmlTagTree (cfg : Cfg) (content : Nodes) (kw : List (Str × AttrArg)) (lp : Option Str) (iv : Bool) :
    Except Err (Node × Nodes) :=
  match genTree cfg content kw with
  | .error e => .error e
  | .ok (x, after) =>
    match hoist cfg x lp iv with
    | .error e => .error e
    | .ok t => .ok (t, after)

/-- the tree whose markup is the document: `html_.render()` starts with `cp = self.tagify()` (this expands
    whatever objects hoisted dependency heads still hold) -/
def docTree (cfg : Cfg) (content : Nodes) (kw : List (Str × AttrArg)) (lp : Option Str) (iv : Bool) :
    Except Err Node :=
  match genHtmlTagTree cfg content kw lp iv with
  | .error e => .error e
  | .ok (t, _) => .ok (tagifyTag t)

/-- what `HTMLDocument.render()` returns, and the stored content after the call -/
structure DocRendered where
  html  : Str
  deps  : List Node
  after : Nodes

/-- `HTMLDocument(*content, **kw).render(lib_prefix=lp, include_version=iv)` -/
def docRender (cfg : Cfg) (content : Nodes) (kw : List (Str × AttrArg)) (lp : Option Str) (iv : Bool) :
    Except Err DocRendered :=
  match genHtmlTagTree cfg content kw lp iv with
  | .error e => .error e
  | .ok (t, after) =>
    let cp := tagifyTag t                             -- Tag.render: `cp = self.tagify()`
    let deps := cp.getDeps true                       -- `deps = cp.get_dependencies()`
    match renderTagChecked cfg cp 0 ['\n'] with       -- `html = cp.get_html_string()`
    | .error e => .error e
    | .ok s => .ok { html := doctype ++ s, deps := deps, after := after }

end HtmlVerif.Doc
