"""Implementation side of the source tie for C16 (DESIGN §14): the real `Tag.has_class` / `add_class` / `add_style` /
`remove_class` and `css` on the realised values, for the ops `src` (ops_src.py) and `srcc16`.

  srcc16 <ws> [ (<str> <lower>)… ] <function> [ <pval>… ]

is `src <function> [ … ]` for this side: the whitespace table and the lower-casing table are what the *Lean* side needs
(the real `str.split()` / `str.lower()` need neither)."""
from __future__ import annotations

import ops_src
from ops import op
from wire import Toks, es


def _self_or(recv, r):
    """the mutating helpers return the receiver itself; anything else is reported as a different answer"""
    return r if r is recv else ("not-self", r)


def _css(a):
    import htmltools
    return htmltools.css(a[0], **a[1])


ops_src.CALLS["Tag_has_class"] = lambda a: a[0].has_class(a[1])
ops_src.CALLS["Tag_add_class"] = lambda a: _self_or(a[0], a[0].add_class(a[1], prepend=a[2]))
ops_src.CALLS["Tag_add_style"] = lambda a: _self_or(a[0], a[0].add_style(a[1], prepend=a[2]))
ops_src.CALLS["Tag_remove_class"] = lambda a: _self_or(a[0], a[0].remove_class(a[1]))
ops_src.CALLS["util_css"] = _css


def _encode(v, enc):
    """a Tag / TagList as the `__dict__` the translated methods see (fields in the order of `embNode`)"""
    import htmltools
    if type(v) is htmltools.Tag:
        return (f"O Tag [ name {enc(v.name)} attrs {enc(dict(v.attrs))} children {enc(v.children)} "
                f"add_ws {enc(v.add_ws)} ]")
    if type(v) is htmltools.TagList:
        return f"O TagList [ data {enc(list(v.data))} ]"
    return None


ops_src.ENCODE.append(_encode)


@op("srcc16")
def _srcc16(t: Toks) -> str:
    t.next()                      # <ws>
    assert t.next() == "["        # lower-casing table
    while t.peek() != "]":
        t.next()
    t.next()
    return ops_src._src(t)
