/-
Facts about the primitives of the Python fragment (Py/Prim.lean) on the argument shapes the tie
theorems (Props/Src*.lean) meet.
-/
import HtmlVerif.Py.Prim
import HtmlVerif.Lemmas.Escape

namespace HtmlVerif.Py
open HtmlVerif

/-! ### the exception monad, without unfolding `bind` under binders -/

@[simp] theorem ok_bind {α β} (a : α) (f : α → PyM β) : ((Except.ok a : PyM α) >>= f) = f a := rfl
@[simp] theorem error_bind {α β} (e : PyErr) (f : α → PyM β) : ((Except.error e : PyM α) >>= f) = Except.error e := rfl
@[simp] theorem pure_eq_ok {α} (a : α) : (pure a : PyM α) = Except.ok a := rfl
@[simp] theorem throw_eq_error {α} (e : PyErr) : (throw e : PyM α) = Except.error e := rfl
@[simp] theorem map_ok {α β} (f : α → β) (a : α) : (f <$> (Except.ok a : PyM α)) = Except.ok (f a) := rfl
@[simp] theorem map_error {α β} (f : α → β) (e : PyErr) : (f <$> (Except.error e : PyM α)) = Except.error e := rfl

/-! ### primitives on the shapes that occur -/

@[simp] theorem pyUnpack2_tuple (a b : PVal) : pyUnpack2 (.tuple [a, b]) = .ok (a, b) := rfl
@[simp] theorem pyReplace_str (s v : Str) (k : Char) :
    pyReplace (.str s) (.str [k]) (.str v) = .ok (.str (replaceChar k v s)) := rfl
@[simp] theorem pyItems_dict (kvs : List (Str × PVal)) :
    pyItems (.dict kvs) = .ok (.list (kvs.map fun kv => .tuple [.str kv.1, kv.2])) := rfl
@[simp] theorem pyIter_list (xs : List PVal) : pyIter (.list xs) = .ok xs := rfl
@[simp] theorem pyIter_tuple (xs : List PVal) : pyIter (.tuple xs) = .ok xs := rfl
@[simp] theorem truthy_bool (b : Bool) : truthy (.bool b) = b := rfl
/-- `if xs:` / `if not xs:` on a list (not a simp lemma by default: proofs that want it name it) -/
theorem truthy_list (xs : List PVal) : truthy (.list xs) = !xs.isEmpty := rfl
theorem truthy_tuple (xs : List PVal) : truthy (.tuple xs) = !xs.isEmpty := rfl
theorem truthy_str (s : Str) : truthy (.str s) = !s.isEmpty := rfl
@[simp] theorem pyStr_str (s : Str) : pyStr (.str s) = .ok (.str s) := rfl
@[simp] theorem pyStr_html (s : Str) : pyStr (.html s) = .ok (.str s) := rfl
@[simp] theorem mkHTML_str (s : Str) : mkHTML (.str s) = .ok (.html s) := rfl
@[simp] theorem pyAddBase_str (a b : Str) : pyAddBase (.str a) (.str b) = .ok (.str (a ++ b)) := rfl
@[simp] theorem pyGetAttr_html_data (s : Str) : pyGetAttr (.html s) "data" = .ok (.str s) := rfl

/-- the keys of a table are usable as a `re` alternation of literals -/
def keysPlain (t : List (Char × Str)) : Bool := t.all fun kv => !reSpecial kv.1

theorem strsOf_map_str (l : List Str) : strsOf (l.map PVal.str) = .ok l := by
  induction l with
  | nil => rfl
  | cons a t ih => simp [strsOf, ih]

theorem pyJoin_tbl (sep : Str) (t : List (Char × Str)) :
    pyJoin (.str sep) (embTbl t) = .ok (.str (joinStr sep (t.map fun kv => [kv.1]))) := by
  have : (t.map fun kv : Char × Str => ([kv.1], PVal.str kv.2)).map (fun kv => PVal.str kv.1)
      = (t.map fun kv => [kv.1]).map PVal.str := by simp
  simp only [pyJoin, embTbl, pyIter, this, bind, Except.bind, pure, Except.pure, strsOf_map_str]

theorem altChars_join (t : List (Char × Str)) (h : keysPlain t = true) (hne : t ≠ []) :
    altChars (joinStr ['|'] (t.map fun kv => [kv.1])) = some (t.map (·.1)) := by
  induction t with
  | nil => exact absurd rfl hne
  | cons a r ih =>
    have ha : reSpecial a.1 = false := by simp [keysPlain] at h; exact h.1
    cases r with
    | nil => simp [joinStr, altChars, ha]
    | cons b r' =>
      have hr : keysPlain (b :: r') = true := by simp [keysPlain] at h ⊢; exact h.2
      have := ih hr (by simp)
      simp only [List.map_cons, joinStr] at this ⊢
      simp [altChars, ha, this]

theorem reSearch_tbl (t : List (Char × Str)) (h : keysPlain t = true) (s : Str) :
    reSearch (.str (joinStr ['|'] (t.map fun kv => [kv.1]))) (.str s)
      = .ok (.bool (if t = [] then true else needsEscape t s)) := by
  cases t with
  | nil => simp [reSearch, joinStr, pure, Except.pure]
  | cons a r =>
    have hj : (joinStr ['|'] ((a :: r).map fun kv => [kv.1])).isEmpty = false := by
      cases r <;> simp [joinStr]
    have := altChars_join (a :: r) h (by simp)
    simp only [reSearch, hj, this, pure, Except.pure]
    have e : ∀ (l : List (Char × Str)) (c : Char), (l.map (·.1)).contains c = l.any fun kv => kv.1 == c := by
      intro l c; induction l with
      | nil => rfl
      | cons x xs ih =>
        rw [List.map_cons, List.contains_cons, ih, List.any_cons, Bool.beq_comm]
    have e' : (fun c => ((a :: r).map (·.1)).contains c) = fun c => (a :: r).any fun kv => kv.1 == c :=
      funext (e _)
    rw [e']
    simp [needsEscape]

end HtmlVerif.Py
