/-
Helper lemmas for the source tie of `Tag/TagList.render`, the string views and `head_content` (Props/SrcC18.lean).

`render()` calls three translated callees — `tagify` (tied in Props/SrcC09.lean, for the embedding `embT tv`),
`get_dependencies` (Props/SrcC10.lean, `embT tv`) and `get_html_string` (Props/SrcRender.lean, `embNode`).  The two
embeddings differ: `embNode` records of a dependency its name only and calls a foreign tagifiable object `TagifiableObj`;
`embT` records name / version / meta and the value `tagify()` returns.  The string views need still more of a dependency
(what `serialize_to_script_json()` returns).  So the three ties are stated here once for a family of embeddings that
carries everything:

    embC18 xf tv   --  `embT tv` whose dependency objects have the additional fields `xf d hh hd`

(`XfOkC18 xf`: the additional fields bring no `__copy__` / `tagify` of their own).  `embC18 (fun _ _ _ => []) tv = embT tv`
(`embC18_nil`), so the theorems of Props/SrcC09.lean and Props/SrcC10.lean are instances, and the renderer's tie is
transported from `embNode` to the richer embedding.

The loop lemmas of Lemmas/SrcRender.lean / SrcC10.lean / SrcC09.lean are restated for an arbitrary embedding `E`
(their proofs never look into it).
-/
import HtmlVerif.Lemmas.SrcC09
import HtmlVerif.Props.SrcEscape

set_option linter.unusedVariables false
set_option linter.unusedSimpArgs false

namespace HtmlVerif.SrcTie
open HtmlVerif HtmlVerif.Py HtmlVerif.Generated.Src

/-! ## the loop lemmas, for an arbitrary embedding of nodes -/

/-- `child_loop` (Lemmas/SrcRender.lean) for any embedding -/
theorem child_loop_C18 {ρ : Type} (E : Node → PVal) (cfg : Cfg) (ks : Nodes) (i : Nat) (eol : Str) (aw esc : Bool) (r0 : ρ)
    (f : PVal → PVal × PVal × PVal × ρ → PyM (ForInStep (PVal × PVal × PVal × ρ)))
    (hstep : ∀ c ∈ ks.toList, ∀ s b, RKS s b →
      Sim (fun (r : ForInStep _) b' => ∃ s', r = .yield s' ∧ RKS s' b') embErr (f (E c) s) (kidStep cfg i eol esc c b)) :
    (do
      let s ← forIn (ks.toList.map E) (PVal.str [], PVal.bool true, PVal.bool aw, r0) f
      Except.ok s.1 : PyM PVal)
      = if ks.hasTobjKids then .error .runtimeError else .ok (.str (renderList cfg ks i eol aw esc)) := by
  have sim := forIn_sim (RKS (ρ := ρ)) embErr E ks.toList f (fun c b => kidStep cfg i eol esc c b)
    (PVal.str [], PVal.bool true, PVal.bool aw, r0) ⟨[], true, aw⟩ ⟨rfl, rfl, rfl⟩ hstep
  have kf := kids_fold cfg i eol esc ks ⟨[], true, aw⟩
  generalize List.foldlM (fun b c => kidStep cfg i eol esc c b) ({ acc := [], first := true, prev := aw } : KS) ks.toList = y at sim kf
  cases y with
  | error e =>
    simp only [Sim] at sim
    rw [sim]
    by_cases hk : ks.hasTobjKids = true
    · simp only [hk, if_true, Except.map] at kf ⊢
      cases kf; rfl
    · simp [hk, Except.map] at kf
  | ok b =>
    obtain ⟨s, hs, hR⟩ := sim
    rw [hs]
    by_cases hk : ks.hasTobjKids = true
    · simp [hk, Except.map] at kf
    · simp only [hk, Bool.false_eq_true, if_false, Except.map, List.nil_append] at kf ⊢
      have kf' : b.acc = ks.renderKids cfg i eol true aw esc := by injection kf
      simp [hR.1, renderList, kf']

/-- `vis_loop` (Lemmas/SrcRender.lean) for any embedding -/
theorem vis_loop_C18 (E : Node → PVal) (ks : Nodes) (f : PVal → List PVal → PyM (ForInStep (List PVal)))
    (hstep : ∀ c ∈ ks.toList, ∀ s, f (E c) s = .ok (.yield (if c.isMeta then s else s ++ [E c]))) :
    forIn (ks.toList.map E) ([] : List PVal) f = .ok (ks.visible.map E) := by
  have sim := forIn_sim (fun (s : List PVal) (b : List Node) => s = b.map E) embErr E ks.toList f
    (fun c b => .ok (if c.isMeta then b else b ++ [c])) [] [] rfl
    (by
      intro c hc s b hR
      subst hR
      refine ⟨_, hstep c hc _, _, rfl, ?_⟩
      by_cases h : c.isMeta = true <;> simp [h])
  rw [visible_fold] at sim
  obtain ⟨s, hs, hR⟩ := sim
  rw [hs, hR, visible_eq_filter]
  simp

/-- `deps_loop_k` (Lemmas/SrcC10.lean) for any embedding -/
theorem deps_loop_k_C18 {β σ : Type} (E : Node → PVal) (get : σ → PVal) (ks : Nodes)
    (init : σ) (hinit : get init = .list [])
    (f : PVal → σ → PyM (ForInStep σ))
    (hstep : ∀ c ∈ ks.toList, ∀ (s : σ) (b : List Node), get s = .list (b.map E) →
      ∃ s', f (E c) s = .ok (.yield s') ∧ get s' = .list ((depsStep b c).map E))
    (k : σ → PyM β) (r : PyM β)
    (hk : ∀ s, get s = .list (ks.collect.map E) → k s = r) :
    (forIn (ks.toList.map E) init f >>= k) = r := by
  have sim := forIn_sim (fun (s : σ) (b : List Node) => get s = .list (b.map E)) embErr E ks.toList f
    (fun c b => .ok (depsStep b c)) init [] (by simpa using hinit)
    (by
      intro c hc s b hR
      obtain ⟨s', h1, h2⟩ := hstep c hc s b hR
      exact ⟨_, h1, s', rfl, h2⟩)
  rw [foldlM_ok depsStep, deps_fold] at sim
  obtain ⟨s, hs, hR⟩ := sim
  rw [hs, ok_bind]
  exact hk s (by simpa using hR)

/-- `tagify_loop_aux` (Lemmas/SrcC09.lean) for any embedding -/
theorem tagify_loop_aux_C18 {σ : Type} (E : Node → PVal) (get : σ → PVal) (tf : Node → TagifyResult) (orig : List Node)
    (f : PVal → σ → PyM (ForInStep σ))
    (hstep : ∀ (pre : List Node) (c : Node) (post : List Node) (s : σ), c ∈ orig →
      get s = tagListOf ((pre ++ c :: post).map E) →
      ∃ s', f (.int pre.length) s = .ok (.yield s') ∧ get s' = tagListOf ((pre ++ stepSpec tf c ++ post).map E)) :
    ∀ (n : Nat) (pre post : List Node) (s : σ), pre.length = n → (∀ c ∈ pre, c ∈ orig) →
      get s = tagListOf ((pre ++ post).map E) →
      ∃ s', forIn ((List.range n).map fun (i : Nat) => PVal.int (i : Int)).reverse s f = .ok s'
        ∧ get s' = tagListOf ((pre.flatMap (stepSpec tf) ++ post).map E) := by
  intro n
  induction n with
  | zero =>
    intro pre post s hl _ hs
    have : pre = [] := List.eq_nil_of_length_eq_zero hl
    subst this
    exact ⟨s, rfl, by simpa using hs⟩
  | succ n ih =>
    intro pre post s hl hmem hs
    obtain ⟨pre', c, rfl⟩ : ∃ pre' c, pre = pre' ++ [c] := by
      refine ⟨pre.dropLast, pre.getLast (by intro h0; simp [h0] at hl), ?_⟩
      exact (List.dropLast_concat_getLast _).symm
    have hl' : pre'.length = n := by simpa using hl
    obtain ⟨s1, h1, h2⟩ := hstep pre' c post s (hmem c (by simp)) (by simpa using hs)
    obtain ⟨s2, h3, h4⟩ := ih pre' (stepSpec tf c ++ post) s1 hl' (fun x hx => hmem x (by simp [hx]))
      (by simpa [List.append_assoc] using h2)
    refine ⟨s2, ?_, by simpa [List.append_assoc] using h4⟩
    rw [List.range_succ, List.map_append, List.reverse_append]
    simp only [List.map_cons, List.map_nil, List.reverse_cons, List.reverse_nil, List.nil_append, List.singleton_append,
      List.forIn_cons]
    rw [← hl', h1]
    simpa [hl'] using h3

/-- `tagify_loop_k` (Lemmas/SrcC09.lean) for any embedding -/
theorem tagify_loop_k_C18 {β σ : Type} (E : Node → PVal) (get : σ → PVal) (tf : Node → TagifyResult) (orig : List Node)
    (init : σ) (hinit : get init = tagListOf (orig.map E))
    (f : PVal → σ → PyM (ForInStep σ))
    (hstep : ∀ (pre : List Node) (c : Node) (post : List Node) (s : σ), c ∈ orig →
      get s = tagListOf ((pre ++ c :: post).map E) →
      ∃ s', f (.int pre.length) s = .ok (.yield s') ∧ get s' = tagListOf ((pre ++ stepSpec tf c ++ post).map E))
    (k : σ → PyM β) (r : PyM β)
    (hk : ∀ s, get s = tagListOf ((orig.flatMap (stepSpec tf)).map E) → k s = r) :
    (forIn ((List.range orig.length).map fun (i : Nat) => PVal.int (i : Int)).reverse
        init f >>= k) = r := by
  obtain ⟨s', h1, h2⟩ := tagify_loop_aux_C18 E get tf orig f hstep orig.length orig []
    init rfl (fun _ h => h) (by simpa using hinit)
  rw [h1, ok_bind]
  exact hk s' (by simpa using h2)

/-! ## the embedding that carries all fields -/

/-- additional fields of a dependency object (beyond `embDepFields`): a function of the dependency as it sits in the tree -/
abbrev XfC18 := DepInfo → Bool → Nodes → List (String × PVal)

mutual
  /-- a node as a Python value: `embT tv` (Lemmas/SrcC10.lean) with `xf d hh hd` appended to the `__dict__` of every
      dependency object -/
  def embC18 (xf : XfC18) (tv : Node → PVal) : Node → PVal
    | .tag name ws attrs kids =>
      .obj "Tag" [("name", .str name), ("attrs", embAttrs attrs),
                  ("children", .obj "TagList" [("data", .list (embsC18 xf tv kids))]), ("add_ws", .bool ws)]
    | .text s => .str s
    | .html s => .html s
    | .robj s => .obj "ReprObj" [("_repr_html_", .str s)]
    | .mnode n => .obj "MetadataNode" [("id", .int n)]
    | .dep d hh hd => .obj "HTMLDependency" (embDepFields d ++ xf d hh hd)
    | .tobjL rh c => .obj "TagifyObj" (("tagify", tv (.tobjL rh c)) :: reprField rh)
    | .tobj1 rh c => .obj "TagifyObj" (("tagify", tv (.tobj1 rh c)) :: reprField rh)
  def embsC18 (xf : XfC18) (tv : Node → PVal) : Nodes → List PVal
    | .nil => []
    | .cons h t => embC18 xf tv h :: embsC18 xf tv t
end

/-- no additional fields: the embedding of Props/SrcC09.lean / SrcC10.lean -/
def xfNilC18 : XfC18 := fun _ _ _ => []

mutual
  theorem embC18_nil (tv : Node → PVal) (c : Node) : embC18 xfNilC18 tv c = embT tv c := by
    cases c with
    | tag n w a k => simp [embC18, embT, embsC18_nil tv k]
    | dep d hh hd => simp [embC18, embT, xfNilC18]
    | _ => simp [embC18, embT]
  theorem embsC18_nil (tv : Node → PVal) (ks : Nodes) : embsC18 xfNilC18 tv ks = embTs tv ks := by
    cases ks with
    | nil => rfl
    | cons c t => simp [embsC18, embTs, embC18_nil tv c, embsC18_nil tv t]
end

/-- the additional fields bring no `__copy__` and no `tagify` of their own (a dependency object stays an ordinary,
    non-tagifiable instance) -/
def XfOkC18 (xf : XfC18) : Prop :=
  ∀ d hh hd, fieldGet? "__copy__" (xf d hh hd) = none ∧ ((xf d hh hd).any fun f => f.1 == "tagify") = false

theorem xfNilC18_ok : XfOkC18 xfNilC18 := fun _ _ _ => ⟨rfl, rfl⟩

theorem embsC18_toList (xf : XfC18) (tv : Node → PVal) (ks : Nodes) : embsC18 xf tv ks = ks.toList.map (embC18 xf tv) := by
  induction ks using Nodes.rec (motive_1 := fun _ => True) with
  | nil => rfl
  | cons h t _ ih => simp [embsC18, Nodes.toList, ih]
  | _ => trivial

theorem isMeta_embC18 (xf : XfC18) (tv : Node → PVal) (c : Node) :
    isInstance (embC18 xf tv c) ["MetadataNode"] = c.isMeta := by
  cases c <;> simp [embC18, isInstance, builtinClasses, classBases, Node.isMeta]

theorem isDep_embC18 (xf : XfC18) (tv : Node → PVal) (c : Node) :
    isInstance (embC18 xf tv c) ["HTMLDependency"] = c.isDep := by
  cases c <;> simp [embC18, isInstance, builtinClasses, classBases, Node.isDep]

theorem isTag_embC18 (xf : XfC18) (tv : Node → PVal) (c : Node) :
    isInstance (embC18 xf tv c) ["Tag"] = c.isTag := by
  cases c <;> simp [embC18, isInstance, builtinClasses, classBases, Node.isTag]

theorem not_taglist_embC18 (xf : XfC18) (tv : Node → PVal) (c : Node) :
    isInstance (embC18 xf tv c) ["TagList"] = false := by
  cases c <;> simp [embC18, isInstance, builtinClasses, classBases]

theorem isTagifiable_embC18 (xf : XfC18) (hx : XfOkC18 xf) (tv : Node → PVal) (c : Node) :
    isInstance (embC18 xf tv c) ["Tagifiable"] = c.isTagifiable := by
  cases c with
  | dep d hh hd =>
    have := (hx d hh hd).2
    simp [embC18, isInstance, builtinClasses, classBases, Node.isTagifiable, embDepFields, this]
  | _ => simp [embC18, isInstance, builtinClasses, classBases, Node.isTagifiable]

theorem plain_embC18 (xf : XfC18) (tv : Node → PVal) (c : Node) : isPlainTagNode (embC18 xf tv c) = true := by
  cases c <;> simp [embC18, isPlainTagNode, isInstance, classBases]

theorem pyTagchilds_embC18 (xf : XfC18) (tv : Node → PVal) (ns : List Node) :
    pyTagchildsToTagnodes (tagListOf (ns.map (embC18 xf tv))) = .ok (.list (ns.map (embC18 xf tv))) := by
  have : (ns.map (embC18 xf tv)).all isPlainTagNode = true := by simp [plain_embC18]
  simp only [pyTagchildsToTagnodes, tagListOf, userListData?, fieldGet?, if_true, this, pure_eq_ok]

theorem pyCopy_meta_C18 (xf : XfC18) (hx : XfOkC18 xf) (tv : Node → PVal) (c : Node) (h : c.isMeta = true) :
    pyCopy (embC18 xf tv c) = .ok (embC18 xf tv c) := by
  cases c <;> simp [Node.isMeta] at h
  · simp [embC18, pyCopy, fieldGet?]
  · rename_i d hh hd
    have := (hx d hh hd).1
    simp [embC18, pyCopy, fieldGet?, embDepFields, this]

theorem embC18_dep_name (xf : XfC18) (tv : Node → PVal) (d : Node) (h : d.isDep = true) :
    pyGetAttr (embC18 xf tv d) "name" = .ok (.str d.depName) := by
  cases d <;> simp [Node.isDep] at h
  simp [embC18, embDepFields, pyGetAttr, fieldGet?, Node.depName]

theorem embC18_dep_version (xf : XfC18) (tv : Node → PVal) (d : Node) (h : d.isDep = true) :
    ∃ fs, pyGetAttr (embC18 xf tv d) "version" = .ok (.obj "Version" (("rank", .int ((d.vrank : Nat) : Int)) :: fs)) := by
  cases d <;> simp [Node.isDep] at h
  rename_i d _ _
  exact ⟨[("text", .str d.version)], by simp [embC18, embDepFields, pyGetAttr, fieldGet?, Node.vrank]⟩

theorem getattr_tagC18 (xf : XfC18) (tv : Node → PVal) (nm : Str) (ws : Bool) (a : Attrs) (k : Nodes) :
    pyGetAttr (embC18 xf tv (.tag nm ws a k)) "name" = .ok (.str nm)
    ∧ pyGetAttr (embC18 xf tv (.tag nm ws a k)) "attrs" = .ok (embAttrs a)
    ∧ pyGetAttr (embC18 xf tv (.tag nm ws a k)) "children" = .ok (tagListOf (embsC18 xf tv k))
    ∧ pyGetAttr (embC18 xf tv (.tag nm ws a k)) "add_ws" = .ok (.bool ws) := by
  simp [embC18, pyGetAttr, fieldGet?, tagListOf]

/-! ### what `tagify()` of a foreign object returns -/

/-- the value of a `tagify()` result -/
def embResultC18 (xf : XfC18) (tv : Node → PVal) : TagifyResult → PVal
  | .taglist ns => tagListOf (ns.map (embC18 xf tv))
  | .single n => embC18 xf tv n

/-- the hypothesis on `tv`: for every tagifiable object of a foreign class, the value recorded for its `tagify()` is the
    embedding of what the model says the call returns -/
def TvOkC18 (xf : XfC18) (tv : Node → PVal) : Prop :=
  ∀ c : Node, c.isTag = false → c.isTagifiable = true → tv c = embResultC18 xf tv (specResult c)

mutual
  theorem embC18_tagified (xf : XfC18) (tv tv' : Node → PVal) (c : Node) (h : c.tagified = true) :
      embC18 xf tv c = embC18 xf tv' c := by
    cases c with
    | tag n w a k =>
      have := embsC18_tagified xf tv tv' k (by simpa [Node.tagified] using h)
      simp [embC18, this]
    | tobjL rh cc => simp [Node.tagified] at h
    | tobj1 rh cc => simp [Node.tagified] at h
    | _ => simp [embC18]
  theorem embsC18_tagified (xf : XfC18) (tv tv' : Node → PVal) (ks : Nodes) (h : ks.tagifiedKids = true) :
      embsC18 xf tv ks = embsC18 xf tv' ks := by
    cases ks with
    | nil => rfl
    | cons c t =>
      simp only [Nodes.tagifiedKids, Bool.and_eq_true] at h
      simp [embsC18, embC18_tagified xf tv tv' c h.1, embsC18_tagified xf tv tv' t h.2]
end

theorem embResultC18_congr (xf : XfC18) (tv tv' : Node → PVal) (r : TagifyResult)
    (h : ∀ x ∈ r.splice, embC18 xf tv x = embC18 xf tv' x) : embResultC18 xf tv r = embResultC18 xf tv' r := by
  cases r with
  | taglist ns =>
    simp only [embResultC18, TagifyResult.splice] at h ⊢
    rw [List.map_congr_left h]
  | single x => exact h x (by simp [TagifyResult.splice])

/-- the value recorded for `n.tagify()`: the embedding of what the model says the call returns -/
def tvSpecC18 (xf : XfC18) (n : Node) : PVal := embResultC18 xf (fun _ => PVal.none) (specResult n)

theorem tvSpecC18_ok (xf : XfC18) : TvOkC18 xf (tvSpecC18 xf) := by
  intro c _ ht
  exact embResultC18_congr xf _ _ _ (fun x hx => embC18_tagified xf _ _ x (specResult_tagified c ht x hx))

/-! ## the two models of `_resolve_dependencies` agree -/

/-- a dependency entry of `Tagify.collectDepsKids` as the node it came from -/
def depNodeC18 (e : Tagify.DepEntry) : Node := .dep e.1 e.2.1 e.2.2

mutual
  theorem collect_depEntries_C18 (n : Node) : n.collect = (Tagify.collectDeps n).map depNodeC18 := by
    cases n with
    | tag nm w a k => simp [Node.collect, Tagify.collectDeps, collectKids_depEntries_C18 k]
    | _ => simp [Node.collect, Tagify.collectDeps]
  theorem collectKids_depEntries_C18 (ks : Nodes) : ks.collect = (Tagify.collectDepsKids ks).map depNodeC18 := by
    cases ks with
    | nil => rfl
    | cons h t =>
      have ih := collectKids_depEntries_C18 t
      cases h with
      | tag nm w a k =>
        simp [Nodes.collect, Tagify.collectDepsKids, ih, collect_depEntries_C18 (.tag nm w a k)]
      | dep d hh hd => simp [Nodes.collect, Tagify.collectDepsKids, ih, depNodeC18]
      | _ => simp [Nodes.collect, Tagify.collectDepsKids, ih]
end

/-- the association list `name ↦ dependency` of Model/Deps.lean for the entry list of Model/Tagify.lean -/
def amapOfC18 (es : List Tagify.DepEntry) : List (Str × Node) := es.map fun e => (e.1.name, depNodeC18 e)

theorem resolveStep_insert_C18 (es : List Tagify.DepEntry) (d : Tagify.DepEntry) :
    resolveStep depGt Node.depName (amapOfC18 es) (depNodeC18 d) = amapOfC18 (Tagify.resolveInsert es d) := by
  induction es with
  | nil => simp [resolveStep, amapOfC18, amapGet?, amapSet, Tagify.resolveInsert, depNodeC18, Node.depName]
  | cons e r ih =>
    by_cases hn : e.1.name = d.1.name
    · by_cases hg : d.1.vrank > e.1.vrank <;>
        simp [resolveStep, amapOfC18, amapGet?, amapSet, Tagify.resolveInsert, depNodeC18, Node.depName, hn, depGt, Node.vrank, hg]
    · have hn' : ¬ (e.1.name == d.1.name) = true := by simpa using hn
      simp only [resolveStep, amapOfC18, List.map_cons, amapGet?, depNodeC18, Node.depName, hn, if_false, Tagify.resolveInsert,
        hn', amapSet] at ih ⊢
      cases hg : amapGet? d.1.name (List.map (fun e => (e.1.name, Node.dep e.1 e.2.1 e.2.2)) r) with
      | none => simp only [hg] at ih ⊢; simp [ih]
      | some cur =>
        simp only [hg] at ih ⊢
        by_cases hgt : depGt (Node.dep d.1 d.2.1 d.2.2) cur = true
        · simp only [hgt, if_true] at ih ⊢; simp [ih]
        · simp only [hgt, Bool.false_eq_true, if_false] at ih ⊢; simp [ih]

theorem resolveMap_entries_C18 (ds acc : List Tagify.DepEntry) :
    (ds.map depNodeC18).foldl (resolveStep depGt Node.depName) (amapOfC18 acc) = amapOfC18 (ds.foldl Tagify.resolveInsert acc) := by
  induction ds generalizing acc with
  | nil => rfl
  | cons d t ih => simp only [List.map_cons, List.foldl_cons, resolveStep_insert_C18, ih]

/-- `resolve` (Model/Deps.lean, what Props/SrcC10.lean ties `_resolve_dependencies` to) on the nodes =
    `Tagify.resolveDeps` (Model/Tagify.lean, what `renderOfList` reports) on the entries -/
theorem resolve_entries_C18 (ds : List Tagify.DepEntry) :
    resolve (ds.map depNodeC18) = (Tagify.resolveDeps ds).map depNodeC18 := by
  have := resolveMap_entries_C18 ds []
  simp only [resolve, resolveBy, resolveMap, Tagify.resolveDeps]
  rw [show ([] : List (Str × Node)) = amapOfC18 [] from rfl, this]
  simp [amapOfC18, Function.comp_def]

/-! ## the module constants with the two parameters of this area -/

/-- `globalsOf cfg` with `html_dependency_render_mode` and the SHA-1 digest function as given -/
def globalsC18 (cfg : Cfg) (mode : PVal) (sha : Str → Option Str := fun _ => none) : Globals :=
  { globalsOf cfg with renderModeC18 := mode, sha1HexC18 := sha }

theorem globalsC18_void (cfg : Cfg) (m : PVal) (sha : Str → Option Str) : (globalsC18 cfg m sha).VOID_TAG_NAMES = cfg.void := rfl
theorem globalsC18_noesc (cfg : Cfg) (m : PVal) (sha : Str → Option Str) : (globalsC18 cfg m sha).NO_ESCAPE_TAG_NAMES = cfg.noesc := rfl
theorem globalsC18_mode (cfg : Cfg) (m : PVal) (sha : Str → Option Str) : (globalsC18 cfg m sha).renderModeC18 = m := rfl
theorem globalsC18_sha (cfg : Cfg) (m : PVal) (sha : Str → Option Str) : (globalsC18 cfg m sha).sha1HexC18 = sha := rfl

/-- the translated text functions read the tables only: they do not see the two parameters -/
theorem html_escape_globalsC18 (cfg : Cfg) (m : PVal) (sha : Str → Option Str) :
    html_escape (globalsC18 cfg m sha) = html_escape (globalsOf cfg) := rfl
theorem normalize_text_globalsC18 (cfg : Cfg) (m : PVal) (sha : Str → Option Str) :
    normalize_text (globalsC18 cfg m sha) = normalize_text (globalsOf cfg) := rfl

/-! ## the comprehension of `_render_tag_or_taglist` -/

theorem foldl_snoc_C18 {α β : Type} (g : α → β) (l : List α) (acc : List β) :
    l.foldl (fun b c => b ++ [g c]) acc = acc ++ l.map g := by
  induction l generalizing acc with
  | nil => simp
  | cons a t ih => simp [ih]

/-- a comprehension `[e(x) for x in xs]`, whatever its body: if each pass appends `g c` to the accumulated list -/
theorem map_loop_C18 {α : Type} (E : α → PVal) (g : α → PVal) (l : List α)
    (f : PVal → List PVal → PyM (ForInStep (List PVal)))
    (hstep : ∀ c ∈ l, ∀ s, f (E c) s = .ok (.yield (s ++ [g c]))) :
    forIn (l.map E) ([] : List PVal) f = .ok (l.map g) := by
  have sim := forIn_sim (fun (s : List PVal) (b : List PVal) => s = b) embErr E l f
    (fun c b => .ok (b ++ [g c])) [] [] rfl
    (by
      intro c hc s b hR
      subst hR
      exact ⟨_, hstep c hc _, _, rfl, rfl⟩)
  rw [foldlM_ok (fun (b : List PVal) c => b ++ [g c]), foldl_snoc_C18] at sim
  obtain ⟨s, hs, hR⟩ := sim
  rw [hs, hR]
  simp

end HtmlVerif.SrcTie
