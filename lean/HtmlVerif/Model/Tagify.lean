/-
Tagifiable expansion (htmltools/_core.py).

  * `TagList.tagify`  _core.py:323-346   backwards index loop, slice / item assignment on a copy
  * `Tag.tagify`      _core.py:844-851   copy, `cp.children = cp.children.tagify()`
  * `TagList.render` / `Tag.render`  _core.py:373-379, 910-916   tagify → get_dependencies → get_html_string
  * `TagList.get_dependencies` / `Tag.get_dependencies`  _core.py:463-485, 942-946
  * `_resolve_dependencies`  _core.py:1813-1822
  * the objects: `Node.tobjL rh c` is `adapters.TObjL/TObjLR` (`tagify()` = `TagList(*c).tagify()`),
    `Node.tobj1 rh c` is `adapters.TObj1/TObj1R` (`tagify()` = `c.tagify()` if `c` has one, a copy of a
    metadata node, else `c` itself).

Part (a) is the forward *specification* (what the property says the result is); part (b) is the
*algorithm as written*, over a `List Node` working copy with an index counting down.
`Props/C09.lean` proves (b) = (a).
-/
import HtmlVerif.Model.Render

namespace HtmlVerif

/-! ## (a) specification: left-to-right expansion -/

mutual
  /-- what takes the place of one node in its sibling list once everything is expanded:
      a list-kind object is replaced by its (expanded) content, spliced; any other result takes the
      object's place; tags are kept with their children expanded; leaves and metadata are kept. -/
  def Node.expand : Node → Nodes
    | .tag n w a kids => .cons (.tag n w a kids.expandAll) .nil
    | .tobjL _ c => c.expandAll
    | .tobj1 _ c => c.expand
    | .text s => .cons (.text s) .nil
    | .html s => .cons (.html s) .nil
    | .robj s => .cons (.robj s) .nil
    | .mnode k => .cons (.mnode k) .nil
    | .dep d hh hd => .cons (.dep d hh hd) .nil
  /-- the sibling list with every element replaced by its expansion, in order -/
  def Nodes.expandAll : Nodes → Nodes
    | .nil => .nil
    | .cons h t => h.expand ++ t.expandAll
end

mutual
  /-- "fully tagified": no tagifiable object (self-rendering or not) below any tag.
      Dependency heads are not part of the rendered tree and are not inspected (neither `tagify`
      nor `get_html_string` looks into them). -/
  def Node.tagified : Node → Bool
    | .tag _ _ _ kids => kids.tagifiedKids
    | .tobjL .. => false
    | .tobj1 .. => false
    | _ => true
  def Nodes.tagifiedKids : Nodes → Bool
    | .nil => true
    | .cons h t => h.tagified && t.tagifiedKids
end

/-! ## (b) the algorithm as written -/

/-- `isinstance(child, Tagifiable)`: has a `tagify` method (Tag and the helper objects) -/
def Node.isTagifiable : Node → Bool
  | .tag .. => true
  | .tobjL .. => true
  | .tobj1 .. => true
  | _ => false

/-- the value `child.tagify()` returned, by the test `isinstance(tagified_child, TagList)` -/
inductive TagifyResult
  | taglist (ns : List Node)
  | single (n : Node)
  deriving Inhabited

/-- what a result contributes to the sibling list -/
def TagifyResult.splice : TagifyResult → List Node
  | .taglist ns => ns
  | .single n => [n]

/-- `_tagchilds_to_tagnodes(x)` applied to a `TagList` (_core.py:1927-1944): `flatten` only unnests
    list / tuple / TagList items and drops `None`, numbers become `str`; the elements of a TagList are
    already TagNodes, so this is the identity on every list the tree type can express. -/
def tagchildsToTagnodes (xs : List Node) : List Node := xs

/-- slice assignment `cp[i:i+1] = xs` (for `i < len(cp)`) -/
def sliceAssign (cp : List Node) (i : Nat) (xs : List Node) : List Node :=
  cp.take i ++ xs ++ cp.drop (i + 1)

/-- item assignment `cp[i] = x` -/
def itemAssign (cp : List Node) (i : Nat) (x : Node) : List Node := cp.set i x

/-- one iteration of the body of the loop in `TagList.tagify`, at index `i`, on the working copy.
    `tagifyOf child` is the call `child.tagify()`. -/
def tagifyStep (tagifyOf : Node → TagifyResult) (cp : List Node) (i : Nat) : List Node :=
  match cp[i]? with
  | none => cp                -- `cp[i]` out of range: never happens, `i < len(cp)` is an invariant
                              -- (`Lemmas/Tagify.lean: tagifyLoop_spec` only uses `i ≤ len`)
  | some child =>
    if child.isTagifiable then
      match tagifyOf child with
      | .taglist xs => sliceAssign cp i (tagchildsToTagnodes xs)
      | .single x => itemAssign cp i x
    else if child.isMeta then itemAssign cp i child     -- `cp[i] = copy(child)` (identity is C08's concern)
    else cp

/-- `for i in reversed(range(len(cp))): …` — `tagifyLoop f cp n` runs the iterations with indices
    `n-1, n-2, …, 0` on the working copy `cp` -/
def tagifyLoop (tagifyOf : Node → TagifyResult) : List Node → Nat → List Node
  | cp, 0 => cp
  | cp, i + 1 => tagifyLoop tagifyOf (tagifyStep tagifyOf cp i) i

/-- `x.tagify()` for the objects the tree can hold.  Python's recursion through method calls is
    bounded by an explicit `fuel` (each nested call consumes one unit); `Node.tdepth` is enough. -/
def tagifyFuel : Nat → Node → TagifyResult
  | 0, n => .single n                                   -- out of fuel (excluded by `tdepth ≤ fuel`)
  | f + 1, .tag n w a kids =>                           -- Tag.tagify: copy, children.tagify()
    .single (.tag n w a (Nodes.ofList (tagifyLoop (tagifyFuel f) kids.toList kids.length)))
  | f + 1, .tobjL _ c =>                                -- TagList(*content).tagify()
    .taglist (tagifyLoop (tagifyFuel f) c.toList c.length)
  | f + 1, .tobj1 _ c =>
    if c.isTagifiable then tagifyFuel f c               -- content.tagify()
    else .single c                                      -- copy of a metadata node / the leaf itself
  | _ + 1, n => .single n                               -- not Tagifiable: never called by the loop

mutual
  /-- nesting depth of `tagify()` calls below a node -/
  def Node.tdepth : Node → Nat
    | .tag _ _ _ kids => kids.tdepthKids + 1
    | .tobjL _ c => c.tdepthKids + 1
    | .tobj1 _ c => c.tdepth + 1
    | _ => 0
  def Nodes.tdepthKids : Nodes → Nat
    | .nil => 0
    | .cons h t => max h.tdepth t.tdepthKids
end

/-- `TagList.tagify` (the copy `cp = copy(self)` is the value `ks.toList`) -/
def tagifyNodes (ks : Nodes) : Nodes :=
  Nodes.ofList (tagifyLoop (tagifyFuel ks.tdepthKids) ks.toList ks.length)

/-- `Tag.tagify`; other nodes are returned unchanged (never used there) -/
def tagifyTag : Node → Node
  | .tag n w a kids => .tag n w a (tagifyNodes kids)
  | x => x

/-! ## dependencies reported by `render()` -/

namespace Tagify

/-- an HTMLDependency as it sits in the tree -/
abbrev DepEntry := DepInfo × Bool × Nodes

mutual
  /-- `Tag.get_dependencies(dedup=False)` = that of its children -/
  def collectDeps : Node → List DepEntry
    | .tag _ _ _ kids => collectDepsKids kids
    | _ => []
  /-- `TagList.get_dependencies(dedup=False)`: pre-order; only HTMLDependency items and Tags are looked at -/
  def collectDepsKids : Nodes → List DepEntry
    | .nil => []
    | .cons h t =>
      (match h with
        | .dep d hh hd => [(d, hh, hd)]
        | .tag .. => collectDeps h
        | _ => []) ++ collectDepsKids t
end

/-- one step of the dict update in `_resolve_dependencies`: a new name is appended (dict insertion
    order); a strictly higher version replaces the value in place; otherwise nothing changes.
    `vrank` is the rank of the `Version` under `packaging`'s order (supplied by the harness). -/
def resolveInsert : List DepEntry → DepEntry → List DepEntry
  | [], d => [d]
  | e :: r, d =>
    if e.1.name == d.1.name then (if d.1.vrank > e.1.vrank then d :: r else e :: r)
    else e :: resolveInsert r d

/-- `_resolve_dependencies(deps)` -/
def resolveDeps (deps : List DepEntry) : List DepEntry := deps.foldl resolveInsert []

end Tagify

/-- the dict returned by `render()` -/
structure Rendered where
  deps : List Tagify.DepEntry
  html : Except Err Str

/-- `TagList.render()`: `cp = self.tagify(); deps = cp.get_dependencies(); html = cp.get_html_string()` -/
def renderOfList (cfg : Cfg) (ks : Nodes) : Rendered :=
  let cp := tagifyNodes ks
  { deps := Tagify.resolveDeps (Tagify.collectDepsKids cp),
    html := renderListChecked cfg cp 0 ['\n'] true true }

/-- `Tag.render()` -/
def renderOfTag (cfg : Cfg) (t : Node) : Rendered :=
  let cp := tagifyTag t
  { deps := Tagify.resolveDeps (Tagify.collectDeps cp),
    html := renderTagChecked cfg cp 0 ['\n'] }

end HtmlVerif
