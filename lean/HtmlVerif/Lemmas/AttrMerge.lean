/-
The attribute-merge lemma needed by C03 (DESIGN §6 C03, `C03_merge`):
for one `update` call (hence also `Tag(...)`, `add_class`, `add_style`) supplying the values v₁ … vₙ for the
same name, the emitted attribute text equals the operands' own emissions joined by single spaces, where a
plain operand emits its attribute-escaped text and an HTML() operand emits itself.

`EscDistrib cfg` (the hypothesis `hdistrib`) says that attribute escaping distributes over `s ++ " " ++ t`;
`escDistrib_of_no_space_key` derives it from the table side-condition "no key of the table is a space".
-/
import HtmlVerif.Lemmas.AttrDict

namespace HtmlVerif

/-- attribute escaping distributes over a single-space join -/
def EscDistrib (cfg : Cfg) : Prop :=
  ∀ s t : Str, htmlEscapeT cfg.attrTbl (s ++ ' ' :: t)
    = htmlEscapeT cfg.attrTbl s ++ ' ' :: htmlEscapeT cfg.attrTbl t

theorem emitOperand_eq (cfg : Cfg) (v : AttrVal) : emitOperand cfg v = emitAttrVal cfg v := by
  cases v <;> rfl

/-- one merge step: the emissions of the two sides, one space between them -/
theorem emit_mergeVal (cfg : Cfg) (hdistrib : EscDistrib cfg) (a b : AttrVal) :
    emitAttrVal cfg (mergeVal cfg a b) = emitAttrVal cfg a ++ ' ' :: emitAttrVal cfg b := by
  cases a <;> cases b <;> simp [mergeVal, emitAttrVal, hdistrib _ _]

theorem joinStr_merge_head (sep a b : Str) (r : List Str) :
    joinStr sep ((a ++ sep ++ b) :: r) = joinStr sep (a :: b :: r) := by
  cases r with
  | nil => simp [joinStr]
  | cons c r' => simp [joinStr]

/-- C03_merge on the operand list: `n` values for one name, merged left to right -/
theorem emit_joinVals (cfg : Cfg) (hdistrib : EscDistrib cfg) (v : AttrVal) (vs : List AttrVal) :
    emitAttrVal cfg (joinVals cfg v vs) = joinStr [' '] ((v :: vs).map (emitOperand cfg)) := by
  induction vs generalizing v with
  | nil => simp [joinVals, joinStr, emitOperand_eq]
  | cons w g ih =>
    rw [joinVals_cons, ih]
    simp only [List.map_cons, emitOperand_eq, emit_mergeVal cfg hdistrib]
    have := joinStr_merge_head [' '] (emitAttrVal cfg v) (emitAttrVal cfg w) (g.map (emitOperand cfg))
    simpa [emitOperand_eq] using this

/-- homogeneous merges stay in their kind and are plain joins of the texts -/
theorem joinVals_plain (cfg : Cfg) (s : Str) (ss : List Str) :
    joinVals cfg (.plain s) (ss.map .plain) = .plain (joinStr [' '] (s :: ss)) := by
  induction ss generalizing s with
  | nil => simp [joinVals, joinStr]
  | cons w g ih =>
    rw [List.map_cons, joinVals_cons]
    simp only [mergeVal]
    rw [ih]
    have := joinStr_merge_head [' '] s w g
    simp_all

theorem joinVals_html (cfg : Cfg) (s : Str) (ss : List Str) :
    joinVals cfg (.html s) (ss.map .html) = .html (joinStr [' '] (s :: ss)) := by
  induction ss generalizing s with
  | nil => simp [joinVals, joinStr]
  | cons w g ih =>
    rw [List.map_cons, joinVals_cons]
    simp only [mergeVal]
    rw [ih]
    have := joinStr_merge_head [' '] s w g
    simp_all

/-! ### `dict.update` as lookups (no well-formedness of `cur` needed) -/

theorem dictUpdate_cons (cur : Attrs) (k : Str) (v : AttrVal) (r : Attrs) :
    dictUpdate cur ((k, v) :: r) = dictUpdate (dictSet k v cur) r := by
  simp [dictUpdate]

theorem alookup_dictUpdate (q : Str) (cur new : Attrs) (hn : (keysOf new).Nodup) :
    alookup q (dictUpdate cur new) = (alookup q new).or (alookup q cur) := by
  induction new generalizing cur with
  | nil => simp [dictUpdate, alookup]
  | cons hd r ih =>
    obtain ⟨k, v⟩ := hd
    simp only [keysOf, List.map_cons, List.nodup_cons] at hn
    rw [dictUpdate_cons, ih _ (by simpa [keysOf] using hn.2), alookup_cons]
    by_cases hk : k = q
    · subst hk
      have : alookup k r = none := (alookup_eq_none_iff k r).mpr hn.1
      simp [this, alookup_dictSet_self]
    · simp [hk, alookup_dictSet_ne q k v cur (Ne.symm hk)]

/-- closed form of `TagAttrDict.update` when no value has an invalid type -/
theorem attrsUpdate_eq (cfg : Cfg) (cur : Attrs) (args : List (List (Str × AttrArg)))
    (hok : ∀ kv ∈ args.flatten, kv.2 ≠ .bad) :
    attrsUpdate cfg cur args = .ok (dictUpdate cur (mergeSpec cfg args.flatten)) := by
  simp [attrsUpdate, accumDicts_eq_flatten, accumPairs_eq cfg _ _ hok, accumNorm_nil, mergeSpec]

theorem attrsUpdate_bad (cfg : Cfg) (cur : Attrs) (args : List (List (Str × AttrArg)))
    (hbad : ∃ kv ∈ args.flatten, kv.2 = .bad) :
    attrsUpdate cfg cur args = .error .typeError := by
  simp [attrsUpdate, accumDicts_eq_flatten, accumPairs_bad cfg _ _ hbad]

/-- **C03_merge.** One `update` call whose (normalised, undropped) values for the name `k` are `v :: vs`, in
    argument order: afterwards `k` is present and the text the attribute writer emits for it is the
    operands' emissions joined by single spaces — plain operands attribute-escaped, HTML() operands verbatim. -/
theorem C03_merge (cfg : Cfg) (hdistrib : EscDistrib cfg) (cur : Attrs) (args : List (List (Str × AttrArg)))
    (hok : ∀ kv ∈ args.flatten, kv.2 ≠ .bad) (k : Str) (v : AttrVal) (vs : List AttrVal)
    (hg : groupVals k (normPairs args.flatten) = v :: vs) :
    ∃ new m, attrsUpdate cfg cur args = .ok new ∧ alookup k new = some m ∧
      emitAttrVal cfg m = joinStr [' '] ((v :: vs).map (emitOperand cfg)) := by
  refine ⟨_, joinVals cfg v vs, attrsUpdate_eq cfg cur args hok, ?_, emit_joinVals cfg hdistrib v vs⟩
  rw [mergeSpec, alookup_dictUpdate _ _ _ (nodup_keysOf_mergeSpecN _ _), alookup_mergeSpecN, hg]
  simp

/-- the same through the writer: the attribute is written as ` k="…"` with that text -/
theorem C03_merge_rendered (cfg : Cfg) (hdistrib : EscDistrib cfg) (k : Str) (v : AttrVal) (vs : List AttrVal) :
    renderAttrs cfg [(k, joinVals cfg v vs)]
      = ' ' :: k ++ '=' :: '"' :: joinStr [' '] ((v :: vs).map (emitOperand cfg)) ++ ['"'] := by
  simp [renderAttrs, emit_joinVals cfg hdistrib]

/-! ### `hdistrib` from the table side-condition -/

theorem replaceChar_append (k : Char) (v s t : Str) :
    replaceChar k v (s ++ t) = replaceChar k v s ++ replaceChar k v t := by
  simp [replaceChar]

theorem seqReplace_append (tbl : List (Char × Str)) (s t : Str) :
    seqReplace tbl (s ++ t) = seqReplace tbl s ++ seqReplace tbl t := by
  induction tbl generalizing s t with
  | nil => rfl
  | cons hd r ih => obtain ⟨k, v⟩ := hd; simp [seqReplace, replaceChar_append, ih]

theorem replaceChar_of_not_mem (k : Char) (v s : Str) (h : k ∉ s) : replaceChar k v s = s := by
  induction s with
  | nil => rfl
  | cons c r ih =>
    simp only [List.mem_cons, not_or] at h
    have := ih h.2
    simp only [replaceChar, List.flatMap_cons] at this ⊢
    rw [this]
    simp [Ne.symm h.1]

theorem seqReplace_of_not_needs (tbl : List (Char × Str)) (s : Str) (h : needsEscape tbl s = false) :
    seqReplace tbl s = s := by
  induction tbl generalizing s with
  | nil => rfl
  | cons hd r ih =>
    obtain ⟨k, v⟩ := hd
    have hk : k ∉ s := by
      intro hm
      have : needsEscape ((k, v) :: r) s = true := by
        simp only [needsEscape, List.any_eq_true]
        exact ⟨k, hm, by simp⟩
      rw [this] at h; cases h
    have hr : needsEscape r s = false := by
      simp only [needsEscape, List.any_eq_false] at h ⊢
      intro c hc
      have := h c hc
      simp only [List.any_cons, Bool.or_eq_true, not_or] at this
      simpa using this.2
    rw [seqReplace, replaceChar_of_not_mem k v s hk, ih s hr]

theorem htmlEscapeT_eq_seqReplace (tbl : List (Char × Str)) (s : Str) : htmlEscapeT tbl s = seqReplace tbl s := by
  unfold htmlEscapeT
  cases h : needsEscape tbl s with
  | true => simp
  | false => simp [seqReplace_of_not_needs tbl s h]

/-- the side-condition under which `hdistrib` holds: the space character is not a key of the attribute table -/
theorem escDistrib_of_no_space_key (cfg : Cfg) (h : ∀ kv ∈ cfg.attrTbl, kv.1 ≠ ' ') : EscDistrib cfg := by
  intro s t
  have hsp : seqReplace cfg.attrTbl [' '] = [' '] := by
    apply seqReplace_of_not_needs
    simp only [needsEscape, List.any_cons, List.any_nil, Bool.or_false, List.any_eq_false]
    intro kv hkv
    simpa using h kv hkv
  have : s ++ ' ' :: t = s ++ ([' '] ++ t) := by simp
  rw [htmlEscapeT_eq_seqReplace, htmlEscapeT_eq_seqReplace, htmlEscapeT_eq_seqReplace, this,
    seqReplace_append, seqReplace_append, hsp]
  simp

end HtmlVerif
