/-
Helper lemmas for the identity layer (C08): erasure commutes with the copies, the ids a copy allocates form
consecutive ranges, a mutation at an id that does not occur changes nothing.
-/
import HtmlVerif.Model.Ident
import HtmlVerif.Lemmas.Tagify

namespace HtmlVerif.Ident
open HtmlVerif

/-! ### lists -/

@[simp] theorem ITrees.nil_append (b : ITrees) : ITrees.nil ++ b = b := rfl
@[simp] theorem ITrees.cons_append (h : ITree) (t b : ITrees) : ITrees.cons h t ++ b = .cons h (t ++ b) := rfl

@[simp] theorem ITrees.eraseAll_append (a b : ITrees) : (a ++ b).eraseAll = a.eraseAll ++ b.eraseAll := by
  induction a using ITrees.rec (motive_1 := fun _ => True) with
  | cons h t _ ih => simp [ITrees.eraseAll, ih]
  | nil => simp [ITrees.eraseAll]
  | _ => trivial

@[simp] theorem ITrees.idsAll_append (a b : ITrees) : (a ++ b).idsAll = a.idsAll ++ b.idsAll := by
  induction a using ITrees.rec (motive_1 := fun _ => True) with
  | cons h t _ ih => simp [ITrees.idsAll, ih]
  | nil => simp [ITrees.idsAll]
  | _ => trivial

/-! ### id ranges: every id in `[a, b)`, no id twice -/

/-- every element of `l` lies in `[a, b)` and `l` has no duplicates -/
def InR (l : List Nat) (a b : Nat) : Prop := (∀ i ∈ l, a ≤ i ∧ i < b) ∧ l.Nodup

theorem InR.nil (a b : Nat) : InR [] a b := ⟨by simp, List.nodup_nil⟩

theorem InR.single (a : Nat) : InR [a] a (a + 1) := ⟨by simp, by simp⟩

theorem InR.mono {l : List Nat} {a b a' b' : Nat} (h : InR l a b) (ha : a' ≤ a) (hb : b ≤ b') : InR l a' b' :=
  ⟨fun i hi => ⟨Nat.le_trans ha (h.1 i hi).1, Nat.lt_of_lt_of_le (h.1 i hi).2 hb⟩, h.2⟩

/-- a list in `[a, b)` followed by a list in `[b, c)` -/
theorem InR.append {l l' : List Nat} {a b c : Nat} (h : InR l a b) (h' : InR l' b c) (hab : a ≤ b) (hbc : b ≤ c) :
    InR (l ++ l') a c := by
  refine ⟨?_, ?_⟩
  · intro i hi
    rcases List.mem_append.mp hi with hi | hi
    · have := h.1 i hi; omega
    · have := h'.1 i hi; omega
  · rw [List.nodup_append]
    refine ⟨h.2, h'.2, ?_⟩
    intro x hx y hy hxy
    have := h.1 x hx; have := h'.1 y hy; omega

/-- a list in `[b, c)` followed by a list in `[a, b)` (objects of the tail are created first) -/
theorem InR.append_rev {l l' : List Nat} {a b c : Nat} (h : InR l b c) (h' : InR l' a b) (hab : a ≤ b) (hbc : b ≤ c) :
    InR (l ++ l') a c := by
  refine ⟨?_, ?_⟩
  · intro i hi
    rcases List.mem_append.mp hi with hi | hi
    · have := h.1 i hi; omega
    · have := h'.1 i hi; omega
  · rw [List.nodup_append]
    refine ⟨h.2, h'.2, ?_⟩
    intro x hx y hy hxy
    have := h.1 x hx; have := h'.1 y hy; omega

theorem InR.cons {l : List Nat} {a c : Nat} (h : InR l (a + 1) c) (hc : a + 1 ≤ c) : InR (a :: l) a c := by
  have := InR.append (InR.single a) h (Nat.le_succ a) hc
  simpa using this

/-! ### dependency containers -/

theorem freshItems_kvs (items : List IDict) (n : Nat) : (freshItems items n).map (·.kvs) = items.map (·.kvs) := by
  induction items generalizing n with
  | nil => rfl
  | cons d r ih => simp [freshItems, ih]

theorem freshItems_ids (items : List IDict) (n : Nat) :
    InR ((freshItems items n).map (·.id)) n (n + items.length) := by
  induction items generalizing n with
  | nil => exact InR.nil _ _
  | cons d r ih =>
    simp only [freshItems, List.map_cons, List.length_cons]
    have := ih (n + 1)
    exact InR.cons (this.mono (Nat.le_refl _) (by omega)) (by omega)

@[simp] theorem IDictList.fresh_erase (l : IDictList) (n : Nat) : (l.fresh n).1.erase = l.erase := by
  simp [IDictList.fresh, IDictList.erase, freshItems_kvs]

theorem IDictList.fresh_snd (l : IDictList) (n : Nat) : (l.fresh n).2 = n + 1 + l.items.length := rfl

theorem IDictList.fresh_ids (l : IDictList) (n : Nat) : InR (l.fresh n).1.ids n (l.fresh n).2 := by
  simp only [IDictList.fresh, IDictList.ids]
  exact InR.cons ((freshItems_ids l.items (n + 1)).mono (Nat.le_refl _) (by omega)) (by omega)

theorem IDictList.fresh_le (l : IDictList) (n : Nat) : n ≤ (l.fresh n).2 := by
  simp [IDictList.fresh]; omega

@[simp] theorem IDep.fresh_erase (d : IDep) (n : Nat) : (d.fresh n).1.erase = d.erase := by
  simp [IDep.fresh, IDep.erase]

theorem IDep.fresh_le (d : IDep) (n : Nat) : n + 1 ≤ (d.fresh n).2 := by
  simp only [IDep.fresh]
  have h1 := IDictList.fresh_le d.script (n + 1)
  have h2 := IDictList.fresh_le d.stylesheet (d.script.fresh (n + 1)).2
  have h3 := IDictList.fresh_le d.metas (d.stylesheet.fresh (d.script.fresh (n + 1)).2).2
  omega

theorem IDep.fresh_ids (d : IDep) (n : Nat) : InR (d.fresh n).1.ids n (d.fresh n).2 := by
  have h1 := IDictList.fresh_le d.script (n + 1)
  have h2 := IDictList.fresh_le d.stylesheet (d.script.fresh (n + 1)).2
  have h3 := IDictList.fresh_le d.metas (d.stylesheet.fresh (d.script.fresh (n + 1)).2).2
  have i1 := IDictList.fresh_ids d.script (n + 1)
  have i2 := IDictList.fresh_ids d.stylesheet (d.script.fresh (n + 1)).2
  have i3 := IDictList.fresh_ids d.metas (d.stylesheet.fresh (d.script.fresh (n + 1)).2).2
  have base := (i1.append i2 h1 h2).append i3 (by omega) h3
  simp only [IDep.fresh, IDep.ids]
  by_cases hn : DepSource.isNone d.source = true
  · simp only [hn, if_true, List.nil_append, List.append_assoc] at base ⊢
    exact base.mono (by omega) (Nat.le_refl _)
  · simp only [hn, List.append_assoc] at base ⊢
    exact InR.cons base (by omega)

/-! ### erasure commutes with the copies -/

mutual
  theorem ITree.icopy_erase (x : ITree) (n : Nat) : (x.icopy n).1.erase = x.erase := by
    cases x with
    | tag i a k nm ws at' kids => simp [ITree.icopy, ITree.erase, ITrees.icopyAll_erase kids]
    | dep i d hh hid hd => simp [ITree.icopy, ITree.erase, ITrees.icopyAll_erase hd]
    | _ => simp [ITree.icopy, ITree.erase]
  theorem ITrees.icopyAll_erase (ks : ITrees) (n : Nat) : (ks.icopyAll n).1.eraseAll = ks.eraseAll := by
    cases ks with
    | nil => simp [ITrees.icopyAll]
    | cons h t => simp [ITrees.icopyAll, ITrees.eraseAll, ITree.icopy_erase h, ITrees.icopyAll_erase t]
end

mutual
  /-- the id-level `tagify` of one child erases to the child's expansion -/
  theorem ITree.itagify_erase (x : ITree) (n : Nat) : (x.itagify n).1.eraseAll = x.erase.expand := by
    cases x with
    | tag i a k nm ws at' kids =>
      simp [ITree.itagify, ITree.erase, ITrees.eraseAll, Node.expand, ITrees.itagifyAll_erase kids]
    | tobjL rh c => simpa [ITree.itagify, ITree.erase, Node.expand] using ITrees.itagifyAll_erase c n
    | tobj1 rh c => simpa [ITree.itagify, ITree.erase, Node.expand] using ITree.itagify_erase c n
    | dep i d hh hid hd =>
      simp [ITree.itagify, ITree.erase, ITrees.eraseAll, Node.expand, ITrees.icopyAll_erase hd]
    | _ => simp [ITree.itagify, ITree.erase, ITrees.eraseAll, Node.expand]
  theorem ITrees.itagifyAll_erase (ks : ITrees) (n : Nat) : (ks.itagifyAll n).1.eraseAll = ks.eraseAll.expandAll := by
    cases ks with
    | nil => simp [ITrees.itagifyAll, ITrees.eraseAll, Nodes.expandAll]
    | cons h t =>
      simp only [ITrees.itagifyAll, ITrees.eraseAll_append, ITrees.eraseAll, Nodes.expandAll]
      rw [ITree.itagify_erase h, ITrees.itagifyAll_erase t]
end

/-! ### what a copy allocates -/

mutual
  theorem ITree.icopy_le (x : ITree) (n : Nat) : n ≤ (x.icopy n).2 := by
    cases x with
    | tag i a k nm ws at' kids =>
      have := ITrees.icopyAll_le kids (n + 4)
      simp only [ITree.icopy]; omega
    | dep i d hh hid hd =>
      have h1 := IDep.fresh_le d (n + 1)
      have h2 := ITrees.icopyAll_le hd ((d.fresh (n + 1)).2 + 1)
      simp only [ITree.icopy]; omega
    | mnode i k => simp [ITree.icopy]
    | _ => simp [ITree.icopy]
  theorem ITrees.icopyAll_le (ks : ITrees) (n : Nat) : n ≤ (ks.icopyAll n).2 := by
    cases ks with
    | nil => simp [ITrees.icopyAll]
    | cons h t =>
      have h1 := ITree.icopy_le h n
      have h2 := ITrees.icopyAll_le t (h.icopy n).2
      simp only [ITrees.icopyAll]; omega
end

mutual
  /-- the copy of a subtree without tagifiable objects consists of new objects only, no two the same -/
  theorem ITree.icopy_ids (x : ITree) (n : Nat) (g : x.noTobj = true) : InR (x.icopy n).1.ids n (x.icopy n).2 := by
    cases x with
    | tag i a k nm ws at' kids =>
      have hk := ITrees.icopyAll_ids kids (n + 4) (by simpa [ITree.noTobj] using g)
      have hl := ITrees.icopyAll_le kids (n + 4)
      simp only [ITree.icopy, ITree.ids]
      have h3 : InR [n + 3] (n + 3) (n + 4) := InR.single _
      have := (h3.append hk (by omega) hl)
      have := InR.cons (a := n) (InR.cons (a := n + 1) (this.mono (a' := n + 2) (by omega) (Nat.le_refl _)) (by omega)) (by omega)
      simpa using this
    | dep i d hh hid hd =>
      have h1 := IDep.fresh_le d (n + 1)
      have hh' := ITrees.icopyAll_ids hd ((d.fresh (n + 1)).2 + 1) (by simpa [ITree.noTobj] using g)
      have hl := ITrees.icopyAll_le hd ((d.fresh (n + 1)).2 + 1)
      have hd' := IDep.fresh_ids d (n + 1)
      have hhid : InR (if hh then [(d.fresh (n + 1)).2] else []) (d.fresh (n + 1)).2 ((d.fresh (n + 1)).2 + 1) := by
        split
        · exact InR.single _
        · exact InR.nil _ _
      have := (hd'.append hhid (by omega) (by omega)).append hh' (by omega) hl
      have := InR.cons this (by omega)
      simpa [ITree.icopy, ITree.ids, List.append_assoc] using this
    | mnode i k => simpa [ITree.icopy, ITree.ids] using InR.single n
    | tobjL rh c => simp [ITree.noTobj] at g
    | tobj1 rh c => simp [ITree.noTobj] at g
    | _ => simpa [ITree.icopy, ITree.ids] using InR.nil n n
  theorem ITrees.icopyAll_ids (ks : ITrees) (n : Nat) (g : ks.noTobjAll = true) :
      InR (ks.icopyAll n).1.idsAll n (ks.icopyAll n).2 := by
    cases ks with
    | nil => simpa [ITrees.icopyAll, ITrees.idsAll] using InR.nil n n
    | cons h t =>
      simp only [ITrees.noTobjAll, Bool.and_eq_true] at g
      have h1 := ITree.icopy_ids h n g.1
      have h2 := ITrees.icopyAll_ids t (h.icopy n).2 g.2
      simp only [ITrees.icopyAll, ITrees.idsAll]
      exact h1.append h2 (ITree.icopy_le h n) (ITrees.icopyAll_le t _)
end

mutual
  theorem ITree.itagify_le (x : ITree) (n : Nat) : n ≤ (x.itagify n).2 := by
    cases x with
    | tag i a k nm ws at' kids =>
      have := ITrees.itagifyAll_le kids (n + 4)
      simp only [ITree.itagify]; omega
    | tobjL rh c => simpa [ITree.itagify] using ITrees.itagifyAll_le c n
    | tobj1 rh c => simpa [ITree.itagify] using ITree.itagify_le c n
    | dep i d hh hid hd =>
      have h1 := IDep.fresh_le d (n + 1)
      have h2 := ITrees.icopyAll_le hd ((d.fresh (n + 1)).2 + 1)
      simp only [ITree.itagify]; omega
    | mnode i k => simp [ITree.itagify]
    | _ => simp [ITree.itagify]
  theorem ITrees.itagifyAll_le (ks : ITrees) (n : Nat) : n ≤ (ks.itagifyAll n).2 := by
    cases ks with
    | nil => simp [ITrees.itagifyAll]
    | cons h t =>
      have h1 := ITrees.itagifyAll_le t n
      have h2 := ITree.itagify_le h (t.itagifyAll n).2
      simp only [ITrees.itagifyAll]; omega
end

mutual
  /-- every mutable object in what `tagify()` puts in a child's place is new, and no two are the same -/
  theorem ITree.itagify_ids (x : ITree) (n : Nat) (g : x.headsPlain = true) :
      InR (x.itagify n).1.idsAll n (x.itagify n).2 := by
    cases x with
    | tag i a k nm ws at' kids =>
      have hk := ITrees.itagifyAll_ids kids (n + 4) (by simpa [ITree.headsPlain] using g)
      have hl := ITrees.itagifyAll_le kids (n + 4)
      simp only [ITree.itagify, ITrees.idsAll, ITree.ids]
      have h3 : InR [n + 3] (n + 3) (n + 4) := InR.single _
      have := (h3.append hk (by omega) hl)
      have := InR.cons (a := n) (InR.cons (a := n + 1) (this.mono (a' := n + 2) (by omega) (Nat.le_refl _)) (by omega)) (by omega)
      simpa using this
    | tobjL rh c =>
      simpa [ITree.itagify] using ITrees.itagifyAll_ids c n (by simpa [ITree.headsPlain] using g)
    | tobj1 rh c =>
      simpa [ITree.itagify] using ITree.itagify_ids c n (by simpa [ITree.headsPlain] using g)
    | dep i d hh hid hd =>
      have h1 := IDep.fresh_le d (n + 1)
      have hh' := ITrees.icopyAll_ids hd ((d.fresh (n + 1)).2 + 1) (by simpa [ITree.headsPlain] using g)
      have hl := ITrees.icopyAll_le hd ((d.fresh (n + 1)).2 + 1)
      have hd' := IDep.fresh_ids d (n + 1)
      have hhid : InR (if hh then [(d.fresh (n + 1)).2] else []) (d.fresh (n + 1)).2 ((d.fresh (n + 1)).2 + 1) := by
        split
        · exact InR.single _
        · exact InR.nil _ _
      have := (hd'.append hhid (by omega) (by omega)).append hh' (by omega) hl
      have := InR.cons this (by omega)
      simpa [ITree.itagify, ITrees.idsAll, ITree.ids, List.append_assoc] using this
    | mnode i k => simpa [ITree.itagify, ITrees.idsAll, ITree.ids] using InR.single n
    | _ => simpa [ITree.itagify, ITrees.idsAll, ITree.ids] using InR.nil n n
  theorem ITrees.itagifyAll_ids (ks : ITrees) (n : Nat) (g : ks.headsPlainAll = true) :
      InR (ks.itagifyAll n).1.idsAll n (ks.itagifyAll n).2 := by
    cases ks with
    | nil => simpa [ITrees.itagifyAll, ITrees.idsAll] using InR.nil n n
    | cons h t =>
      simp only [ITrees.headsPlainAll, Bool.and_eq_true] at g
      have h2 := ITrees.itagifyAll_ids t n g.2
      have h1 := ITree.itagify_ids h (t.itagifyAll n).2 g.1
      simp only [ITrees.itagifyAll, ITrees.idsAll_append]
      exact h1.append_rev h2 (ITrees.itagifyAll_le t n) (ITree.itagify_le h _)
end

/-! ### a mutation at an id that does not occur changes nothing -/

theorem IDictList.mutate_of_not_mem (l : IDictList) (i : Nat) (f : Mut) (h : i ∉ l.ids) : l.mutate i f = l := by
  simp only [IDictList.ids, List.mem_cons, List.mem_map, not_or, not_exists, not_and] at h
  have hitems : l.items.map (IDict.mutate i f) = l.items := by
    have : ∀ d ∈ l.items, IDict.mutate i f d = d := by
      intro d hd
      have := h.2 d hd
      simp [IDict.mutate, this]
    rw [List.map_congr_left this, List.map_id']
  have hne : l.id ≠ i := fun e => h.1 e.symm
  simp [IDictList.mutate, hitems, hne]

theorem IDep.mutate_of_not_mem (d : IDep) (i : Nat) (f : Mut) (h : i ∉ d.ids) : d.mutate i f = d := by
  simp only [IDep.ids, List.mem_append, not_or] at h
  obtain ⟨⟨⟨hs, h1⟩, h2⟩, h3⟩ := h
  have hsrc : (if d.sourceId = i ∧ DepSource.isNone d.source = false then f.sourceF d.source else d.source) = d.source := by
    by_cases hn : DepSource.isNone d.source
    · simp [hn]
    · have : d.sourceId ≠ i := by
        intro e; apply hs; simp [hn, e]
      simp [this]
  simp only [IDep.mutate, hsrc, IDictList.mutate_of_not_mem _ i f h1, IDictList.mutate_of_not_mem _ i f h2,
    IDictList.mutate_of_not_mem _ i f h3]

mutual
  theorem ITree.mutateAt_of_not_mem (x : ITree) (i : Nat) (f : Mut) (h : i ∉ x.ids) : x.mutateAt i f = x := by
    cases x with
    | tag id aid kid nm ws a kids =>
      simp only [ITree.ids, List.mem_cons, not_or] at h
      obtain ⟨h1, h2, h3, h4⟩ := h
      have hk := ITrees.mutateAll_of_not_mem kids i f h4
      have e1 : id ≠ i := fun e => h1 e.symm
      have e2 : aid ≠ i := fun e => h2 e.symm
      have e3 : kid ≠ i := fun e => h3 e.symm
      simp [ITree.mutateAt, hk, e1, e2, e3]
    | mnode id k =>
      have e1 : id ≠ i := by
        intro e; apply h; simp [ITree.ids, e]
      simp [ITree.mutateAt, e1]
    | dep id d hh hid hd =>
      simp only [ITree.ids, List.mem_cons, List.mem_append, not_or] at h
      obtain ⟨⟨⟨h1, h2⟩, h3⟩, h4⟩ := h
      have hk := ITrees.mutateAll_of_not_mem hd i f h4
      have hd' := IDep.mutate_of_not_mem d i f h2
      have e1 : id ≠ i := fun e => h1 e.symm
      have e3 : ¬ (hid = i ∧ hh = true) := by
        rintro ⟨e, hh'⟩; apply h3; simp [hh', e]
      simp [ITree.mutateAt, hk, hd', e1, e3]
    | tobjL rh c =>
      have := ITrees.mutateAll_of_not_mem c i f (by simpa [ITree.ids] using h)
      simp [ITree.mutateAt, this]
    | tobj1 rh c =>
      have := ITree.mutateAt_of_not_mem c i f (by simpa [ITree.ids] using h)
      simp [ITree.mutateAt, this]
    | _ => simp [ITree.mutateAt]
  theorem ITrees.mutateAll_of_not_mem (ks : ITrees) (i : Nat) (f : Mut) (h : i ∉ ks.idsAll) : ks.mutateAll i f = ks := by
    cases ks with
    | nil => simp [ITrees.mutateAll]
    | cons a t =>
      simp only [ITrees.idsAll, List.mem_append, not_or] at h
      simp [ITrees.mutateAll, ITree.mutateAt_of_not_mem a i f h.1, ITrees.mutateAll_of_not_mem t i f h.2]
end

end HtmlVerif.Ident
