import HtmlVerif.Spec.Layout
import HtmlVerif.Lemmas.Render

namespace HtmlVerif

theorem joinLines_cons (eol : Str) (l : Line) (ls : List Line) :
    joinLines eol (l :: ls) = indentStr l.1 ++ l.2 ++ pjoin eol ls := by
  induction ls generalizing l with
  | nil => obtain ⟨i, s⟩ := l; simp [joinLines, pjoin]
  | cons m ms ih =>
    obtain ⟨i, s⟩ := l
    rw [joinLines, ih m]
    simp [pjoin]

@[simp] theorem pjoin_nil (eol : Str) : pjoin eol [] = [] := rfl

theorem pjoin_append (eol : Str) (a b : List Line) : pjoin eol (a ++ b) = pjoin eol a ++ pjoin eol b := by
  simp [pjoin]

theorem pjoin_cons (eol : Str) (l : Line) (ls : List Line) :
    pjoin eol (l :: ls) = eol ++ indentStr l.1 ++ l.2 ++ pjoin eol ls := by
  simp [pjoin]

theorem pjoin_eq_eol_join (eol : Str) (ls : List Line) (h : ls ≠ []) :
    pjoin eol ls = eol ++ joinLines eol ls := by
  cases ls with
  | nil => exact absurd rfl h
  | cons l r => rw [joinLines_cons, pjoin_cons]; simp

theorem joinLines_append (eol : Str) (a b : List Line) (h : a ≠ []) :
    joinLines eol (a ++ b) = joinLines eol a ++ pjoin eol b := by
  cases a with
  | nil => exact absurd rfl h
  | cons l r => rw [List.cons_append, joinLines_cons, joinLines_cons, pjoin_append]; simp

/-- text the following non-block children add to the run that is currently open -/
def Nodes.runCont (cfg : Cfg) : Nodes → Bool → Str
  | .nil, _ => []
  | .cons h t, esc =>
    if h.isMeta then t.runCont cfg esc
    else if h.isBlock then []
    else h.flatIn cfg esc ++ t.runCont cfg esc

/-- the lines after the currently open run has been closed by the next block child -/
def Nodes.afterRun (cfg : Cfg) : Nodes → Nat → Bool → List Line
  | .nil, _, _ => []
  | .cons h t, lvl, esc =>
    if h.isMeta then t.afterRun cfg lvl esc
    else if h.isBlock then h.layout cfg lvl ++ t.groupLines cfg lvl esc none
    else t.afterRun cfg lvl esc

theorem groupLines_some (cfg : Cfg) (ks : Nodes) (lvl : Nat) (esc : Bool) (run : Str) :
    ks.groupLines cfg lvl esc (some run) = (lvl, run ++ ks.runCont cfg esc) :: ks.afterRun cfg lvl esc := by
  induction ks using Nodes.rec (motive_1 := fun _ => True) generalizing run with
  | nil => simp [Nodes.groupLines, Nodes.runCont, Nodes.afterRun]
  | cons h t _ ih =>
    by_cases hm : h.isMeta = true
    · simp [Nodes.groupLines, Nodes.runCont, Nodes.afterRun, hm, ih]
    · by_cases hb : h.isBlock = true
      · simp [Nodes.groupLines, Nodes.runCont, Nodes.afterRun, hm, hb]
      · simp [Nodes.groupLines, Nodes.runCont, Nodes.afterRun, hm, hb, ih]
  | _ => trivial

theorem layout_ne_nil (cfg : Cfg) (n : Str) (w : Bool) (a : Attrs) (k : Nodes) (i : Nat) :
    (Node.tag n w a k).layout cfg i ≠ [] := by
  simp only [Node.layout]; split <;> simp

theorem groupLines_none_ne_nil (cfg : Cfg) (ks : Nodes) (lvl : Nat) (esc : Bool)
    (h : ks.visible.isEmpty = false) : ks.groupLines cfg lvl esc none ≠ [] := by
  induction ks using Nodes.rec (motive_1 := fun _ => True) with
  | nil => simp [Nodes.visible] at h
  | cons x t _ ih =>
    by_cases hm : x.isMeta = true
    · simp only [Nodes.groupLines, hm, if_true]
      exact ih (by simpa [Nodes.visible, hm] using h)
    · by_cases hb : x.isBlock = true
      · cases x with
        | tag n w a k =>
          simp only [Nodes.groupLines, hm, hb, if_true, Bool.false_eq_true, if_false]
          have := layout_ne_nil cfg n w a k lvl
          cases hl : (Node.tag n w a k).layout cfg lvl with
          | nil => exact absurd hl this
          | cons _ _ => simp
        | _ => simp [Node.isBlock] at hb
      · simp [Nodes.groupLines, hm, hb, groupLines_some]
  | _ => trivial

end HtmlVerif
