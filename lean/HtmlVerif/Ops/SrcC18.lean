/-
Driver op that *runs* the regenerated `Tag/TagList.render`, `_render_tag_or_taglist`, `Tag/TagList.__str__`,
`hash_deterministic` and `head_content` with the run-time parameters of this area (DESIGN §14, translator validation):

  srcc18 <pval: html_dependency_render_mode> <function> [ <pval>… ]      → ok <pval> | err <kind> | unsupported

* `html_dependency_render_mode` — the value of the package attribute while the call runs (the harness sets it);
* SHA-1 — the executable `Model/Sha1.lean` (`hashlib.sha1(s.encode("utf-8")).hexdigest()`);
* `packaging.version.Version("0.0")` (the constructor call in `head_content`) — rank 0, text "0.0"; any other string that
  reaches `Version(…)` yields a marked object and the answer is `unsupported` (no verdict).
The pval syntax is that of `Ops/Src.lean`.
-/
import HtmlVerif.Ops.Base
import HtmlVerif.Generated.Src
import HtmlVerif.Model.Sha1

namespace HtmlVerif.Ops
open HtmlVerif HtmlVerif.Wire HtmlVerif.Py

private def c18Unknown : PVal := .obj "VersionNotInTable" []

private def c18G (mode : PVal) : Globals :=
  { HTML_ESCAPE_TABLE := embTbl cfg.textTbl, HTML_ATTRS_ESCAPE_TABLE := embTbl cfg.attrTbl,
    VOID_TAG_NAMES := cfg.void, NO_ESCAPE_TAG_NAMES := cfg.noesc, isSpace := fun _ => false, lower := id,
    mkVersion := fun s => if s == ['0', '.', '0'] then some (versionObjC10b 0 s) else some c18Unknown,
    renderModeC18 := mode,
    sha1HexC18 := fun s => some (Sha1.sha1Hex s) }

private partial def c18PVal : P PVal := do
  let t ← next
  match t with
  | "N" => pure .none
  | "T" => pure (.bool true)
  | "F" => pure (.bool false)
  | "I" => do
    let s ← next
    match s.toInt? with
    | some n => pure (.int n)
    | none => throw s!"bad int {s}"
  | "D" => .float <$> str
  | "S" => .str <$> str
  | "H" => .html <$> str
  | "L" => .list <$> listOf c18PVal
  | "U" => .tuple <$> listOf c18PVal
  | "M" => .dict <$> listOf (do let k ← str; let v ← c18PVal; pure (k, v))
  | "O" => do
    let c ← next
    let fs ← listOf (do let k ← next; let v ← c18PVal; pure (k, v))
    pure (.obj c fs)
  | _ => throw s!"bad pval {t}"

private partial def c18Enc : PVal → String
  | .none => "N"
  | .bool true => "T"
  | .bool false => "F"
  | .int n => s!"I {n}"
  | .float t => "D " ++ encStr t
  | .str s => "S " ++ encStr s
  | .html s => "H " ++ encStr s
  | .list xs => "L " ++ encList (xs.map c18Enc)
  | .tuple xs => "U " ++ encList (xs.map c18Enc)
  | .dict kvs => "M " ++ encList (kvs.map fun kv => encStr kv.1 ++ " " ++ c18Enc kv.2)
  | .obj c fs => "O " ++ c ++ " " ++ encList (fs.map fun kv => kv.1 ++ " " ++ c18Enc kv.2)

/-- the value holds a Version the op says nothing about -/
private partial def c18Tainted : PVal → Bool
  | .list xs => xs.any c18Tainted
  | .tuple xs => xs.any c18Tainted
  | .dict kvs => kvs.any fun kv => c18Tainted kv.2
  | .obj c fs => c == "VersionNotInTable" || fs.any fun kv => c18Tainted kv.2
  | _ => false

private def c18Err : PyErr → String
  | .typeError => "err TypeError"
  | .valueError => "err ValueError"
  | .keyError => "err KeyError"
  | .indexError => "err IndexError"
  | .attributeError => "err AttributeError"
  | .runtimeError => "err RuntimeError"
  | .notImplemented => "err NotImplementedError"
  | .exception => "err Exception"
  | .fuel => "unsupported fuel"
  | .unsupported => "unsupported"

def srcC18Ops : OpTable
  | "srcc18" => some do
    let mode ← c18PVal
    let f ← next
    let a ← listOf c18PVal
    match Generated.Src.runByName (c18G mode) f a with
    | none => pure "unsupported"      -- not translated (left the fragment) or unknown: no verdict
    | some r =>
      match r with
      | .ok v => pure (if c18Tainted v then "unsupported version" else "ok " ++ c18Enc v)
      | .error e => pure (c18Err e)
  | _ => none

end HtmlVerif.Ops
