"""Translator plug-in for the rest of htmltools/_jsx.py (C20; DESIGN §14): `JSXTagAttrDict.__setitem__ / _update / update /
__init__`, `JSXTag.__init__ / extend / append / __copy__`.  Loaded after pytr_c20.py (file-name order): the translations of
`JSXTagAttrDict._normalize_attr_name`, `_render_react_js`, `_serialize_attr`, `_serialize_style_attr` are callees, and the
hooks of pytr_c20.py — which apply to every function of `_jsx.py` (`…J` primitives for operands that may be `jsx` strings,
no truth test of a value that is not a bool by construction) — apply to the functions of this area as well.  The hooks below
are first in line for this area's functions only (`MINE`) and handle what pytr_c20.py refuses:

  * `self.<m>(…)` in expression position, `<m>` a translated method of the class that returns a value
    (`self._normalize_attr_name(key)`): the base translator's statically resolved call;
  * `x.upper()`: `pyUpperC20b G (asStr x)` — `str.upper` is what the running interpreter contributes (`Globals.upperC20b`);
  * `super().update(**d)` as a statement in a `dict` subclass: `pyDictUpdateKwC20b` (the keys of `d` become items; a `d` that
    is not a mapping raises TypeError);
  * `super().__init__()`, `self.<m>(*a, **k)`, `self.<field>.<m>(*a)` statements and the constructor call
    `JSXTagAttrDict(**kwargs)`: the star-argument binding of harness/pytr_c15b.py (`_call_star`), under the same syntactic
    conditions on the class (`_class_ok`);
  * `TagList(*args)` with `TagList` imported from `._core`: the translated `TagList.__init__` on a new, empty instance, under
    the conditions pytr_c14.py checks for the class in its own module (only base `UserList`, no `__new__` / metaclass).  The
    translations of `_core.py` use the base primitives, which treat a `jsx` string as an instance without special methods (so
    `isinstance(x, str)` is false there); the argument therefore first goes through `pyNoJsxArgsC20b`, which answers
    `unsupported` when a `jsx` string would reach them (directly or inside a list / tuple / TagList argument) — no claim is
    made about such a call;
  * `self.__class__.__new__(self.__class__)`: a new instance of the class of `self` with an empty `__dict__`
    (`pyNewLikeC20b`), when the class defines no `__new__` / `__slots__` and has no bases; the name bound to it — exactly once,
    at the top level of the body, never aliased — is a *fresh object*: `cp.__dict__.update(self.__dict__)`
    (`pyDictAttrUpdateC20b`) and `cp.a = e` are functional updates of the name;
  * `copy.copy(e)` with `copy` the module imported at top level: `pyCopyC20b` (a value has no identity, so the copy is the
    value — except that `copy.copy` rebuilds an instance of a `dict` subclass through the subclass's `__setitem__`, which for
    a JSXTagAttrDict normalises the names again: a dict with a key that contains `_` is `unsupported`).
"""
from __future__ import annotations

import ast
import os

_T = None
FILE = "htmltools/_jsx.py"
CORE = "htmltools/_core.py"

#: Lean names of this area's translations
MINE = ("JSXTagAttrDict_setitemC20b", "JSXTagAttrDict_updateMapC20b", "JSXTagAttrDict_updateC20b", "JSXTagAttrDict_initC20b",
        "JSXTag_initC20b", "JSXTag_extendC20b", "JSXTag_appendC20b", "JSXTag_copyC20b")

_mods: dict = {}


def _mod(path_in_repo: str) -> ast.Module:
    path = os.path.join(_T.repo(), path_in_repo)
    key = (path, os.path.getmtime(path))
    if key not in _mods:
        with open(path, encoding="utf-8") as f:
            _mods[key] = ast.parse(f.read())
    return _mods[key]


def _shadowed(fn, name: str) -> bool:
    return name in fn.all_params or name in fn.locals


def _bindings(mod: ast.Module, name: str) -> list[ast.stmt]:
    """the module-level statements that bind `name`"""
    out = []
    for n in mod.body:
        if isinstance(n, (ast.Import, ast.ImportFrom)):
            if any((a.asname or a.name.split(".")[0]) == name for a in n.names):
                out.append(n)
        elif isinstance(n, (ast.FunctionDef, ast.AsyncFunctionDef, ast.ClassDef)) and n.name == name:
            out.append(n)
        elif isinstance(n, (ast.Assign, ast.AnnAssign, ast.AugAssign)):
            tg = n.targets if isinstance(n, ast.Assign) else [n.target]
            if any(isinstance(x, ast.Name) and x.id == name for t in tg for x in ast.walk(t)):
                out.append(n)
        elif isinstance(n, (ast.For, ast.While, ast.If, ast.With, ast.Try)):
            if any(isinstance(x, ast.Name) and x.id == name and isinstance(x.ctx, ast.Store) for x in ast.walk(n)):
                out.append(n)
    return out


def _from_core(fn, name: str) -> bool:
    """`name` is bound in this module exactly once, by `from ._core import name`, and not shadowed in the function"""
    if _shadowed(fn, name):
        return False
    bs = _bindings(_mod(fn.spec.file), name)
    return (len(bs) == 1 and isinstance(bs[0], ast.ImportFrom) and bs[0].level == 1 and bs[0].module == "_core"
            and any(a.name == name and a.asname is None for a in bs[0].names))


def _is_module(fn, name: str) -> bool:
    """`name` is the module of that name: bound at top level by `import name` only"""
    if _shadowed(fn, name):
        return False
    bs = _bindings(_mod(fn.spec.file), name)
    return len(bs) == 1 and isinstance(bs[0], ast.Import) and any(a.name == name and a.asname is None for a in bs[0].names)


def _core_userlist_class(name: str) -> bool:
    """in `_core.py`: `class name(UserList[…])` with `UserList` from `collections`, no metaclass / decorator / `__new__`"""
    import pytr_c14
    mod = _mod(CORE)
    cs = _bindings(mod, name)
    if len(cs) != 1 or not isinstance(cs[0], ast.ClassDef):
        return False
    c = cs[0]
    if len(c.bases) != 1 or c.keywords or c.decorator_list or pytr_c14.defines(c, "__new__") or pytr_c14.defines(c, "__init_subclass__"):
        return False
    b = c.bases[0]
    n = b.value if isinstance(b, ast.Subscript) else b
    if not (isinstance(n, ast.Name) and n.id == "UserList"):
        return False
    ub = _bindings(mod, "UserList")
    return (len(ub) == 1 and isinstance(ub[0], ast.ImportFrom) and ub[0].module == "collections" and ub[0].level == 0
            and any(a.name == "UserList" and a.asname is None for a in ub[0].names))


def _is_self(fn, e) -> bool:
    return (isinstance(e, ast.Name) and e.id == "self" and fn.cls is not None and bool(fn.params) and fn.params[0] == "self"
            and not fn.spec.drop_self and "self" not in fn.assigned_names(fn.node))


def _is_new_like(fn, e) -> bool:
    """`self.__class__.__new__(self.__class__)`"""
    def self_class(x):
        return isinstance(x, ast.Attribute) and x.attr == "__class__" and _is_self(fn, x.value)
    return (isinstance(e, ast.Call) and isinstance(e.func, ast.Attribute) and e.func.attr == "__new__" and self_class(e.func.value)
            and len(e.args) == 1 and not e.keywords and self_class(e.args[0]))


def _plain_object_class(cls: ast.ClassDef) -> str | None:
    import pytr_c14
    if cls.bases or cls.keywords or cls.decorator_list:
        return f"class {cls.name} has bases / a metaclass / a decorator"
    for nm in ("__new__", "__slots__", "__init_subclass__", "__setattr__", "__getattribute__", "__getattr__"):
        if pytr_c14.defines(cls, nm):
            return f"class {cls.name} defines {nm}"
    return None


def new_bound(fn) -> set[str]:
    """names bound exactly once, by `name = self.__class__.__new__(self.__class__)` at the top level of the body, and never
    aliased: not the whole right-hand side of an assignment, not inside a display, not an argument of a call, not captured"""
    if hasattr(fn, "_c20b_new_bound"):
        return fn._c20b_new_bound
    cand = set()
    for s in fn.node.body:
        if isinstance(s, ast.Assign) and len(s.targets) == 1 and isinstance(s.targets[0], ast.Name) and _is_new_like(fn, s.value):
            cand.add(s.targets[0].id)
    count: dict[str, int] = {}
    bad: set[str] = set()
    for n in ast.walk(fn.node):
        tg = []
        if isinstance(n, ast.Assign):
            tg = [(t, n.value) for t in n.targets]
        elif isinstance(n, (ast.AnnAssign, ast.AugAssign)):
            tg = [(n.target, n.value)]
        elif isinstance(n, ast.For):
            tg = [(n.target, None)]
        elif isinstance(n, ast.NamedExpr):
            tg = [(n.target, n.value)]
        for t, v in tg:
            for nm in ast.walk(t):
                if isinstance(nm, ast.Name) and isinstance(nm.ctx, ast.Store):
                    count[nm.id] = count.get(nm.id, 0) + 1
            if v is not None:
                if isinstance(v, ast.Name):
                    bad.add(v.id)
                if isinstance(v, (ast.List, ast.Tuple, ast.Dict, ast.Set)):
                    bad |= {x.id for x in ast.walk(v) if isinstance(x, ast.Name)}
        if isinstance(n, (ast.Lambda, ast.FunctionDef, ast.AsyncFunctionDef)) and n is not fn.node:
            bad |= {x.id for x in ast.walk(n) if isinstance(x, ast.Name)}
        if isinstance(n, ast.Call):
            for a in list(n.args) + [k.value for k in n.keywords]:
                if isinstance(a, ast.Name):
                    bad.add(a.id)
                if isinstance(a, ast.Starred) and isinstance(a.value, ast.Name):
                    bad.add(a.value.id)
    ok = {c for c in cand if count.get(c, 0) == 1 and c not in bad and c not in fn.all_params}
    fn._c20b_new_bound = ok
    return ok


# ------------------------------------------------------------------ expressions
def expr_hook(fn, e):
    T = _T
    if fn.spec.lean not in MINE:
        return None
    if not isinstance(e, ast.Call):
        return None
    f = e.func
    import pytr_c14
    import pytr_c15b
    if isinstance(f, ast.Attribute):
        # self.<m>(…), <m> a translated method of this class that returns a value
        if _is_self(fn, f.value):
            q = f"{fn.cls.name}.{f.attr}"
            info = next((i for i in fn.known.values() if i.spec.qual == q and i.spec.file == fn.spec.file), None)
            if info is not None:
                if info.spec.returns_self:
                    raise T.Untranslatable("self-mutating method used as an expression")
                if pytr_c15b._has_star(e):
                    raise T.Untranslatable("star arguments in a call of a translated method in expression position")
                return fn.call_known(info, e.args, e.keywords, recv=None if info.spec.drop_self else fn.name("self"))
        # x.upper()
        if f.attr == "upper" and not e.args and not e.keywords:
            return f"(← pyUpperC20b G (asStr {fn.V(f.value)}))"
        # copy.copy(e)
        if (isinstance(f.value, ast.Name) and f.value.id == "copy" and f.attr == "copy" and len(e.args) == 1 and not e.keywords
                and not isinstance(e.args[0], ast.Starred)):
            if not _is_module(fn, "copy"):
                raise T.Untranslatable("`copy` is not the module copy here")
            return f"(← pyCopyC20b {fn.V(e.args[0])})"
        # self.__class__.__new__(self.__class__)
        if _is_new_like(fn, e):
            bad = _plain_object_class(fn.cls)
            if bad:
                raise T.Untranslatable(f"self.__class__.__new__(…): {bad}")
            return f"(← pyNewLikeC20b {fn.name('self')})"
        return None
    if isinstance(f, ast.Name) and not _shadowed(fn, f.id):
        # JSXTagAttrDict(**kwargs)
        if f.id == "JSXTagAttrDict":
            info = fn.known.get("JSXTagAttrDict_initC20b")
            if info is None or not info.available:
                raise T.Untranslatable("JSXTagAttrDict.__init__ is not translated")
            if not pytr_c15b._class_ok(fn, f.id, info, "dict") or not info.spec.returns_self:
                raise T.Untranslatable("constructor call of JSXTagAttrDict: not the plain dict subclass of this module")
            return pytr_c15b._call_star(fn, info, e.args, e.keywords, recv="(PVal.dict [])")
        # TagList(*args), the class of _core.py
        if f.id == "TagList":
            info = fn.known.get("TagList_init")
            if info is None or not info.available:
                raise T.Untranslatable("TagList.__init__ is not translated")
            if not _from_core(fn, "TagList") or info.spec.file != CORE or info.spec.qual != "TagList.__init__" \
                    or not _core_userlist_class("TagList"):
                raise T.Untranslatable("constructor call of TagList: not the plain UserList subclass of ._core")
            if e.keywords or info.vararg is None or len(info.params) != 1 or info.kwonly or info.kwarg:
                raise T.Untranslatable("constructor call of TagList outside the fragment")
            if info.spec.recursive and not (fn.spec.recursive or fn.spec.group):
                raise T.Untranslatable("TagList.__init__ takes fuel, the caller has none")
            fuel = " fuel" if info.spec.recursive else ""
            return (f'(← {info.spec.lean} G{fuel} (PVal.obj "TagList" []) '
                    f"(← pyNoJsxArgsC20b (PVal.tuple {pytr_c14.seq_elts(fn, e.args)})))")
    return None


# ------------------------------------------------------------------ statements
def _dict_subclass(fn) -> bool:
    import pytr_c14
    c = fn.cls
    if c is None or len(c.bases) != 1 or c.keywords:
        return False
    b = c.bases[0]
    n = b.value if isinstance(b, ast.Subscript) else b
    if not isinstance(n, ast.Name):
        return False
    return n.id == "dict" or (n.id == "Dict" and pytr_c14._imported_from(fn, "Dict", ("typing",)))


def stmt_hook(fn, ind, s):
    T = _T
    if fn.spec.lean not in MINE:
        return False
    import pytr_c14
    import pytr_c15b
    # cp = self.__class__.__new__(self.__class__): cp becomes a fresh object
    if isinstance(s, ast.Assign) and len(s.targets) == 1 and isinstance(s.targets[0], ast.Name) and _is_new_like(fn, s.value):
        if s.targets[0].id not in new_bound(fn):
            raise T.Untranslatable(f"{s.targets[0].id} = self.__class__.__new__(…): the name is rebound or aliased")
        fn.fresh_objects.add(s.targets[0].id)
        return False
    if not (isinstance(s, ast.Expr) and isinstance(s.value, ast.Call)):
        return False
    c = s.value
    f = c.func
    if not isinstance(f, ast.Attribute):
        return False
    # cp.__dict__.update(self.__dict__)
    if (f.attr == "update" and isinstance(f.value, ast.Attribute) and f.value.attr == "__dict__" and isinstance(f.value.value, ast.Name)
            and f.value.value.id in fn.fresh_objects and len(c.args) == 1 and not c.keywords
            and isinstance(c.args[0], ast.Attribute) and c.args[0].attr == "__dict__" and _is_self(fn, c.args[0].value)):
        nm = fn.name(f.value.value.id)
        fn.emit(ind, f"{nm} := (← pyDictAttrUpdateC20b {nm} {fn.name('self')})")
        return True
    if pytr_c14.is_super_call(c, "__init__") or pytr_c14.is_super_call(c, "update"):
        if not (_dict_subclass(fn) and "self" in fn.all_params):
            return False
        me = fn.name("self")
        # super().__init__()
        if f.attr == "__init__":
            if c.args or c.keywords:
                raise T.Untranslatable("super().__init__(…) with arguments in a dict subclass")
            fn.mutates_self = True
            fn.emit(ind, f"{me} := (← pyDictInit0C15b {me})")
            return True
        # super().update(**d)
        if (not c.args and len(c.keywords) == 1 and c.keywords[0].arg is None and isinstance(c.keywords[0].value, ast.Name)):
            fn.mutates_self = True
            fn.emit(ind, f"{me} := (← pyDictUpdateKwC20b {me} {fn.V(c.keywords[0].value)})")
            return True
        return False
    # self.<field>.<m>(…): the field holds an instance of a class of `_core.py` whose translated method mutates it
    if (isinstance(f.value, ast.Attribute) and _is_self(fn, f.value.value) and (fn.cls.name, f.value.attr) in T.FIELD_CLASS):
        owner = T.FIELD_CLASS[(fn.cls.name, f.value.attr)]
        info = next((i for i in fn.known.values() if i.spec.qual == f"{owner}.{f.attr}" and i.spec.returns_self), None)
        if info is None:
            return False
        if not info.available:
            raise T.Untranslatable(f"calls {info.spec.qual}, which is not translated")
        if info.spec.file != CORE or c.keywords:
            return False
        me = fn.name("self")
        fld = f.value.attr
        fn.mutates_self = True
        recv = fn.fresh("recv")
        fn.emit(ind, f'let {recv} ← pyGetAttr {me} "{fld}"')          # Python evaluates the receiver first
        for a in c.args:                                              # no `jsx` string may reach the translations of `_core.py`
            x = a.value if isinstance(a, ast.Starred) else a
            if not isinstance(x, ast.Name):
                raise T.Untranslatable("argument of a TagList method that is not a plain name")
            fn.emit(ind, f"let _ ← pyNoJsxArgsC20b {fn.V(x)}")
        new = pytr_c15b._call_star(fn, info, c.args, c.keywords, recv=recv, ind=ind)
        fn.emit(ind, f'{me} := (← pySetAttr {me} "{fld}" {new})')
        return True
    if not pytr_c15b._has_star(c):
        return False
    # self.<m>(*a, **k): the method's effect is on self
    if _is_self(fn, f.value):
        q = f"{fn.cls.name}.{f.attr}"
        info = next((i for i in fn.known.values() if i.spec.qual == q and i.spec.file == fn.spec.file and i.spec.returns_self), None)
        if info is None:
            return False
        me = fn.name("self")
        fn.mutates_self = True
        fn.emit(ind, f"{me} := " + pytr_c15b._call_star(fn, info, c.args, c.keywords, recv=me, ind=ind))
        return True
    return False


def register(T):
    global _T
    _T = T
    F = T.FnSpec
    T.SPECS += [
        F(FILE, "JSXTagAttrDict.__setitem__", "JSXTagAttrDict_setitemC20b", returns_self=True),
        F(FILE, "JSXTagAttrDict._update", "JSXTagAttrDict_updateMapC20b", returns_self=True),
        F(FILE, "JSXTagAttrDict.update", "JSXTagAttrDict_updateC20b", returns_self=True),
        F(FILE, "JSXTagAttrDict.__init__", "JSXTagAttrDict_initC20b", returns_self=True),
        F(FILE, "JSXTag.__init__", "JSXTag_initC20b", returns_self=True, group="c20b_jsxtag_init"),
        F(FILE, "JSXTag.extend", "JSXTag_extendC20b", returns_self=True, group="c20b_jsxtag_extend"),
        F(FILE, "JSXTag.append", "JSXTag_appendC20b", returns_self=True, group="c20b_jsxtag_append"),
        F(FILE, "JSXTag.__copy__", "JSXTag_copyC20b"),
    ]
    T.ARITY.update({"JSXTagAttrDict_setitemC20b": 3, "JSXTagAttrDict_updateMapC20b": 2, "JSXTagAttrDict_updateC20b": 3,
                    "JSXTagAttrDict_initC20b": 2, "JSXTag_initC20b": 5, "JSXTag_extendC20b": 2, "JSXTag_appendC20b": 2,
                    "JSXTag_copyC20b": 1})
    # the children of a JSXTag are a TagList (`self.children = TagList(*args)` in `JSXTag.__init__`)
    T.FIELD_CLASS[("JSXTag", "children")] = "TagList"
    for m in ("HtmlVerif.Py.PrimC10", "HtmlVerif.Py.PrimC15b", "HtmlVerif.Py.PrimC20", "HtmlVerif.Py.PrimC20b"):
        if m not in T.IMPORTS:
            T.IMPORTS.append(m)
    # first in line for the functions of this area (the hooks decline every other function)
    T.EXPR_HOOKS.insert(0, expr_hook)
    T.STMT_HOOKS.insert(0, stmt_hook)
