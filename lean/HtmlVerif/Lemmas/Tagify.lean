/-
Helper lemmas for C09: `Nodes` as lists, and the loop invariant of the backwards splice loop of
`TagList.tagify`, generic in what the children's `tagify()` return.
-/
import HtmlVerif.Model.Tagify

namespace HtmlVerif

/-! ### `Nodes` ≃ `List Node` -/

@[simp] theorem Nodes.nil_append (b : Nodes) : Nodes.nil ++ b = b := rfl
@[simp] theorem Nodes.cons_append (h : Node) (t b : Nodes) : Nodes.cons h t ++ b = .cons h (t ++ b) := rfl

@[simp] theorem Nodes.append_nil (a : Nodes) : a ++ Nodes.nil = a := by
  induction a using Nodes.rec (motive_1 := fun _ => True) with
  | cons h t _ ih => simp [ih]
  | _ => trivial

theorem Nodes.append_assoc (a b c : Nodes) : (a ++ b) ++ c = a ++ (b ++ c) := by
  induction a using Nodes.rec (motive_1 := fun _ => True) with
  | cons h t _ ih => simp [ih]
  | _ => trivial

@[simp] theorem Nodes.toList_nil : Nodes.nil.toList = [] := rfl
@[simp] theorem Nodes.toList_cons (h : Node) (t : Nodes) : (Nodes.cons h t).toList = h :: t.toList := rfl

@[simp] theorem Nodes.toList_append (a b : Nodes) : (a ++ b).toList = a.toList ++ b.toList := by
  induction a using Nodes.rec (motive_1 := fun _ => True) with
  | cons h t _ ih => simp [ih]
  | _ => trivial

@[simp] theorem Nodes.ofList_toList (ks : Nodes) : Nodes.ofList ks.toList = ks := by
  induction ks using Nodes.rec (motive_1 := fun _ => True) with
  | cons h t _ ih => simp [Nodes.ofList, ih]
  | nil => rfl
  | _ => trivial

@[simp] theorem Nodes.toList_ofList (l : List Node) : (Nodes.ofList l).toList = l := by
  induction l with
  | nil => rfl
  | cons h t ih => simp [Nodes.ofList, ih]

theorem Nodes.length_eq (ks : Nodes) : ks.length = ks.toList.length := by
  induction ks using Nodes.rec (motive_1 := fun _ => True) with
  | cons h t _ ih => simp [Nodes.length, ih]
  | nil => rfl
  | _ => trivial

theorem Nodes.toList_inj {a b : Nodes} (h : a.toList = b.toList) : a = b := by
  rw [← Nodes.ofList_toList a, ← Nodes.ofList_toList b, h]

/-! ### the specification as a `flatMap` -/

theorem Nodes.toList_expandAll (ks : Nodes) :
    ks.expandAll.toList = ks.toList.flatMap (fun c => c.expand.toList) := by
  induction ks using Nodes.rec (motive_1 := fun _ => True) with
  | cons h t _ ih => simp [Nodes.expandAll, ih]
  | nil => rfl
  | _ => trivial

theorem Nodes.expandAll_append (a b : Nodes) : (a ++ b).expandAll = a.expandAll ++ b.expandAll := by
  induction a using Nodes.rec (motive_1 := fun _ => True) with
  | cons h t _ ih => simp [Nodes.expandAll, ih, Nodes.append_assoc]
  | nil => rfl
  | _ => trivial

theorem Nodes.tagifiedKids_append (a b : Nodes) :
    (a ++ b).tagifiedKids = (a.tagifiedKids && b.tagifiedKids) := by
  induction a using Nodes.rec (motive_1 := fun _ => True) with
  | cons h t _ ih => simp [Nodes.tagifiedKids, ih, Bool.and_assoc]
  | nil => simp [Nodes.tagifiedKids]
  | _ => trivial

theorem Nodes.tagifiedKids_iff_all (ks : Nodes) :
    ks.tagifiedKids = ks.toList.all Node.tagified := by
  induction ks using Nodes.rec (motive_1 := fun _ => True) with
  | cons h t _ ih => simp [Nodes.tagifiedKids, ih]
  | nil => rfl
  | _ => trivial

theorem Nodes.tdepth_le_of_mem {ks : Nodes} {c : Node} (h : c ∈ ks.toList) : c.tdepth ≤ ks.tdepthKids := by
  induction ks using Nodes.rec (motive_1 := fun _ => True) with
  | cons a t _ ih =>
    simp only [Nodes.toList_cons, List.mem_cons] at h
    simp only [Nodes.tdepthKids]
    cases h with
    | inl h => subst h; omega
    | inr h => have := ih h; omega
  | nil => simp at h
  | _ => trivial

/-! ### the loop -/

@[simp] theorem Node.isTagifiable_tag (n : Str) (w : Bool) (a : Attrs) (k : Nodes) : (Node.tag n w a k).isTagifiable = true := rfl
@[simp] theorem Node.isTagifiable_tobjL (rh : Option Str) (c : Nodes) : (Node.tobjL rh c).isTagifiable = true := rfl
@[simp] theorem Node.isTagifiable_tobj1 (rh : Option Str) (c : Node) : (Node.tobj1 rh c).isTagifiable = true := rfl
@[simp] theorem Node.isTagifiable_text (s : Str) : (Node.text s).isTagifiable = false := rfl
@[simp] theorem Node.isTagifiable_html (s : Str) : (Node.html s).isTagifiable = false := rfl
@[simp] theorem Node.isTagifiable_robj (s : Str) : (Node.robj s).isTagifiable = false := rfl
@[simp] theorem Node.isTagifiable_mnode (k : Nat) : (Node.mnode k).isTagifiable = false := rfl
@[simp] theorem Node.isTagifiable_dep (d : DepInfo) (hh : Bool) (hd : Nodes) : (Node.dep d hh hd).isTagifiable = false := rfl

/-- what one child contributes to the result, given the behaviour of `tagify()` on children:
    the declarative reading of the loop body -/
def stepSpec (tagifyOf : Node → TagifyResult) (c : Node) : List Node :=
  if c.isTagifiable then (tagifyOf c).splice else [c]

/-- the body of the loop at index `i = len(pre)` rewrites exactly the element at that index and
    leaves every element before and after it alone -/
theorem tagifyStep_at (r : Node → TagifyResult) (pre : List Node) (c : Node) (post : List Node) :
    tagifyStep r (pre ++ c :: post) pre.length = pre ++ stepSpec r c ++ post := by
  have hget : (pre ++ c :: post)[pre.length]? = some c := by simp
  unfold tagifyStep
  rw [hget]
  simp only [stepSpec]
  by_cases ht : c.isTagifiable
  · simp only [ht, if_true]
    cases r c with
    | taglist xs => simp [sliceAssign, tagchildsToTagnodes, TagifyResult.splice]
    | single x => simp [itemAssign, TagifyResult.splice]
  · simp only [ht]
    by_cases hm : c.isMeta <;> simp [hm, itemAssign]

/-- **loop invariant**, in the form "from any state `pre ++ post` with the index at `len(pre)`":
    running the remaining iterations (indices `len(pre)-1 … 0`) expands `pre` element by element and
    never touches `post` — splicing at index `i` does not move anything at an index `< i`. -/
theorem tagifyLoop_spec (r : Node → TagifyResult) :
    ∀ (i : Nat) (pre post : List Node), pre.length = i →
      tagifyLoop r (pre ++ post) i = pre.flatMap (stepSpec r) ++ post := by
  intro i
  induction i with
  | zero =>
    intro pre post h
    have : pre = [] := List.eq_nil_of_length_eq_zero h
    subst this
    simp [tagifyLoop]
  | succ i ih =>
    intro pre post h
    obtain ⟨pre', c, rfl⟩ : ∃ pre' c, pre = pre' ++ [c] := by
      refine ⟨pre.dropLast, pre.getLast (by intro h0; simp [h0] at h), ?_⟩
      exact (List.dropLast_concat_getLast _).symm
    have hl : pre'.length = i := by simpa using h
    have hstep := tagifyStep_at r pre' c post
    rw [hl] at hstep
    simp only [tagifyLoop, List.append_assoc, List.singleton_append]
    rw [hstep, List.append_assoc, ih pre' (stepSpec r c ++ post) hl]
    simp

/-- the whole loop on a list: a left-to-right `flatMap` -/
theorem tagifyLoop_all (r : Node → TagifyResult) (cp : List Node) :
    tagifyLoop r cp cp.length = cp.flatMap (stepSpec r) := by
  simpa using tagifyLoop_spec r cp.length cp [] rfl

theorem flatMap_congr_mem {α β} {l : List α} {f g : α → List β} (h : ∀ a ∈ l, f a = g a) :
    l.flatMap f = l.flatMap g := by
  induction l with
  | nil => rfl
  | cons a t ih =>
    simp only [List.flatMap_cons]
    rw [h a (by simp), ih (fun b hb => h b (by simp [hb]))]

end HtmlVerif
