/-
Primitives of the Python fragment used by the translations of `htmltools/_jsx.py` (C20).

`jsx("…")` values are instances of `class jsx(str)`.  In the universe of `Py/Val.lean` such a value is the instance
`PVal.obj "jsx" [("__str__", .str s)]` (class `jsx`; `__str__()` returns the text `s`, the convention `pyStr` already
has).  The primitives of `Py/Prim.lean` treat an `obj` as an instance of a class *without* special methods, which a
`str` subclass is not: `isinstance(x, str)` holds, every `str` method works (and returns a plain `str`), `len`, `+`,
`==`, iteration work.  The translator plug-in `harness/pytr_c20.py` therefore emits, for the functions of `_jsx.py`,
the `…J` variants below, which look at `jsx` operands first and otherwise are the base primitive.

Every definition here was compared with `/venv/bin/python` (harness/srctie_c20.py `--prims`, and the `src` lines of
every run).
-/
import HtmlVerif.Py.Prim

namespace HtmlVerif.Py
open HtmlVerif

/-! ### `jsx` strings -/

/-- the text of a `jsx` instance -/
def jsxText? : PVal → Option Str
  | .obj cls fs =>
    if cls == "jsx" then
      match fieldGet? "__str__" fs with
      | some (.str s) => some s
      | _ => Option.none
    else Option.none
  | _ => Option.none

/-- `jsx(s)` -/
def mkJsx (s : Str) : PVal := .obj "jsx" [("__str__", .str s)]

/-- a `jsx` string as the plain `str` it is for `str`'s methods (which return exact `str` objects also on a
    subclass receiver); every other value as it is -/
def asStr (x : PVal) : PVal :=
  match jsxText? x with
  | some s => .str s
  | Option.none => x

/-- `isinstance(v, (c₁, …))` where `v` may be a `jsx` string (bases: `str`, `object`) -/
def isInstanceJ (v : PVal) (classes : List String) : Bool :=
  match jsxText? v with
  | some _ => classes.any fun c => c == "jsx" || c == "str" || c == "object"
  | Option.none => isInstance v classes

/-- `str(x)`: an exact `str` also for a `jsx` argument -/
def pyStrJ (x : PVal) : PyM PVal := pyStr (asStr x)

/-- `len(x)`; a `UserList` instance (TagList) has the length of its `data` -/
def pyLenJ (x : PVal) : PyM PVal :=
  match asStr x with
  | .obj cls fs =>
    if isInstance (.obj cls fs) ["UserList"] then
      match fieldGet? "data" fs with
      | some (.list xs) => pure (.int xs.length)
      | _ => throw .unsupported
    else throw .unsupported            -- a class of the fragment's instances may or may not define `__len__`
  | y => pyLen y

/-- the items `for x in v` visits; a `jsx` string yields its characters as plain one-character strings -/
def pyIterJ (x : PVal) : PyM (List PVal) := pyIter (asStr x)

/-- `tuple(x)` -/
def pyTupleJ (x : PVal) : PyM PVal := do pure (.tuple (← pyIterJ x))

/-- `a + b` where an operand may be a `jsx` string: `jsx.__add__` is `str.__add__`, re-wrapped iff the other operand
    is a `jsx` too; `str + jsx` is `str.__add__`, a plain `str`.  `add` is `+` on the other value kinds. -/
def pyAddJ (add : PVal → PVal → PyM PVal) (a b : PVal) : PyM PVal :=
  match jsxText? a, jsxText? b with
  | some x, some y => pure (mkJsx (x ++ y))
  | some x, Option.none =>
    match b with
    | .str y => pure (.str (x ++ y))
    | _ => throw .unsupported           -- `str.__add__` returns NotImplemented: the reflected method of `b` decides
  | Option.none, some y =>
    match a with
    | .str x => pure (.str (x ++ y))
    | _ => throw .unsupported
  | Option.none, Option.none => add a b

/-- `a == b` (`jsx` inherits `str.__eq__`) -/
def pyEqJ (a b : PVal) : PyM PVal := pyEq (asStr a) (asStr b)

/-! ### numbers -/

/-- the three texts `str()` gives for a non-finite float -/
def nonFiniteText (t : Str) : Bool := t == "inf".toList || t == "-inf".toList || t == "nan".toList

/-- `math.isfinite(x)` -/
def mathIsFinite : PVal → PyM PVal
  | .float t => pure (.bool (!nonFiniteText t))
  | .int _ => pure (.bool true)
  | .bool _ => pure (.bool true)
  | .html _ => throw .unsupported      -- `UserString.__float__`
  | .obj _ _ => throw .unsupported     -- may define `__float__` / `__index__`
  | _ => throw .typeError

/-- `math.isnan(x)` -/
def mathIsNan : PVal → PyM PVal
  | .float t => pure (.bool (t == "nan".toList))
  | .int _ => pure (.bool false)
  | .bool _ => pure (.bool false)
  | .html _ => throw .unsupported
  | .obj _ _ => throw .unsupported
  | _ => throw .typeError

/-- is the float whose `str()` is `t` greater than zero: not negative, not `nan`, and `inf` or a mantissa with a
    non-zero digit -/
def floatPositive (t : Str) : Bool :=
  t == "inf".toList ||
    (t.head? != some '-' && t != "nan".toList && (t.takeWhile (· != 'e')).any fun c => '1' ≤ c && c ≤ '9')

/-- `a > b`; a float is compared with the int `0` only -/
def pyGtJ (a b : PVal) : PyM PVal :=
  match a, b with
  | .float t, .int n => if n == 0 then pure (.bool (floatPositive t)) else throw .unsupported
  | _, _ => pyGt a b

/-! ### `str` methods with an argument the base fragment does not have -/

/-- `s.split(c)` for a one-character separator: always at least one piece -/
def splitChar (c : Char) : Str → List Str
  | [] => [[]]
  | x :: xs =>
    if x = c then [] :: splitChar c xs
    else match splitChar c xs with
      | [] => [[x]]
      | p :: ps => (x :: p) :: ps

/-- `x.split(sep)` -/
def pySplitSep (x sep : PVal) : PyM PVal :=
  match textOf x, sep with
  | some s, .str [c] => pure (.list ((splitChar c s).map .str))     -- `UserString.split` returns plain `str` items too
  | some _, .str [] => throw .valueError                             -- "empty separator"
  | some _, .str _ => throw .unsupported
  | some _, .none => throw .unsupported                              -- split on whitespace runs
  | some _, .html _ => throw .unsupported
  | some _, .obj _ _ => throw .unsupported
  | some _, _ => throw .typeError
  | Option.none, _ => throw .attributeError

/-- `s.lower()` for a string of ASCII characters (there `str.lower` is the ASCII mapping) -/
def pyLowerJ : PVal → PyM PVal
  | .str s => if s.all (fun c => c.toNat < 128) then pure (.str (s.map Char.toLower)) else throw .unsupported
  | .html s => if s.all (fun c => c.toNat < 128) then pure (.html (s.map Char.toLower)) else throw .unsupported
  | _ => throw .attributeError

/-- `sep.join(it)`: every item must be a `str` (TypeError otherwise, also for `HTML`, which is not a `str`) -/
def strsOfJ : List PVal → PyM (List Str)
  | [] => pure []
  | x :: r =>
    match asStr x with
    | .str s => do pure (s :: (← strsOfJ r))
    | _ => throw .typeError

def pyJoinJ (sep it : PVal) : PyM PVal :=
  match asStr sep with
  | .str sp => do pure (.str (joinStr sp (← strsOfJ (← pyIterJ it))))
  | .html _ => throw .unsupported       -- `UserString.join`
  | _ => throw .attributeError

/-! ### `dict(pairs)` -/

/-- the `(key, value)` pairs of `dict(iterable)`: every element must be a sequence of length 2 (ValueError otherwise);
    only `str` keys are in the fragment -/
def pairsOf : List PVal → PyM (List (Str × PVal))
  | [] => pure []
  | it :: r => do
    let kv ← match it with
      | .tuple [.str key, v] => pure (key, v)
      | .list [.str key, v] => pure (key, v)
      | .tuple [_, _] => throw .unsupported      -- a key that is not a plain `str`
      | .list [_, _] => throw .unsupported
      | .tuple _ => throw .valueError
      | .list _ => throw .valueError
      | _ => throw .unsupported
    let rest ← pairsOf r
    pure (kv :: rest)

/-- `dict(x)` for a list / tuple of pairs or a dict -/
def pyDict : PVal → PyM PVal
  | .list xs => do pure (.dict ((← pairsOf xs).foldl (fun d kv => dictSet kv.1 kv.2 d) []))
  | .tuple xs => do pure (.dict ((← pairsOf xs).foldl (fun d kv => dictSet kv.1 kv.2 d) []))
  | .dict kvs => pure (.dict kvs)
  | _ => throw .unsupported

end HtmlVerif.Py
