/-
An abstract file system and the two functions of htmltools that write to it:
  HTMLDependency.copy_to   _core.py:1742-1784
  HTMLDocument.save_html   _core.py:1104-1131   (Tag.save_html 918-940, TagList.save_html 348-371 delegate)

The file system is a finite map  path ↦ bytes  (first entry for a path wins); directories are implicit
(a directory exists iff some file lies below it), so *empty directories are not representable*.
What each OS call does (shutil.copy2 / copytree / rmtree, Path.glob, os.path.exists, open) is MODELLED here,
not verified; the model fixes the order and the arguments of the calls, exactly as the code makes them.
Every state-changing function returns the final state *together with* the outcome, so that
"raised before anything was touched" is a theorem about the returned state and could be false.
-/
import HtmlVerif.Model.DepTags

namespace HtmlVerif

structure FS where
  files : List (Path × Bytes)
  deriving DecidableEq, Repr, Inhabited

/-- keep the first occurrence of every name -/
def dedupB : List Bytes → List Bytes
  | [] => []
  | a :: r => a :: (dedupB r).filter (fun x => x ≠ a)

namespace FS

def lookupP (p : Path) : List (Path × Bytes) → Option Bytes
  | [] => none
  | (k, v) :: r => if k = p then some v else lookupP p r

/-- content of the regular file at `p`, if there is one -/
def read (fs : FS) (p : Path) : Option Bytes := lookupP p fs.files

/-- `os.path.isfile` -/
def isFile (fs : FS) (p : Path) : Bool := (fs.read p).isSome

/-- paths of all files at or below `s`, relative to `s` -/
def keysUnder (fs : FS) (s : Path) : List Path :=
  (fs.files.filter (fun e => s.isPrefixOf e.1)).map (fun e => e.1.drop s.length)

/-- `os.path.isdir`: something lies strictly below `p` (the root always is one) -/
def isDir (fs : FS) (p : Path) : Bool := p.isEmpty || (fs.keysUnder p).any (fun r => !r.isEmpty)

/-- `os.path.exists` -/
def «exists» (fs : FS) (p : Path) : Bool := fs.isFile p || fs.isDir p

/-- create or overwrite the file at `p` -/
def write (fs : FS) (p : Path) (c : Bytes) : FS := ⟨(p, c) :: fs.files.filter (fun e => e.1 ≠ p)⟩

/-- `shutil.rmtree(t)`: everything at or below `t` disappears -/
def removeTree (fs : FS) (t : Path) : FS := ⟨fs.files.filter (fun e => !t.isPrefixOf e.1)⟩

/-- the entries at or below `s`, with paths relative to `s` -/
def under (fs : FS) (s : Path) : List (Path × Bytes) :=
  (fs.files.filter (fun e => s.isPrefixOf e.1)).map (fun e => (e.1.drop s.length, e.2))

/-- write a list of (relative path, content) below `t`; the first entry of the list is written last -/
def writeAll (t : Path) : List (Path × Bytes) → FS → FS
  | [], fs => fs
  | e :: r, fs => (writeAll t r fs).write (t ++ e.1) e.2

/-- `shutil.copytree(s, t)` onto a non-existing `t`: every file below `s` appears at the same relative path below `t` -/
def copyTree (fs : FS) (s t : Path) : FS := writeAll t (fs.under s) fs

/-- some path from the root down to and including `p` is a regular file: then `p` can neither be removed as a
    directory tree nor created as a directory (NotADirectoryError) -/
def fileOnPath (fs : FS) (p : Path) : Bool :=
  (List.range (p.length + 1)).any fun k => fs.isFile (p.take k)

/-- first components of everything strictly below `s`, without repetition (`Path(s).glob("*")`;
    pathlib's glob does list dot-files) -/
def topLevel (fs : FS) (s : Path) : List Bytes :=
  dedupB ((fs.keysUnder s).filterMap List.head?)

end FS

/-! ### copy_to -/

/-- `[s["src"] for s in self.script]` / `[s["href"] for s in self.stylesheet]`; a missing key is a KeyError -/
def listKey (k : Str) : List KVs → Except Err (List Str)
  | [] => .ok []
  | s :: r =>
    match alookup k s with
    | none => .error .keyError
    | some p =>
      match listKey k r with
      | .error e => .error e
      | .ok ps => .ok (p :: ps)

/-- the explicitly listed files of a dependency: scripts, then stylesheets (_core.py:1756-1759) -/
def listedFiles (d : DepInfo) : Except Err (List Str) :=
  match listKey dtKSrc d.script with
  | .error e => .error e
  | .ok a =>
    match listKey dtKHref d.stylesheet with
    | .error e => .error e
    | .ok b => .ok (a ++ b)

/-- "Collect all the source files" (_core.py:1751-1759) together with where each goes
    (`os.path.join(paths["source"], f)`, `os.path.join(target_dir, f)`; _core.py:1763, 1778-1779).
    With `all_files` the names come from the directory listing and are single components. -/
def copyItems (d : DepInfo) (source targetDir : Str) (fs : FS) : Except Err (List (Path × Path)) :=
  if d.allFiles then
    .ok ((fs.topLevel (pathResolve source)).map fun n => (pathResolve source ++ [n], pathResolve targetDir ++ [n]))
  else match listedFiles d with
    | .error e => .error e
    | .ok fl => .ok (fl.map fun f => (pathResolve (posixJoin source f), pathResolve (posixJoin targetDir f)))

/-- one round of the "Copy all the files" loop (_core.py:1777-1784): a file is copied (overwriting), a directory
    is copied as a tree (FileExistsError — an OSError — if the destination exists), anything else is skipped -/
def copyOne (it : Path × Path) (fs : FS) : FS × Except Err Unit :=
  match fs.read it.1 with
  | some c => (fs.write it.2 c, .ok ())
  | none =>
    if fs.isDir it.1 then
      if fs.exists it.2 then (fs, .error .exception) else (fs.copyTree it.1 it.2, .ok ())
    else (fs, .ok ())

def copyLoop : List (Path × Path) → FS → FS × Except Err Unit
  | [], fs => (fs, .ok ())
  | it :: r, fs =>
    match copyOne it fs with
    | (fs', .ok _) => copyLoop r fs'
    | (fs', .error e) => (fs', .error e)

/-- `HTMLDependency.copy_to(path, include_version=iv)`:
    nothing for URL / absent sources; collect → verify all exist (else `Exception`, nothing touched) →
    clear the target directory → copy. -/
def copyTo (d : DepInfo) (path : Str) (iv : Bool) (fs : FS) : FS × Except Err Unit :=
  let pm := sourcePathMap d none iv
  if pm.source.isEmpty then (fs, .ok ())
  else
    let targetDir := posixJoin path pm.href
    match copyItems d pm.source targetDir fs with
    | .error e => (fs, .error e)
    | .ok items =>
      if !items.all (fun it => fs.exists it.1) then (fs, .error .exception)
      else if fs.fileOnPath (pathResolve targetDir) then (fs, .error .exception)
      else copyLoop items (fs.removeTree (pathResolve targetDir))

/-! ### save_html -/

/-- `RenderedHTML` -/
structure FsRendered where
  html : Str
  deps : List DepInfo
  deriving Repr, Inhabited

/-- `for dep in rendered["dependencies"]: dep.copy_to(destdir, include_version=…)` -/
def copyAll : List DepInfo → Str → Bool → FS → FS × Except Err Unit
  | [], _, _, fs => (fs, .ok ())
  | d :: r, dest, iv, fs =>
    match copyTo d dest iv fs with
    | (fs', .ok _) => copyAll r dest iv fs'
    | (fs', .error e) => (fs', .error e)

/-- `destdir = str(Path(file).pathResolve().parent); if libdir: destdir = os.path.join(destdir, libdir)` -/
def destDir (fileAbs : Str) (libdir : Option Str) : Str :=
  withPrefix' (dirname fileAbs) libdir
where
  withPrefix' (dir : Str) : Option Str → Str
    | none => dir
    | some l => if l.isEmpty then dir else posixJoin dir l

/-- `HTMLDocument.save_html(file, libdir, include_version)`.
    `render` is the document's own `render(lib_prefix=·, include_version=·)`; `fileAbs` is
    `str(Path(file).pathResolve())` (the working directory and symbolic links are the runtime's contribution).
    The text is written with the locale's encoding, modelled as UTF-8. -/
def saveHtml (render : Option Str → Bool → FsRendered) (file fileAbs : Str) (libdir : Option Str) (iv : Bool)
    (fs : FS) : FS × Except Err Str :=
  let rendered := render libdir iv
  match copyAll rendered.deps (destDir fileAbs libdir) iv fs with
  | (fs', .error e) => (fs', .error e)
  | (fs', .ok _) =>
    if fs'.isDir (pathResolve fileAbs) || fs'.fileOnPath (pathResolve fileAbs).dropLast then (fs', .error .exception)
    else (fs'.write (pathResolve fileAbs) (utf8 rendered.html), .ok file)

end HtmlVerif
