/-
Executable statement of C11, evaluated by the driver on the *implementation's* answers.
Uses the specification-side definitions only (`specTree`, `docDeps`, `noDepInDepHead` of Spec/Document.lean,
the renderer, and `resolve ∘ collect` of C10) — not the index loop / insert / extend model of the code.
-/
import HtmlVerif.Spec.Document
import HtmlVerif.Holds.C10

namespace HtmlVerif.Holds
open HtmlVerif HtmlVerif.Doc

/-- what `render()` answered: markup, returned dependency list, and the user's content after the call -/
abbrev DocAnswer := Except Err (Str × List Node × Nodes)

/-- the clauses of the statement that fail on an answer.  The clause about the returned list is labelled
    `returned!g` when the guard `noDepInDepHead` of `C11_returned` is false for the input (the input class of
    the recorded finding F-C11), `returned` otherwise. -/
def failsC11 (cfg : Cfg) (content : Nodes) (kw : List (Str × AttrArg)) (lp : Option Str) (iv : Bool)
    (out : DocAnswer) : List String :=
  match specTree cfg content kw lp iv, out with
  | .error e, .error e' => clause "wrong-error-kind" (e == e')
  | .error _, .ok _ => ["accepted-what-the-statement-rejects"]
  | .ok _, .error _ => ["raised-on-well-formed-input"]
  | .ok t, .ok (html, deps, after) =>
    clause "markup-is-not-doctype-plus-the-described-tree" (html == doctype ++ t.render cfg 0 ['\n'])
    ++ clause (if noDepInDepHead content then "returned" else "returned!g") (nodesEq deps (docDeps content))
    ++ clause "content-modified-by-render" (after.beq content)

end HtmlVerif.Holds
