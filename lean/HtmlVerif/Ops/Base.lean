/-
Shared pieces of the driver's operation tables.
-/
import HtmlVerif.Generated.Tables
import HtmlVerif.Generated.TagFns
import HtmlVerif.Wire

namespace HtmlVerif.Ops
open HtmlVerif HtmlVerif.Wire

/-- the renderer's tables, as they are in the source right now -/
def cfg : Cfg :=
  { void := Generated.voidNames, noesc := Generated.noescNames,
    textTbl := Generated.textTbl, attrTbl := Generated.attrTbl }

/-- an operation table: `none` = not mine -/
abbrev OpTable := String → Option (P String)

end HtmlVerif.Ops

namespace HtmlVerif.Ops
open HtmlVerif HtmlVerif.Wire

/-- parse the implementation's answer after the separator: `| ok <str>` / `| err <kind>` -/
def implStr : P (Option Str) := do
  expect "|"
  let t ← next
  if t == "ok" then some <$> str else do let _ ← next; pure none

/-- rest of the line after `|`, as raw tokens -/
def implRaw : P (List String) := do
  expect "|"
  let r ← get
  set ([] : List String)
  pure r

end HtmlVerif.Ops
