/-
C16 — Class/style helpers and css() act as token-set and declaration algebra.

Model: `Model/ClassStyle.lean`.  Everything is parametric in what the Python runtime contributes:
`sp : Char → Bool` (`str.isspace`, behind `split()` / `strip()`) and `lower : Str → Str` (`str.lower`).
The only fact about `sp` that is used is `sp ' ' = true` (the library joins with U+0020 and splits on `sp`).

The tag is its attribute dictionary `a : Attrs` (`classOf a`, `styleOf a` are the texts of `class` / `style`,
`""` when absent); `TagObj` adds the identity needed for "returns the tag itself".  `hwf : (keysOf a).Nodup` is the
representation invariant of dictionaries (C15_wf_*).

Known finding F-C16: `C16_add_has` / `C16_add_order` carry the guard `plainOrSafe` ("the class value is a plain
string, or it is HTML()-marked and the token contains no character the merge escapes");
`C16_add_has_full_is_false` proves that the unguarded statement is false, against the escape table as it is
in the source now.
-/
import HtmlVerif.Lemmas.ClassStyle
import HtmlVerif.Generated.Tables

namespace HtmlVerif.C16
open HtmlVerif

/-! ### has_class -/

/-- `has_class` is whitespace-token membership -/
theorem C16_has_spec (sp : Char → Bool) (a : Attrs) (t : Str) :
    hasClass sp a t = decide (t ∈ tokens sp (classOf a)) := by
  unfold hasClass classOf textOf
  cases alookup classKey a with
  | none => simp
  | some v =>
    by_cases h : v.str = []
    · simp [h]
    · simp [h]

/-! ### add_class -/

/-- the token is appended (placed first with `prepend`) and no other token is disturbed -/
theorem C16_add_order (cfg : Cfg) (sp : Char → Bool) (hsp : sp ' ' = true) (a : Attrs) (t : Str) (p : Bool)
    (ht : isToken sp t = true) (hs : plainOrSafe cfg a t = true) :
    ∃ a', addClass cfg a t p = .ok a' ∧
      tokens sp (classOf a') = if p then t :: tokens sp (classOf a) else tokens sp (classOf a) ++ [t] := by
  refine ⟨_, addClass_eq cfg a t p, ?_⟩
  have htok := tokens_of_token sp t ht
  rw [classOf, textOf_dictSet]
  cases h : alookup classKey a with
  | none => cases p <;> simp [addedVal, AttrVal.str, classOf, textOf, h, htok]
  | some old =>
    cases old with
    | plain o =>
      cases p <;> simp [addedVal, mergeVal, AttrVal.str, classOf, textOf, h, tokens_append_sep sp _ _ ' ' hsp, htok]
    | html o =>
      have hesc : htmlEscapeT cfg.attrTbl t = t := by
        simp only [plainOrSafe, h, Bool.not_eq_true'] at hs
        simp [htmlEscapeT, hs]
      cases p <;> simp [addedVal, mergeVal, AttrVal.str, classOf, textOf, h, hesc,
        tokens_append_sep sp _ _ ' ' hsp, htok]

/-- `add_class` makes `has_class` true for that token -/
theorem C16_add_has (cfg : Cfg) (sp : Char → Bool) (hsp : sp ' ' = true) (a : Attrs) (t : Str) (p : Bool)
    (ht : isToken sp t = true) (hs : plainOrSafe cfg a t = true) :
    ∃ a', addClass cfg a t p = .ok a' ∧ hasClass sp a' t = true := by
  obtain ⟨a', h1, h2⟩ := C16_add_order cfg sp hsp a t p ht hs
  refine ⟨a', h1, ?_⟩
  rw [C16_has_spec, h2]
  cases p <;> simp

/-- `add_class` never raises, touches no other attribute, and keeps the position of `class` -/
theorem C16_add_others (cfg : Cfg) (a : Attrs) (t : Str) (p : Bool) :
    ∃ a', addClass cfg a t p = .ok a' ∧ (∀ k, k ≠ classKey → alookup k a' = alookup k a) ∧
      keysOf a' = if classKey ∈ keysOf a then keysOf a else keysOf a ++ [classKey] :=
  ⟨_, addClass_eq cfg a t p, fun k hk => alookup_dictSet_ne k classKey _ a hk, keysOf_dictSet _ _ _⟩

/-- the renderer's tables as they are in the source now (only `attrTbl` matters here) -/
def srcCfg : Cfg :=
  { void := Generated.voidNames, noesc := Generated.noescNames,
    textTbl := Generated.textTbl, attrTbl := Generated.attrTbl }

/-- **F-C16.** Without the guard the law is false: on an HTML()-marked class value, `add_class("d<")` stores
    `d&lt;` and `has_class("d<")` is `False` (witness `div(class_=HTML("a"))`) -/
theorem C16_add_has_full_is_false :
    ¬ ∀ (sp : Char → Bool) (a : Attrs) (t : Str) (p : Bool) (a' : Attrs), sp ' ' = true → isToken sp t = true →
        addClass srcCfg a t p = .ok a' → hasClass sp a' t = true := by
  intro h
  have := h (fun c => c == ' ') [(classKey, .html ['a'])] ['d', '<'] false
    [(classKey, .html ['a', ' ', 'd', '&', 'l', 't', ';'])] (by decide) (by decide) (by rfl)
  exact absurd this (by decide)

/-! ### remove_class -/

/-- `remove_class` never raises -/
theorem C16_remove_total (cfg : Cfg) (sp : Char → Bool) (a : Attrs) (t : Str) :
    ∃ a', removeClass cfg sp a t = .ok a' := by
  rw [removeClass_eq]
  split
  · exact ⟨_, rfl⟩
  · rename_i h
    split
    · exact ⟨_, rfl⟩
    · apply dictPop_ok_of_mem
      apply (alookup_isSome_iff classKey a).mp
      cases hl : alookup classKey a with
      | none => simp [textOf, hl] at h
      | some v => rfl

/-- the tokens afterwards are the tokens before without `strip(t)`: every occurrence of exactly that token
    is removed, the others stay, in order -/
theorem C16_remove_spec (cfg : Cfg) (sp : Char → Bool) (hsp : sp ' ' = true) (a a' : Attrs) (t : Str)
    (hwf : (keysOf a).Nodup) (h : removeClass cfg sp a t = .ok a') :
    tokens sp (classOf a') = (tokens sp (classOf a)).filter (fun v => v != strip sp t) := by
  rw [removeClass_eq] at h
  split at h
  · rename_i hc
    cases h
    rcases hc with hc | hc
    · subst hc
      symm
      rw [List.filter_eq_self]
      intro v hv
      have : v ≠ [] := fun e => nil_not_mem_tokens sp _ (e ▸ hv)
      simpa [strip, rstrip] using this
    · simp [classOf, hc]
  · split at h
    · cases h
      rw [classOf, textOf_dictSet, rejoinVal_str]
      rw [tokens_joinStr sp hsp]
      · rfl
      · intro v hv
        exact tokens_are_tokens sp _ v (List.mem_filter.mp hv).1
    · rename_i hk
      have hk' : keptTokens sp a t = [] := by simpa using hk
      rw [classOf, textOf_eq_nil_of_none _ _ (alookup_dictPop_self classKey a a' hwf h)]
      simpa [keptTokens, classOf] using hk'.symm

/-- for a token, `strip` is the identity: exactly that token is removed -/
theorem C16_remove_token (cfg : Cfg) (sp : Char → Bool) (hsp : sp ' ' = true) (a a' : Attrs) (t : Str)
    (hwf : (keysOf a).Nodup) (ht : isToken sp t = true) (h : removeClass cfg sp a t = .ok a') :
    tokens sp (classOf a') = (tokens sp (classOf a)).filter (fun v => v != t) ∧ hasClass sp a' t = false := by
  have := C16_remove_spec cfg sp hsp a a' t hwf h
  rw [strip_of_token sp t ht] at this
  refine ⟨this, ?_⟩
  rw [C16_has_spec, this]
  simp

/-- the attribute is dropped exactly when no token remains (degenerate `class=""` and empty argument aside,
    which return the tag untouched) -/
theorem C16_remove_drops (cfg : Cfg) (sp : Char → Bool) (a a' : Attrs) (t : Str)
    (hwf : (keysOf a).Nodup) (ht : t ≠ []) (hc : classOf a ≠ [])
    (h : removeClass cfg sp a t = .ok a') :
    ((tokens sp (classOf a)).filter (fun v => v != strip sp t) = [] ↔ alookup classKey a' = none) := by
  rw [removeClass_eq] at h
  have hc' : textOf classKey a ≠ [] := hc
  simp only [ht, hc', or_self, if_false] at h
  split at h
  · rename_i hk
    cases h
    have hk' : (tokens sp (classOf a)).filter (fun v => v != strip sp t) ≠ [] := hk
    simp [hk', alookup_dictSet_self]
  · rename_i hk
    have hk' : (tokens sp (classOf a)).filter (fun v => v != strip sp t) = [] := by
      simpa [keptTokens, classOf] using hk
    simp [hk', alookup_dictPop_self classKey a a' hwf h]

/-- the mark of the class value is kept: what remains of an HTML()-marked value is HTML()-marked (so it is written
    verbatim and nothing is escaped a second time), what remains of a plain value is plain -/
theorem C16_remove_keeps_mark (cfg : Cfg) (sp : Char → Bool) (a a' : Attrs) (t : Str) (v' : AttrVal)
    (hwf : (keysOf a).Nodup) (h : removeClass cfg sp a t = .ok a') (h' : alookup classKey a' = some v') :
    ∃ v, alookup classKey a = some v ∧ v'.isHtml = v.isHtml := by
  rw [removeClass_eq] at h
  split at h
  · cases h; exact ⟨v', h', rfl⟩
  · rename_i hc
    have hsome : ∃ v, alookup classKey a = some v := by
      cases hl : alookup classKey a with
      | none => exact absurd (.inr (textOf_eq_nil_of_none _ _ hl)) hc
      | some v => exact ⟨v, rfl⟩
    obtain ⟨v, hv⟩ := hsome
    split at h
    · cases h
      rw [alookup_dictSet_self] at h'
      cases h'
      exact ⟨v, hv, by rw [rejoinVal_isHtml, hv]⟩
    · -- the attribute was dropped: there is no class value afterwards
      rw [alookup_dictPop_self classKey a a' hwf h] at h'
      cases h'

/-- rendered: removing a token from `HTML("a&amp;b c")` leaves `class="a&amp;b"`, not `class="a&amp;amp;b"` -/
theorem C16_remove_rendered_once :
    removeClass srcCfg (fun c => c == ' ') [(classKey, .html ['a', '&', 'a', 'm', 'p', ';', 'b', ' ', 'c'])] ['c']
      = .ok [(classKey, .html ['a', '&', 'a', 'm', 'p', ';', 'b'])] ∧
    (Node.tag ['d', 'i', 'v'] true [(classKey, .html ['a', '&', 'a', 'm', 'p', ';', 'b'])] .nil).render srcCfg 0 ['\n']
      = ['<', 'd', 'i', 'v', ' ', 'c', 'l', 'a', 's', 's', '=', '"', 'a', '&', 'a', 'm', 'p', ';', 'b', '"', '>', '<', '/', 'd', 'i', 'v', '>'] := by
  constructor
  · rfl
  · decide

/-- **F-C16b.** `remove_class` as pinned stores a plain `str`: the HTML() mark is lost (also when the token does not
    occur at all), and the renderer escapes the remaining tokens a second time: `class="a&amp;amp;b"` -/
theorem C16_remove_mark_fails_for_pinned :
    removeClassPinned srcCfg (fun c => c == ' ') [(classKey, .html ['a', '&', 'a', 'm', 'p', ';', 'b', ' ', 'c'])] ['c']
      = .ok [(classKey, .plain ['a', '&', 'a', 'm', 'p', ';', 'b'])] ∧
    (Node.tag ['d', 'i', 'v'] true [(classKey, .plain ['a', '&', 'a', 'm', 'p', ';', 'b'])] .nil).render srcCfg 0 ['\n']
      = ['<', 'd', 'i', 'v', ' ', 'c', 'l', 'a', 's', 's', '=', '"', 'a', '&', 'a', 'm', 'p', ';', 'a', 'm', 'p', ';', 'b', '"', '>', '<', '/', 'd', 'i', 'v', '>'] := by
  constructor
  · rfl
  · decide

/-- nothing to do: empty argument, no class attribute, or `class=""` -/
theorem C16_remove_noop (cfg : Cfg) (sp : Char → Bool) (a : Attrs) (t : Str)
    (h : t = [] ∨ alookup classKey a = none ∨ classOf a = []) : removeClass cfg sp a t = .ok a := by
  rw [removeClass_eq]
  have : t = [] ∨ textOf classKey a = [] := by
    rcases h with h | h | h
    · exact .inl h
    · exact .inr (textOf_eq_nil_of_none _ _ h)
    · exact .inr h
  simp [this]

/-- no other attribute is touched -/
theorem C16_remove_others (cfg : Cfg) (sp : Char → Bool) (a a' : Attrs) (t : Str)
    (h : removeClass cfg sp a t = .ok a') (k : Str) (hk : k ≠ classKey) : alookup k a' = alookup k a := by
  rw [removeClass_eq] at h
  split at h
  · cases h; rfl
  · split at h
    · cases h; exact alookup_dictSet_ne k classKey _ a hk
    · exact alookup_dictPop_ne k classKey a a' hk h

/-! ### add_style -/

/-- a declaration string ending in a semicolon is appended (prepended) to the style value; the join is the
    attribute merge of C15/C03 (`addedVal`: one space; a plain side meeting an HTML() side is attribute-escaped) -/
theorem C16_addStyle_ok (cfg : Cfg) (a : Attrs) (s : Str) (p : Bool) (hs : endsSemi s = true) :
    addStyle cfg a (.str s) p = .ok (dictSet styleKey (addedVal cfg (alookup styleKey a) (.plain s) p) a)
    ∧ addStyle cfg a (.html s) p = .ok (dictSet styleKey (addedVal cfg (alookup styleKey a) (.html s) p) a) :=
  ⟨addStyle_eq cfg a (.str s) (.plain s) p rfl (by simp [styleRejected, hs]),
   addStyle_eq cfg a (.html s) (.html s) p rfl (by simp [styleRejected, hs])⟩

/-- as text, when the kinds agree (no style yet, or plain onto plain):
    `old + " " + s`, resp. `s + " " + old`, resp. `s` -/
theorem C16_addStyle_text (cfg : Cfg) (a : Attrs) (s : Str) (p : Bool) (hs : endsSemi s = true)
    (hplain : ∀ o, alookup styleKey a ≠ some (.html o)) :
    ∃ a', addStyle cfg a (.str s) p = .ok a' ∧
      alookup styleKey a' = some (.plain (joinStr [' ']
        (match alookup styleKey a with
         | none => [s]
         | some old => if p then [s, old.str] else [old.str, s]))) := by
  refine ⟨_, (C16_addStyle_ok cfg a s p hs).1, ?_⟩
  rw [alookup_dictSet_self]
  cases h : alookup styleKey a with
  | none => simp [addedVal, joinStr]
  | some old =>
    cases old with
    | plain o => cases p <;> simp [addedVal, mergeVal, joinStr, AttrVal.str]
    | html o => exact absurd h (hplain o)

/-- a `str`/`HTML` declaration that does not end in a semicolon is rejected … -/
theorem C16_addStyle_rej (cfg : Cfg) (a : Attrs) (s : Str) (p : Bool) (hs : endsSemi s = false) :
    addStyle cfg a (.str s) p = .error .valueError ∧ addStyle cfg a (.html s) p = .error .valueError := by
  simp [addStyle, styleRejected, hs]

/-- … and the tag is not modified -/
theorem C16_addStyle_rej_unchanged (cfg : Cfg) (t : TagObj) (s : Str) (p : Bool) (hs : endsSemi s = false) :
    t.addStyle cfg (.str s) p = (.error .valueError, t) ∧ t.addStyle cfg (.html s) p = (.error .valueError, t) := by
  simp [TagObj.addStyle, TagObj.withAttrs, (C16_addStyle_rej cfg t.attrs s p hs).1,
    (C16_addStyle_rej cfg t.attrs s p hs).2]

/-- no other attribute is touched -/
theorem C16_addStyle_others (cfg : Cfg) (a a' : Attrs) (s : Str) (p : Bool)
    (h : addStyle cfg a (.str s) p = .ok a') (k : Str) (hk : k ≠ styleKey) : alookup k a' = alookup k a := by
  by_cases hs : endsSemi s = true
  · rw [(C16_addStyle_ok cfg a s p hs).1] at h
    cases h
    exact alookup_dictSet_ne k styleKey _ a hk
  · rw [(C16_addStyle_rej cfg a s p (by simpa using hs)).1] at h
    cases h

/-! ### css() -/

/-- one `name:value;` + separator per non-None argument, in order; `None` when nothing remains;
    TypeError for a non-`str` separator or a list that cannot be joined -/
theorem C16_css_spec (lower : Str → Str) (collapse : Option Str) (kw : List (Str × CssVal)) :
    css lower collapse kw =
      match collapse with
      | none => .error .typeError
      | some c =>
        if kw.any (fun kv => kv.2.isBad) then .error .typeError
        else
          let ds := kw.filterMap (cssDecl lower c)
          .ok (if ds.flatten = [] then none else some ds.flatten) := by
  cases collapse with
  | none => rfl
  | some c =>
    by_cases hb : kw.any (fun kv => kv.2.isBad) = true
    · simp [css, cssLoop_eq, hb]
    · simp only [css, cssLoop_eq, hb, List.nil_append, Bool.false_eq_true, if_false, List.isEmpty_iff]

/-- the property name: a hyphen before every ASCII capital, lower-cased, underscores turned into hyphens -/
theorem C16_cssKey_spec (lower : Str → Str) (k : Str) :
    cssKey lower k
      = (lower (k.flatMap fun c => if 'A' ≤ c ∧ c ≤ 'Z' then ['-', c] else [c])).map
          (fun c => if c = '_' then '-' else c) := rfl

/-- per-character form, for a per-character lower-casing `lc` (true of `str.lower` on strings without U+03A3) -/
theorem C16_cssKey_spec_perchar (lower : Str → Str) (lc : Char → Str) (hl : ∀ s, lower s = s.flatMap lc) (k : Str) :
    cssKey lower k
      = ((k.flatMap fun c => if 'A' ≤ c ∧ c ≤ 'Z' then ['-', c] else [c]).flatMap lc).map
          (fun c => if c = '_' then '-' else c) := by
  rw [C16_cssKey_spec, hl]

/-- no underscore survives in a property name -/
theorem C16_cssKey_no_underscore (lower : Str → Str) (k : Str) : '_' ∉ cssKey lower k := by
  simp only [cssKey, List.mem_map, not_exists, not_and]
  intro c _
  split <;> simp_all

/-- with the default separator the output ends in a semicolon … -/
theorem C16_css_accepted (lower : Str → Str) (kw : List (Str × CssVal)) (s : Str)
    (h : css lower (some []) kw = .ok (some s)) : endsSemi s = true := by
  rw [C16_css_spec] at h
  by_cases hb : kw.any (fun kv => kv.2.isBad) = true
  · simp [hb] at h
  · by_cases hne : (kw.filterMap (cssDecl lower [])).flatten = []
    · simp [hb, hne] at h
    · simp only [hb, hne, Bool.false_eq_true, if_false, Except.ok.injEq, Option.some.injEq] at h
      subst h
      exact flatten_endsSemi _ (fun d hd => by
        obtain ⟨kv, _, hkv⟩ := List.mem_filterMap.mp hd
        exact cssDecl_endsSemi lower kv d hkv) hne

/-- … hence `add_style` always accepts it -/
theorem C16_css_addStyle (cfg : Cfg) (lower : Str → Str) (kw : List (Str × CssVal)) (s : Str) (a : Attrs) (p : Bool)
    (h : css lower (some []) kw = .ok (some s)) : ∃ a', addStyle cfg a (.str s) p = .ok a' :=
  ⟨_, (C16_addStyle_ok cfg a s p (C16_css_accepted lower kw s h)).1⟩

/-! ### the three mutators return the tag itself -/

/-- `add_class` and `remove_class` always return the receiver; `add_style` does unless it raises, and then the
    receiver is unchanged; identity, name, whitespace flag and children are never touched -/
theorem C16_returns_self (cfg : Cfg) (sp : Char → Bool) (t : TagObj) (cls : Str) (style : AttrArg) (p : Bool) :
    (t.addClass cfg cls p).1 = .ok t.oid ∧ (t.removeClass cfg sp cls).1 = .ok t.oid ∧
    ((t.addStyle cfg style p).1 = .ok t.oid ∨ ∃ e, t.addStyle cfg style p = (.error e, t)) ∧
    (∀ r ∈ [t.addClass cfg cls p, t.removeClass cfg sp cls, t.addStyle cfg style p],
      r.2.oid = t.oid ∧ r.2.name = t.name ∧ r.2.ws = t.ws ∧ r.2.kids = t.kids) := by
  have hw : ∀ x : Except Err Attrs, (t.withAttrs x).2.oid = t.oid ∧ (t.withAttrs x).2.name = t.name ∧
      (t.withAttrs x).2.ws = t.ws ∧ (t.withAttrs x).2.kids = t.kids := by
    intro x; cases x <;> simp [TagObj.withAttrs]
  refine ⟨?_, ?_, ?_, ?_⟩
  · simp [TagObj.addClass, addClass_eq, TagObj.withAttrs]
  · obtain ⟨a', ha'⟩ := C16_remove_total cfg sp t.attrs cls
    simp [TagObj.removeClass, ha', TagObj.withAttrs]
  · unfold TagObj.addStyle
    cases addStyle cfg t.attrs style p with
    | ok a' => left; simp [TagObj.withAttrs]
    | error e => right; exact ⟨e, by simp [TagObj.withAttrs]⟩
  · intro r hr
    simp only [List.mem_cons, List.not_mem_nil, or_false] at hr
    rcases hr with rfl | rfl | rfl <;> exact hw _

/-- the dictionary invariant is preserved by all three mutators, so the per-call laws chain over histories -/
theorem C16_wf (cfg : Cfg) (sp : Char → Bool) (a a' : Attrs) (t : Str) (v : AttrArg) (p : Bool)
    (hwf : (keysOf a).Nodup)
    (h : addClass cfg a t p = .ok a' ∨ removeClass cfg sp a t = .ok a' ∨ addStyle cfg a v p = .ok a') :
    (keysOf a').Nodup := by
  rcases h with h | h | h
  · rw [addClass_eq] at h; cases h; exact nodup_dictSet _ _ _ hwf
  · rw [removeClass_eq] at h
    split at h
    · cases h; exact hwf
    · split at h
      · cases h; exact nodup_dictSet _ _ _ hwf
      · exact nodup_dictPop classKey a a' hwf h
  · unfold addStyle at h
    split at h
    · cases h
    · split at h <;> exact nodup_attrsUpdate cfg a a' _ hwf h

/-! ### non-vacuity -/

private def spA : Char → Bool := fun c => c == ' ' || c == '\t'

/-- tokens that are substrings of one another, repeated, surrounded by whitespace -/
example : tokens spA (' ' :: 'f' :: 'o' :: '\t' :: 'f' :: 'o' :: 'o' :: ' ' :: ' ' :: 'f' :: 'o' :: [' '])
    = [['f', 'o'], ['f', 'o', 'o'], ['f', 'o']] := by decide

example : isToken spA ['f', 'o'] = true ∧ plainOrSafe srcCfg [(classKey, .html ['a'])] ['f', 'o'] = true
    ∧ plainOrSafe srcCfg [(classKey, .html ['a'])] ['d', '<'] = false
    ∧ plainOrSafe srcCfg [(classKey, .plain ['a'])] ['d', '<'] = true := by decide

example : removeClass srcCfg spA [(classKey, .html ['f', 'o', ' ', 'f', 'o', 'o', '\t', 'f', 'o'])] [' ', 'f', 'o']
    = .ok [(classKey, .html ['f', 'o', 'o'])] := by rfl

example : css (fun s => s) (some []) [(['a', '_', 'B'], .text ['1']), (['x'], .none), (['y'], .list [['p'], ['q']])]
    = .ok (some ['a', '-', '-', 'B', ':', '1', ';', 'y', ':', 'p', ' ', 'q', ';']) := by rfl

end HtmlVerif.C16
