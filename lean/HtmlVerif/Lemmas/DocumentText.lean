/-
Helper definitions and lemmas tying the document model (`Model/Document.lean`) to the text-document model
(`Model/TextDoc.lean`): a dependency recovered from serialised JSON as a tree node, and the two halves of
"what `_hoist_head_content` appends = `headNodes`".
-/
import HtmlVerif.Lemmas.Document
import HtmlVerif.Model.TextDoc

namespace HtmlVerif.Doc
open HtmlVerif

/-- `HTMLDependency(**json.loads(text))` as a tree node: `head` text becomes `TagList(HTML(head))` -/
def sdepNode (d : SDep) : Node :=
  .dep d.info d.head.isSome (match d.head with
    | some h => .cons (.html h) .nil
    | none => .nil)

/-- `d.as_html_tags(lib_prefix=lp, include_version=iv)` of a recovered dependency (no nodes when it raises) -/
def sdepTags (cfg : Cfg) (lp : Option Str) (iv : Bool) (d : SDep) : Nodes :=
  match depTags cfg lp iv (sdepNode d) with
  | .ok ts => ts
  | .error _ => .nil

theorem listing_sdep (ds : List SDep) :
    listing (ds.map sdepNode) = (if ds.isEmpty then Nodes.nil else .cons (HtmlVerif.listingNode ds) .nil) := by
  cases ds with
  | nil => rfl
  | cons d r =>
    simp only [listing, List.map_cons, List.isEmpty_cons, Bool.false_eq_true, if_false]
    simp [Doc.listingNode, HtmlVerif.listingNode, Doc.listingText, HtmlVerif.listingText, sdepNode, nScript,
      List.map_map, Function.comp_def]

theorem depTagsAll_sdep {cfg : Cfg} {lp : Option Str} {iv : Bool} : ∀ {ds : List SDep} {tags : Nodes},
    depTagsAll cfg lp iv (ds.map sdepNode) = .ok tags → concatNodes (ds.map (sdepTags cfg lp iv)) = tags := by
  intro ds
  induction ds with
  | nil => intro tags h; cases h; rfl
  | cons d r ih =>
    intro tags h
    simp only [List.map_cons, depTagsAll] at h
    cases hd : depTags cfg lp iv (sdepNode d) with
    | error e => simp [hd] at h
    | ok ts =>
      simp only [hd] at h
      cases hr : depTagsAll cfg lp iv (r.map sdepNode) with
      | error e => simp [hr] at h
      | ok rs =>
        simp only [hr] at h
        cases h
        simp [concatNodes, sdepTags, hd, ih hr]

end HtmlVerif.Doc
