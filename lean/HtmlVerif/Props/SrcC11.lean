/-
Source tie (DESIGN §14) for C11 — HTMLDocument builds one head/body and hoists every dependency into head.  The Lean
functions regenerated from the *text* of `HTMLDocument._gen_html_tag_tree`, `HTMLDocument._hoist_head_content`,
`TagAttrDict.__init__`, `Tag.insert / extend / append` (htmltools/_core.py; harness/pytr_c11.py) compute what the model
(Model/Document.lean: `genTree`, `hoist`, …) computes.

Conventions
* Trees are embedded by `embT tv` (Lemmas/SrcC10.lean), the embedding of the `tagify` / `get_dependencies` ties, which
  these functions call.
* The ties of the callees of other areas are *hypotheses* stated on the values in play (`UpdateTieC11` = `src_update`,
  `hT` = `src_tagify_tag`, …); the `_now` corollaries at the end discharge them from those theorems.
* A call of another big regenerated function in tail position (`_hoist_head_content` at the end of `_gen_html_tag_tree`)
  is abstracted as a continuation `K` with `hK : ∀ v, callee … v … = K v` — the statement is about what is handed to it.
  (Without this the kernel compares a `match` of the model with the unfolded callee: minutes instead of seconds.)
* Every theorem takes `<fn>_available = true`; when the function has left the fragment the first alternative closes the
  goal and the rest of the proof (in `all_goals (…)`) does not run.
* `Tag(…)` is the primitive `mkTagC11`, `d.as_html_tags(…)` the parameter `G.asHtmlTagsC11` (Py/PrimC11.lean): neither
  `Tag.__init__` nor `HTMLDependency.as_html_tags` is translated in this area.
-/
import HtmlVerif.Generated.Src
import HtmlVerif.Lemmas.SrcC11

set_option linter.unusedVariables false
set_option linter.unusedSimpArgs false

namespace HtmlVerif.SrcTie
open HtmlVerif HtmlVerif.Py HtmlVerif.Generated.Src

/-! ### `TagAttrDict.__init__` -/

/-- `TagAttrDict(*args, **kwargs)` as the source has it (`super().__init__(); self.update(*args, **kwargs)`) = `attrsUpdate`
    on the positional dicts followed by the keyword dict when it is non-empty; a keyword named `self` collides with the
    receiver of `update` (TypeError) -/
theorem src_TagAttrDict_initC11 (h : TagAttrDict_initC11_available = true) (G : Globals) (cfg : Cfg)
    (hU : UpdateTieC11 G cfg) (cur : Attrs) (args : List (List (Str × AttrArg))) (kw : List (Str × AttrArg)) :
    TagAttrDict_initC11 G (embAttrs cur) (.tuple (args.map embArgDict)) (embArgDict kw)
      = if kwAvoidsC11 [kSelfC11] kw then embRes embAttrs (attrsUpdate cfg cur (if kw.isEmpty then args else args ++ [kw]))
        else .error .typeError := by
  first
  | exact absurd h (by decide)
  | unfold TagAttrDict_initC11
    have hd : pyDictInit0C11 (embAttrs cur) = .ok (embAttrs cur) := rfl
    have hs : pyStarArgsC11 (.tuple (args.map embArgDict)) = .ok (.tuple (args.map embArgDict)) := rfl
    have hk := pyKwSplat_embC11 kw [kSelfC11]
    simp only [kSelfC11] at hk ⊢
    simp only [pure_eq_ok, ok_bind, hd, hs, hk]
    by_cases hb : kwAvoidsC11 [['s', 'e', 'l', 'f']] kw = true
    · simp only [hb, if_true, ok_bind, hU cur args kw]
      cases attrsUpdate cfg cur (if kw.isEmpty then args else args ++ [kw]) <;> rfl
    · simp only [hb, Bool.false_eq_true, if_false, error_bind]

theorem tad_init_emptyC11 (hi : TagAttrDict_initC11_available = true) (G : Globals) (cfg : Cfg) (hU : UpdateTieC11 G cfg) :
    TagAttrDict_initC11 G (.dict []) (.tuple []) (.dict []) = .ok (.dict []) := by
  have := src_TagAttrDict_initC11 hi G cfg hU [] [] []
  simpa [embAttrs, embArgDict, kwAvoidsC11, attrsUpdate, accumDicts, dictUpdate, embRes] using this


/-! ### `HTMLDocument._gen_html_tag_tree` -/

set_option hygiene false in
/-- the code after `body = …`: given `hb`, the tie for `body.tagify()` -/
local macro "gen_tree_tailC11" : tactic => `(tactic| (
  simp only [hb, ok_bind, hsp3, hinit, hempty, mkTag_nilC11]
  cases attrsUpdate cfg [] (if kw.isEmpty = true then [] else [] ++ [kw]) with
  | error e => rfl
  | ok a =>
    simp only [embRes, ok_bind]
    rw [mkTag_pairC11 _ _ _ _ _ (plain_tagObjC11 _ _ _ _) (plainC11_embT tv _)]
    simp only [ok_bind, bind_ok_self]
    rfl))

theorem pyEq_len1C11 (n : Nat) : pyEq (.int (n : Nat)) (.int 1) = .ok (.bool (n == 1)) := by
  simp only [pyEq, pure_eq_ok]
  congr 2
  by_cases h : n = 1
  · subst h; rfl
  · have : ((n : Int) == 1) = false := by simp; omega
    simp [this, h]

theorem src_gen_html_tag_treeC11 (h : HTMLDocument_gen_html_tag_treeC11_available = true)
    (hi : TagAttrDict_initC11_available = true)
    (G : Globals) (cfg : Cfg) (tv : Node → PVal) (hU : UpdateTieC11 G cfg) (fuel : Nat)
    (hT : ∀ t : Node, t.isTag = true → 2 * nodeDepth t ≤ fuel → Tag_tagify G fuel (embT tv t) = .ok (embT tv (tagifyTag t)))
    (content : Nodes) (kw : List (Str × AttrArg)) (hkw : kwAvoidsC11 reservedKw kw = true)
    (hf : 2 * kidsDepth content + 2 ≤ fuel) (lp iv : PVal)
    (K : PVal → PyM PVal) (hK : ∀ v, HTMLDocument_hoist_head_contentC11 G fuel v lp iv = K v) :
    HTMLDocument_gen_html_tag_treeC11 G (fuel + 1) (docObjC11 (embTs tv content) (embArgDict kw)) lp iv
      = match Doc.genTree cfg content kw with
        | .error e => .error (embErr e)
        | .ok (x, _) => K (embT tv x) := by
  first
  | exact absurd h (by decide)
  | skip
  all_goals (
    rw [HTMLDocument_gen_html_tag_treeC11]
    simp only [hK]
    have hc : pyGetAttr (docObjC11 (embTs tv content) (embArgDict kw)) "_content" = .ok (tagListOf (embTs tv content)) := by
      simp [docObjC11, pyGetAttr, fieldGet?]
    have hk : pyGetAttr (docObjC11 (embTs tv content) (embArgDict kw)) "_html_attr_args" = .ok (embArgDict kw) := by
      simp [docObjC11, pyGetAttr, fieldGet?]
    have hself : kwAvoidsC11 [kSelfC11] kw = true :=
      kwAvoids_monoC11 reservedKw [kSelfC11] kw (by intro k hk; simp at hk; subst hk; decide) hkw
    have hsp1 := pyKwSplat_embC11 kw [kSelfC11]
    have hsp3 := pyKwSplat_embC11 kw reservedKw
    have hinit := src_TagAttrDict_initC11 hi G cfg hU [] [] kw
    have hempty := tad_init_emptyC11 hi G cfg hU
    simp only [hself, hkw, if_true] at hsp1 hsp3 hinit
    simp only [kSelfC11, reservedKw, embAttrs, List.map_nil] at hsp1 hsp3 hinit
    -- the fragment case: `body = Tag("body", content)`
    have hfrag := hT (.tag Doc.nBody true [] content) rfl (by simp only [nodeDepth]; omega)
    have hclsB : pyClassOf (embT tv (.tag Doc.nBody true [] content)) = "Tag" := rfl
    simp only [pure_eq_ok, ok_bind, hc, hk, pyLenU_tagListOf, len_embTsC11]
    have hm := mkTag_bodyC11 tv content
    have hb := hfrag
    cases content with
    | nil =>
      simp only [embTs, Nodes.length, pyEq_len1C11, pyAnd_okC11, truthy_bool] at hm ⊢
      simp only [Nat.reduceBEq, truthy_bool, Bool.false_eq_true, if_false, ok_bind, hempty, hm, hclsB]
      simp only [Doc.genTree, Doc.wrapHtml, tagInitAttrs]
      gen_tree_tailC11
    | cons hd tl =>
      cases tl with
      | cons h2 t2 =>
        simp only [embTs, Nodes.length, pyEq_len1C11, pyAnd_okC11, truthy_bool] at hm ⊢
        have hl : ((t2.length + 1 + 1) == 1) = false := by simp
        simp only [hl, truthy_bool, Bool.false_eq_true, if_false, ok_bind, hempty, hm, hclsB]
        simp only [Doc.genTree, Doc.wrapHtml, tagInitAttrs]
        gen_tree_tailC11
      | nil =>
        simp only [embTs, Nodes.length] at hm ⊢
        simp only [pyEq_len1C11, pyAnd_okC11, truthy_bool, pyGetItemU_headC11, isTag_embT, Nat.zero_add, beq_self_eq_true,
          if_true, ok_bind]
        by_cases htag : hd.isTag = true
        · cases hd <;> simp [Node.isTag] at htag
          rename_i n w a kids
          have hsole := hT (.tag n w a kids) rfl (by simp only [kidsDepth] at hf; omega)
          have hcls : pyClassOf (embT tv (.tag n w a kids)) = "Tag" := rfl
          have hname : pyGetAttr (embT tv (.tag n w a kids)) "name" = .ok (.str n) := getattr_nameC11 _ _ _ _
          simp only [Node.isTag, truthy_bool, if_true, hname, ok_bind, pyEq_strC11, hcls]
          by_cases hn : n = Doc.nHtml
          · have hn' : (n == ['h', 't', 'm', 'l']) = true := by subst hn; rfl
            simp only [hn', if_true, hsole, ok_bind]
            simp only [tagifyTag, embT_tagC11, getattr_attrsC11, recv_dictC11, hsp1, ok_bind]
            have hu := hU a [] kw
            simp only [List.map_nil, List.nil_append] at hu
            simp only [hu, Doc.genTree, hn, if_true, Doc.updateKw]
            cases attrsUpdate cfg a (if kw.isEmpty = true then [] else [kw]) with
            | error e => rfl
            | ok a' => simp only [embRes, ok_bind, setattr_attrsC11, bind_ok_self, tagifyTag, embT_tagC11]
          · have hn' : (n == ['h', 't', 'm', 'l']) = false := by
              simpa [Doc.nHtml] using hn
            simp only [hn', Bool.false_eq_true, if_false]
            by_cases hbd : n = Doc.nBody
            · have hbd' : (n == ['b', 'o', 'd', 'y']) = true := by subst hbd; rfl
              simp only [hbd', if_true]
              have hb := hsole
              simp only [Doc.genTree, hn, hbd, if_false, if_true, Doc.wrapHtml, tagInitAttrs]
              subst hbd
              gen_tree_tailC11
            · have hbd' : (n == ['b', 'o', 'd', 'y']) = false := by
                simpa [Doc.nBody] using hbd
              simp only [hbd', Bool.false_eq_true, if_false, ok_bind, hempty, hm, hclsB]
              simp only [Doc.genTree, hn, hbd, if_false, Doc.wrapHtml, tagInitAttrs]
              gen_tree_tailC11
        · have htag' : hd.isTag = false := by simpa using htag
          simp only [htag', truthy_bool, Bool.false_eq_true, if_false, ok_bind, hempty, hm, hclsB]
          have hg : Doc.genTree cfg (.cons hd .nil) kw
              = match Doc.wrapHtml cfg (tagifyTag (.tag Doc.nBody true [] (.cons hd .nil))) kw with
                | .error e => .error e
                | .ok x => .ok (x, .cons hd .nil) := by
            cases hd <;> first | rfl | simp [Node.isTag] at htag'
          rw [hg]
          simp only [Doc.wrapHtml, tagInitAttrs]
          gen_tree_tailC11)
end HtmlVerif.SrcTie
