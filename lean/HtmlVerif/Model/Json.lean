/-
JSON for the dependency record of `HTMLDependency.serialize_to_script_json` (_core.py:1675-1696):

    res = {"name":…, "version": str(version), "source":…, "script":…, "stylesheet":…, "meta":…,
           "all_files":…, "head": TagList(head).get_html_string() or None}
    json.dumps(res, indent=indent).replace("</script>", "<\\/script>")

* `Json`       — the value fragment that record lives in: ordered objects, arrays, strings, true/false/null.
* `escChar`    — `json.dumps` string escaping with `ensure_ascii=True` (CPython `py_encode_basestring_ascii`).
* `printVal`   — `JSONEncoder._iterencode_{list,dict}` with the `first` flag and `_current_indent_level` explicit;
                 `indent=None` ↦ separators ", " / ": ", `indent=n` ↦ ",\n"+n·level spaces / ": ".
                 The printer is parametric in the string-body encoder so that the *same* round-trip theorem covers
                 the text before and after end-tag neutralisation.
* `parseVal`   — `json.loads` on that fragment: whitespace skipping, `\/` and the other simple escapes, `\uXXXX`
                 including surrogate pairs, control characters rejected inside strings (strict mode). Fuel makes the
                 three mutually recursive functions structurally recursive; `jsonParse` supplies enough of it.
* `neutralise` — the end-tag neutralisation AS THE PROPERTY DEMANDS (C13): every `</` becomes `<\/`, so that no
                 `</script` in any letter case survives.  (The pinned code replaces only the exact lower-case
                 `</script>`: defect F-C13.)
-/
import HtmlVerif.Model.Str
import HtmlVerif.Model.Tree
import HtmlVerif.Model.Render

namespace HtmlVerif

mutual
  inductive Json
    | null
    | bool (b : Bool)
    | str (s : Str)
    | arr (xs : JList)
    | obj (ms : JMems)
  inductive JList
    | nil
    | cons (h : Json) (t : JList)
  inductive JMems
    | nil
    | cons (k : Str) (v : Json) (t : JMems)
end

instance : Inhabited Json := ⟨.null⟩

mutual
  def Json.beq : Json → Json → Bool
    | .null, .null => true
    | .bool a, .bool b => a == b
    | .str a, .str b => a == b
    | .arr a, .arr b => a.beq b
    | .obj a, .obj b => a.beq b
    | _, _ => false
  def JList.beq : JList → JList → Bool
    | .nil, .nil => true
    | .cons h t, .cons h' t' => h.beq h' && t.beq t'
    | _, _ => false
  def JMems.beq : JMems → JMems → Bool
    | .nil, .nil => true
    | .cons k v t, .cons k' v' t' => k == k' && v.beq v' && t.beq t'
    | _, _ => false
end

/-! ### string escaping: `json.dumps(s)` with `ensure_ascii=True` -/

/-- lower-case hexadecimal digit (`'{0:04x}'.format`) -/
def hexDigit (d : Nat) : Char := if d < 10 then Char.ofNat (48 + d) else Char.ofNat (87 + d)

/-- four hexadecimal digits of a number below 65536 -/
def hex4 (n : Nat) : Str :=
  [hexDigit (n / 4096 % 16), hexDigit (n / 256 % 16), hexDigit (n / 16 % 16), hexDigit (n % 16)]

def uEsc (n : Nat) : Str := '\\' :: 'u' :: hex4 n

/-- what `json.dumps` writes for one character inside a string literal -/
def escChar (c : Char) : Str :=
  if c = '"' then ['\\', '"']
  else if c = '\\' then ['\\', '\\']
  else if c = '\n' then ['\\', 'n']
  else if c = '\r' then ['\\', 'r']
  else if c = '\t' then ['\\', 't']
  else if c = Char.ofNat 8 then ['\\', 'b']
  else if c = Char.ofNat 12 then ['\\', 'f']
  else if 0x20 ≤ c.toNat ∧ c.toNat ≤ 0x7E then [c]
  else if c.toNat < 0x10000 then uEsc c.toNat
  else uEsc (0xD800 + (c.toNat - 0x10000) / 0x400) ++ uEsc (0xDC00 + (c.toNat - 0x10000) % 0x400)

/-- the text between the quotes -/
def escBody (s : Str) : Str := s.flatMap escChar

/-- `json.dumps(s)` for a string -/
def jsonStr (s : Str) : Str := '"' :: escBody s ++ ['"']

/-! ### the printer -/

/-- `'\n' + ' ' * (indent * level)`; nothing when `indent=None` -/
def nlInd (ind : Option Nat) (lvl : Nat) : Str :=
  match ind with
  | none => []
  | some n => '\n' :: List.replicate (n * lvl) ' '

/-- the item separator: ", " without indent, "," + newline-indent with -/
def itemSep (ind : Option Nat) (lvl : Nat) : Str :=
  match ind with
  | none => [',', ' ']
  | some _ => ',' :: nlInd ind lvl

def strLit (enc : Str → Str) (s : Str) : Str := '"' :: enc s ++ ['"']

mutual
  /-- `_iterencode(o, _current_indent_level = lvl)` -/
  def printVal (enc : Str → Str) (ind : Option Nat) : Nat → Json → Str
    | _, .null => ['n', 'u', 'l', 'l']
    | _, .bool b => if b then ['t', 'r', 'u', 'e'] else ['f', 'a', 'l', 's', 'e']
    | _, .str s => strLit enc s
    | lvl, .arr xs => '[' :: printElems enc ind lvl true xs ++ [']']
    | lvl, .obj ms => '{' :: printMems enc ind lvl true ms ++ ['}']
  /-- the `for value in lst` loop; an empty list prints as `[]`, a non-empty one ends with the
      newline-indent of the enclosing level -/
  def printElems (enc : Str → Str) (ind : Option Nat) : Nat → Bool → JList → Str
    | lvl, first, .nil => if first then [] else nlInd ind lvl
    | lvl, first, .cons h t =>
      (if first then nlInd ind (lvl + 1) else itemSep ind (lvl + 1))
        ++ printVal enc ind (lvl + 1) h ++ printElems enc ind lvl false t
  /-- the `for key, value in dct.items()` loop -/
  def printMems (enc : Str → Str) (ind : Option Nat) : Nat → Bool → JMems → Str
    | lvl, first, .nil => if first then [] else nlInd ind lvl
    | lvl, first, .cons k v t =>
      (if first then nlInd ind (lvl + 1) else itemSep ind (lvl + 1))
        ++ strLit enc k ++ ':' :: ' ' :: printVal enc ind (lvl + 1) v ++ printMems enc ind lvl false t
end

/-- `json.dumps(v, indent=ind)` -/
def jsonPrint (ind : Option Nat) (v : Json) : Str := printVal escBody ind 0 v

/-! ### end-tag neutralisation -/

/-- `text.replace("</", "<\\/")`, written as one left-to-right pass: `prev` says that the character just
    copied was `<`; a `/` in that position is written as `\/`.  (`<` itself is always copied, so this is the
    leftmost non-overlapping replacement.) -/
def neutG (prev : Bool) : Str → Str
  | [] => []
  | c :: r => (if prev && c == '/' then ['\\', '/'] else [c]) ++ neutG (c == '<') r

def neutralise (s : Str) : Str := neutG false s

/-! ### the parser -/

def hexVal? (c : Char) : Option Nat :=
  if 48 ≤ c.toNat ∧ c.toNat ≤ 57 then some (c.toNat - 48)
  else if 97 ≤ c.toNat ∧ c.toNat ≤ 102 then some (c.toNat - 87)
  else if 65 ≤ c.toNat ∧ c.toNat ≤ 70 then some (c.toNat - 55)
  else none

def hex4? : Str → Option (Nat × Str)
  | a :: b :: c :: d :: r =>
    (hexVal? a).bind fun va => (hexVal? b).bind fun vb => (hexVal? c).bind fun vc => (hexVal? d).bind fun vd =>
      some (((va * 16 + vb) * 16 + vc) * 16 + vd, r)
  | _ => none

/-- `BACKSLASH` table of json.decoder -/
def simpleEsc? (e : Char) : Option Char :=
  if e = '"' then some '"'
  else if e = '\\' then some '\\'
  else if e = '/' then some '/'
  else if e = 'b' then some (Char.ofNat 8)
  else if e = 'f' then some (Char.ofNat 12)
  else if e = 'n' then some '\n'
  else if e = 'r' then some '\r'
  else if e = 't' then some '\t'
  else none

/-- one unit of a string body (the caller has checked that it does not start with the closing quote):
    the decoded character and the rest. Lone surrogates are outside `Str` and rejected. -/
def strUnit? : Str → Option (Char × Str)
  | [] => none
  | c :: r =>
    if c = '\\' then
      match r with
      | [] => none
      | e :: r' =>
        if e = 'u' then
          match hex4? r' with
          | none => none
          | some (n, r2) =>
            if 0xD800 ≤ n ∧ n < 0xDC00 then
              match r2 with
              | b :: u :: r3 =>
                if b = '\\' ∧ u = 'u' then
                  match hex4? r3 with
                  | none => none
                  | some (m, r4) =>
                    if 0xDC00 ≤ m ∧ m < 0xE000 then
                      some (Char.ofNat (0x10000 + (n - 0xD800) * 0x400 + (m - 0xDC00)), r4)
                    else none
                else none
              | _ => none
            else if 0xDC00 ≤ n ∧ n < 0xE000 then none
            else some (Char.ofNat n, r2)
        else
          match simpleEsc? e with
          | some x => some (x, r')
          | none => none
    else if c.toNat < 0x20 then none
    else some (c, r)

/-- `py_scanstring` after the opening quote: decoded string and the text after the closing quote -/
def parseStrBody : Nat → Str → Option (Str × Str)
  | 0, _ => none
  | _ + 1, [] => none
  | f + 1, c :: r =>
    if c = '"' then some ([], r)
    else
      match strUnit? (c :: r) with
      | none => none
      | some (x, r') =>
        match parseStrBody f r' with
        | none => none
        | some (xs, r'') => some (x :: xs, r'')

/-- `json.loads(s)` for a string literal -/
def jsonParseStr (s : Str) : Option Str :=
  match s with
  | c :: r =>
    if c = '"' then
      match parseStrBody r.length r with
      | some (x, []) => some x
      | _ => none
    else none
  | [] => none

def jsonIsWs (c : Char) : Bool := c = ' ' || c = '\n' || c = '\r' || c = '\t'

/-- `WHITESPACE.match(s, end).end()` -/
def skipWs : Str → Str
  | [] => []
  | c :: r => if jsonIsWs c then skipWs r else c :: r

mutual
  /-- `scan_once`: a value and the rest of the text -/
  def parseVal : Nat → Str → Option (Json × Str)
    | 0, _ => none
    | f + 1, s =>
      match skipWs s with
      | [] => none
      | c :: r =>
        if c = '"' then
          match parseStrBody r.length r with
          | some (x, r') => some (.str x, r')
          | none => none
        else if c = '[' then
          match skipWs r with
          | [] => none
          | d :: r' =>
            if d = ']' then some (.arr .nil, r')
            else
              match parseElems f r with
              | some (xs, r'') => some (.arr xs, r'')
              | none => none
        else if c = '{' then
          match skipWs r with
          | [] => none
          | d :: r' =>
            if d = '}' then some (.obj .nil, r')
            else
              match parseMems f r with
              | some (ms, r'') => some (.obj ms, r'')
              | none => none
        else if c = 'n' then (if r.take 3 = ['u', 'l', 'l'] then some (.null, r.drop 3) else none)
        else if c = 't' then (if r.take 3 = ['r', 'u', 'e'] then some (.bool true, r.drop 3) else none)
        else if c = 'f' then (if r.take 4 = ['a', 'l', 's', 'e'] then some (.bool false, r.drop 4) else none)
        else none
  /-- `JSONArray` after `[` when the array is not empty: value (`,` value)* `]` -/
  def parseElems : Nat → Str → Option (JList × Str)
    | 0, _ => none
    | f + 1, s =>
      match parseVal f s with
      | none => none
      | some (v, r) =>
        match skipWs r with
        | [] => none
        | c :: r' =>
          if c = ',' then
            match parseElems f r' with
            | some (xs, r'') => some (.cons v xs, r'')
            | none => none
          else if c = ']' then some (.cons v .nil, r')
          else none
  /-- `JSONObject` after `{` when the object is not empty: string `:` value (`,` string `:` value)* `}` -/
  def parseMems : Nat → Str → Option (JMems × Str)
    | 0, _ => none
    | f + 1, s =>
      match skipWs s with
      | [] => none
      | q :: r =>
        if q = '"' then
          match parseStrBody r.length r with
          | none => none
          | some (k, r1) =>
            match skipWs r1 with
            | [] => none
            | col :: r2 =>
              if col = ':' then
                match parseVal f r2 with
                | none => none
                | some (v, r3) =>
                  match skipWs r3 with
                  | [] => none
                  | c :: r4 =>
                    if c = ',' then
                      match parseMems f r4 with
                      | some (ms, r5) => some (.cons k v ms, r5)
                      | none => none
                    else if c = '}' then some (.cons k v .nil, r4)
                    else none
              else none
        else none
end

/-- `json.loads(s)`: one value, nothing but whitespace after it -/
def jsonParse (s : Str) : Option Json :=
  match parseVal (s.length + 1) s with
  | some (v, r) => if skipWs r = [] then some v else none
  | none => none

/-! ### the dependency record -/

/-- a dependency as it is serialised: the non-tree fields plus `head` already rendered
    (`TagList(self.head).get_html_string()`), `none` when the dependency has no head -/
structure SDep where
  info : DepInfo
  head : Option Str
  deriving DecidableEq, Repr, Inhabited

def kName : Str := ['n', 'a', 'm', 'e']
def kVersion : Str := ['v', 'e', 'r', 's', 'i', 'o', 'n']
def kSource : Str := ['s', 'o', 'u', 'r', 'c', 'e']
def kScript : Str := ['s', 'c', 'r', 'i', 'p', 't']
def kStylesheet : Str := ['s', 't', 'y', 'l', 'e', 's', 'h', 'e', 'e', 't']
def kMeta : Str := ['m', 'e', 't', 'a']
def kAllFiles : Str := ['a', 'l', 'l', '_', 'f', 'i', 'l', 'e', 's']
def kHead : Str := ['h', 'e', 'a', 'd']
def kHref : Str := ['h', 'r', 'e', 'f']
def kSubdir : Str := ['s', 'u', 'b', 'd', 'i', 'r']
def kPackage : Str := ['p', 'a', 'c', 'k', 'a', 'g', 'e']

/-- a `dict[str, str]` -/
def kvObj : List (Str × Str) → JMems
  | [] => .nil
  | (k, v) :: r => .cons k (.str v) (kvObj r)

/-- a `list[dict[str, str]]` -/
def kvArr : List (List (Str × Str)) → JList
  | [] => .nil
  | d :: r => .cons (.obj (kvObj d)) (kvArr r)

/-- the `source` dict; key order as the dict is built by callers (`subdir` first, then `package`).
    The resolved absolute directory is not part of the dict. -/
def srcJson : DepSource → Json
  | .none => .null
  | .href h => .obj (.cons kHref (.str h) .nil)
  | .subdir none d _ => .obj (.cons kSubdir (.str d) .nil)
  | .subdir (some p) d _ => .obj (.cons kSubdir (.str d) (.cons kPackage (.str p) .nil))

def optStrJson : Option Str → Json
  | none => .null
  | some s => .str s

/-- the `res` dict of `serialize_to_script_json`, in source order -/
def depToJson (d : SDep) : Json :=
  .obj (.cons kName (.str d.info.name)
       (.cons kVersion (.str d.info.version)
       (.cons kSource (srcJson d.info.source)
       (.cons kScript (.arr (kvArr d.info.script))
       (.cons kStylesheet (.arr (kvArr d.info.stylesheet))
       (.cons kMeta (.arr (kvArr d.info.metas))
       (.cons kAllFiles (.bool d.info.allFiles)
       (.cons kHead (optStrJson d.head) .nil))))))))

/-- `dict` semantics of `json.loads`: a repeated key keeps its last value -/
def JMems.get? (k : Str) : JMems → Option Json
  | .nil => none
  | .cons k' v t =>
    match t.get? k with
    | some x => some x
    | none => if k' = k then some v else none

def JMems.keys : JMems → List Str
  | .nil => []
  | .cons k _ t => k :: t.keys

def jsonStr? : Json → Except Err Str
  | .str s => .ok s
  | _ => .error .typeError

/-- a `dict[str, str]` back from JSON -/
def kvOfMems : JMems → Except Err (List (Str × Str))
  | .nil => .ok []
  | .cons k v t =>
    match jsonStr? v, kvOfMems t with
    | .ok s, .ok r => .ok ((k, s) :: r)
    | .error e, _ => .error e
    | _, .error e => .error e

def kvsOfList : JList → Except Err (List (List (Str × Str)))
  | .nil => .ok []
  | .cons (.obj ms) t =>
    match kvOfMems ms, kvsOfList t with
    | .ok d, .ok r => .ok (d :: r)
    | .error e, _ => .error e
    | _, .error e => .error e
  | .cons _ _ => .error .typeError     -- `_validate_dict`: "Expected dict"

/-- `script=` / `stylesheet=` / `meta=`: None ↦ [], a dict ↦ [dict], a list of dicts; every dict must
    have the required keys (KeyError otherwise) -/
def dictList (req : List Str) : Option Json → Except Err (List (List (Str × Str)))
  | none => .ok []
  | some .null => .ok []
  | some (.obj ms) =>
    match kvOfMems ms with
    | .ok d => if req.all (fun k => d.any (fun kv => kv.1 == k)) then .ok [d] else .error .keyError
    | .error e => .error e
  | some (.arr xs) =>
    match kvsOfList xs with
    | .ok ds => if ds.all (fun d => req.all (fun k => d.any (fun kv => kv.1 == k))) then .ok ds else .error .keyError
    | .error e => .error e
  | some _ => .error .typeError

/-- `source=`: None, or a dict with `href`, or a dict with `subdir` (and optionally `package`) -/
def srcOfJson : Option Json → Except Err DepSource
  | none => .ok .none
  | some .null => .ok .none
  | some (.obj ms) =>
    match ms.get? kHref with
    | some (.str h) => .ok (.href h)
    | some _ => .error .typeError
    | none =>
      match ms.get? kSubdir with
      | some (.str d) =>
        match ms.get? kPackage with
        | none => .ok (.subdir none d [])
        | some .null => .ok (.subdir none d [])
        | some (.str p) => .ok (.subdir (some p) d [])
        | some _ => .error .typeError
      | some _ => .error .typeError
      | none => .error .typeError       -- "Expected `source=` to have either `subdir` … or `href` key."
  | some _ => .error .typeError         -- "Expected `source=` to be a dict (or `None`)"

def kRel : Str := ['r', 'e', 'l']

/-- `for s in self.stylesheet: if "rel" not in s: s["rel"] = "stylesheet"` -/
def jsonAddRel (d : List (Str × Str)) : List (Str × Str) :=
  if d.any (fun kv => kv.1 == kRel) then d else d ++ [(kRel, kStylesheet)]

def depKeys : List Str := [kName, kVersion, kSource, kScript, kStylesheet, kAllFiles, kMeta, kHead]

/-- `HTMLDependency(**json.loads(text))` on the fragment: unknown or missing keyword ↦ TypeError; a string
    `head` becomes `TagList(HTML(head))`, i.e. that markup.  `version` is kept as written (it was produced by
    `str(Version)`; re-parsing it is `packaging`'s business), `vrank` and the resolved source directory are
    run-time data that are not part of the record. -/
def depOfJson : Json → Except Err SDep
  | .obj ms =>
    if !(ms.keys.all fun k => depKeys.contains k) then .error .typeError else
    match ms.get? kName, ms.get? kVersion with
    | some (.str name), some (.str version) =>
      match srcOfJson (ms.get? kSource), dictList [['s', 'r', 'c']] (ms.get? kScript),
            dictList [kHref] (ms.get? kStylesheet),
            dictList [kName, ['c', 'o', 'n', 't', 'e', 'n', 't']] (ms.get? kMeta) with
      | .ok source, .ok script, .ok stylesheet, .ok metas =>
        let allFiles : Except Err Bool :=
          match ms.get? kAllFiles with
          | none => .ok false
          | some (.bool b) => .ok b
          | some _ => .error .typeError
        let head : Except Err (Option Str) :=
          match ms.get? kHead with
          | none => .ok none
          | some .null => .ok none
          | some (.str s) => .ok (some s)
          | some _ => .error .typeError
        match allFiles, head with
        | .ok allFiles, .ok head =>
          .ok { info := { name, version, vrank := 0, source, script, stylesheet := stylesheet.map jsonAddRel, metas, allFiles }, head }
        | .error e, _ => .error e
        | _, .error e => .error e
      | .error e, _, _, _ => .error e
      | _, .error e, _, _ => .error e
      | _, _, .error e, _ => .error e
      | _, _, _, .error e => .error e
    | _, _ => .error .typeError
  | _ => .error .typeError

/-- what survives serialisation: everything except the run-time data -/
def DepSource.forgetAbs : DepSource → DepSource
  | .subdir p d _ => .subdir p d []
  | s => s

def SDep.norm (d : SDep) : SDep :=
  { d with info := { d.info with vrank := 0, source := d.info.source.forgetAbs } }

end HtmlVerif
