#!/usr/bin/env python3
"""Translator: /repo source (ast only, nothing imported/executed) -> Lean tables.

Regenerates lean/HtmlVerif/Generated/Tables.lean and TagFns.lean from the *current*
working tree of the repository.  Files are rewritten only if their text changes so
that `lake build` stays incremental.  Anything whose shape is not the required one is
emitted as an explicit `shapeOk := false` row / `allShapesOk := false` flag, which
makes the dependent Lean theorem fail instead of silently dropping the entry.
"""
from __future__ import annotations

import ast
import hashlib
import json
import os
import sys

HERE = os.path.dirname(os.path.abspath(__file__))
VERIF = os.path.dirname(HERE)
REPO = os.environ.get("VERIF_REPO", "/repo")
GEN = os.path.join(VERIF, "lean", "HtmlVerif", "Generated")


# ---------------------------------------------------------------- Lean printing
def lchar(c: str) -> str:
    if c.isascii() and (c.isalnum() or c in " -_.:;,/=+*()[]{}<>&#@!?%^~|$`"):
        return "'" + c + "'"
    return f"Char.ofNat {ord(c)}"


def lstr(s: str) -> str:
    return "[" + ", ".join(lchar(c) for c in s) + "]"


def lbool(b: bool) -> str:
    return "true" if b else "false"


def llist(items: list[str], per_line: int = 1, indent: str = "  ") -> str:
    if not items:
        return "[]"
    return "[\n" + ",\n".join(indent + it for it in items) + "\n]"


# ---------------------------------------------------------------- AST helpers
def parse(rel: str) -> ast.Module:
    with open(os.path.join(REPO, rel), encoding="utf-8") as f:
        return ast.parse(f.read(), filename=rel)


def top_assign(mod: ast.Module, name: str) -> ast.expr | None:
    found = None
    for node in mod.body:
        if isinstance(node, ast.Assign):
            for t in node.targets:
                if isinstance(t, ast.Name) and t.id == name:
                    found = node.value
        elif isinstance(node, ast.AnnAssign) and isinstance(node.target, ast.Name):
            if node.target.id == name and node.value is not None:
                found = node.value
    return found


def str_const(e: ast.expr | None) -> str | None:
    if isinstance(e, ast.Constant) and isinstance(e.value, str):
        return e.value
    return None


class Unsupported(Exception):
    pass


def const_eval(mod: ast.Module, e: ast.expr | None, seen: tuple[str, ...] = ()):
    """Value of a constant expression built from string/number constants, set/list/tuple/dict displays (with `*` and
    `**` spreads), names assigned at module top level, `frozenset/set/tuple/list/dict/sorted(<expr>)`, `dict(k=v, …)`,
    `a | b` on sets and dicts, `a + b` on lists/tuples/strings, `chr(n)`.  Python's own semantics (dict: a repeated key
    keeps its first position and takes the last value).  Anything else raises Unsupported."""
    if e is None:
        raise Unsupported("no assignment")
    if isinstance(e, ast.Constant) and isinstance(e.value, (str, int, bool)):
        return e.value
    if isinstance(e, ast.Name):
        if e.id in seen:
            raise Unsupported("cyclic " + e.id)
        return const_eval(mod, top_assign(mod, e.id), seen + (e.id,))
    if isinstance(e, (ast.Set, ast.List, ast.Tuple)):
        out = []
        for el in e.elts:
            if isinstance(el, ast.Starred):
                out.extend(const_eval(mod, el.value, seen))
            else:
                out.append(const_eval(mod, el, seen))
        return {ast.Set: lambda x: dict.fromkeys(x), ast.List: list, ast.Tuple: tuple}[type(e)](out)
    if isinstance(e, ast.Dict):
        items: dict = {}
        for k, v in zip(e.keys, e.values):
            if k is None:
                sub = const_eval(mod, v, seen)
                if not isinstance(sub, dict):
                    raise Unsupported("** of a non-dict")
                items.update(sub)
            else:
                items[const_eval(mod, k, seen)] = const_eval(mod, v, seen)
        return items
    if isinstance(e, ast.Call) and isinstance(e.func, ast.Name):
        fn = e.func.id
        if fn in ("frozenset", "set", "tuple", "list", "sorted") and len(e.args) <= 1 and not e.keywords:
            arg = const_eval(mod, e.args[0], seen) if e.args else []
            vals = list(arg)  # a set is kept as an insertion-ordered dict of its members
            if fn in ("frozenset", "set"):
                return dict.fromkeys(vals)
            return {"tuple": tuple, "list": list, "sorted": sorted}[fn](vals)
        if fn == "dict" and len(e.args) <= 1:
            items = dict(const_eval(mod, e.args[0], seen)) if e.args else {}
            for kw in e.keywords:
                if kw.arg is None:
                    items.update(const_eval(mod, kw.value, seen))
                else:
                    items[kw.arg] = const_eval(mod, kw.value, seen)
            return items
        if fn == "chr" and len(e.args) == 1:
            return chr(const_eval(mod, e.args[0], seen))
    if isinstance(e, ast.BinOp) and isinstance(e.op, (ast.BitOr, ast.Add)):
        l, r = const_eval(mod, e.left, seen), const_eval(mod, e.right, seen)
        if isinstance(e.op, ast.BitOr) and isinstance(l, dict) and isinstance(r, dict):
            return {**l, **r}
        if isinstance(e.op, ast.Add) and type(l) is type(r) and isinstance(l, (list, tuple, str)):
            return l + r
    raise Unsupported(ast.dump(e)[:80])


def imported_value(modname: str, name: str):
    """Fallback when the defining expression is not a constant expression: the value the module has once imported
    (what the code then uses), read in a fresh interpreter."""
    import subprocess
    code = ("import json,sys,importlib; m=importlib.import_module(sys.argv[1]); v=getattr(m,sys.argv[2]); "
            "print(json.dumps(list(v.items()) if isinstance(v,dict) else list(v)))")
    p = subprocess.run([sys.executable, "-c", code, modname, name], cwd=REPO, capture_output=True, text=True,
                       timeout=120, env={**os.environ, "PYTHONPATH": REPO})
    if p.returncode != 0:
        raise Unsupported(p.stderr[-300:])
    return json.loads(p.stdout)


def str_collection(e: ast.expr | None, mod: ast.Module | None = None, fallback: tuple[str, str] | None = None,
                   notes: list | None = None) -> tuple[list[str], bool]:
    """collection of string constants -> (values in source order, ok)."""
    try:
        v = const_eval(mod or ast.Module(body=[], type_ignores=[]), e)
        if isinstance(v, (str, int)) or v is None:
            raise Unsupported("not a collection")
        vals = list(v)
    except (Unsupported, RecursionError, TypeError, ValueError) as ex:
        if fallback is None:
            return [], False
        try:
            vals = imported_value(*fallback)
            if notes is not None:
                notes.append(f"{fallback[1]}: defining expression not understood ({ex}); value taken from the imported module")
        except Exception:
            return [], False
    if not all(isinstance(x, str) for x in vals):
        return [x for x in vals if isinstance(x, str)], False
    return vals, True


def dict_table(mod: ast.Module, name: str, fallback: tuple[str, str] | None = None,
               notes: list | None = None) -> tuple[list[tuple[str, str]], bool]:
    """str->str table, Python dict semantics, source order kept."""
    try:
        v = const_eval(mod, top_assign(mod, name), (name,))
        if not isinstance(v, dict):
            raise Unsupported("not a dict")
        items = list(v.items())
    except (Unsupported, RecursionError, TypeError, ValueError) as ex:
        if fallback is None:
            return [], False
        try:
            items = [tuple(x) for x in imported_value(*fallback)]
            if notes is not None:
                notes.append(f"{name}: defining expression not understood ({ex}); value taken from the imported module")
        except Exception:
            return [], False
    if not all(isinstance(k, str) and isinstance(x, str) for k, x in items):
        return [(k, x) for k, x in items if isinstance(k, str) and isinstance(x, str)], False
    return items, True


REGEX_SPECIAL = set(".^$*+?{}[]\\|()")


# ---------------------------------------------------------------- tag wrappers
def tag_fn_rows(rel: str, modname: str) -> tuple[list[dict], list[str], list[str]]:
    """-> (one row per PUBLIC top-level function, the module's `__all__`, the private top-level functions skipped).
    Public = the name does not start with an underscore, or the module lists it in `__all__` (what the module
    exports and what C19's run-time enumeration calls); a private helper (`def _names(): …`) is no tag function."""
    mod = parse(rel)
    all_names, _ = str_collection(top_assign(mod, "__all__"), mod)
    rows = []
    skipped: list[str] = []
    for node in mod.body:
        if not isinstance(node, (ast.FunctionDef, ast.AsyncFunctionDef)):
            continue
        if node.name.startswith("_") and node.name not in all_names:
            skipped.append(node.name)
            continue
        row = {"mod": modname, "fn": node.name, "lit": "", "dflt": True, "shape": False}
        a = node.args
        sig_ok = (
            isinstance(node, ast.FunctionDef)
            and not node.decorator_list
            and not a.posonlyargs
            and not a.args
            and a.vararg is not None
            and a.vararg.arg == "args"
            and len(a.kwonlyargs) == 1
            and a.kwonlyargs[0].arg == "_add_ws"
            and len(a.kw_defaults) == 1
            and isinstance(a.kw_defaults[0], ast.Constant)
            and isinstance(a.kw_defaults[0].value, bool)
            and a.kwarg is not None
            and a.kwarg.arg == "kwargs"
        )
        if sig_ok:
            row["dflt"] = bool(a.kw_defaults[0].value)  # type: ignore[union-attr]
        body = list(node.body)
        if body and isinstance(body[0], ast.Expr) and str_const(body[0].value) is not None:
            body = body[1:]
        body_ok = False
        if len(body) == 1 and isinstance(body[0], ast.Return):
            c = body[0].value
            if (
                isinstance(c, ast.Call)
                and isinstance(c.func, ast.Name)
                and c.func.id == "Tag"
                and len(c.args) == 2
                and str_const(c.args[0]) is not None
                and isinstance(c.args[1], ast.Starred)
                and isinstance(c.args[1].value, ast.Name)
                and c.args[1].value.id == "args"
                and len(c.keywords) == 2
                and c.keywords[0].arg == "_add_ws"
                and isinstance(c.keywords[0].value, ast.Name)
                and c.keywords[0].value.id == "_add_ws"
                and c.keywords[1].arg is None
                and isinstance(c.keywords[1].value, ast.Name)
                and c.keywords[1].value.id == "kwargs"
            ):
                body_ok = True
                row["lit"] = str_const(c.args[0])
        row["shape"] = bool(sig_ok and body_ok)
        rows.append(row)
    # `Tag` must be the one imported from ._core and not rebound at module level
    tag_import_ok = False
    rebound = False
    for node in mod.body:
        if isinstance(node, ast.ImportFrom) and node.module == "_core" and node.level == 1:
            if any(al.name == "Tag" and al.asname is None for al in node.names):
                tag_import_ok = True
        elif isinstance(node, (ast.Assign, ast.AnnAssign, ast.ClassDef)):
            names = []
            if isinstance(node, ast.Assign):
                names = [t.id for t in node.targets if isinstance(t, ast.Name)]
            elif isinstance(node, ast.AnnAssign) and isinstance(node.target, ast.Name):
                names = [node.target.id]
            elif isinstance(node, ast.ClassDef):
                names = [node.name]
            if "Tag" in names:
                rebound = True
    if not tag_import_ok or rebound:
        for r in rows:
            r["shape"] = False
    return rows, all_names, skipped


def generator_tags_all() -> tuple[list[str], bool]:
    """The `__all__` tuple inside the module text scripts/generate_tags.py writes for tags.py (`html_src = f'''…'''`):
    the list of shortcut names the generator is told to export.  -> (names, located)"""
    import re
    try:
        gen = parse("scripts/generate_tags.py")
    except Exception:
        return [], False
    e = top_assign(gen, "html_src")
    if isinstance(e, ast.JoinedStr):
        text = "".join(v.value if isinstance(v, ast.Constant) and isinstance(v.value, str) else "\0" for v in e.values)
    elif str_const(e) is not None:
        text = str_const(e)
    else:
        return [], False
    m = re.search(r"^__all__\s*=\s*([\(\[][^\)\]\0]*[\)\]])", text, re.M)
    if not m:
        return [], False
    try:
        v = ast.literal_eval(m.group(1))
    except Exception:
        return [], False
    if not isinstance(v, (tuple, list)) or not all(isinstance(x, str) for x in v):
        return [], False
    return list(v), True


def row_lean(r: dict) -> str:
    return (
        "{ modName := " + lstr(r["mod"]) + ", fnName := " + lstr(r["fn"]) + ", tagLit := "
        + lstr(r["lit"]) + ", dflt := " + lbool(r["dflt"]) + ", shapeOk := " + lbool(r["shape"]) + " }"
    )


# ---------------------------------------------------------------- function fingerprints
class _StripDoc(ast.NodeTransformer):
    def _strip(self, node):
        self.generic_visit(node)
        if node.body and isinstance(node.body[0], ast.Expr) and str_const(node.body[0].value) is not None:
            node.body = node.body[1:] or [ast.Pass()]
        return node

    visit_FunctionDef = _strip
    visit_AsyncFunctionDef = _strip
    visit_ClassDef = _strip


def fingerprints() -> dict[str, str]:
    out: dict[str, str] = {}
    for rel in ("htmltools/_core.py", "htmltools/_util.py", "htmltools/_jsx.py", "htmltools/__init__.py"):
        try:
            mod = _StripDoc().visit(parse(rel))
        except Exception:
            continue

        def walk(body, prefix):
            for node in body:
                if isinstance(node, (ast.FunctionDef, ast.AsyncFunctionDef)):
                    key = f"{rel}:{prefix}{node.name}"
                    out[key] = hashlib.sha1(ast.dump(node).encode()).hexdigest()[:16]
                elif isinstance(node, ast.ClassDef):
                    walk(node.body, prefix + node.name + ".")
                elif isinstance(node, ast.Assign) and prefix == "":
                    for t in node.targets:
                        if isinstance(t, ast.Name):
                            key = f"{rel}:{t.id}"
                            out[key] = hashlib.sha1(ast.dump(node.value).encode()).hexdigest()[:16]

        walk(mod.body, "")
    return out


# ---------------------------------------------------------------- literal constants and defaults on the render path
def _find_func(mod: ast.Module, qual: str):
    parts = qual.split(".")
    body = mod.body
    node = None
    for i, nm in enumerate(parts):
        node = None
        for n in body:
            if isinstance(n, (ast.FunctionDef, ast.ClassDef)) and n.name == nm:
                node = n
        if node is None:
            return None
        body = node.body
    return node if isinstance(node, ast.FunctionDef) else None


def _strip_doc(fn: ast.FunctionDef):
    body = list(fn.body)
    if body and isinstance(body[0], ast.Expr) and str_const(body[0].value) is not None:
        body = body[1:]
    return body


def _str_consts(fn: ast.FunctionDef) -> list[str]:
    out = []
    for st in _strip_doc(fn):
        for n in ast.walk(st):
            if isinstance(n, ast.Constant) and isinstance(n.value, str):
                out.append(n.value)
    return out


def _default(fn: ast.FunctionDef, name: str):
    """('ok', value) for a constant default of parameter `name`, else ('missing',)"""
    a = fn.args
    pos = a.posonlyargs + a.args
    for arg, d in zip(pos[len(pos) - len(a.defaults):], a.defaults):
        if arg.arg == name and isinstance(d, ast.Constant):
            return ("ok", d.value)
    for arg, d in zip(a.kwonlyargs, a.kw_defaults):
        if arg.arg == name and isinstance(d, ast.Constant):
            return ("ok", d.value)
    return ("missing",)


def _kwarg_const(fn: ast.FunctionDef, callee: str, kw: str) -> list:
    out = []
    for st in _strip_doc(fn):
        for n in ast.walk(st):
            if isinstance(n, ast.Call) and isinstance(n.func, ast.Name) and n.func.id == callee:
                for k in n.keywords:
                    if k.arg == kw and isinstance(k.value, ast.Constant):
                        out.append(k.value.value)
    return out


def _mult_units(fn: ast.FunctionDef) -> list[str]:
    out = []
    for st in _strip_doc(fn):
        for n in ast.walk(st):
            if isinstance(n, ast.BinOp) and isinstance(n.op, ast.Mult) and str_const(n.left) is not None:
                out.append(n.left.value)
    return out


def _join_seps(fn: ast.FunctionDef) -> list[str]:
    out = []
    for st in _strip_doc(fn):
        for n in ast.walk(st):
            if (isinstance(n, ast.Call) and isinstance(n.func, ast.Attribute) and n.func.attr == "join"
                    and str_const(n.func.value) is not None):
                out.append(n.func.value.value)
    return out


def _replace_args(fn: ast.FunctionDef) -> list[tuple]:
    out = []
    for st in _strip_doc(fn):
        for n in ast.walk(st):
            if (isinstance(n, ast.Call) and isinstance(n.func, ast.Attribute) and n.func.attr == "replace"
                    and len(n.args) >= 2 and all(str_const(x) is not None for x in n.args[:2])):
                out.append((n.args[0].value, n.args[1].value))
    return out


def consts_lean(core: ast.Module) -> tuple[str, list[str]]:
    problems: list[str] = []
    defs: list[str] = []

    def one(name, values, what):
        vals = sorted(set(values))
        if len(vals) == 1:
            return vals[0]
        problems.append(f"const {name}: expected exactly one {what}, found {vals!r}")
        return None

    def emit_str(name, v, doc):
        defs.append(f"/-- {doc} -/\ndef {name} : Option Str := " + ("none" if v is None else "some " + lstr(v)))

    def emit_dflt(name, fnq, param, doc):
        fn = _find_func(core, fnq)
        d = _default(fn, param) if fn is not None else ("missing",)
        if d[0] != "ok":
            problems.append(f"default {fnq}({param}=…) not found as a constant")
            defs.append(f"/-- {doc} -/\ndef {name} : Option (Option Str × Option Bool × Option Nat) := none")
            return
        v = d[1]
        s = "some " + lstr(v) if isinstance(v, str) else "none"
        b = ("some " + lbool(v)) if isinstance(v, bool) else "none"
        n = ("some " + str(v)) if (isinstance(v, int) and not isinstance(v, bool) and v >= 0) else "none"
        defs.append(f"/-- {doc} (as str / bool / nat; all `none` = the constant `None`) -/\n"
                    f"def {name} : Option (Option Str × Option Bool × Option Nat) := some ({s}, {b}, {n})")

    f = lambda q: _find_func(core, q)
    fn = f("HTMLDocument.render")
    emit_str("doctypeLit", one("doctype", [c for c in (_str_consts(fn) if fn else []) if c.startswith("<!")], "'<!…' literal"), "the doctype prefix written by HTMLDocument.render")
    fn = f("HTMLDocument._hoist_head_content")
    emit_str("listingTypeDoc", one("listingTypeDoc", _kwarg_const(fn, "Tag", "type") if fn else [], "Tag(..., type=<const>)"), "type= of the dependency listing script (HTMLDocument)")
    emit_str("listingSepDoc", one("listingSepDoc", _join_seps(fn) if fn else [], "'<sep>'.join"), "separator of the listing (HTMLDocument)")
    emit_str("charsetLit", one("charset", _kwarg_const(fn, "Tag", "charset") if fn else [], "Tag('meta', charset=<const>)"), "charset of the meta tag put first in <head>")
    fn = f("HTMLTextDocument.render")
    emit_str("listingTypeText", one("listingTypeText", _kwarg_const(fn, "Tag", "type") if fn else [], "Tag(..., type=<const>)"), "type= of the dependency listing script (HTMLTextDocument)")
    emit_str("listingSepText", one("listingSepText", _join_seps(fn) if fn else [], "'<sep>'.join"), "separator of the listing (HTMLTextDocument)")
    fn = f("head_content")
    emit_str("headcontentPrefixLit", one("headcontent prefix", [c for c in (_str_consts(fn) if fn else []) if c.endswith("_")], "'…_' literal"), "prefix of head_content names")
    emit_str("headcontentVersionLit", one("headcontent version", _kwarg_const(fn, "HTMLDependency", "version") if fn else [], "version=<const>"), "version of head_content dependencies")
    fn = f("Tag.get_html_string")
    emit_str("indentUnitTag", one("indent unit (Tag)", _mult_units(fn) if fn else [], "'<unit>' * indent"), "indentation unit in Tag.get_html_string")
    fn = f("TagList.get_html_string")
    emit_str("indentUnitList", one("indent unit (TagList)", _mult_units(fn) if fn else [], "'<unit>' * indent"), "indentation unit in TagList.get_html_string")
    fn = f("HTMLTextDocument._static_extract_serialized_html_deps")
    pats = []
    if fn is not None:
        for st in _strip_doc(fn):
            if isinstance(st, ast.Assign) and any(isinstance(t, ast.Name) and t.id == "pattern" for t in st.targets):
                if str_const(st.value) is not None:
                    pats.append(st.value.value)
    emit_str("extractPattern", one("extraction regex", pats, "pattern = <const>"), "the regex of HTMLTextDocument's extraction")
    fn = f("HTMLDependency.serialize_to_script_json")
    reps = _replace_args(fn) if fn else []
    emit_str("neutraliseFrom", one("neutralise from", [a for a, _ in reps], ".replace(<from>, …)"), "what serialize_to_script_json replaces")
    emit_str("neutraliseTo", one("neutralise to", [b for _, b in reps], ".replace(…, <to>)"), "… and by what")
    emit_str("serialTypeLit", one("serialised type", _kwarg_const(fn, "Tag", "type") if fn else [], "Tag(..., type=<const>)"), "type= of the serialised dependency script")
    for name, fnq, param in [
        ("dTagIndent", "Tag.get_html_string", "indent"), ("dTagEol", "Tag.get_html_string", "eol"),
        ("dListIndent", "TagList.get_html_string", "indent"), ("dListEol", "TagList.get_html_string", "eol"),
        ("dListAddWs", "TagList.get_html_string", "add_ws"), ("dListEscape", "TagList.get_html_string", "_escape_strings"),
        ("dTagAddWs", "Tag.__init__", "_add_ws"),
        ("dDocLibPrefix", "HTMLDocument.render", "lib_prefix"), ("dDocInclVersion", "HTMLDocument.render", "include_version"),
        ("dTextDocLibPrefix", "HTMLTextDocument.render", "lib_prefix"), ("dTextDocInclVersion", "HTMLTextDocument.render", "include_version"),
        ("dSaveLibdir", "HTMLDocument.save_html", "libdir"), ("dSaveInclVersion", "HTMLDocument.save_html", "include_version"),
        ("dTagSaveLibdir", "Tag.save_html", "libdir"), ("dListSaveLibdir", "TagList.save_html", "libdir"),
        ("dAsTagsLibPrefix", "HTMLDependency.as_html_tags", "lib_prefix"), ("dAsTagsInclVersion", "HTMLDependency.as_html_tags", "include_version"),
        ("dAsDictLibPrefix", "HTMLDependency.as_dict", "lib_prefix"), ("dAsDictInclVersion", "HTMLDependency.as_dict", "include_version"),
        ("dCopyInclVersion", "HTMLDependency.copy_to", "include_version"), ("dDedup", "TagList.get_dependencies", "dedup"),
        ("dAllFiles", "HTMLDependency.__init__", "all_files"),
    ]:
        emit_dflt(name, fnq, param, f"default of `{param}` in `{fnq}`")
    text = ("-- GENERATED by harness/translate.py from the source — do not edit.\nimport HtmlVerif.Model.Str\n\n"
            "namespace HtmlVerif.Generated\nopen HtmlVerif\n\n" + "\n\n".join(defs) + "\n\nend HtmlVerif.Generated\n")
    return text, problems


# ---------------------------------------------------------------- main
def generate() -> dict:
    info: dict = {"problems": []}
    core = parse("htmltools/_core.py")
    util = parse("htmltools/_util.py")
    init = parse("htmltools/__init__.py")

    notes: list[str] = []
    info["notes"] = notes
    void, ok1 = str_collection(top_assign(core, "_VOID_TAG_NAMES"), core, ("htmltools._core", "_VOID_TAG_NAMES"), notes)
    noesc, ok2 = str_collection(top_assign(core, "_NO_ESCAPE_TAG_NAMES"), core, ("htmltools._core", "_NO_ESCAPE_TAG_NAMES"), notes)
    text_tbl, ok3 = dict_table(util, "HTML_ESCAPE_TABLE", ("htmltools._util", "HTML_ESCAPE_TABLE"), notes)
    attr_tbl, ok4 = dict_table(util, "HTML_ATTRS_ESCAPE_TABLE", ("htmltools._util", "HTML_ATTRS_ESCAPE_TABLE"), notes)
    for nm, tbl in (("HTML_ESCAPE_TABLE", text_tbl), ("HTML_ATTRS_ESCAPE_TABLE", attr_tbl)):
        for k, _ in tbl:
            if len(k) != 1:
                info["problems"].append(f"{nm}: key {k!r} is not a single character")
            elif k in REGEX_SPECIAL:
                info["problems"].append(f"{nm}: key {k!r} is a regex metacharacter (guard not modelled)")
    try:
        gen = parse("scripts/generate_tags.py")
        inline, ok5 = str_collection(top_assign(gen, "_INLINE_TAG_NAMES"), gen)
    except Exception as e:  # file removed: classification unavailable
        inline, ok5 = [], False
        info["problems"].append(f"scripts/generate_tags.py: {e}")
    try:
        vers_mod = parse("htmltools/_versions.py")
        vers_e = top_assign(vers_mod, "versions")
        vers: list[tuple[str, str]] = []
        ok6 = isinstance(vers_e, ast.Dict)
        if ok6:
            for k, v in zip(vers_e.keys, vers_e.values):  # type: ignore[union-attr]
                ks, vs = str_const(k), str_const(v)
                if ks is None or vs is None:
                    ok6 = False
                else:
                    vers.append((ks, vs))
    except Exception as e:
        vers, ok6 = [], False
        info["problems"].append(f"_versions.py: {e}")

    for nm, ok in (("_VOID_TAG_NAMES", ok1), ("_NO_ESCAPE_TAG_NAMES", ok2), ("HTML_ESCAPE_TABLE", ok3),
                   ("HTML_ATTRS_ESCAPE_TABLE", ok4), ("_INLINE_TAG_NAMES", ok5), ("versions", ok6)):
        if not ok:
            info["problems"].append(f"{nm}: not a display of string constants")
    all_ok = not info["problems"]

    html_rows, tags_all, html_skipped = tag_fn_rows("htmltools/tags.py", "tags")
    svg_rows, _, svg_skipped = tag_fn_rows("htmltools/svg.py", "svg")
    gen_all, gen_all_located = generator_tags_all()
    for m, sk in (("tags.py", html_skipped), ("svg.py", svg_skipped)):
        if sk:
            notes.append(f"{m}: private top-level function(s) {', '.join(sk)} are not tag functions: no table row")

    # re-exports in __init__: `from .tags import (...)` names and __all__
    reexports: list[str] = []
    reexp_ok = True
    for node in init.body:
        if isinstance(node, ast.ImportFrom) and node.module == "tags" and node.level == 1:
            for al in node.names:
                if al.asname not in (None, al.name):
                    reexp_ok = False
                reexports.append(al.name)
    init_all, ok7 = str_collection(top_assign(init, "__all__"), init)
    # names rebound at top level of __init__ after import would shadow the re-export
    for node in init.body:
        if isinstance(node, (ast.FunctionDef, ast.ClassDef)) and node.name in reexports:
            reexp_ok = False
        if isinstance(node, ast.Assign):
            for t in node.targets:
                if isinstance(t, ast.Name) and t.id in reexports:
                    reexp_ok = False
    mode_default = str_const(top_assign(init, "html_dependency_render_mode"))

    def tbl_lean(tbl):
        return llist(["(" + lchar(k[0] if k else "\0") + ", " + lstr(v) + ")" for k, v in tbl])

    tables = f"""-- GENERATED by harness/translate.py from the source of /repo (or VERIF_REPO) — do not edit.
import HtmlVerif.Model.Str

namespace HtmlVerif.Generated
open HtmlVerif

/-- every table had the required syntactic shape in the source -/
def allShapesOk : Bool := {lbool(all_ok)}

/-- `_VOID_TAG_NAMES` (sorted) -/
def voidNames : List Str := {llist([lstr(s) for s in sorted(set(void))])}

/-- `_NO_ESCAPE_TAG_NAMES` (sorted) -/
def noescNames : List Str := {llist([lstr(s) for s in sorted(set(noesc))])}

/-- `HTML_ESCAPE_TABLE`, source order -/
def textTbl : List (Char × Str) := {tbl_lean(text_tbl)}

/-- `HTML_ATTRS_ESCAPE_TABLE`, source order, `**` spread resolved -/
def attrTbl : List (Char × Str) := {tbl_lean(attr_tbl)}

/-- `_INLINE_TAG_NAMES` of scripts/generate_tags.py (sorted) -/
def inlineNames : List Str := {llist([lstr(s) for s in sorted(set(inline))])}

/-- `versions` of _versions.py -/
def reactVersions : List (Str × Str) := {llist(["(" + lstr(k) + ", " + lstr(v) + ")" for k, v in vers])}

/-- default of `html_dependency_render_mode` -/
def renderModeDefault : Str := {lstr(mode_default or "?")}

end HtmlVerif.Generated
"""
    tagfns = f"""-- GENERATED by harness/translate.py from the source of /repo (or VERIF_REPO) — do not edit.
import HtmlVerif.Model.Str

namespace HtmlVerif.Generated
open HtmlVerif

structure TagFnRow where
  modName : Str
  fnName  : Str
  tagLit  : Str
  dflt    : Bool
  shapeOk : Bool

def htmlFns : List TagFnRow := {llist([row_lean(r) for r in html_rows])}

def svgFns : List TagFnRow := {llist([row_lean(r) for r in svg_rows])}

/-- names imported by `from .tags import (...)` in htmltools/__init__.py, source order -/
def reexports : List Str := {llist([lstr(s) for s in reexports])}

def reexportShapeOk : Bool := {lbool(reexp_ok and ok7)}

/-- `__all__` of htmltools/__init__.py -/
def initAll : List Str := {llist([lstr(s) for s in init_all])}

/-- `__all__` of htmltools/tags.py -/
def tagsAll : List Str := {llist([lstr(s) for s in tags_all])}

/-- the `__all__` that scripts/generate_tags.py writes into tags.py (`none`: not located in the script) -/
def genTagsAll : Option (List Str) := {("some " + llist([lstr(s) for s in gen_all])) if gen_all_located else "none"}

end HtmlVerif.Generated
"""
    consts_text, cproblems = consts_lean(core)
    info["const_problems"] = cproblems
    os.makedirs(GEN, exist_ok=True)
    changed = []
    for fn, text in (("Tables.lean", tables), ("TagFns.lean", tagfns), ("Consts.lean", consts_text)):
        p = os.path.join(GEN, fn)
        old = None
        if os.path.exists(p):
            with open(p, encoding="utf-8") as f:
                old = f.read()
        if old != text:
            with open(p + ".tmp", "w", encoding="utf-8") as f:
                f.write(text)
            os.replace(p + ".tmp", p)
            changed.append(fn)
    info.update(
        changed=changed,
        void=sorted(set(void)), noesc=sorted(set(noesc)), text_tbl=text_tbl, attr_tbl=attr_tbl,
        inline=sorted(set(inline)), versions=vers, html_rows=html_rows, svg_rows=svg_rows,
        reexports=reexports, init_all=init_all, tags_all=tags_all, all_ok=all_ok,
        gen_tags_all=gen_all if gen_all_located else None,
        fingerprints=fingerprints(),
    )
    # behavioural code: selected functions are translated statement by statement (DESIGN §14)
    import pytranslate
    src = pytranslate.generate()
    notes.extend(src["notes"])
    info["src_available"] = src["available"]
    return info


if __name__ == "__main__":
    inf = generate()
    json.dump({k: inf[k] for k in ("changed", "problems", "all_ok")}, sys.stdout)
    print()
