/-
Executable statements of C02 (text) and C03 (attribute values) at the character level, evaluated on the
implementation's `html_escape` output.  (The tree-level part is the marker substitution, harness/subst.py.)
-/
import HtmlVerif.Ops.Base
import HtmlVerif.Spec.Refs

namespace HtmlVerif.Ops
open HtmlVerif HtmlVerif.Wire

/-- the statement itself, not the model's particular choice of references: every special character is written as
    some character reference that decodes to it, every other character is unchanged (hence the whole decodes to the
    original and no special character survives raw) -/
def escHolds (attr : Bool) (s out : Str) : Bool :=
  validEscape (if attr then attrSpecials else textSpecials) s out

def holdsC02 : OpTable
  | "escape" => some do
    let a ← bool; let s ← str
    expect "|"
    let out ← str
    pure (encBool (escHolds a s out))
  | _ => none

end HtmlVerif.Ops
