"""Implementation side of the source tie for the rest of `htmltools/_jsx.py` (harness/pytr_c20b.py; DESIGN §14): the real
`JSXTagAttrDict.__setitem__ / _update / update / __init__`, `JSXTag.__init__ / extend / append / __copy__`, called as
*functions* (unbound, `self` = first value) on the realised values, for the ops `src` (ops_src.py) and

  srcc20b [ (<str> <str.upper() of it>)… ] [ (<version string> <str(Version(it))>)… ] <function> [ <pval>… ]

whose tables are what the *Lean* side needs (`Globals.upperC20b`, `Globals.mkVersion`; the real `str.upper` and `packaging`
need nothing).  A Version object is encoded with rank 0 (`versionObjC10b 0 text`).

Values: a JSXTagAttrDict is carried as a dict (`M [ … ]`: a receiver is realised as a JSXTagAttrDict holding exactly these
items, a result is encoded as its items); a JSXTag / Tag / TagList as the `__dict__` the translated methods see (a JSXTag:
its attributes in assignment order; a Tag: `name attrs children add_ws`, the four fields of `embJNode`); a `jsx` string as
`O jsx [ __str__ S … ]`; metadata nodes, tagifiable objects and instances of other classes remember the term they were
realised from and are encoded back as that term (a tagifiable object with the *current* encoding of what its `tagify()`
returns).
"""
from __future__ import annotations

import ops_src
from ops import op
from wire import Toks, es


def _jsxmod():
    from htmltools import _jsx
    return _jsx


class _TagifiableC20b:
    """`tagify()` returns the recorded value (the convention of `pyTagifyObj`, Py/PrimC10.lean)"""

    def __init__(self, fields):
        self._c20b_fields = fields

    def tagify(self):
        return self._c20b_fields["tagify"]


def _jsx(fields):
    return _jsxmod().jsx(fields["__str__"])


def _jsxtag(fields):
    m = _jsxmod()
    t = m.JSXTag.__new__(m.JSXTag)          # not through __init__: the attributes are the stored ones, as given
    for k, v in fields.items():
        if k == "attrs" and type(v) is dict:
            a = m.JSXTagAttrDict()
            dict.update(a, v)
            v = a
        setattr(t, k, v)
    return t


def _meta(fields):
    import htmltools
    x = htmltools.MetadataNode()
    x._c20b_fields = fields
    return x


def _dep(fields):
    import htmltools
    x = htmltools.HTMLDependency(fields.get("name") or "d", "1.0")
    x._c20b_fields = fields
    return x


def _tag(fields):
    import htmltools
    tg = htmltools.Tag(fields["name"], _add_ws=fields["add_ws"])
    dict.update(tg.attrs, fields["attrs"])
    tg.children = fields["children"]
    tg._c20b_in = True
    return tg


ops_src.REALIZE["Tag"] = _tag
ops_src.REALIZE["jsx"] = _jsx
ops_src.REALIZE["JSXTag"] = _jsxtag
ops_src.REALIZE["MetadataNode"] = _meta
ops_src.REALIZE["HTMLDependency"] = _dep
ops_src.REALIZE["TagifiableObj"] = _TagifiableC20b


def _enc(v, enc):
    import htmltools
    m = _jsxmod()
    if type(v) is m.jsx:
        return "O jsx [ __str__ S " + es(str.__str__(v)) + " ]"
    if type(v) is m.JSXTag:
        return "O JSXTag [ " + "".join(f"{k} {enc(dict(x) if isinstance(x, dict) else x)} " for k, x in vars(v).items()) + "]"
    if type(v) is htmltools.Tag:
        if getattr(v, "_c20b_in", False):           # a Tag of the input: the four fields of `embJNode`
            return (f"O Tag [ name {enc(v.name)} attrs {enc(dict(v.attrs))} children {enc(v.children)} "
                    f"add_ws {enc(v.add_ws)} ]")
        # a Tag the function under test built: its `__dict__` in assignment order
        return "O Tag [ " + "".join(f"{k} {enc(dict(x) if isinstance(x, dict) else x)} " for k, x in vars(v).items()) + "]"
    if type(v) is htmltools.HTMLDependency and not hasattr(v, "_c20b_fields"):
        return "O HTMLDependency [ " + "".join(f"{k} {enc(x)} " for k, x in vars(v).items()) + "]"
    from packaging.version import Version
    if isinstance(v, Version):
        return "O Version [ rank I 0 text S " + es(str(v)) + " ]"
    if type(v) is htmltools.TagList:
        return f"O TagList [ data {enc(list(v.data))} ]"
    if hasattr(v, "_c20b_fields"):
        cls = "TagifiableObj" if type(v) is _TagifiableC20b else type(v).__name__
        return f"O {cls} [ " + "".join(f"{k} {enc(x)} " for k, x in v._c20b_fields.items()) + "]"
    return None


ops_src.ENCODE.append(_enc)


def _attrdict(items):
    d = _jsxmod().JSXTagAttrDict()
    dict.update(d, items)
    return d


def _setitem(a):
    d = _attrdict(a[0])
    _jsxmod().JSXTagAttrDict.__setitem__(d, a[1], a[2])
    return dict(d)


def _update_map(a):
    d = _attrdict(a[0])
    _jsxmod().JSXTagAttrDict._update(d, a[1])
    return dict(d)


def _update(a):
    d = _attrdict(a[0])
    _jsxmod().JSXTagAttrDict.update(d, *a[1], **a[2])
    return dict(d)


def _init_dict(a):
    d = _attrdict(a[0])
    _jsxmod().JSXTagAttrDict.__init__(d, **a[1])
    return dict(d)


def _init_tag(a):
    m = _jsxmod()
    t = a[0]
    m.JSXTag.__init__(t, a[1], *a[2], allowedProps=a[3], **a[4])
    return t


def _extend(a):
    r = _jsxmod().JSXTag.extend(a[0], a[1])
    return a[0] if r is None else ("not-none", r)


def _append(a):
    r = _jsxmod().JSXTag.append(a[0], *a[1])
    return a[0] if r is None else ("not-none", r)


ops_src.CALLS["JSXTagAttrDict_setitemC20b"] = _setitem
ops_src.CALLS["JSXTagAttrDict_updateMapC20b"] = _update_map
ops_src.CALLS["JSXTagAttrDict_updateC20b"] = _update
ops_src.CALLS["JSXTagAttrDict_initC20b"] = _init_dict
ops_src.CALLS["JSXTag_initC20b"] = _init_tag
ops_src.CALLS["JSXTag_extendC20b"] = _extend
ops_src.CALLS["JSXTag_appendC20b"] = _append
ops_src.CALLS["JSXTag_copyC20b"] = lambda a: _jsxmod().JSXTag.__copy__(a[0])


def _visitor(md: list):
    """the function defined inside `JSXTag.tagify`, closed over the list `md`: rebuilt from its code object (the one nested
    code object among the constants of `tagify`), with a fresh cell for its one free variable"""
    import types
    m = _jsxmod()
    codes = [c for c in m.JSXTag.tagify.__code__.co_consts if isinstance(c, types.CodeType)]
    if len(codes) != 1 or len(codes[0].co_freevars) != 1:
        raise LookupError("visitor of JSXTag.tagify")
    return types.FunctionType(codes[0], vars(m), codes[0].co_name, None, (types.CellType(md),))


def _call_visitor(a):
    if type(a[0]) is not list:
        raise LookupError("visitor state")
    md = a[0]
    r = _visitor(md)(a[1])
    return (r, md)


def _call_walk(a):
    if type(a[1]) is not list:
        raise LookupError("visitor state")
    md = a[1]
    r = _jsxmod()._walk_attrs_and_children(a[0], _visitor(md))
    return (r, md)


def _capture_order(code, src_owner) -> list:
    """the free variables of the nested function `code`, in the order of their first occurrence in its body (the order in
    which the translation takes the captured values; a renaming changes nothing)"""
    import ast
    import inspect
    import textwrap
    free = list(code.co_freevars)
    try:
        tree = ast.parse(textwrap.dedent(inspect.getsource(src_owner)))
        inner = next(n for n in ast.walk(tree) if isinstance(n, ast.FunctionDef) and n.name == code.co_name)
        seen = []
        for n in sorted((n for n in ast.walk(inner) if isinstance(n, ast.Name)), key=lambda n: (n.lineno, n.col_offset)):
            if n.id in free and n.id not in seen:
                seen.append(n.id)
        return seen + [v for v in free if v not in seen]
    except Exception:  # noqa: BLE001
        return free


def _create_code():
    import types
    m = _jsxmod()
    codes = [c for c in m.jsx_tag_create.__code__.co_consts if isinstance(c, types.CodeType)]
    if len(codes) != 1:
        raise LookupError("closure of jsx_tag_create")
    return codes[0]


def _closure_term(f, enc):
    """a function `jsx_tag_create` returned, as the closure value of the translation: the captured values in the order of
    their first occurrence in the body of the nested function, then `__name__`"""
    import types
    if not (isinstance(f, types.FunctionType) and f.__closure__ and f.__module__ == _jsxmod().__name__):
        return None
    try:
        if f.__code__ is not _create_code():
            return None
    except LookupError:
        return None
    cells = dict(zip(f.__code__.co_freevars, (c.cell_contents for c in f.__closure__)))
    order = _capture_order(f.__code__, _jsxmod().jsx_tag_create)
    return ("O closure [ fn S " + es("jsx_tag_create.<inner>") + " captured L [ " + "".join(enc(cells[k]) + " " for k in order)
            + "] __name__ " + enc(f.__name__) + " ]")


ops_src.ENCODE.append(_closure_term)


def _jsx_new(a):
    m = _jsxmod()
    return m.jsx.__new__(m.jsx, *a[0])


def _create_tag(a):
    """the function defined inside `jsx_tag_create`, closed over the first values of `a` (rebuilt from its code object:
    `jsx_tag_create` itself is not run), called with `*a[-2], **a[-1]`"""
    import types
    m = _jsxmod()
    code = _create_code()
    order = _capture_order(code, m.jsx_tag_create)
    if len(a) != len(order) + 2:
        raise LookupError("closure of jsx_tag_create: number of captured variables")
    vals = dict(zip(order, a))
    f = types.FunctionType(code, vars(m), code.co_name, None, tuple(types.CellType(vals[v]) for v in code.co_freevars))
    return f(*a[-2], **a[-1])


ops_src.CALLS["jsx_newC20b"] = _jsx_new
ops_src.CALLS["jsx_addC20b"] = lambda a: _jsxmod().jsx.__add__(a[0], a[1])
ops_src.CALLS["jsx_tag_createC20b"] = lambda a: _jsxmod().jsx_tag_create(a[0], a[1])
ops_src.CALLS["jsx_create_tagC20b"] = _create_tag
ops_src.CALLS["lib_dependencyC20b"] = lambda a: _jsxmod()._lib_dependency(a[0], a[1])
ops_src.CALLS["JSXTag_tagifyC20b"] = lambda a: _jsxmod().JSXTag.tagify(a[0])
ops_src.CALLS["JSXTag_tagify_visitorC20b"] = _call_visitor
ops_src.CALLS["walk_attrs_and_childrenC20b"] = _call_walk


@op("srcc20b")
def _srcc20b(t: Toks) -> str:
    for _ in range(2):            # the upper-casing table, the versions table: needed by the Lean side only
        assert t.next() == "["
        while t.peek() != "]":
            t.next()
        t.next()
    return ops_src._src(t)
