#!/bin/sh
# usage: merge1.sh <branch>   (run in /verif)
b=$1
rm -f /tmp/merge.realconflict; git merge --no-edit $b >/tmp/merge.log 2>&1 || true
conf=$(git diff --name-only --diff-filter=U)
for f in $conf; do
  case $f in harness/wire.py|lean/HtmlVerif/Wire.lean|harness/gen.py|harness/adapters.py) /venv/bin/python - "$f" <<PYEOF
import re,sys
p=sys.argv[1]; s=open(p).read()
s=re.sub(r"<<<<<<< [^\\n]*\\n(.*?)=======\\n(.*?)>>>>>>> [^\\n]*\\n", lambda m: m.group(1)+m.group(2), s, flags=re.S)
open(p,"w").write(s)
PYEOF
  git add $f; continue;; esac
  case $f in
    lean/HtmlVerif/Ops.lean|lean/HtmlVerif.lean|MANIFEST.json|evidence/*) git checkout --ours -- $f 2>/dev/null; git add $f;;
    DESIGN.md) /venv/bin/python - "$f" <<PYEOF2
import re,sys
p=sys.argv[1]; s=open(p).read()
s=re.sub(r"<<<<<<< [^\\n]*\\n(.*?)=======\\n(.*?)>>>>>>> [^\\n]*\\n", lambda m: m.group(1)+m.group(2), s, flags=re.S)
open(p,"w").write(s)
PYEOF2
  git add $f; echo "DESIGN.md union-merged: review";;
    *) echo "REAL CONFLICT: $f"; touch /tmp/merge.realconflict;;
  esac
done
/venv/bin/python harness/genreg.py; /venv/bin/python harness/mkmanifest.py
git add -A
if [ -e /tmp/merge.realconflict ] || git diff --name-only --diff-filter=U | grep -q .; then echo "unresolved"; else git commit -qm "merge $b" && echo "merged $b"; fi
