/-
Source tie (DESIGN §14) for C20, htmltools/_jsx.py: the Lean functions regenerated from the text of
`JSXTagAttrDict._normalize_attr_name`, `_serialize_attr`, `_serialize_style_attr` and `_render_react_js` (the last three a
`mutual` block, recursion bounded by fuel) compute, for every component tree / prop value, what the model
(Model/Jsx.lean: `normAttrName`, `JVal.serialize`, `JVal.serializeStyle`, `JNode.renderJs`) computes — error branches
included (TypeError for an unsupported child or style value, ValueError for a style piece with two colons).

No loop body is spelled out: the five loops (the two comprehensions of `_serialize_attr`, the comprehension of
`_serialize_style_attr`, the attribute loop and the child loop of `_render_react_js`) are taken from the regenerated
definitions by unification (`Lemmas/SrcC20.lean`: `ser_list_loop`, `ser_dict_loop`, `style_loop`, `attrs_loop`,
`kids_loop`); what is proved about each is its effect on one pass.

Every theorem about a translated function takes `<f>_available = true`; its proof is `first | exact absurd h (by decide) |
( … the whole proof … )` — the proof proper is the *second alternative as one parenthesised block*, so that when the
function has left the fragment the first alternative closes the goal and nothing else runs (a tactic after a closed
`first | … | skip` would fail with "no goals").

Side conditions (`tiedV`, `tiedS`, `tiedN`, Lemmas/SrcC20.lean): a dict value has each key once; no metadata node /
un-expanded tagifiable object where `_serialize_attr` writes `str(x)` (the model does not describe that text).
`ι` says which number texts are Python ints (`IntTexts ι`); every other number is a float carried as its text.
-/
import HtmlVerif.Generated.Src
import HtmlVerif.Lemmas.SrcC20

namespace HtmlVerif.SrcTie
open HtmlVerif HtmlVerif.Py HtmlVerif.Generated.Src

/-- `JSXTagAttrDict._normalize_attr_name` as the source has it = `normAttrName` (what `mkProps` applies to every keyword) -/
theorem src_jsx_normalize_attr_name (h : JSX_normalize_attr_name_available = true) (G : Globals) (x : Str) :
    JSX_normalize_attr_name G (.str x) = .ok (.str (normAttrName x)) := by
  first
  | exact absurd h (by decide)
  | (unfold JSX_normalize_attr_name normAttrName
     by_cases hx : x.getLast? = some '_' <;>
       simp [asStr, jsxText?, endswith_char, slice_dropLast, hx, replaceChar_single])

/-- `_serialize_attr` on one value, given the tie for what it calls at this fuel: itself on the elements of a list /
    the values of a dict, `_render_react_js` on a tag or component -/
theorem src_serialize_attr_step (h : serialize_attr_available = true) (G : Globals) (ι : Str → Option Int)
    (hι : IntTexts ι) (fuel : Nat) (v : JVal) (hv : tiedV v = true)
    (HA : ∀ w : JVal, hV w < hV v → tiedV w = true →
      serialize_attr G fuel (embJVal ι w) = embRes PVal.str w.serialize)
    (HR : ∀ n : JNode, v = .node n → tiedN n = true →
      render_react_js G fuel (embJNode ι n) (.int 0) (.str ['\n']) = embRes PVal.str (n.renderJs 0 ['\n'])) :
    serialize_attr G (fuel + 1) (embJVal ι v) = embRes PVal.str v.serialize := by
  first
  | exact absurd h (by decide)
  | (rw [serialize_attr]
     simp only [ok_bind, pure_eq_ok, truthy_bool]
     cases v with
     | null => simp [embJVal, isNone, JVal.serialize, embRes]
     | bool b =>
       cases b <;>
         simp [embJVal, isNone, isInstanceJ, jsxText?, isInstance, builtinClasses, pyOr, JVal.serialize, embRes, pyStrJ, asStr,
           pyStr, pyLowerJ_True, pyLowerJ_False]
     | num t =>
       rw [JVal.serialize]
       cases hi : ι t with
       | none =>
         simp only [embJVal, hi, isNone, isInstanceJ, jsxText?, isInstance, builtinClasses, pyOr, pyAnd, Bool.false_eq_true,
           if_false, if_true, ok_bind, pure_eq_ok, truthy_bool, List.any_cons, List.any_nil, List.contains_cons, List.contains_nil,
           Bool.or_false, Bool.false_or, Bool.true_or, Bool.or_true, String.reduceBEq]
         simp only [mathIsFinite, mathIsNan, pyGtJ, nonFiniteText, floatPositive, inf_chars, ninf_chars, nan_chars, pure_eq_ok,
           ok_bind, truthy_bool, numJs, embRes, pyStrJ, asStr, jsxText?, pyStr]
         by_cases h1 : t = ['i', 'n', 'f']
         · subst h1; simp
         · by_cases h2 : t = ['-', 'i', 'n', 'f']
           · subst h2; simp
           · by_cases h3 : t = ['n', 'a', 'n']
             · subst h3; simp
             · simp [h1, h2, h3]
       | some n =>
         have ht := hι t n hi
         simp [embJVal, hi, isNone, isInstanceJ, jsxText?, isInstance, builtinClasses, pyOr, pyAnd, embRes, pyStrJ_int]
         rw [← ht, numJs_int]
         rfl
     | list tup vs =>
       have hel : ∀ w ∈ vs.toList, serialize_attr G fuel (embJVal ι w) = embRes PVal.str w.serialize := by
         intro w hw
         refine HA w ?_ (tiedVs_mem vs (by simpa [tiedV] using hv) w hw)
         have := hVs_mem vs w hw
         simp only [hV]; omega
       rw [JVal.serialize]
       cases tup <;>
       · simp only [embJVal, isNone, isInstanceJ, jsxText?, isInstance, builtinClasses, pyOr, Bool.false_eq_true, if_false, if_true,
           ok_bind, pure_eq_ok, truthy_bool, List.any_cons, List.any_nil, List.contains_cons, List.contains_nil, Bool.or_false,
           Bool.or_true, String.reduceBEq, pyIterJ_list, pyIterJ_tuple]
         refine Eq.trans (ser_list_loop ι vs _ ?hs _) ?_
         case hs =>
           intro w hw acc
           simp only [hel w hw]
           cases w.serialize <;> simp [embRes]
         cases vs.serializeAll with
         | error e => simp [embRes]
         | ok ss => simp [embRes, pyJoinJ_strs, pyAddJ_str, jsArr]
     | dict fs =>
       have hv' : fs.keys.Nodup ∧ tiedP false fs = true := by simpa [tiedV] using hv
       have hel : ∀ kv ∈ fs.toList, serialize_attr G fuel (embJVal ι kv.2) = embRes PVal.str kv.2.serialize := by
         intro kv hkv
         have ht := tiedP_mem false fs hv'.2 kv hkv
         simp only [Bool.false_and, Bool.false_eq_true, if_false] at ht
         refine HA kv.2 ?_ ht
         have := hD_mem fs kv hkv
         simp only [hV]; omega
       rw [JVal.serialize]
       simp only [embJVal, isNone, isInstanceJ, jsxText?, isInstance, builtinClasses, pyOr, Bool.false_eq_true, if_false, if_true,
         ok_bind, pure_eq_ok, truthy_bool, List.any_cons, List.any_nil, List.contains_cons, List.contains_nil, Bool.or_false,
         Bool.or_true, String.reduceBEq, pyIterJ_dict, embJProps_toList, List.map_map]
       refine Eq.trans (ser_dict_loop false fs _ ?hs _) ?_
       case hs =>
         intro kv hkv acc
         have hg := dictGet_embJProps ι fs hv'.1 kv hkv
         rw [embJProps_toList] at hg
         simp only [pyStrJ_str, ok_bind, pyConcat3, pure_eq_ok, pyGetItem, hg, hel kv hkv, fieldVal, Bool.false_and,
           Bool.false_eq_true, if_false]
         cases kv.2.serialize <;> simp [embRes, pyAddJ_str, jsField]
       cases fs.fieldsJs false with
       | error e => simp [embRes]
       | ok ss => simp [embRes, pyJoinJ_strs, pyAddJ_str, jsObj]
     | node n =>
       cases n with
       | str k s =>
         cases k <;>
           simp [embJVal, embJNode, isNone, isInstanceJ, jsxText?, isInstance, builtinClasses, pyOr, pyAnd, JVal.serialize, embRes,
             pyStrJ_str, pyStrJ_html, mkJsx, fieldGet?, pyAddJ_str, jsQuote]
         exact pyStrJ_jsx s
       | comp nm ps ks =>
         have := HR _ rfl (by simpa [tiedV] using hv)
         simp [embJVal, embJNode, isNone, isInstanceJ, jsxText?, isInstance, classBases, pyOr, JVal.serialize] at this ⊢
         exact this
       | tag nm at' ks =>
         have := HR _ rfl (by simpa [tiedV] using hv)
         simp [embJVal, embJNode, isNone, isInstanceJ, jsxText?, isInstance, classBases, pyOr, JVal.serialize] at this ⊢
         exact this
       | md m => simp [tiedV] at hv
       | tobj e => simp [tiedV] at hv
       | tobjL e => simp [tiedV] at hv)

/-- `_serialize_style_attr` on one value, given the tie for `_serialize_attr` at this fuel on the dict itself, resp. on
    the dict of strings a CSS string is parsed into -/
theorem src_serialize_style_step (h : serialize_style_attr_available = true) (G : Globals) (ι : Str → Option Int)
    (fuel : Nat) (v : JVal)
    (HAd : ∀ fs, v = .dict fs → serialize_attr G fuel (embJVal ι v) = embRes PVal.str v.serialize)
    (HAs : ∀ k s, v = .node (.str k s) → ∀ d : List (Str × Str), (d.map (·.1)).Nodup →
      serialize_attr G fuel (embJVal ι (styleDict d)) = embRes PVal.str (styleDict d).serialize) :
    serialize_style_attr G (fuel + 1) (embJVal ι v) = embRes PVal.str v.serializeStyle := by
  first
  | exact absurd h (by decide)
  | (-- a `str` / `jsx` string with text `s`
     have hstr : ∀ (x : PVal) (s : Str), asStr x = .str s → isNone x = false → isInstanceJ x ["str"] = true →
         (∀ d : List (Str × Str), (d.map (·.1)).Nodup →
           serialize_attr G fuel (embJVal ι (styleDict d)) = embRes PVal.str (styleDict d).serialize) →
         serialize_style_attr G (fuel + 1) x = embRes PVal.str (styleOfString s) := by
       intro x s hx hn hi HAs'
       rw [serialize_style_attr]
       simp only [ok_bind, pure_eq_ok, truthy_bool, hx, hn, hi, Bool.false_eq_true, if_false, if_true, pySplitSep_str,
         pyIterJ_list]
       refine Eq.trans (style_loop _ _ ?hs _) ?_
       case hs =>
         intro y _ acc
         simp only [asStr_str, reSearch_colon, ok_bind, truthy_bool, pySplitSep_str, pyTupleJ_list]
         by_cases hc : ':' ∈ y <;> simp [hc]
       rw [pyDict_style, styleOfString, parseStyle]
       cases hst : styleTuples (splitOn ';' s) with
       | error e => cases styleTuples_err _ e hst; simp [embRes, embErr]
       | ok ts =>
         have hd := HAs' _ (parse_nodup ts)
         rw [styleDict_emb, styleDict_serialize] at hd
         simp [isInstanceJ, jsxText?, isInstance, builtinClasses, hd, embRes]
     cases v with
     | node n =>
       cases n with
       | str k s =>
         cases k with
         | plain =>
           have := hstr (.str s) s rfl rfl (by simp [isInstanceJ, jsxText?, isInstance, builtinClasses]) (HAs _ _ rfl)
           simpa [embJVal, embJNode, JVal.serializeStyle] using this
         | jsx =>
           have := hstr (mkJsx s) s (asStr_jsx s) rfl (by simp [isInstanceJ, jsxText?, mkJsx, fieldGet?]) (HAs _ _ rfl)
           simpa [embJVal, embJNode, JVal.serializeStyle] using this
         | html =>
           rw [serialize_style_attr]
           simp [embJVal, embJNode, isNone, isInstanceJ, jsxText?, isInstance, builtinClasses, JVal.serializeStyle, embRes, embErr]
       | comp nm ps ks =>
         rw [serialize_style_attr]
         simp [embJVal, embJNode, isNone, isInstanceJ, jsxText?, isInstance, classBases, JVal.serializeStyle, embRes, embErr]
       | tag nm at' ks =>
         rw [serialize_style_attr]
         simp [embJVal, embJNode, isNone, isInstanceJ, jsxText?, isInstance, classBases, JVal.serializeStyle, embRes, embErr]
       | md m =>
         rw [serialize_style_attr]
         cases m <;>
           simp [embJVal, embJNode, isNone, isInstanceJ, jsxText?, isInstance, classBases, JVal.serializeStyle, embRes, embErr]
       | tobj e =>
         rw [serialize_style_attr]
         simp [embJVal, embJNode, isNone, isInstanceJ, jsxText?, isInstance, classBases, JVal.serializeStyle, embRes, embErr]
       | tobjL e =>
         rw [serialize_style_attr]
         simp [embJVal, embJNode, isNone, isInstanceJ, jsxText?, isInstance, classBases, JVal.serializeStyle, embRes, embErr]
     | null =>
       rw [serialize_style_attr]
       simp [embJVal, isNone, JVal.serializeStyle, embRes]
     | bool b =>
       rw [serialize_style_attr]
       simp [embJVal, isNone, isInstanceJ, jsxText?, isInstance, builtinClasses, JVal.serializeStyle, embRes, embErr]
     | num t =>
       rw [serialize_style_attr]
       cases hi : ι t <;>
         simp [embJVal, hi, isNone, isInstanceJ, jsxText?, isInstance, builtinClasses, JVal.serializeStyle, embRes, embErr]
     | list tup vs =>
       rw [serialize_style_attr]
       cases tup <;>
         simp [embJVal, isNone, isInstanceJ, jsxText?, isInstance, builtinClasses, JVal.serializeStyle, embRes, embErr]
     | dict fs =>
       have hd := HAd fs rfl
       rw [JVal.serialize] at hd
       rw [serialize_style_attr, JVal.serializeStyle]
       simp only [embJVal] at hd
       simp [embJVal, isNone, isInstanceJ, jsxText?, isInstance, builtinClasses, hd])

/-- `_render_react_js` on a tag or component `x` (`isComp`: a JSXTag) with name `name`, attrs `ps`, children `ks`, given
    the ties for what it calls at this fuel: `_serialize_attr` / `_serialize_style_attr` on the attribute values, itself
    on the children -/
theorem src_render_elem (h : render_react_js_available = true) (G : Globals) (ι : Str → Option Int) (fuel : Nat)
    (x : PVal) (isComp : Bool) (name : Str) (ps : JProps) (ks : JNodes) (i : Nat) (eol : Str)
    (hm : isInstanceJ x ["MetadataNode"] = false) (hs : isInstanceJ x ["str"] = false)
    (hj : isInstanceJ x ["JSXTag"] = isComp) (ht : isInstanceJ x ["Tag"] = !isComp)
    (gn : pyGetAttr x "name" = .ok (.str name)) (ga : pyGetAttr x "attrs" = .ok (.dict (embJProps ι ps)))
    (gc : pyGetAttr x "children" = .ok (.obj "TagList" [("data", .list (embJNodes ι ks))]))
    (HA : ∀ kv ∈ ps.toList, kv.1 ≠ chars% "style" →
      serialize_attr G fuel (embJVal ι kv.2) = embRes PVal.str kv.2.serialize)
    (HS : ∀ kv ∈ ps.toList, kv.1 = chars% "style" →
      serialize_style_attr G fuel (embJVal ι kv.2) = embRes PVal.str kv.2.serializeStyle)
    (HR : ∀ c ∈ ks.toList,
      render_react_js G fuel (embJNode ι c) (.int (↑i + 1)) (.str eol) = embRes PVal.str (c.renderJs (i + 1) eol)) :
    render_react_js G (fuel + 1) x (.int i) (.str eol)
      = embRes PVal.str (elemJs i eol (if isComp then name else '\'' :: name ++ ['\'']) ps.isEmpty ks.isEmpty
          (ps.fieldsJs true) (ks.kidsJs (i + 1) eol)) := by
  first
  | exact absurd h (by decide)
  | (rw [render_react_js]
     simp only [ok_bind, pure_eq_ok, truthy_bool, hm, hs, hj, ht, gn, ga, gc, Bool.false_eq_true, if_false, pyMul_indent]
     have hand : (if ps.isEmpty = true then (Except.ok (PVal.bool ks.isEmpty) : PyM PVal) else Except.ok (PVal.bool ps.isEmpty))
         = .ok (.bool (ps.isEmpty && ks.isEmpty)) := by cases ps.isEmpty <;> rfl
     cases isComp <;>
     · simp only [Bool.false_eq_true, if_false, Bool.not_false, Bool.not_true, if_true, ok_bind, pyAddJ_str, pyStrJ_str, pyConcat5,
         pure_eq_ok, pyAnd_bool, len0_dict, len0_taglist, truthy_bool, embJProps_isEmpty, embJNodes_isEmpty, pyItems_props,
         pyIterJ_list, pyIterJ_taglist, pyLenJ_taglist, pyEqJ_int, int_len_eq0, hand]
       cases hb : (ps.isEmpty && ks.isEmpty)
       case true => simp [elemJs, hb, embRes, sCreate]
       case false =>
       simp only [Bool.false_eq_true, if_false]
       refine attrs_loop ι ps _ _ ?hstep _ rfl rfl _ _ ?hk
       case hstep =>
         intro kv hkv s acc h1 h2
         obtain ⟨k, v⟩ := kv
         obtain ⟨s1, s2, s3, s4⟩ := s
         simp only at h1 h2
         subst h1 h2
         simp only [pyUnpack2_tuple, ok_bind, truthy_bool, pyAddJ_str, pyEqJ_str, pyStrJ_str]
         by_cases hk : k = chars% "style"
         · have := HS (k, v) hkv hk
           simp only at this
           subst hk
           simp only [fieldVal, this, Bool.true_and, decide_true, if_true, beq_self_eq_true]
           cases v.serializeStyle with
           | error e => cases acc <;> simp [embRes]
           | ok t =>
             cases acc with
             | nil => simp [embRes, pyStrJ_str, pyConcat4, pyAddJ_str, joinStr, jsField]
             | cons a r => simp [embRes, pyStrJ_str, pyConcat4, pyAddJ_str, joinStr_cons_snoc, jsField, List.append_assoc]
         · have := HA (k, v) hkv hk
           simp only at this
           have hk' : (k == chars% "style") = false := by simpa using hk
           simp only [fieldVal, this, hk', hk, decide_false, Bool.and_false, Bool.false_eq_true, if_false]
           cases v.serialize with
           | error e => cases acc <;> simp [embRes]
           | ok t =>
             cases acc with
             | nil => simp [embRes, pyStrJ_str, pyConcat4, pyAddJ_str, joinStr, jsField]
             | cons a r => simp [embRes, pyStrJ_str, pyConcat4, pyAddJ_str, joinStr_cons_snoc, jsField, List.append_assoc]
       case hk =>
         cases hf : ps.fieldsJs true with
         | error e => simp [elemJs, hb, embRes]
         | ok ss =>
           intro s hs
           obtain ⟨s1, s2, s3, s4⟩ := s
           simp only at hs
           subst hs
           simp only [pyAddJ_str, ok_bind, truthy_bool]
           cases hke : ks.isEmpty
           case true =>
             have hpe : ps.isEmpty = false := by simpa [hke] using hb
             simp [elemJs, hpe, hke, embRes, sCreate, jsObj, List.append_assoc]
           case false =>
           simp only [Bool.false_eq_true, if_false, embJNodes_toList]
           refine kids_loop ι ks (i + 1) eol _ _ ?hstep2 _ rfl _ _ ?hk2
           case hstep2 =>
             intro c hc s acc hs
             obtain ⟨t1, t2, t3⟩ := s
             simp only at hs
             subst hs
             simp only [pyAddJ_int, ok_bind, HR c hc]
             cases c.renderJs (i + 1) eol with
             | error e => simp [embRes]
             | ok cs =>
               by_cases hcs : cs = []
               · subst hcs; simp [embRes, pyEqJ_str]
               · have hcs' : (cs == []) = false := by simpa using hcs
                 simp [embRes, pyEqJ_str, hcs, hcs', pyAddJ_str]
           case hk2 =>
             cases hkj : ks.kidsJs (i + 1) eol with
             | error e => simp [elemJs, hb, hke, embRes]
             | ok t =>
               intro s hs
               obtain ⟨t1, t2, t3⟩ := s
               simp only at hs
               subst hs
               simp [pyAddJ_str, elemJs, hb, hke, embRes, sCreate, jsObj, List.append_assoc])

/-- `_render_react_js` on one node, given the ties for what it calls at this fuel -/
theorem src_render_step (h : render_react_js_available = true) (G : Globals) (ι : Str → Option Int) (fuel : Nat)
    (x : JNode) (hx : tiedN x = true) (i : Nat) (eol : Str)
    (HA : ∀ w : JVal, hV w < hN x → tiedV w = true →
      serialize_attr G fuel (embJVal ι w) = embRes PVal.str w.serialize)
    (HS : ∀ w : JVal, hV w + 2 < hN x → tiedS w = true →
      serialize_style_attr G fuel (embJVal ι w) = embRes PVal.str w.serializeStyle)
    (HR : ∀ c : JNode, hN c < hN x → tiedN c = true → ∀ (j : Nat) (e : Str),
      render_react_js G fuel (embJNode ι c) (.int j) (.str e) = embRes PVal.str (c.renderJs j e)) :
    render_react_js G (fuel + 1) (embJNode ι x) (.int i) (.str eol) = embRes PVal.str (x.renderJs i eol) := by
  first
  | exact absurd h (by decide)
  | (have hi1 : (PVal.int ((i : Int) + 1)) = PVal.int ((i + 1 : Nat) : Int) := by simp
     cases x with
     | comp name ps ks =>
       have ht : tiedP true ps = true ∧ tiedK ks = true := by simpa [tiedN] using hx
       rw [JNode.renderJs]
       have := src_render_elem h G ι fuel (embJNode ι (.comp name ps ks)) true name ps ks i eol
         (by simp [embJNode, isInstanceJ, jsxText?, isInstance, classBases])
         (by simp [embJNode, isInstanceJ, jsxText?, isInstance, classBases])
         (by simp [embJNode, isInstanceJ, jsxText?, isInstance, classBases])
         (by simp [embJNode, isInstanceJ, jsxText?, isInstance, classBases])
         (by simp [embJNode, pyGetAttr, fieldGet?]) (by simp [embJNode, pyGetAttr, fieldGet?])
         (by simp [embJNode, pyGetAttr, fieldGet?])
         (by
           intro kv hkv hk
           have h1 := tiedP_mem true ps ht.1 kv hkv
           have h2 := hP_mem ps kv hkv
           simp only [Bool.true_and, hk, decide_false, Bool.false_eq_true, if_false] at h1
           exact HA kv.2 (by simp only [hN]; omega) h1)
         (by
           intro kv hkv hk
           have h1 := tiedP_mem true ps ht.1 kv hkv
           have h2 := hP_mem ps kv hkv
           simp only [Bool.true_and, hk, decide_true, if_true] at h1
           exact HS kv.2 (by simp only [hN]; omega) h1)
         (by
           intro c hc
           rw [hi1]
           exact HR c (by have := hK_mem ks c hc; simp only [hN]; omega) (tiedK_mem ks ht.2 c hc) (i + 1) eol)
       simpa using this
     | tag name at' ks =>
       have ht : tiedK ks = true := by simpa [tiedN] using hx
       rw [JNode.renderJs, attrsJs_asProps, ← attrsAsProps_isEmpty]
       have := src_render_elem h G ι fuel (embJNode ι (.tag name at' ks)) false name (attrsAsProps at') ks i eol
         (by simp [embJNode, isInstanceJ, jsxText?, isInstance, classBases])
         (by simp [embJNode, isInstanceJ, jsxText?, isInstance, classBases])
         (by simp [embJNode, isInstanceJ, jsxText?, isInstance, classBases])
         (by simp [embJNode, isInstanceJ, jsxText?, isInstance, classBases])
         (by simp [embJNode, pyGetAttr, fieldGet?])
         (by simp [embJNode, pyGetAttr, fieldGet?, embAttrs_asProps ι])
         (by simp [embJNode, pyGetAttr, fieldGet?])
         (by
           intro kv hkv _
           obtain ⟨hne, s, hs | hs⟩ := attrsAsProps_mem at' kv hkv <;>
           · rw [hs]
             exact HA _ (by simp only [hN, hV, hne]; simp; omega) rfl)
         (by
           intro kv hkv _
           obtain ⟨hne, s, hs | hs⟩ := attrsAsProps_mem at' kv hkv <;>
           · rw [hs]
             exact HS _ (by simp only [hN, hV, hne]; simp; omega) rfl)
         (by
           intro c hc
           rw [hi1]
           exact HR c (by have := hK_mem ks c hc; simp only [hN]; omega) (tiedK_mem ks ht c hc) (i + 1) eol)
       simpa using this
     | str k s =>
       rw [render_react_js]
       simp only [ok_bind, pure_eq_ok, truthy_bool, pyMul_indent]
       cases k with
       | plain =>
         simp [embJNode, isInstanceJ, jsxText?, isInstance, builtinClasses, asStr_str, pyAddJ_str, JNode.renderJs, embRes, jsQuote]
       | jsx =>
         simp [embJNode, isInstanceJ, jsxText?, mkJsx, fieldGet?, asStr, pyAddJ_str, JNode.renderJs, embRes, jsQuote]
       | html =>
         simp [embJNode, isInstanceJ, jsxText?, isInstance, builtinClasses, JNode.renderJs, embRes, embErr]
     | md m =>
       rw [render_react_js]
       cases m <;> simp [embJNode, isInstanceJ, jsxText?, isInstance, classBases, JNode.renderJs, embRes, pyMul_indent]
     | tobj e =>
       rw [render_react_js]
       simp [embJNode, isInstanceJ, jsxText?, isInstance, classBases, JNode.renderJs, embRes, embErr, pyMul_indent]
     | tobjL e =>
       rw [render_react_js]
       simp [embJNode, isInstanceJ, jsxText?, isInstance, classBases, JNode.renderJs, embRes, embErr, pyMul_indent])

theorem hN_pos (x : JNode) : 1 ≤ hN x := by cases x <;> simp [hN]
theorem hV_pos (v : JVal) : 1 ≤ hV v := by cases v <;> simp [hV]

/-- the three functions together, for all values / nodes of height ≤ n, with any fuel that covers the height -/
theorem src_jsx_depth (h1 : render_react_js_available = true) (h2 : serialize_attr_available = true)
    (h3 : serialize_style_attr_available = true) (G : Globals) (ι : Str → Option Int) (hι : IntTexts ι) (n : Nat) :
    (∀ v : JVal, tiedV v = true → hV v ≤ n → ∀ fuel, hV v ≤ fuel →
        serialize_attr G fuel (embJVal ι v) = embRes PVal.str v.serialize)
    ∧ (∀ v : JVal, tiedS v = true → hV v + 2 ≤ n → ∀ fuel, hV v + 2 ≤ fuel →
        serialize_style_attr G fuel (embJVal ι v) = embRes PVal.str v.serializeStyle)
    ∧ (∀ x : JNode, tiedN x = true → hN x ≤ n → ∀ fuel, hN x ≤ fuel → ∀ (i : Nat) (eol : Str),
        render_react_js G fuel (embJNode ι x) (.int i) (.str eol) = embRes PVal.str (x.renderJs i eol)) := by
  induction n with
  | zero =>
    refine ⟨?_, ?_, ?_⟩
    · intro v _ hh; have := hV_pos v; omega
    · intro v _ hh; omega
    · intro x _ hh; have := hN_pos x; omega
  | succ n ih =>
    obtain ⟨ihA, ihS, ihR⟩ := ih
    have A : ∀ v : JVal, tiedV v = true → hV v ≤ n + 1 → ∀ fuel, hV v ≤ fuel →
        serialize_attr G fuel (embJVal ι v) = embRes PVal.str v.serialize := by
      intro v hv hh fuel hf
      obtain ⟨f, rfl⟩ : ∃ f, fuel = f + 1 := ⟨fuel - 1, by have := hV_pos v; omega⟩
      refine src_serialize_attr_step h2 G ι hι f v hv ?_ ?_
      · intro w hw hwt
        exact ihA w hwt (by omega) f (by omega)
      · intro nd hnd hnt
        subst hnd
        simp only [hV] at hh hf
        exact ihR nd hnt (by omega) f (by omega) 0 ['\n']
    refine ⟨A, ?_, ?_⟩
    · intro v hv hh fuel hf
      obtain ⟨f, rfl⟩ : ∃ f, fuel = f + 1 := ⟨fuel - 1, by omega⟩
      refine src_serialize_style_step h3 G ι f v ?_ ?_
      · intro fs hfs
        subst hfs
        have hv' : tiedV (JVal.dict fs) = true := by rw [tiedV]; rw [tiedS] at hv; exact hv
        exact ihA _ hv' (by omega) f (by omega)
      · intro k s hks d hd
        subst hks
        have hh3 := styleDict_height d
        simp only [hV, hN] at hh hf
        exact ihA _ (styleDict_tied d hd) (by omega) f (by omega)
    · intro x hx hh fuel hf i eol
      obtain ⟨f, rfl⟩ : ∃ f, fuel = f + 1 := ⟨fuel - 1, by have := hN_pos x; omega⟩
      refine src_render_step h1 G ι f x hx i eol ?_ ?_ ?_
      · intro w hw hwt
        exact ihA w hwt (by omega) f (by omega)
      · intro w hw hwt
        exact ihS w hwt (by omega) f (by omega)
      · intro c hc hct j e
        exact ihR c hct (by omega) f (by omega) j e

/-- `_serialize_attr(x)` as the source has it = `JVal.serialize`, for every prop value (side conditions: `tiedV`), every
    assignment `ι` of ints to number texts, and any fuel that covers the nesting -/
theorem src_serialize_attr (h1 : render_react_js_available = true) (h2 : serialize_attr_available = true)
    (h3 : serialize_style_attr_available = true) (G : Globals) (ι : Str → Option Int) (hι : IntTexts ι)
    (v : JVal) (hv : tiedV v = true) (fuel : Nat) (hf : hV v ≤ fuel) :
    serialize_attr G fuel (embJVal ι v) = embRes PVal.str v.serialize :=
  (src_jsx_depth h1 h2 h3 G ι hι (hV v)).1 v hv (Nat.le_refl _) fuel hf

/-- `_serialize_style_attr(x)` as the source has it = `JVal.serializeStyle` (TypeError for anything but None, a str or a
    dict; ValueError for a CSS piece with more than one colon) -/
theorem src_serialize_style_attr (h1 : render_react_js_available = true) (h2 : serialize_attr_available = true)
    (h3 : serialize_style_attr_available = true) (G : Globals) (ι : Str → Option Int) (hι : IntTexts ι)
    (v : JVal) (hv : tiedS v = true) (fuel : Nat) (hf : hV v + 2 ≤ fuel) :
    serialize_style_attr G fuel (embJVal ι v) = embRes PVal.str v.serializeStyle :=
  (src_jsx_depth h1 h2 h3 G ι hι (hV v + 2)).2.1 v hv (Nat.le_refl _) fuel hf

/-- `_render_react_js(x, indent, eol)` as the source has it = `JNode.renderJs` (TypeError for a child that is not a str,
    a metadata node, a Tag or a JSXTag), for every component tree, every indent and every eol -/
theorem src_render_react_js (h1 : render_react_js_available = true) (h2 : serialize_attr_available = true)
    (h3 : serialize_style_attr_available = true) (G : Globals) (ι : Str → Option Int) (hι : IntTexts ι)
    (x : JNode) (hx : tiedN x = true) (fuel : Nat) (hf : hN x ≤ fuel) (i : Nat) (eol : Str) :
    render_react_js G fuel (embJNode ι x) (.int i) (.str eol) = embRes PVal.str (x.renderJs i eol) :=
  (src_jsx_depth h1 h2 h3 G ι hι (hN x)).2.2 x hx (Nat.le_refl _) fuel hf i eol

/-- every number a float: a valid assignment -/
theorem intTexts_none : IntTexts (fun _ => none) := by intro t n h; cases h

end HtmlVerif.SrcTie
