/-
Source tie (DESIGN §14) for the escaping functions: the Lean functions that `harness/pytranslate.py` regenerates
from the *text* of `html_escape`, `_normalize_text`, `HTML.as_string`, `HTML.__add__`, `HTML.__radd__`
(Generated/Src.lean) compute, for every input, what the hand-written model computes.
Obligations of C02, C03 and C04.

Every theorem takes `<fn>_available = true`: when the translator cannot express a function any more (a refactoring
left the fragment) the flag is `false`, the theorem is vacuous and proved by `absurd`, and the evidence records
that the tie is unavailable.  When the flag is `true` the proof is about the regenerated definition.
-/
import HtmlVerif.Generated.Src
import HtmlVerif.Generated.Tables
import HtmlVerif.Lemmas.PyLoop
import HtmlVerif.Lemmas.SrcTie
import HtmlVerif.Model.Html

namespace HtmlVerif.SrcTie
open HtmlVerif HtmlVerif.Py HtmlVerif.Generated.Src

/-- `html_escape(text, attr)` as the source has it = the model's `htmlEscapeT` on the table `attr` selects
    (for any tables whose keys are single characters without a meaning in a regular expression) -/
theorem src_html_escape (h : html_escape_available = true) (cfg : Cfg)
    (ht : keysPlain cfg.textTbl = true) (ha : keysPlain cfg.attrTbl = true) (s : Str) (attr : Bool) :
    html_escape (globalsOf cfg) (.str s) (.bool attr)
      = .ok (.str (htmlEscapeT (if attr then cfg.attrTbl else cfg.textTbl) s)) := by
  first
  | exact absurd h (by decide)
  | skip
  all_goals (
    -- everything after the choice of the table, for any table, whatever the loop body is and whatever else the loop
    -- state carries besides `text` (its first component)
    have key : ∀ (ρ : Type) (r0 : ρ) (t : List (Char × Str)), keysPlain t = true →
        ∀ body : PVal → PVal × ρ → PyM (ForInStep (PVal × ρ)),
        (∀ (c : Char) (r x : Str) (rest : ρ), ∃ rest', body (.tuple [.str [c], .str r]) (.str x, rest)
            = .ok (.yield (.str (replaceChar c r x), rest'))) →
        (do
          let j ← pyJoin (PVal.str ['|']) (embTbl t)
          let r ← reSearch j (PVal.str s)
          if (!truthy r) = true then Except.ok (PVal.str s)
          else do
            let items ← pyItems (embTbl t)
            let l ← pyIter items
            let st ← forIn l (PVal.str s, r0) body
            Except.ok st.1 : PyM PVal) = .ok (.str (htmlEscapeT t s)) := by
      intro ρ r0 t hk body hb
      simp only [pyJoin_tbl, reSearch_tbl t hk, ok_bind, truthy_bool]
      by_cases he : t = []
      · subst he; simp [embTbl, htmlEscapeT, needsEscape]
      · simp only [he, if_false]
        by_cases hn : needsEscape t s = true
        · simp only [hn, Bool.not_true, Bool.false_eq_true, if_false, embTbl, pyItems_dict, ok_bind, pyIter_list, List.map_map]
          have sim := forIn_sim (fun (st : PVal × ρ) (b : Str) => st.1 = .str b) embErr
            ((fun kv : Str × PVal => PVal.tuple [PVal.str kv.1, kv.2]) ∘ fun kv : Char × Str => ([kv.1], PVal.str kv.2)) t body
            (fun kv b => (.ok (replaceChar kv.1 kv.2 b) : Except Err Str)) (PVal.str s, r0) s rfl
            (by
              intro kv _ st b hR
              obtain ⟨s1, s2⟩ := st
              simp only at hR; subst hR
              obtain ⟨rest', hr⟩ := hb kv.1 kv.2 b s2
              exact Sim.yield_ok _ hr rfl)
          rw [seqReplace_foldlM] at sim
          obtain ⟨st, hst, hR⟩ := sim
          rw [hst]
          simp [hR, htmlEscapeT, hn]
        · simp at hn
          simp [hn, htmlEscapeT]
    unfold html_escape
    simp only [ok_bind, pure_eq_ok, truthy_bool]
    cases attr
    · simp only [Bool.false_eq_true, if_false, globalsOf]
      exact key _ _ cfg.textTbl ht _ (by intro c r x rest; obtain ⟨k, v⟩ := rest; exact ⟨_, by simp; rfl⟩)
    · simp only [if_true, globalsOf]
      exact key _ _ cfg.attrTbl ha _ (by intro c r x rest; obtain ⟨k, v⟩ := rest; exact ⟨_, by simp; rfl⟩))

/-- `HTML.as_string()` returns the text -/
theorem src_HTML_as_string (h : HTML_as_string_available = true) (G : Globals) (s : Str) :
    HTML_as_string G (.html s) = .ok (.str s) := by
  first
  | exact absurd h (by decide)
  | simp [HTML_as_string]

/-- `_normalize_text`: `HTML` verbatim, `str` escaped with the text table -/
theorem src_normalize_text (h : normalize_text_available = true) (h1 : html_escape_available = true)
    (h2 : HTML_as_string_available = true) (cfg : Cfg)
    (ht : keysPlain cfg.textTbl = true) (ha : keysPlain cfg.attrTbl = true) (s : Str) (isHtml : Bool) :
    normalize_text (globalsOf cfg) (if isHtml then .html s else .str s)
      = .ok (.str (if isHtml then s else escText cfg s)) := by
  first
  | exact absurd h (by decide)
  | (cases isHtml
     · simp [normalize_text, isInstance, builtinClasses, src_html_escape h1 cfg ht ha, escText]
     · simp [normalize_text, isInstance, builtinClasses, src_HTML_as_string h2])

/-- Python's `+` between `str`, `HTML` and other objects, as `HTML.__add__` / `HTML.__radd__` in the source have it,
    is the model's `addVal` -/
theorem src_add (h : HTML_add_available = true) (h' : HTML_radd_available = true) (h1 : html_escape_available = true)
    (h2 : HTML_as_string_available = true) (cfg : Cfg)
    (ht : keysPlain cfg.textTbl = true) (ha : keysPlain cfg.attrTbl = true) (a b : HVal) :
    pyAdd (globalsOf cfg) (embH a) (embH b) = embRes embH (addVal cfg a b) := by
  first
  | exact absurd h (by decide)
  | exact absurd h' (by decide)
  | (have e := fun s => src_html_escape h1 cfg ht ha s false
     have as := src_HTML_as_string h2 (globalsOf cfg)
     simp only [Bool.false_eq_true, if_false] at e
     cases a <;> cases b <;>
       simp [pyAdd, embH, addVal, embRes, embErr, HTML_add, HTML_radd, isInstance, builtinClasses, classBases, e, as,
         escText, pyStr, pyAddBase])

/-! ### for the tables as they are in the source right now -/

/-- the renderer's tables as regenerated from the source -/
def cfgNow : Cfg :=
  { void := Generated.voidNames, noesc := Generated.noescNames,
    textTbl := Generated.textTbl, attrTbl := Generated.attrTbl }

/-- side conditions of the tie, for the regenerated tables: every key is one character without a meaning in a regular
    expression, and a space is not escaped -/
theorem src_tables_ok :
    keysPlain cfgNow.textTbl = true ∧ keysPlain cfgNow.attrTbl = true ∧ escText cfgNow [' '] = [' '] := by
  decide +kernel

theorem src_html_escape_now (h : html_escape_available = true) (s : Str) (attr : Bool) :
    html_escape (globalsOf cfgNow) (.str s) (.bool attr)
      = .ok (.str (htmlEscapeT (if attr then Generated.attrTbl else Generated.textTbl) s)) :=
  src_html_escape h cfgNow src_tables_ok.1 src_tables_ok.2.1 s attr

theorem src_add_now (h : HTML_add_available = true) (h' : HTML_radd_available = true)
    (h1 : html_escape_available = true) (h2 : HTML_as_string_available = true) (a b : HVal) :
    pyAdd (globalsOf cfgNow) (embH a) (embH b) = embRes embH (addVal cfgNow a b) :=
  src_add h h' h1 h2 cfgNow src_tables_ok.1 src_tables_ok.2.1 a b

end HtmlVerif.SrcTie
