/-
Helper lemmas for the source tie of `Tag.tagify` / `TagList.tagify` (Props/SrcC09.lean): the fuel-free description of
what `tagify()` returns, the primitives on a TagList instance, the backwards index loop.
-/
import HtmlVerif.Lemmas.SrcC10
import HtmlVerif.Props.C09

set_option linter.unusedVariables false

namespace HtmlVerif.SrcTie
open HtmlVerif HtmlVerif.Py HtmlVerif.Generated.Src

/-! ## `tagify` -/

/-- what `n.tagify()` returns, stated without fuel: a tag with its children expanded; the expanded content of a
    list-kind object as a TagList; for a one-item object what its content's `tagify()` returns, or the content itself -/
def specResult : Node → TagifyResult
  | .tag n w a kids => .single (.tag n w a kids.expandAll)
  | .tobjL _ c => .taglist c.expandAll.toList
  | .tobj1 _ c => if c.isTagifiable then specResult c else .single c
  | .text s => .single (.text s)
  | .html s => .single (.html s)
  | .robj s => .single (.robj s)
  | .mnode k => .single (.mnode k)
  | .dep d hh hd => .single (.dep d hh hd)

theorem stepSpec_specResult (c : Node) : stepSpec specResult c = c.expand.toList := by
  induction c using Node.rec (motive_2 := fun _ => True) with
  | tag n w a k _ => simp [stepSpec, specResult, Node.expand, TagifyResult.splice, Nodes.toList]
  | tobjL rh c _ => simp [stepSpec, specResult, Node.expand, TagifyResult.splice]
  | tobj1 rh c ih =>
    by_cases ht : c.isTagifiable = true
    · simp only [stepSpec, Node.isTagifiable_tobj1, if_true, specResult, ht, Node.expand] at ih ⊢
      exact ih
    · have hx : (Node.tobj1 rh c).expand = .cons c .nil := by
        clear ih
        cases c <;> simp_all [Node.expand]
      simp [stepSpec, specResult, ht, TagifyResult.splice, hx, Nodes.toList]
  | text s => simp [stepSpec, Node.expand, Nodes.toList]
  | html s => simp [stepSpec, Node.expand, Nodes.toList]
  | robj s => simp [stepSpec, Node.expand, Nodes.toList]
  | mnode s => simp [stepSpec, Node.expand, Nodes.toList]
  | dep d hh hd _ => simp [stepSpec, Node.expand, Nodes.toList]
  | nil => trivial
  | cons _ _ _ _ => trivial

theorem flatMap_specResult (ks : Nodes) : ks.toList.flatMap (stepSpec specResult) = (tagifyNodes ks).toList := by
  rw [C09.C09_tagify_is_spec, Nodes.toList_expandAll]
  exact flatMap_congr_mem (fun c _ => stepSpec_specResult c)

/-- the value of a `tagify()` result -/
def embResult (tv : Node → PVal) : TagifyResult → PVal
  | .taglist ns => tagListOf (ns.map (embT tv))
  | .single n => embT tv n


/-! ### primitives on a TagList instance -/

theorem pyCopy_tagListOf (l : List PVal) : pyCopy (tagListOf l) = .ok (tagListOf l) := by
  simp [pyCopy, tagListOf, fieldGet?]

theorem pyLenU_tagListOf (l : List PVal) : pyLenU (tagListOf l) = .ok (.int l.length) := by
  simp [pyLenU, userListData?, tagListOf, fieldGet?]

theorem pyRange_nat (n : Nat) : pyRange (.int n) = .ok (.list ((List.range n).map fun (i : Nat) => PVal.int (i : Int))) := by
  simp [pyRange]

theorem pyReversed_list (l : List PVal) : pyReversed (.list l) = .ok (.list l.reverse) := by
  simp [pyReversed, pyIter]

theorem pyGetItemU_at (pre : List PVal) (c : PVal) (post : List PVal) :
    pyGetItemU (tagListOf (pre ++ c :: post)) (.int pre.length) = .ok c := by
  have : ¬ ((pre.length : Int) < 0) := by omega
  simp [pyGetItemU, userListData?, tagListOf, fieldGet?, pyGetItem, this]

theorem pySetItemU_at (pre : List PVal) (c v : PVal) (post : List PVal) :
    pySetItemU (tagListOf (pre ++ c :: post)) (.int pre.length) v = .ok (tagListOf (pre ++ v :: post)) := by
  have : ¬ ((pre.length : Int) < 0) := by omega
  have h2 : ¬ (pre.length + (post.length + 1) ≤ pre.length) := by omega
  simp [pySetItemU, userListData?, tagListOf, fieldGet?, fieldSet, pySetItem, this, h2]

theorem pySetSliceU_at (pre : List PVal) (c : PVal) (post xs : List PVal) :
    pySetSliceU (tagListOf (pre ++ c :: post)) (.int pre.length) (.int (pre.length + 1)) (.list xs)
      = .ok (tagListOf (pre ++ xs ++ post)) := by
  have h1 : ¬ ((pre.length : Int) < 0) := by omega
  have h2 : ¬ ((pre.length : Int) + 1 < 0) := by omega
  have h3 : ((pre.length : Int) + 1).toNat = pre.length + 1 := by omega
  simp [pySetSliceU, userListData?, tagListOf, fieldGet?, fieldSet, setSlice, clampIdx, h1, h2, h3]



/-- the backwards index loop of `TagList.tagify`, whatever its body and whatever other locals its
    state carries (`get` reads `cp` out of the state): if the pass at index `len(pre)` on the working copy
    `pre ++ c :: post` rewrites exactly that position into what `stepSpec tf c` says, the remaining `len(pre)` passes
    (indices `len(pre)-1 … 0`) leave `pre.flatMap (stepSpec tf) ++ post` -/
theorem tagify_loop_aux {σ : Type} (get : σ → PVal) (tv : Node → PVal) (tf : Node → TagifyResult) (orig : List Node)
    (f : PVal → σ → PyM (ForInStep σ))
    (hstep : ∀ (pre : List Node) (c : Node) (post : List Node) (s : σ), c ∈ orig →
      get s = tagListOf ((pre ++ c :: post).map (embT tv)) →
      ∃ s', f (.int pre.length) s = .ok (.yield s') ∧ get s' = tagListOf ((pre ++ stepSpec tf c ++ post).map (embT tv))) :
    ∀ (n : Nat) (pre post : List Node) (s : σ), pre.length = n → (∀ c ∈ pre, c ∈ orig) →
      get s = tagListOf ((pre ++ post).map (embT tv)) →
      ∃ s', forIn ((List.range n).map fun (i : Nat) => PVal.int (i : Int)).reverse s f = .ok s'
        ∧ get s' = tagListOf ((pre.flatMap (stepSpec tf) ++ post).map (embT tv)) := by
  intro n
  induction n with
  | zero =>
    intro pre post s hl _ hs
    have : pre = [] := List.eq_nil_of_length_eq_zero hl
    subst this
    exact ⟨s, rfl, by simpa using hs⟩
  | succ n ih =>
    intro pre post s hl hmem hs
    obtain ⟨pre', c, rfl⟩ : ∃ pre' c, pre = pre' ++ [c] := by
      refine ⟨pre.dropLast, pre.getLast (by intro h0; simp [h0] at hl), ?_⟩
      exact (List.dropLast_concat_getLast _).symm
    have hl' : pre'.length = n := by simpa using hl
    obtain ⟨s1, h1, h2⟩ := hstep pre' c post s (hmem c (by simp)) (by simpa using hs)
    obtain ⟨s2, h3, h4⟩ := ih pre' (stepSpec tf c ++ post) s1 hl' (fun x hx => hmem x (by simp [hx]))
      (by simpa [List.append_assoc] using h2)
    refine ⟨s2, ?_, by simpa [List.append_assoc] using h4⟩
    rw [List.range_succ, List.map_append, List.reverse_append]
    simp only [List.map_cons, List.map_nil, List.reverse_cons, List.reverse_nil, List.nil_append, List.singleton_append,
      List.forIn_cons]
    rw [← hl', h1]
    simpa [hl'] using h3

theorem tagify_loop_k {β σ : Type} (get : σ → PVal) (tv : Node → PVal) (tf : Node → TagifyResult) (orig : List Node)
    (init : σ) (hinit : get init = tagListOf (orig.map (embT tv)))
    (f : PVal → σ → PyM (ForInStep σ))
    (hstep : ∀ (pre : List Node) (c : Node) (post : List Node) (s : σ), c ∈ orig →
      get s = tagListOf ((pre ++ c :: post).map (embT tv)) →
      ∃ s', f (.int pre.length) s = .ok (.yield s') ∧ get s' = tagListOf ((pre ++ stepSpec tf c ++ post).map (embT tv)))
    (k : σ → PyM β) (r : PyM β)
    (hk : ∀ s, get s = tagListOf ((orig.flatMap (stepSpec tf)).map (embT tv)) → k s = r) :
    (forIn ((List.range orig.length).map fun (i : Nat) => PVal.int (i : Int)).reverse
        init f >>= k) = r := by
  obtain ⟨s', h1, h2⟩ := tagify_loop_aux get tv tf orig f hstep orig.length orig []
    init rfl (fun _ h => h) (by simpa using hinit)
  rw [h1, ok_bind]
  exact hk s' (by simpa using h2)


theorem not_taglist_embT (tv : Node → PVal) (c : Node) : isInstance (embT tv c) ["TagList"] = false := by
  cases c <;> simp [embT, isInstance, builtinClasses, classBases]

theorem isTagifiable_embT (tv : Node → PVal) (c : Node) : isInstance (embT tv c) ["Tagifiable"] = c.isTagifiable := by
  cases c <;> simp [embT, isInstance, builtinClasses, classBases, Node.isTagifiable, embDepFields]

theorem isMetaT_embT (tv : Node → PVal) (c : Node) : isInstance (embT tv c) ["MetadataNode"] = c.isMeta := by
  cases c <;> simp [embT, isInstance, builtinClasses, classBases, Node.isMeta]

theorem plain_embT (tv : Node → PVal) (c : Node) : isPlainTagNode (embT tv c) = true := by
  cases c <;> simp [embT, isPlainTagNode, isInstance, classBases]

theorem pyTagchilds_embT (tv : Node → PVal) (ns : List Node) :
    pyTagchildsToTagnodes (tagListOf (ns.map (embT tv))) = .ok (.list (ns.map (embT tv))) := by
  have : (ns.map (embT tv)).all isPlainTagNode = true := by simp [plain_embT]
  simp only [pyTagchildsToTagnodes, tagListOf, userListData?, fieldGet?, if_true, this, pure_eq_ok]

theorem pyCopy_meta (tv : Node → PVal) (c : Node) (h : c.isMeta = true) : pyCopy (embT tv c) = .ok (embT tv c) := by
  cases c <;> simp [Node.isMeta] at h <;> simp [embT, pyCopy, fieldGet?, embDepFields]

theorem pyAdd_int1 (G : Globals) (i : Nat) : pyAdd G (.int i) (.int 1) = .ok (.int ((i : Int) + 1)) := rfl

/-- the hypothesis on `tv`: for every tagifiable object of a foreign class, the value recorded for its `tagify()` is the
    embedding of what the model says the call returns -/
def TvOk (tv : Node → PVal) : Prop :=
  ∀ c : Node, c.isTag = false → c.isTagifiable = true → tv c = embResult tv (specResult c)

/-! ### a `tv` that satisfies the hypothesis, for every tree -/

mutual
  theorem embT_tagified (tv tv' : Node → PVal) (c : Node) (h : c.tagified = true) : embT tv c = embT tv' c := by
    cases c with
    | tag n w a k =>
      have := embTs_tagified tv tv' k (by simpa [Node.tagified] using h)
      simp [embT, this]
    | tobjL rh cc => simp [Node.tagified] at h
    | tobj1 rh cc => simp [Node.tagified] at h
    | _ => simp [embT]
  theorem embTs_tagified (tv tv' : Node → PVal) (ks : Nodes) (h : ks.tagifiedKids = true) : embTs tv ks = embTs tv' ks := by
    cases ks with
    | nil => rfl
    | cons c t =>
      simp only [Nodes.tagifiedKids, Bool.and_eq_true] at h
      simp [embTs, embT_tagified tv tv' c h.1, embTs_tagified tv tv' t h.2]
end


theorem embResult_congr (tv tv' : Node → PVal) (r : TagifyResult) (h : ∀ x ∈ r.splice, embT tv x = embT tv' x) :
    embResult tv r = embResult tv' r := by
  cases r with
  | taglist ns =>
    simp only [embResult, TagifyResult.splice] at h ⊢
    rw [List.map_congr_left h]
  | single x => exact h x (by simp [TagifyResult.splice])

theorem specResult_tagified (c : Node) (hc : c.isTagifiable = true) : ∀ x ∈ (specResult c).splice, x.tagified = true := by
  have h1 : (specResult c).splice = c.expand.toList := by
    have := stepSpec_specResult c
    simpa [stepSpec, hc] using this
  have h2 := C09.C09_expand_tagified c
  rw [Nodes.tagifiedKids_iff_all, List.all_eq_true] at h2
  intro x hx
  exact h2 x (by rwa [h1] at hx)

/-- the value recorded for `n.tagify()`: the embedding of what the model says the call returns (the result is fully
    tagified, so its embedding does not depend on what is recorded for foreign objects — there are none in it) -/
def tvSpec (n : Node) : PVal := embResult (fun _ => PVal.none) (specResult n)

theorem tvSpec_ok : TvOk tvSpec := by
  intro c _ ht
  exact embResult_congr _ _ _ (fun x hx => embT_tagified _ _ x (specResult_tagified c ht x hx))


end HtmlVerif.SrcTie
