/-
Specification-side definitions for C05: the layout-free ("flat") rendering of a subtree.
-/
import HtmlVerif.Model.Render

namespace HtmlVerif

mutual
  /-- no tag in the (rendered) subtree has whitespace enabled -/
  def Node.noWs : Node → Bool
    | .tag _ ws _ kids => !ws && kids.noWsKids
    | _ => true
  def Nodes.noWsKids : Nodes → Bool
    | .nil => true
    | .cons h t => h.noWs && t.noWsKids
end

mutual
  /-- open tag, attributes, content, close tag — with no layout at all -/
  def Node.flat (cfg : Cfg) : Node → Str
    | .tag name _ attrs kids =>
      if kids.visible.isEmpty then
        if cfg.void.contains name then openTag cfg name attrs ++ ['/', '>']
        else openTag cfg name attrs ++ '>' :: closeTag name
      else openTag cfg name attrs ++ '>' :: kids.flatKids cfg (!cfg.noesc.contains name) ++ closeTag name
    | _ => []
  /-- the children one after the other, nothing in between; `esc` = the parent escapes text -/
  def Nodes.flatKids (cfg : Cfg) : Nodes → Bool → Str
    | .nil, _ => []
    | .cons h t, esc =>
      (match h with
        | .tag .. => h.flat cfg
        | .text s => if esc then escText cfg s else s
        | .html s => s
        | .robj s => s
        | .tobjL rh _ => rh.getD []
        | .tobj1 rh _ => rh.getD []
        | .mnode _ => []
        | .dep .. => []) ++ t.flatKids cfg esc
end

/-- flat form of one node as a child of a parent that escapes (`esc`) or not -/
def Node.flatIn (cfg : Cfg) (esc : Bool) (h : Node) : Str :=
  match h with
  | .tag .. => h.flat cfg
  | .text s => if esc then escText cfg s else s
  | .html s => s
  | .robj s => s
  | .tobjL rh _ => rh.getD []
  | .tobj1 rh _ => rh.getD []
  | .mnode _ => []
  | .dep .. => []

/-- `sub` is rendered somewhere inside `T` (as a visible child at some depth); the flag records whether
    sub's own parent escapes text -/
inductive VisDesc (cfg : Cfg) : Node → Bool → Node → Prop
  | child {name ws attrs kids h} : h ∈ kids.visible →
      VisDesc cfg h (!cfg.noesc.contains name) (.tag name ws attrs kids)
  | deeper {name ws attrs kids h sub b} : h ∈ kids.visible → VisDesc cfg sub b h →
      VisDesc cfg sub b (.tag name ws attrs kids)

end HtmlVerif
