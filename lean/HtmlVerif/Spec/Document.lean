/-
Specification-side definitions for C11: what the property says the document tree is, written directly
from the statement (no index loop, no copy/insert/extend sequence), over the forward expansion
`Nodes.expandAll` (C09) and the resolved list `resolve ∘ collect` (C10).
-/
import HtmlVerif.Model.Document
import HtmlVerif.Spec.Meta

namespace HtmlVerif.Doc
open HtmlVerif

/-- **R**: the resolved dependency list of the document — the dependencies of the expanded content in
    document order, one per name, highest version (C10) -/
def docDeps (content : Nodes) : List Node := resolve content.expandAll.collect

/-- which of the three cases the stored (un-expanded) content falls into -/
inductive Shape
  | soleHtml (w : Bool) (a : Attrs) (kids : Nodes)   -- the sole stored node is the user's `<html>` tag
  | soleBody (w : Bool) (a : Attrs) (kids : Nodes)   -- the sole stored node is the user's `<body>` tag
  | fragment                                          -- anything else

def docShape : Nodes → Shape
  | .cons (.tag n w a kids) .nil =>
    if n = nHtml then .soleHtml w a kids else if n = nBody then .soleBody w a kids else .fragment
  | _ => .fragment

/-- number of direct `<head>` tag children -/
def headCount : Nodes → Nat
  | .nil => 0
  | .cons h t => (if isTagNamed nHead h then 1 else 0) + headCount t

/-- the children before the first direct `<head>` tag, that tag, the children after it -/
def splitHead : Nodes → Option (Nodes × Node × Nodes)
  | .nil => none
  | .cons h t =>
    if isTagNamed nHead h then some (.nil, h, t)
    else match splitHead t with
      | some (pre, hd, post) => some (.cons h pre, hd, post)
      | none => none

/-- the children other than the first direct `<head>` tag, in order -/
def dropFirstHead : Nodes → Nodes
  | .nil => .nil
  | .cons h t => if isTagNamed nHead h then t else .cons h (dropFirstHead t)

/-- one dependency's markup in `<head>`: meta, link, script tags, then its head nodes (expanded) -/
def depMarkup (cfg : Cfg) (lp : Option Str) (iv : Bool) (d : Node) : Except Err Nodes :=
  match depTags cfg lp iv d with
  | .error e => .error e
  | .ok ts => .ok ts.expandAll

/-- every dependency's markup, in list order; the first failure decides -/
def depMarkupAll (cfg : Cfg) (lp : Option Str) (iv : Bool) : List Node → Except Err Nodes
  | [] => .ok .nil
  | d :: r =>
    match depMarkup cfg lp iv d with
    | .error e => .error e
    | .ok ts =>
      match depMarkupAll cfg lp iv r with
      | .error e => .error e
      | .ok rs => .ok (ts ++ rs)

/-- the one `<head>`: `<meta charset="utf-8">`, the user's head children in order, then `extra` -/
def specHead (n : Str) (w : Bool) (a : Attrs) (userKids extra : Nodes) : Node :=
  .tag n w a (.cons metaCharset (userKids ++ extra))

/-- the children of the root: the user's first `<head>` completed in place, or a new first child -/
def withHead (extra : Nodes) (ks : Nodes) : Nodes :=
  match splitHead ks with
  | some (pre, .tag n w a hk, post) => pre ++ Nodes.cons (specHead n w a hk extra) post
  | _ => .cons (specHead nHead true [] .nil extra) ks

/-- root name / flag / attributes / children (expanded, before hoisting) demanded for each case -/
def specRoot (cfg : Cfg) (content : Nodes) (kw : List (Str × AttrArg)) : Except Err (Str × Bool × Attrs × Nodes) :=
  match docShape content with
  | .soleHtml w a kids =>
    match updateKw cfg a kw with
    | .error e => .error e
    | .ok a' => .ok (nHtml, w, a', kids.expandAll)
  | .soleBody w a kids =>
    match tagInitAttrs cfg [] kw with
    | .error e => .error e
    | .ok a' => .ok (nHtml, true, a', .cons emptyHead (.cons (.tag nBody w a kids.expandAll) .nil))
  | .fragment =>
    match tagInitAttrs cfg [] kw with
    | .error e => .error e
    | .ok a' => .ok (nHtml, true, a', .cons emptyHead (.cons (.tag nBody true [] content.expandAll) .nil))

/-- what is appended to the head: the listing script iff there are dependencies, then every dependency's markup -/
def specExtra (cfg : Cfg) (lp : Option Str) (iv : Bool) (deps : List Node) : Except Err Nodes :=
  match depMarkupAll cfg lp iv deps with
  | .error e => .error e
  | .ok ms => .ok (listing deps ++ ms)

/-- **the document tree the property describes** -/
def specTree (cfg : Cfg) (content : Nodes) (kw : List (Str × AttrArg)) (lp : Option Str) (iv : Bool) :
    Except Err Node :=
  match specRoot cfg content kw with
  | .error e => .error e
  | .ok (n, w, a, ks) =>
    match specExtra cfg lp iv (docDeps content) with
    | .error e => .error e
    | .ok extra => .ok (.tag n w a (withHead extra ks))

/-- what a resolved dependency's head contributes to a second collection pass over the hoisted tree -/
def depHeadDeps : Node → List Node
  | .dep _ true hd => hd.expandAll.collect
  | _ => []

/-- guard of `C11_returned` (F-C11): no resolved dependency's head contains a dependency
    (reachable by collection: at its top level or below tags, after expansion) -/
def noDepInDepHead (content : Nodes) : Bool := (docDeps content).all fun d => (depHeadDeps d).isEmpty

end HtmlVerif.Doc
