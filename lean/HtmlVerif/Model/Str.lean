/-
Strings of the model: lists of Unicode scalar values.
Mirrors nothing in particular; everything else is built on it.
-/
namespace HtmlVerif

abbrev Str := List Char

/-- Python `"  " * indent` (indent is a non-negative number of levels). -/
def indentStr (n : Nat) : Str := List.replicate (2 * n) ' '

/-- `sep.join(parts)` -/
def joinStr (sep : Str) : List Str → Str
  | [] => []
  | [x] => x
  | x :: y :: r => x ++ sep ++ joinStr sep (y :: r)

/-- `needle in hay` for strings -/
def isInfix (needle : Str) : Str → Bool
  | [] => needle.isEmpty
  | c :: cs => needle.isPrefixOf (c :: cs) || isInfix needle cs

/-- association-list lookup -/
def alookup {β} (k : Str) : List (Str × β) → Option β
  | [] => none
  | (k', v) :: r => if k' = k then some v else alookup k r

end HtmlVerif
