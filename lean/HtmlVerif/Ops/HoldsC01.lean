/-
`holds C01 <op> <args…> | <impl answer>` — the executable statement of C01, evaluated on the
implementation's output for the same input the op line describes.
-/
import HtmlVerif.Ops.Base
import HtmlVerif.Holds.C01

namespace HtmlVerif.Ops
open HtmlVerif HtmlVerif.Wire HtmlVerif.Holds

def holdsC01TagOp : P String := do
  let n ← node; let _i ← nat; let e ← str
  match (← implStr) with
  | some out => pure (encBool (holdsC01Tag cfg n e out))
  | none => pure (encBool (!(ordinaryTag cfg n && wsOnly e)))   -- an ordinary tree must render

def holdsC01 : OpTable
  | "render_tag" => some holdsC01TagOp
  | "render_tag_n" => some holdsC01TagOp
  | "render_list" => some do
    let ks ← nodes; let _i ← nat; let e ← str; let _aw ← bool; let esc ← bool
    match (← implStr) with
    | some out => pure (encBool (holdsC01List cfg ks e esc out))
    | none => pure (encBool (!(ks.ordinaryKids cfg.noesc && wsOnly e && esc)))
  | _ => none

end HtmlVerif.Ops
