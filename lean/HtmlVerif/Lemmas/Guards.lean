/-
Helper lemmas for C12: what the guards `SafeSeg`, `CleanDir`, `CleanRel` give.
-/
import HtmlVerif.Lemmas.Paths
import HtmlVerif.Spec.Paths

namespace HtmlVerif

theorem inertN_lt {n : Nat} (h : inertN n = true) : n < 128 := by
  simp only [inertN, Bool.and_eq_true, decide_eq_true_eq] at h
  omega

theorem inertN_facts : ∀ n, n < 128 → inertN n = true →
    n ≠ 0x25 ∧ n ≠ 0x2F ∧ n ≠ 0x3F ∧ n ≠ 0x23 ∧ n ≠ 0x3A := by decide

theorem unreservedN_facts : ∀ n, n < 128 → isUnreservedN n = true →
    n ≠ 0x25 ∧ n ≠ 0x2F ∧ n ≠ 0x3F ∧ n ≠ 0x23 ∧ n ≠ 0x3A := by decide

theorem isUnreservedN_lt {n : Nat} (h : isUnreservedN n = true) : n < 128 := by
  simp only [isUnreservedN, Bool.or_eq_true, Bool.and_eq_true, decide_eq_true_eq, beq_iff_eq] at h
  omega

/-- a character that `urlOk` accepts is none of `? # :` -/
def urlPlain (c : Char) : Prop := c ≠ '?' ∧ c ≠ '#' ∧ c ≠ ':'

theorem inertC_ne {c : Char} (h : inertC c = true) :
    c ≠ '%' ∧ c ≠ '/' ∧ urlPlain c ∧ c.toNat < 128 := by
  have hl := inertN_lt h
  have hf := inertN_facts c.toNat hl h
  refine ⟨?_, ?_, ⟨?_, ?_, ?_⟩, hl⟩ <;> (intro e; subst e; simp at hf)

theorem unreservedC_plain {c : Char} (h : isUnreservedC c = true) : urlPlain c := by
  have hl := isUnreservedN_lt h
  have hf := unreservedN_facts c.toNat hl h
  refine ⟨?_, ?_, ?_⟩ <;> (intro e; subst e; simp at hf)

theorem utf8Char_ascii {c : Char} (h : c.toNat < 128) : utf8Char c = [c.toNat.toUInt8] := by
  simp [utf8Char, h]

theorem utf8Char_ne_nil (c : Char) : utf8Char c ≠ [] := by
  by_cases h1 : c.toNat < 0x80 <;> by_cases h2 : c.toNat < 0x800 <;> by_cases h3 : c.toNat < 0x10000 <;>
    simp [utf8Char, h1, h2, h3]

theorem utf8_ne_nil {s : Str} (h : s ≠ []) : utf8 s ≠ [] := by
  match s, h with
  | c :: r, _ =>
    rw [utf8_cons]
    intro e
    exact utf8Char_ne_nil c (List.append_eq_nil_iff.mp e).1

theorem utf8_inert_noSlash {s : Str} (h : ∀ c ∈ s, inertC c = true) : ∀ x ∈ utf8 s, x ≠ 0x2F := by
  induction s with
  | nil => simp [utf8]
  | cons c s ih =>
    have hc := h c (by simp)
    have ⟨_, _, _, hl⟩ := inertC_ne hc
    have hf := inertN_facts c.toNat hl hc
    rw [utf8_cons, utf8Char_ascii hl]
    intro x hx
    simp only [List.singleton_append, List.mem_cons] at hx
    rcases hx with hx | hx
    · subst hx
      intro e
      have := congrArg UInt8.toNat e
      simp [UInt8.toNat_ofNat_of_lt' (show c.toNat < UInt8.size by simp [UInt8.size]; omega)] at this
      exact hf.2.1 this
    · exact ih (fun y hy => h y (by simp [hy])) x hx

/-! ### SafeSeg -/

theorem safeSeg_ne_nil {s : Str} (h : SafeSeg s = true) : s ≠ [] := by
  simp [SafeSeg] at h; exact h.1.1.1

theorem safeSeg_inert {s : Str} (h : SafeSeg s = true) : ∀ c ∈ s, inertC c = true := by
  simp [SafeSeg] at h; exact h.1.1.2

theorem safeSeg_segs {s : Str} (h : SafeSeg s = true) : segs (utf8 s) = [utf8 s] :=
  segs_single _ (utf8_inert_noSlash (safeSeg_inert h)) (utf8_ne_nil (safeSeg_ne_nil h))

theorem safeSeg_head {s : Str} (h : SafeSeg s = true) : s.head? ≠ some '/' := by
  match s, safeSeg_ne_nil h, safeSeg_inert h with
  | c :: r, _, hi =>
    have := (inertC_ne (hi c (by simp))).2.1
    simpa using this

theorem safeSeg_last {s : Str} (h : SafeSeg s = true) : s.getLast? ≠ some '/' := by
  intro e
  have hm : '/' ∈ s := List.mem_of_getLast? e
  exact (inertC_ne (safeSeg_inert h _ hm)).2.1 rfl

/-! ### WideSeg: a single component over any characters -/

theorem wideSeg_ne_nil {s : Str} (h : WideSeg s = true) : s ≠ [] := by
  simp [WideSeg] at h; exact h.1.1.1.1

theorem wideSeg_noSlash {s : Str} (h : WideSeg s = true) : '/' ∉ s := by
  simp [WideSeg] at h; exact h.1.1.1.2

theorem wideSeg_head {s : Str} (h : WideSeg s = true) : s.head? ≠ some '/' := by
  intro e
  exact wideSeg_noSlash h (List.mem_of_head? e)

theorem wideSeg_last {s : Str} (h : WideSeg s = true) : s.getLast? ≠ some '/' := by
  intro e
  exact wideSeg_noSlash h (List.mem_of_getLast? e)

theorem safeSeg_wide {s : Str} (h : SafeSeg s = true) : WideSeg s = true := by
  have hi := safeSeg_inert h
  have h1 : '/' ∉ s := fun hm => (inertC_ne (hi _ hm)).2.1 rfl
  have h2 : Char.ofNat 0 ∉ s := by
    intro hm
    have := hi _ hm
    revert this; decide
  have hne := safeSeg_ne_nil h
  simp [SafeSeg] at h
  simp [WideSeg, h1, h2, hne, h.1.2, h.2]

/-! ### CleanDir / CleanRel -/

theorem cleanDir_chars {l : Str} (h : CleanDir l = true) : ∀ c ∈ l, inertC c = true ∨ c = '/' := by
  simp [CleanDir] at h
  intro c hc
  exact h.1.1 c hc

theorem cleanDir_head {l : Str} (h : CleanDir l = true) : l.head? ≠ some '/' := by
  simp [CleanDir] at h
  exact h.1.2

theorem cleanRel_bytesHead {p : Str} (h : CleanRel p = true) : (utf8 p).head? ≠ some 0x2F := by
  intro e
  match hu : utf8 p, e with
  | b :: r, e =>
    simp at e; subst e
    simp [CleanRel, hu, splitSlash, goodSeg] at h

theorem head_of_bytesHead {p : Str} (h : (utf8 p).head? ≠ some 0x2F) : p.head? ≠ some '/' := by
  intro e
  match p, e with
  | c :: r, e => simp at e; subst e; rw [utf8_slash_cons] at h; simp at h

theorem cleanRel_head {p : Str} (h : CleanRel p = true) : p.head? ≠ some '/' :=
  head_of_bytesHead (cleanRel_bytesHead h)

/-! ### characters, first and last character of a join -/

theorem mem_posixJoin {a b : Str} {c : Char} (h : c ∈ posixJoin a b) : c ∈ a ∨ c = '/' ∨ c ∈ b := by
  unfold posixJoin at h
  split at h
  · exact .inr (.inr h)
  · split at h
    · rcases List.mem_append.mp h with h | h
      · exact .inl h
      · exact .inr (.inr h)
    · rcases List.mem_append.mp h with h | h
      · exact .inl h
      · rcases List.mem_cons.mp h with h | h
        · exact .inr (.inl h)
        · exact .inr (.inr h)

theorem posixJoin_head {a b : Str} (ha : a ≠ []) (hb : b.head? ≠ some '/') :
    (posixJoin a b).head? = a.head? := by
  unfold posixJoin
  simp only [hb, if_false]
  split <;> (cases a <;> simp_all)

theorem posixJoin_getLast {a b : Str} (hb : b ≠ []) : (posixJoin a b).getLast? = b.getLast? := by
  unfold posixJoin
  split
  · rfl
  · split
    · simp [List.getLast?_append]
      cases hbl : b.getLast? with
      | none => simp [List.getLast?_eq_none_iff] at hbl; exact absurd hbl hb
      | some x => simp
    · rw [List.getLast?_append]
      have : ('/' :: b).getLast? = b.getLast? := by
        cases b with
        | nil => exact absurd rfl hb
        | cons x r => simp [List.getLast?_cons_cons]
      rw [this]
      cases hbl : b.getLast? with
      | none => simp [List.getLast?_eq_none_iff] at hbl; exact absurd hbl hb
      | some x => simp

theorem posixJoin_ne_nil {a b : Str} (hb : b ≠ []) : posixJoin a b ≠ [] := by
  intro e
  have := posixJoin_getLast (a := a) hb
  rw [e] at this
  simp at this
  exact hb (List.getLast?_eq_none_iff.mp this.symm)

/-! ### injectivity of UTF-8 on URL-inert (ASCII) strings -/

theorem utf8_inert_inj : ∀ (s t : Str), (∀ c ∈ s, inertC c = true) → (∀ c ∈ t, inertC c = true) →
    utf8 s = utf8 t → s = t := by
  intro s
  induction s with
  | nil =>
    intro t _ _ h
    cases t with
    | nil => rfl
    | cons c r => exact absurd h.symm (utf8_ne_nil (by simp))
  | cons c s ih =>
    intro t hs ht h
    cases t with
    | nil => exact absurd h (utf8_ne_nil (by simp))
    | cons c' t =>
      have hc := (inertC_ne (hs c (by simp))).2.2.2
      have hc' := (inertC_ne (ht c' (by simp))).2.2.2
      rw [utf8_cons, utf8_cons, utf8Char_ascii hc, utf8Char_ascii hc'] at h
      simp only [List.singleton_append, List.cons.injEq] at h
      have e1 := congrArg UInt8.toNat h.1
      simp [UInt8.toNat_ofNat_of_lt' (show c.toNat < UInt8.size by simp [UInt8.size]; omega),
        UInt8.toNat_ofNat_of_lt' (show c'.toNat < UInt8.size by simp [UInt8.size]; omega)] at e1
      have : c = c' := by
        apply Char.ext; apply UInt32.toNat.inj; exact e1
      subst this
      rw [ih t (fun x hx => hs x (by simp [hx])) (fun x hx => ht x (by simp [hx])) h.2]

/-! ### the shape of a local URL -/

theorem relRefOk_of {u : Str} (h : ∀ c ∈ u, urlPlain c) (hh : u.head? ≠ some '/') : relRefOk u = true := by
  have hc : (u.takeWhile (· != '/')).contains ':' = false := by
    rw [Bool.eq_false_iff]
    intro hm
    have hm' : ':' ∈ u.takeWhile (· != '/') := by simpa using hm
    exact (h ':' (List.takeWhile_subset _ hm')).2.2 rfl
  have ha : u.all (fun c => c != '?' && c != '#') = true := by
    simp only [List.all_eq_true, Bool.and_eq_true, bne_iff_ne]
    intro c hc'; exact ⟨(h c hc').1, (h c hc').2.1⟩
  simp only [relRefOk, ha, hc, Bool.true_and, Bool.not_false, Bool.and_true, bne_iff_ne, ne_eq]
  exact hh

theorem urlPlain_slash : urlPlain '/' := by unfold urlPlain; decide
theorem urlPlain_pct : urlPlain '%' := by unfold urlPlain; decide

theorem mem_hrefBaseSpec {lp : Option Str} {dn : Str} {c : Char} (h : c ∈ hrefBaseSpec lp dn) :
    (∃ l, lp = some l ∧ l ≠ [] ∧ c ∈ l) ∨ c = '/' ∨ c ∈ dn := by
  unfold hrefBaseSpec at h
  cases lp with
  | none => exact .inr (.inr h)
  | some l =>
    simp only [] at h
    split at h
    · exact .inr (.inr h)
    · next hl =>
      have hne : l ≠ [] := by simpa using hl
      split at h
      · rcases List.mem_append.mp h with h | h
        · exact .inl ⟨l, rfl, hne, h⟩
        · exact .inr (.inr h)
      · rcases List.mem_append.mp h with h | h
        · exact .inl ⟨l, rfl, hne, h⟩
        · rcases List.mem_cons.mp h with h | h
          · exact .inr (.inl h)
          · exact .inr (.inr h)

theorem hrefBaseSpec_head {lp : Option Str} {dn : Str} :
    (hrefBaseSpec lp dn).head? = match lp with
      | none => dn.head?
      | some l => if l.isEmpty then dn.head? else l.head? := by
  unfold hrefBaseSpec
  cases lp with
  | none => rfl
  | some l =>
    simp only []
    split
    · rfl
    · next hl =>
      have hne : l ≠ [] := by simpa using hl
      split <;> (cases l <;> simp_all)

/-- the components of `[lib_prefix/]name[-version]` -/
theorem segs_hrefBaseSpec {lp : Option Str} {dn : Str} (hn : SafeSeg dn = true) :
    segs (utf8 (hrefBaseSpec lp dn)) = segsOpt lp ++ [utf8 dn] := by
  have h1 := safeSeg_segs hn
  have hd := safeSeg_head hn
  cases lp with
  | none => simp [hrefBaseSpec, segsOpt, h1]
  | some l =>
    by_cases hl : l.isEmpty = true
    · have : l = [] := by simpa using hl
      subst this
      have e : segs (utf8 []) = [] := by simp [utf8, segs_nil]
      simp only [hrefBaseSpec, segsOpt, List.isEmpty_nil, if_true, h1, e, List.nil_append]
    · have hne : l ≠ [] := by simpa using hl
      have : hrefBaseSpec (some l) dn = posixJoin l dn := by
        simp only [hrefBaseSpec, hl]
        by_cases hs : l.getLast? = some '/'
        · simp [hs, posixJoin_slash hd hs]
        · simp [hs, posixJoin_plain hd hne hs]
      rw [this, segs_utf8_posixJoin l dn hd, h1]
      rfl

end HtmlVerif
