/-
The display-hook protocol of `with tag:` blocks (htmltools/_core.py:692-707 `Tag.__enter__` / `Tag.__exit__`,
1015-1034 `wrap_displayhook_handler`, 723-728 `Tag.append`, 283-294 `TagList.extend/append`,
1927-1944 `_tagchilds_to_tagnodes`, _util.py:80-100 `flatten`).

Programs are an inductive type (statements `display v`, `with tag: body`, `raise`), so "any nesting of with-blocks,
with or without exceptions" is a quantifier over `Prog`/`Progs`.  The process-global `sys.displayhook` is the `hook`
field of the state; each tag carries its `children` and its `prev_displayhook`; the outermost hook is the harness's
recorder, which appends whatever it is handed to a log and never raises (the guard of DESIGN §6 C17).
Tags are mutable objects referred to by identity: a stored child that is a Tag is a *reference* (`Item.tagRef`).
-/
import HtmlVerif.Model.Render

namespace HtmlVerif.Hook
open HtmlVerif

/-- identity of a `Tag` object -/
abbrev TagId := Nat

/-- the callables that can sit in `sys.displayhook` / `Tag.prev_displayhook`:
    the outermost recorder, the wrapper made by `tag.__enter__` (one per tag: a tag can be entered at most once),
    and `None` (what `__exit__` would install if `prev_displayhook` were still `None`) -/
inductive HookId
  | outer
  | wrap (t : TagId)
  | unset
  deriving DecidableEq, Repr, Inhabited

/-- a displayed Python value -/
inductive Val
  | none                    -- `None`
  | ellipsis                -- `...`
  | text (s : Str)          -- `str`
  | num (s : Str)           -- `int` / `float` / `bool`; `s` = `str(value)`, supplied by the harness
  | html (s : Str)          -- `HTML(s)`
  | reprHtml (s : Str)      -- object whose `_repr_html_()` returns `s` (no `tagify`)
  | tagRef (t : TagId)      -- the Tag object `t`
  | invalid                 -- any object that is none of the above and not a list/tuple/TagList (dict, bytes, object(), …)
  deriving DecidableEq, Repr, Inhabited

/-- a stored child (`TagNode`) -/
inductive Item
  | text (s : Str)
  | html (s : Str)
  | robj (s : Str)          -- `_repr_html_` object kept as the object (only via a direct `append`)
  | tagRef (t : TagId)      -- reference to the Tag object `t`
  deriving DecidableEq, Repr, Inhabited

inductive Outcome
  | done
  | raised (e : Err)
  deriving DecidableEq, Repr, Inhabited

mutual
  /-- statements -/
  inductive Prog
    | display (v : Val)                     -- `sys.displayhook(v)`
    | block (t : TagId) (body : Progs)      -- `with tag_t: body`
    | raise                                 -- `raise SomeException()`
  inductive Progs
    | nil
    | cons (p : Prog) (ps : Progs)
end

instance : Inhabited Prog := ⟨.raise⟩
instance : Inhabited Progs := ⟨.nil⟩

def Progs.ofList : List Prog → Progs
  | [] => .nil
  | p :: ps => .cons p (Progs.ofList ps)

def Progs.toList : Progs → List Prog
  | .nil => []
  | .cons p ps => p :: ps.toList

/-- per-tag state -/
structure TagSt where
  children : List Item
  prev     : Option HookId          -- `self.prev_displayhook`
  deriving DecidableEq, Repr, Inhabited

structure St where
  hook  : HookId                    -- `sys.displayhook`
  tags  : TagId → TagSt
  outer : List Val                  -- what the outermost recorder has been handed, in order

/-- `handler_wrapper` (_core.py:1026-1032): the value handed on to `handler`, `none` = handler not called -/
def wrapFilter : Val → Option Val
  | .tagRef t => some (.tagRef t)       -- isinstance(value, (Tag, TagList, Tagifiable))
  | .reprHtml s => some (.html s)       -- isinstance(value, ReprHtml): handler(HTML(value._repr_html_()))
  | .none => Option.none                -- value in (None, ...)
  | .ellipsis => Option.none
  | v => some v

/-- `_tagchilds_to_tagnodes([v])` (_core.py:1927-1944), i.e. what `tag.append(v)` adds: `flatten` drops `None`,
    numbers become `str`, anything that is not a TagNode is a `TypeError` -/
def toItems : Val → Except Err (List Item)
  | .none => .ok []
  | .text s => .ok [.text s]
  | .num s => .ok [.text s]
  | .html s => .ok [.html s]
  | .reprHtml s => .ok [.robj s]
  | .tagRef t => .ok [.tagRef t]
  | .ellipsis => .error .typeError
  | .invalid => .error .typeError

/-- `tag_t.children.extend(items)` -/
def St.addChildren (s : St) (t : TagId) (items : List Item) : St :=
  { s with tags := fun u => if u = t then { s.tags t with children := (s.tags t).children ++ items } else s.tags u }

/-- call the callable `h` with `v`.  On an exception nothing has been mutated
    (`_tagchilds_to_tagnodes` runs before `UserList.extend`). -/
def callHook (h : HookId) (v : Val) (s : St) : Except Err St :=
  match h with
  | .outer => .ok { s with outer := s.outer ++ [v] }
  | .unset => .error .typeError                     -- 'NoneType' object is not callable
  | .wrap t =>
    match wrapFilter v with
    | Option.none => .ok s
    | some v' =>
      match toItems v' with
      | .error e => .error e
      | .ok items => .ok (s.addChildren t items)

/-- the two assignments of `Tag.__enter__`: `self.prev_displayhook = sys.displayhook; sys.displayhook = wrapper(self.append)` -/
def St.entered (s : St) (t : TagId) : St :=
  { s with
    hook := .wrap t,
    tags := fun u => if u = t then { s.tags t with prev := some s.hook } else s.tags u }

/-- `Tag.__enter__` (_core.py:692-702) -/
def enterTag (t : TagId) (s : St) : Except Err St :=
  match (s.tags t).prev with
  | some _ => .error .runtimeError
  | Option.none => .ok (s.entered t)

/-- `Tag.__exit__` (_core.py:704-707): `sys.displayhook = self.prev_displayhook; sys.displayhook(self)`.
    `prev_displayhook` is *not* cleared. -/
def exitTag (t : TagId) (s : St) : St × Outcome :=
  let h : HookId := match (s.tags t).prev with
    | some h => h
    | Option.none => .unset
  let s1 : St := { s with hook := h }
  match callHook h (.tagRef t) s1 with
  | .ok s2 => (s2, .done)
  | .error e => (s1, .raised e)

/-- Python's `with` protocol: an exception of `__exit__` replaces the one in flight; `__exit__` returns `None`,
    so the in-flight exception propagates -/
def withOutcome (body exit : Outcome) : Outcome :=
  match exit with
  | .raised e => .raised e
  | .done => body

mutual
  def Prog.exec : Prog → St → St × Outcome
    | .display v, s =>
      match callHook s.hook v s with
      | .ok s' => (s', .done)
      | .error e => (s, .raised e)
    | .raise, s => (s, .raised .exception)
    | .block t body, s =>
      match enterTag t s with
      | .error e => (s, .raised e)                -- `__enter__` raised: `__exit__` is not called
      | .ok s1 =>
        let r := body.exec s1
        let x := exitTag t r.1                    -- runs on normal and on exceptional exit
        (x.1, withOutcome r.2 x.2)
  def Progs.exec : Progs → St → St × Outcome
    | .nil, s => (s, .done)
    | .cons p ps, s =>
      match p.exec s with
      | (s', .done) => ps.exec s'
      | (s', .raised e) => (s', .raised e)
end

/-- normalisation of one value displayed inside a block: the wrapper, then `append` -/
def normDisplayed (v : Val) : Except Err (List Item) :=
  match wrapFilter v with
  | Option.none => .ok []
  | some v' => toItems v'

/-- initial state: the recorder is installed, no tag has been entered -/
def St.init (kids : TagId → List Item) : St :=
  { hook := .outer, tags := fun t => { children := kids t, prev := Option.none }, outer := [] }

end HtmlVerif.Hook
