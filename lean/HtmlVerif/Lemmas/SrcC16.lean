/-
Helper lemmas of the source tie for C16 (Props/SrcC16.lean): the whitespace primitives of Py/Prim.lean against the
model's `tokens` / `strip`, attribute-dictionary reads and `pop` on embedded attributes, the two `re.sub` primitives
against `cssHyphen` / `cssKey`, and the relation between Python values and the model's `CssVal`.
Nothing here mentions a regenerated function.
-/
import HtmlVerif.Py.PrimC16
import HtmlVerif.Lemmas.PyLoop
import HtmlVerif.Lemmas.SrcTie
import HtmlVerif.Model.ClassStyle

namespace HtmlVerif.SrcTie
open HtmlVerif HtmlVerif.Py

/-! ### `str.split()` / `str.strip()` -/

/-- `splitWs` (accumulator form, Py/Prim.lean) against the model's `splitAll` -/
theorem splitWs_splitAll (sp : Char → Bool) (s cur : Str) :
    ∃ h t, splitAll sp s = h :: t ∧ splitWs sp s cur = ((cur ++ h) :: t).filter (fun t => !t.isEmpty) := by
  induction s generalizing cur with
  | nil => refine ⟨[], [], rfl, ?_⟩; cases cur <;> simp [splitWs]
  | cons c r ih =>
    cases hc : sp c
    · obtain ⟨h, t, e1, e2⟩ := ih (cur ++ [c])
      refine ⟨c :: h, t, by simp [splitAll, hc, e1], ?_⟩
      simp [splitWs, hc, e2]
    · obtain ⟨h, t, e1, e2⟩ := ih []
      refine ⟨[], h :: t, by simp [splitAll, hc, e1], ?_⟩
      cases cur <;> simp [splitWs, hc, e2, List.filter]

/-- the primitive behind `s.split()` computes the model's `tokens` -/
theorem splitWs_tokens (sp : Char → Bool) (s : Str) : splitWs sp s [] = tokens sp s := by
  obtain ⟨h, t, e1, e2⟩ := splitWs_splitAll sp s []
  simp [tokens, e1, e2]

theorem pySplit_str (G : Globals) (s : Str) : pySplit G (.str s) = .ok (.list ((tokens G.isSpace s).map .str)) := by
  simp only [pySplit, splitWs_tokens, pure_eq_ok]

theorem pySplit_html (G : Globals) (s : Str) : pySplit G (.html s) = .ok (.list ((tokens G.isSpace s).map .str)) := by
  simp only [pySplit, splitWs_tokens, pure_eq_ok]

theorem pySplit_embVal (G : Globals) (v : AttrVal) :
    pySplit G (embVal v) = .ok (.list ((tokens G.isSpace v.str).map .str)) := by
  cases v
  · exact pySplit_str G _
  · exact pySplit_html G _

theorem pyStrip_str (G : Globals) (s : Str) : pyStrip G (.str s) = .ok (.str (strip G.isSpace s)) := rfl

/-- `x in [s₁, …]` for strings -/
theorem pyIn_strs (n : Str) (l : List Str) : pyIn (.str n) (.list (l.map .str)) = .ok (.bool (l.contains n)) := by
  simp only [pyIn, pure_eq_ok]
  congr 2
  induction l with
  | nil => rfl
  | cons a t ih => simp only [List.map_cons, List.any_cons, ih, List.contains_cons, Bool.beq_comm (a := n)]

theorem pyInC16_strs (n : Str) (l : List Str) : pyInC16 (.str n) (.list (l.map .str)) = .ok (.bool (l.contains n)) := by
  have : (l.map PVal.str).all isStrVal = true := by simp [isStrVal]
  simp only [pyInC16, this, if_true, pyIn_strs]

/-- `HTML(n) in [s₁, …]`: `UserString.__eq__` compares the text -/
theorem pyInC16_strs_html (n : Str) (l : List Str) : pyInC16 (.html n) (.list (l.map .str)) = .ok (.bool (l.contains n)) := by
  have : (l.map PVal.str).all isStrVal = true := by simp [isStrVal]
  simp only [pyInC16, this, if_true, pyIn_strs]

theorem truthy_embVal (v : AttrVal) : truthy (embVal v) = !v.str.isEmpty := by cases v <;> rfl

/-! ### reads of the attribute dictionary -/

/-- `self.attrs.get(k)` on embedded attributes -/
theorem pyDictGet_emb (a : Attrs) (k : Str) :
    pyDictGet (embAttrs a) (.str k) .none = .ok (match alookup k a with | some v => embVal v | none => PVal.none) := by
  simp only [pyDictGet, embAttrs, dictGet_emb, pure_eq_ok]
  cases alookup k a <;> rfl

theorem embArg_getArg (k : Str) (a : Attrs) :
    embArg (getArg k a) = match alookup k a with | some v => embVal v | none => PVal.none := by
  unfold getArg
  cases alookup k a with
  | none => rfl
  | some v => cases v <;> rfl

/-- `s.endswith(";")` for `str` and `HTML` -/
theorem endsSemi_decide (s : Str) : decide (s.getLast? = some ';') = endsSemi s := by
  unfold endsSemi
  cases s.getLast? with
  | none => rfl
  | some c => by_cases h : c = ';' <;> simp [h]

theorem endswith_semi_str (s : Str) :
    pyEndswith (.str s) (.str [';']) = .ok (.bool (endsSemi s)) := by
  rw [endswith_char, endsSemi_decide]

theorem endswith_semi_html (s : Str) :
    pyEndswith (.html s) (.str [';']) = .ok (.bool (endsSemi s)) := by
  have := endswith_semi_str s
  simp only [pyEndswith, Py.textOf] at this ⊢
  exact this

/-- `del d[k]` on the model's attributes -/
def attrsDel (k : Str) : Attrs → Attrs
  | [] => []
  | (k', v) :: r => if k' = k then r else (k', v) :: attrsDel k r

theorem dictPop_eq (k : Str) (a : Attrs) :
    dictPop k a = if (alookup k a).isSome then .ok (attrsDel k a) else .error .keyError := by
  induction a with
  | nil => rfl
  | cons x t ih =>
    obtain ⟨k', v'⟩ := x
    simp only [dictPop, alookup, attrsDel]
    by_cases hk : k' = k
    · simp [hk]
    · simp only [hk, if_false, ih]
      cases (alookup k t).isSome <;> simp

theorem dictDel_emb (k : Str) (a : Attrs) :
    Py.dictDel k (a.map fun kv => (kv.1, embVal kv.2)) = (attrsDel k a).map fun kv => (kv.1, embVal kv.2) := by
  induction a with
  | nil => rfl
  | cons x t ih =>
    obtain ⟨k', v'⟩ := x
    simp only [List.map_cons, Py.dictDel, attrsDel]
    split <;> simp_all

/-- `self.attrs.pop(k)` on embedded attributes -/
theorem pyDictPop_emb (k : Str) (a : Attrs) :
    pyDictPop (embAttrs a) (.str k) = embRes embAttrs (dictPop k a) := by
  simp only [pyDictPop, embAttrs, dictGet_emb, dictDel_emb, dictPop_eq, Option.isSome_map]
  cases (alookup k a).isSome <;> simp [embRes, embAttrs, embErr]

/-! ### the receiver: any instance whose `attrs` field holds the embedded attributes -/

theorem getAttr_obj (c : String) (fs : List (String × PVal)) (k : String) (v : PVal) (h : fieldGet? k fs = some v) :
    pyGetAttr (.obj c fs) k = .ok v := by
  simp only [pyGetAttr, h, pure_eq_ok]

theorem setAttr_obj (c : String) (fs : List (String × PVal)) (k : String) (v : PVal) :
    pySetAttr (.obj c fs) k v = .ok (.obj c (fieldSet k v fs)) := rfl

/-- the receiver after a method has replaced its attributes -/
def withAttrs (c : String) (fs : List (String × PVal)) (a : Attrs) : PVal := .obj c (fieldSet "attrs" (embAttrs a) fs)


theorem fieldSet_same (k : String) (v : PVal) (fs : List (String × PVal)) (h : fieldGet? k fs = some v) :
    fieldSet k v fs = fs := by
  induction fs with
  | nil => cases h
  | cons x t ih =>
    obtain ⟨k', v'⟩ := x
    simp only [fieldGet?, fieldSet] at h ⊢
    by_cases hk : k' = k
    · simp only [hk, if_true] at h ⊢
      injection h with h; rw [h]
    · simp only [hk, if_false] at h ⊢
      rw [ih h]

/-- a method that leaves the attributes as they are returns the receiver as it was -/
theorem withAttrs_same (c : String) (fs : List (String × PVal)) (a : Attrs) (h : fieldGet? "attrs" fs = some (embAttrs a)) :
    withAttrs c fs a = .obj c fs := by
  unfold withAttrs; rw [fieldSet_same _ _ _ h]

@[simp] theorem globalsOf_isSpace (cfg : Cfg) (sp : Char → Bool) (lw : Str → Str) : (globalsOf cfg sp lw).isSpace = sp := rfl
@[simp] theorem globalsOf_lower (cfg : Cfg) (sp : Char → Bool) (lw : Str → Str) : (globalsOf cfg sp lw).lower = lw := rfl

/-- the end of every mutating method: store the new attributes in the receiver and return it -/
theorem bind_embRes_setAttr (c : String) (fs : List (String × PVal)) (r : Except Err Attrs) :
    (do
      let x ← embRes embAttrs r
      let y ← pySetAttr (.obj c fs) "attrs" x
      Except.ok y : PyM PVal) = embRes (withAttrs c fs) r := by
  cases r <;> rfl

/-! ### the semicolon test of `add_style` -/

/-- `isinstance(style, (str, HTML))` on the model's argument kinds -/
def strLike : AttrArg → Bool
  | .str _ => true
  | .html _ => true
  | _ => false

/-- `style.endswith(";")` -/
def semiArg : AttrArg → Bool
  | .str s => endsSemi s
  | .html s => endsSemi s
  | _ => false

theorem isInstance_embArg_strLike (v : AttrArg) : isInstance (embArg v) ["str", "HTML"] = strLike v := by
  cases v <;> simp [embArg, isInstance, builtinClasses, classBases, strLike]

theorem endswith_embArg (v : AttrArg) (h : strLike v = true) :
    pyEndswith (embArg v) (.str [';']) = .ok (.bool (semiArg v)) := by
  cases v with
  | str s => exact endswith_semi_str s
  | html s => exact endswith_semi_html s
  | _ => cases h

theorem styleRejected_eq (v : AttrArg) : styleRejected v = (strLike v && !semiArg v) := by
  cases v <;> rfl

/-! ### the comprehension of `remove_class` -/

/-- a loop over strings whose body — whatever its text — appends the item to the accumulated list exactly when it
    differs from `t` computes the filter (`[v for v in l if v != t]`) -/
theorem filter_loop_acc (t : Str) (l : List Str) (body : PVal → List PVal → PyM (ForInStep (List PVal)))
    (hb : ∀ x acc, body (.str x) acc = .ok (.yield (if x != t then acc ++ [.str x] else acc))) (acc0 : List PVal) :
    forIn (l.map PVal.str) acc0 body = .ok (acc0 ++ (l.filter (· != t)).map .str) := by
  induction l generalizing acc0 with
  | nil => simp [pure, Except.pure]
  | cons x r ih =>
    simp only [List.map_cons, List.forIn_cons, hb, ok_bind, ih, List.filter_cons]
    cases x != t <;> simp

theorem filter_loop (t : Str) (l : List Str) (body : PVal → List PVal → PyM (ForInStep (List PVal)))
    (hb : ∀ x acc, body (.str x) acc = .ok (.yield (if x != t then acc ++ [.str x] else acc)))
    (k : List PVal → PyM PVal) :
    (forIn (l.map PVal.str) [] body >>= k) = k ((l.filter (· != t)).map .str) := by
  rw [filter_loop_acc t l body hb []]
  rfl

/-- `if new_classes:` / `if not new_classes:` (the truthiness spelling of `len(new_classes) > 0`) -/
theorem truthy_list_strs (l : List Str) : truthy (.list (l.map PVal.str)) = !l.isEmpty := by
  cases l <;> rfl

theorem len_gt_zero (l : List Str) : pyGt (.int ((l.map PVal.str).length : Nat)) (.int 0) = .ok (.bool (!l.isEmpty)) := by
  cases l with
  | nil => rfl
  | cons x r =>
    simp only [pyGt, pure_eq_ok, List.map_cons, List.length_cons, List.isEmpty_cons, Bool.not_false]
    congr 2
    simp only [decide_eq_true_eq]
    omega

/-! ### `css()` -/

theorem subHyphenCaps_eq (k : Str) : subHyphenCaps k = cssHyphen k := rfl

theorem reSub_caps (s : Str) :
    reSub (.str ['(', '[', 'A', '-', 'Z', ']', ')']) (.str ['-', Char.ofNat 92, '1']) (.str s) = .ok (.str (cssHyphen s)) := by
  simp [reSub, subHyphenCaps_eq]

theorem reSub_underscore (s : Str) :
    reSub (.str ['_']) (.str ['-']) (.str s) = .ok (.str (s.map fun c => if c = '_' then '-' else c)) := by
  simp [reSub, subUnderscore]

theorem strictStrs_map_str (l : List Str) : strictStrs (l.map PVal.str) = .ok l := by
  induction l with
  | nil => rfl
  | cons a t ih => simp [strictStrs, ih]

theorem pyJoinStrict_strs (sep : Str) (l : List Str) :
    pyJoinStrict (.str sep) (.list (l.map .str)) = .ok (.str (joinStr sep l)) := by
  simp only [pyJoinStrict, pyIter_list, ok_bind, strictStrs_map_str, pure_eq_ok]

/-- a Python keyword value of `css()` and the model's description of it -/
inductive CssRel : PVal → CssVal → Prop
  | none : CssRel .none .none
  | text (v : PVal) (s : Str) : isNone v = false → isInstance v ["list"] = false → pyStr v = .ok (.str s) → CssRel v (.text s)
  | list (xs : List Str) : CssRel (.list (xs.map .str)) (.list xs)
  | bad (vs : List PVal) : strictStrs vs = .error .typeError → CssRel (.list vs) .badList

/-- the model's step for one keyword of `css()` on the accumulator `res` -/
def cssStep (lower : Str → Str) (collapse : Str) (kv : Str × CssVal) (res : Str) : Except Err Str :=
  match kv.2 with
  | .none => .ok res
  | .badList => .error .typeError
  | .text s => .ok (res ++ (cssKey lower kv.1 ++ ':' :: s ++ ';' :: collapse))
  | .list xs => .ok (res ++ (cssKey lower kv.1 ++ ':' :: joinStr [' '] xs ++ ';' :: collapse))

theorem cssLoop_fold (lower : Str → Str) (collapse : Str) (l : List (Str × CssVal)) (res : Str) :
    cssLoop lower collapse l res = l.foldlM (fun res kv => cssStep lower collapse kv res) res := by
  induction l generalizing res with
  | nil => rfl
  | cons kv t ih =>
    obtain ⟨k, v⟩ := kv
    cases v <;> simp only [cssLoop, List.foldlM_cons, cssStep] <;> first | exact ih _ | rfl

end HtmlVerif.SrcTie
