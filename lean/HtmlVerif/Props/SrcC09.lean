/-
Source tie (DESIGN §14) for tagifiable expansion: the Lean functions regenerated from the text of `TagList.tagify` and
`Tag.tagify` (a `mutual` pair, recursion bounded by fuel) compute, for every tree, what the model (`tagifyNodes`,
`tagifyTag`; Model/Tagify.lean) computes.  Obligations of C09.

Objects of foreign classes: the value their `tagify()` returns is part of the input (recorded in the instance, `tv`);
the theorems hold for every `tv` that agrees with the model (`TvOk`), and `tvSpec` is one, for every tree.
`copy(x)` is the value itself (Py/PrimC10.lean: values are immutable); `_tagchilds_to_tagnodes` is the primitive
`pyTagchildsToTagnodes`, defined only on a TagList of plain tag nodes — every TagList the tree type can express.

The loop body is never spelled out: `tagify_loop_k` (Lemmas/SrcC09.lean) takes it from the regenerated definition by
unification; what is proved about it is its effect on one pass, at index `len(pre)` of the working copy `pre ++ c :: post`.
-/
import HtmlVerif.Generated.Src
import HtmlVerif.Lemmas.SrcC09

set_option linter.unusedVariables false
set_option linter.unusedSimpArgs false

namespace HtmlVerif.SrcTie
open HtmlVerif HtmlVerif.Py HtmlVerif.Generated.Src

/-- the loop of `TagList.tagify`: given the tie for the tag children at this fuel, and that the value recorded for the
    `tagify()` of every foreign object among the items is the embedding of what the model says it returns -/
theorem src_taglist_tagify_step (h : TagList_tagify_available = true) (G : Globals) (tv : Node → PVal) (fuel : Nat) (ks : Nodes)
    (htv : ∀ c ∈ ks.toList, c.isTag = false → c.isTagifiable = true → tv c = embResult tv (specResult c))
    (HP : ∀ c ∈ ks.toList, c.isTag = true → Tag_tagify G fuel (embT tv c) = .ok (embT tv (tagifyTag c))) :
    TagList_tagify G (fuel + 1) (tagListOf (embTs tv ks)) = .ok (tagListOf (embTs tv (tagifyNodes ks))) := by
  first
  | exact absurd h (by decide)
  | rw [TagList_tagify]
    simp only [ok_bind, pure_eq_ok, truthy_bool, pyCopy_tagListOf, pyLenU_tagListOf, pyRange_nat, pyReversed_list, pyIter_list,
      embTs_toList, List.length_map]
    refine tagify_loop_k Prod.fst tv specResult ks.toList _ rfl _ ?step _ _ ?k
    case k =>
      intro s hs
      rw [hs, flatMap_specResult]
    case step =>
      intro pre c post s hc hs
      obtain ⟨s1, s2, s3, s4⟩ := s
      simp only at hs; subst hs
      have hget := pyGetItemU_at (pre.map (embT tv)) (embT tv c) (post.map (embT tv))
      have hset := fun v => pySetItemU_at (pre.map (embT tv)) (embT tv c) v (post.map (embT tv))
      have hsl := fun xs => pySetSliceU_at (pre.map (embT tv)) (embT tv c) (post.map (embT tv)) xs
      simp only [List.length_map] at hget hset hsl
      simp only [List.map_append, List.map_cons, hget, ok_bind, isTagifiable_embT, isMetaT_embT]
      cases c with
      | tag nm ws at' kk =>
        have hp := HP _ hc rfl
        have hcls : pyClassOf (embT tv (Node.tag nm ws at' kk)) = "Tag" := rfl
        simp only [Node.isTagifiable_tag, if_true, hcls, hp, ok_bind, not_taglist_embT, Bool.false_eq_true, if_false, hset]
        simp [stepSpec, specResult, tagifyTag, C09.C09_tagify_is_spec, TagifyResult.splice]
      | tobjL rh cc =>
        have hcls : pyClassOf (embT tv (Node.tobjL rh cc)) = "TagifyObj" := rfl
        have hv := htv _ hc rfl rfl
        have hty : pyTagifyObj (embT tv (Node.tobjL rh cc)) = .ok (tv (Node.tobjL rh cc)) := by
          simp [embT, pyTagifyObj, fieldGet?]
        simp only [Node.isTagifiable_tobjL, if_true, hcls, hty, ok_bind, hv, stepSpec]
        cases specResult (Node.tobjL rh cc) with
        | taglist ns =>
          have hi : isInstance (tagListOf (ns.map (embT tv))) ["TagList"] = true := by simp [tagListOf, isInstance]
          simp [embResult, hi, pyTagchilds_embT, pyAdd_int1, hsl, TagifyResult.splice]
        | single x => simp [embResult, not_taglist_embT, hset, TagifyResult.splice]
      | tobj1 rh cc =>
        have hcls : pyClassOf (embT tv (Node.tobj1 rh cc)) = "TagifyObj" := rfl
        have hv := htv _ hc rfl rfl
        have hty : pyTagifyObj (embT tv (Node.tobj1 rh cc)) = .ok (tv (Node.tobj1 rh cc)) := by
          simp [embT, pyTagifyObj, fieldGet?]
        simp only [Node.isTagifiable_tobj1, if_true, hcls, hty, ok_bind, hv, stepSpec]
        cases specResult (Node.tobj1 rh cc) with
        | taglist ns =>
          have hi : isInstance (tagListOf (ns.map (embT tv))) ["TagList"] = true := by simp [tagListOf, isInstance]
          simp [embResult, hi, pyTagchilds_embT, pyAdd_int1, hsl, TagifyResult.splice]
        | single x => simp [embResult, not_taglist_embT, hset, TagifyResult.splice]
      | mnode k => simp [Node.isMeta, pyCopy_meta tv (Node.mnode k) rfl, hset, stepSpec]
      | dep d hh hd => simp [Node.isMeta, pyCopy_meta tv (Node.dep d hh hd) rfl, hset, stepSpec]
      | text t => simp [Node.isMeta, stepSpec]
      | html t => simp [Node.isMeta, stepSpec]
      | robj t => simp [Node.isMeta, stepSpec]


/-- a tag: given the tie for its child list at this fuel -/
theorem src_tag_tagify_step (h : Tag_tagify_available = true) (G : Globals) (tv : Node → PVal) (fuel : Nat)
    (nm : Str) (ws : Bool) (at' : Attrs) (kk : Nodes)
    (HQ : TagList_tagify G fuel (tagListOf (embTs tv kk)) = .ok (tagListOf (embTs tv (tagifyNodes kk)))) :
    Tag_tagify G (fuel + 1) (embT tv (.tag nm ws at' kk)) = .ok (embT tv (tagifyTag (.tag nm ws at' kk))) := by
  first
  | exact absurd h (by decide)
  | rw [Tag_tagify]
    have hcp : pyCopy (embT tv (.tag nm ws at' kk)) = .ok (embT tv (.tag nm ws at' kk)) := by
      simp [embT, pyCopy, fieldGet?]
    have hcls : pyClassOf (tagListOf (embTs tv kk)) = "TagList" := rfl
    simp only [ok_bind, pure_eq_ok, hcp, getattr_tagT, hcls, HQ]
    simp [embT, pySetAttr, fieldSet, tagifyTag, tagListOf]

/-- both functions, for all trees of tag-nesting depth ≤ n, with any fuel that covers the depth -/
theorem src_tagify_depth (h1 : Tag_tagify_available = true) (h2 : TagList_tagify_available = true)
    (G : Globals) (tv : Node → PVal) (htv : TvOk tv) (n : Nat) :
    (∀ t : Node, t.isTag = true → nodeDepth t ≤ n → ∀ fuel, 2 * n ≤ fuel →
        Tag_tagify G fuel (embT tv t) = .ok (embT tv (tagifyTag t)))
    ∧ (∀ ks : Nodes, kidsDepth ks ≤ n → ∀ fuel, 2 * n + 1 ≤ fuel →
        TagList_tagify G fuel (tagListOf (embTs tv ks)) = .ok (tagListOf (embTs tv (tagifyNodes ks)))) := by
  have listOf : ∀ m, (∀ t : Node, t.isTag = true → nodeDepth t ≤ m → ∀ fuel, 2 * m ≤ fuel →
        Tag_tagify G fuel (embT tv t) = .ok (embT tv (tagifyTag t))) →
      ∀ ks : Nodes, kidsDepth ks ≤ m → ∀ fuel, 2 * m + 1 ≤ fuel →
        TagList_tagify G fuel (tagListOf (embTs tv ks)) = .ok (tagListOf (embTs tv (tagifyNodes ks))) := by
    intro m hP ks hd fuel hf
    obtain ⟨f, rfl⟩ : ∃ f, fuel = f + 1 := ⟨fuel - 1, by omega⟩
    exact src_taglist_tagify_step h2 G tv f ks (fun c _ => htv c)
      (fun c hc hct => hP c hct (Nat.le_trans (depth_mem ks c hc) hd) f (by omega))
  induction n with
  | zero =>
    refine ⟨?_, listOf 0 ?_⟩ <;>
    · intro t htag hd
      cases t <;> simp [Node.isTag] at htag
      simp [nodeDepth] at hd
  | succ n ih =>
    have hP : ∀ t : Node, t.isTag = true → nodeDepth t ≤ n + 1 → ∀ fuel, 2 * (n + 1) ≤ fuel →
        Tag_tagify G fuel (embT tv t) = .ok (embT tv (tagifyTag t)) := by
      intro t htag hd fuel hf
      cases t <;> simp [Node.isTag] at htag
      rename_i nm ws at' kk
      obtain ⟨f, rfl⟩ : ∃ f, fuel = f + 1 := ⟨fuel - 1, by omega⟩
      have hk : kidsDepth kk ≤ n := by simp [nodeDepth] at hd; omega
      exact src_tag_tagify_step h1 G tv f nm ws at' kk (ih.2 kk hk f (by omega))
    exact ⟨hP, listOf (n + 1) hP⟩


/-- `Tag.tagify()` as the source has it = `tagifyTag`, for every tag tree -/
theorem src_tagify_tag (h1 : Tag_tagify_available = true) (h2 : TagList_tagify_available = true)
    (G : Globals) (tv : Node → PVal) (htv : TvOk tv) (t : Node) (htag : t.isTag = true) (fuel : Nat)
    (hf : 2 * nodeDepth t ≤ fuel) :
    Tag_tagify G fuel (embT tv t) = .ok (embT tv (tagifyTag t)) :=
  (src_tagify_depth h1 h2 G tv htv (nodeDepth t)).1 t htag (Nat.le_refl _) fuel hf

/-- `TagList.tagify()` as the source has it = `tagifyNodes` (the backwards loop with slice / item assignment on a copy) -/
theorem src_tagify_list (h1 : Tag_tagify_available = true) (h2 : TagList_tagify_available = true)
    (G : Globals) (tv : Node → PVal) (htv : TvOk tv) (ks : Nodes) (fuel : Nat) (hf : 2 * kidsDepth ks + 1 ≤ fuel) :
    TagList_tagify G fuel (tagListOf (embTs tv ks)) = .ok (tagListOf (embTs tv (tagifyNodes ks))) :=
  (src_tagify_depth h1 h2 G tv htv (kidsDepth ks)).2 ks (Nat.le_refl _) fuel hf

/-- without hypothesis on the objects: every foreign object's `tagify()` returns what the model says (`tvSpec`) -/
theorem src_tagify_list_spec (h1 : Tag_tagify_available = true) (h2 : TagList_tagify_available = true)
    (G : Globals) (ks : Nodes) :
    TagList_tagify G (2 * kidsDepth ks + 1) (tagListOf (embTs tvSpec ks)) = .ok (tagListOf (embTs tvSpec (tagifyNodes ks))) :=
  src_tagify_list h1 h2 G tvSpec tvSpec_ok ks _ (Nat.le_refl _)

theorem src_tagify_tag_spec (h1 : Tag_tagify_available = true) (h2 : TagList_tagify_available = true)
    (G : Globals) (t : Node) (htag : t.isTag = true) :
    Tag_tagify G (2 * nodeDepth t) (embT tvSpec t) = .ok (embT tvSpec (tagifyTag t)) :=
  src_tagify_tag h1 h2 G tvSpec tvSpec_ok t htag _ (Nat.le_refl _)

end HtmlVerif.SrcTie
