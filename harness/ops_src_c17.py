"""Implementation side of the source tie for C17 (DESIGN §14): the real `wrap_displayhook_handler`, its inner function,
`Tag.__enter__`, `Tag.__exit__`, `Tag.append` and the application of function values, on real objects in an interpreter
state realised from the line.

  srcc17 <function> <displayhook : pval> L [ <heap object>… ] L [ <log entry>… ] [ <argument>… ]
      -> ok <pval> ;; <displayhook> L [ <heap object>… ] L [ <log entry>… ]  |  err <kind> ;; <state>  |  unsupported

The heap objects are real `Tag`s (`O Tag [ name … add_ws … attrs … children … prev_displayhook … ]`, the order of
`Tag.__init__`), a reference `O Tag [ __id__ I n ]` is the n-th of them (identity), `O recorder [ ]` is the one
recorder of the state (a callable object that appends to the log), `O closure [ fn S "wrap_displayhook_handler.<inner>"
captured L [ h ] ]` is `wrap_displayhook_handler(h)`, `O method [ self <ref> func S "Tag.append" ]` is the bound method.
`sys.displayhook` is set from the line, the function is called, and the whole state is read back — also after an
exception — and encoded the same way (function objects by their `__qualname__` / `__closure__`, bound methods by
`__self__` / `__func__`, a Tag by its `__dict__` in insertion order).  `sys.displayhook` is restored in `finally`.
"""
from __future__ import annotations

import dis
import sys
import types

import ops_src
from ops import op
from wire import Toks, ds, es

INNER_QUAL = "wrap_displayhook_handler.<inner>"
EXC = ops_src.EXC


class Unsupported(Exception):
    pass


# ------------------------------------------------------------------ terms
def parse(t: Toks):
    k = t.next()
    if k in ("N", "T", "F"):
        return (k,)
    if k == "I":
        return ("I", int(t.next()))
    if k in ("D", "S", "H"):
        return (k, ds(t.next()))
    if k in ("L", "U"):
        assert t.next() == "["
        xs = []
        while t.peek() != "]":
            xs.append(parse(t))
        t.next()
        return (k, xs)
    if k == "M":
        assert t.next() == "["
        kvs = []
        while t.peek() != "]":
            key = ds(t.next())
            kvs.append((key, parse(t)))
        t.next()
        return ("M", kvs)
    if k == "O":
        cls = t.next()
        assert t.next() == "["
        fs = []
        while t.peek() != "]":
            f = t.next()
            fs.append((f, parse(t)))
        t.next()
        return ("O", cls, fs)
    raise ValueError(f"bad pval {k}")


# ------------------------------------------------------------------ objects of the value kinds
class Recorder:
    def __init__(self):
        self.log = []

    def __call__(self, value):
        self.log.append(value)


class ReprObjC17:
    def __init__(self, text):
        self._t = text

    def _repr_html_(self):
        return self._t


class TagifyObjC17:
    def __init__(self, name):
        self.name = name

    def tagify(self):
        import htmltools
        return htmltools.Tag("span", self.name)


class TagifyReprObjC17(TagifyObjC17):
    def __init__(self, name, text):
        self.name = name
        self._t = text

    def _repr_html_(self):
        return self._t


class OpaqueC17:
    pass


class Env:
    def __init__(self, heap_terms):
        import htmltools
        self.tags = []
        for h in heap_terms:
            if not (h[0] == "O" and h[1] == "Tag"):
                raise Unsupported("heap object that is not a Tag")
            self.tags.append(htmltools.Tag("placeholder"))
        self.ids = {id(t): i for i, t in enumerate(self.tags)}
        self.recorder = Recorder()
        self.keep = []
        for tag, h in zip(self.tags, heap_terms):
            fields = h[2]
            if [f for f, _ in fields] != ["name", "add_ws", "attrs", "children", "prev_displayhook"]:
                raise Unsupported("heap Tag with other fields than Tag.__init__ sets")
            d = dict(fields)
            vals = {k: self.val(v) for k, v in fields}
            attrs = htmltools._core.TagAttrDict()
            dict.update(attrs, vals["attrs"])
            tag.__dict__.clear()
            tag.__dict__["name"] = vals["name"]
            tag.__dict__["add_ws"] = vals["add_ws"]
            tag.__dict__["attrs"] = attrs
            tag.__dict__["children"] = vals["children"]
            tag.__dict__["prev_displayhook"] = vals["prev_displayhook"]
            del d

    def val(self, v):
        import htmltools
        k = v[0]
        if k == "N":
            return None
        if k == "T":
            return True
        if k == "F":
            return False
        if k == "I":
            return v[1]
        if k == "D":
            return float(v[1])
        if k == "S":
            return v[1]
        if k == "H":
            return htmltools.HTML(v[1])
        if k == "L":
            return [self.val(x) for x in v[1]]
        if k == "U":
            return tuple(self.val(x) for x in v[1])
        if k == "M":
            return {key: self.val(x) for key, x in v[1]}
        cls, fs = v[1], v[2]
        names = [f for f, _ in fs]
        d = dict(fs)
        if cls == "Tag" and names == ["__id__"] and d["__id__"][0] == "I" and 0 <= d["__id__"][1] < len(self.tags):
            return self.tags[d["__id__"][1]]
        if cls == "recorder" and not fs:
            return self.recorder
        if cls == "ellipsis" and not fs:
            return ...
        if cls == "closure" and names == ["fn", "captured"] and d["fn"] == ("S", INNER_QUAL) and d["captured"][0] == "L" \
                and len(d["captured"][1]) == 1:
            return htmltools._core.wrap_displayhook_handler(self.val(d["captured"][1][0]))
        if cls == "method" and names == ["self", "func"] and d["func"] == ("S", "Tag.append"):
            obj = self.val(d["self"])
            if not isinstance(obj, htmltools.Tag) or id(obj) not in self.ids:
                raise Unsupported("bound method of something that is not a heap Tag")
            return obj.append
        if cls == "TagList" and names == ["data"] and d["data"][0] == "L":
            tl = htmltools.TagList()
            tl.data = [self.val(x) for x in d["data"][1]]     # below the normalising API: exactly these items
            return tl
        if cls == "ReprObj" and names == ["_repr_html_"] and d["_repr_html_"][0] == "S":
            return self.kept(ReprObjC17(d["_repr_html_"][1]))
        if cls == "TagifiableObj" and names == ["tagify", "name"] and d["name"][0] == "S":
            return self.kept(TagifyObjC17(d["name"][1]))
        if cls == "TagifiableObj" and names == ["tagify", "_repr_html_", "name"] and d["name"][0] == "S" and d["_repr_html_"][0] == "S":
            return self.kept(TagifyReprObjC17(d["name"][1], d["_repr_html_"][1]))
        if cls == "Opaque" and not fs:
            return self.kept(OpaqueC17())
        raise Unsupported(f"cannot realise an instance of {cls}")

    def kept(self, x):
        self.keep.append(x)
        return x

    # -------------------------------------------------------------- encode
    def enc(self, v, depth=0) -> str:
        import htmltools
        if depth > 40:
            raise Unsupported("cyclic value")
        if v is None:
            return "N"
        if v is True:
            return "T"
        if v is False:
            return "F"
        if v is ...:
            return "O ellipsis [ ]"
        if type(v) is int:
            return f"I {v}"
        if type(v) is float:
            return "D " + es(str(v))
        if type(v) is str:
            return "S " + es(v)
        if type(v) is htmltools.HTML:
            return "H " + es(v.as_string())
        if type(v) is list:
            return "L [ " + "".join(self.enc(x, depth + 1) + " " for x in v) + "]"
        if type(v) is tuple:
            return "U [ " + "".join(self.enc(x, depth + 1) + " " for x in v) + "]"
        if type(v) is dict or type(v) is htmltools._core.TagAttrDict:
            return "M [ " + "".join(es(k) + " " + self.enc(x, depth + 1) + " " for k, x in v.items()) + "]"
        if v is self.recorder:
            return "O recorder [ ]"
        if type(v) is htmltools.Tag:
            i = self.ids.get(id(v))
            return "O ForeignTag [ ]" if i is None else f"O Tag [ __id__ I {i} ]"
        if type(v) is htmltools.TagList:
            return "O TagList [ data " + self.enc(list(v.data), depth + 1) + " ]"
        if isinstance(v, types.FunctionType) and v.__qualname__.startswith("wrap_displayhook_handler.<locals>."):
            cells = dict(zip(v.__code__.co_freevars, (c.cell_contents for c in (v.__closure__ or ()))))
            order = []
            for ins in dis.get_instructions(v.__code__):     # first occurrence in the body, as the translator orders them
                if ins.opname in ("LOAD_DEREF", "LOAD_CLOSURE") and ins.argval in cells and ins.argval not in order:
                    order.append(ins.argval)
            order += [n for n in cells if n not in order]
            return (f"O closure [ fn S {es(INNER_QUAL)} captured L [ " + "".join(self.enc(cells[n], depth + 1) + " " for n in order)
                    + "] ]")
        if isinstance(v, types.MethodType) and type(v.__self__) is htmltools.Tag and v.__func__ is htmltools.Tag.append:
            return f"O method [ self {self.enc(v.__self__, depth + 1)} func S {es('Tag.append')} ]"
        if type(v) is ReprObjC17:
            return f"O ReprObj [ _repr_html_ S {es(v._t)} ]"
        if type(v) is TagifyReprObjC17:
            return f"O TagifiableObj [ tagify N _repr_html_ S {es(v._t)} name S {es(v.name)} ]"
        if type(v) is TagifyObjC17:
            return f"O TagifiableObj [ tagify N name S {es(v.name)} ]"
        if type(v) is OpaqueC17:
            return "O Opaque [ ]"
        return f"O Unknown_{type(v).__name__} [ ]"

    def enc_tag_object(self, tag) -> str:
        return "O Tag [ " + "".join(f"{k} {self.enc(x, 1)} " for k, x in tag.__dict__.items()) + "]"

    def state(self) -> str:
        return (self.enc(sys.displayhook) + " L [ " + "".join(self.enc_tag_object(t) + " " for t in self.tags) + "] L [ "
                + "".join(self.enc(x, 1) + " " for x in self.recorder.log) + "]")


def _call(f: str, a: list):
    import htmltools
    core = htmltools._core
    if f == "handler_wrapperC17":
        return core.wrap_displayhook_handler(a[0])(a[1])
    if f == "Tag_enterC17":
        return type(a[0]).__enter__(a[0]) if isinstance(a[0], htmltools.Tag) else _unsupported("self is not a heap Tag")
    if f == "Tag_exitC17":
        return type(a[0]).__exit__(a[0], a[1], a[2], a[3]) if isinstance(a[0], htmltools.Tag) else _unsupported("self is not a heap Tag")
    if f == "wrap_displayhook_handlerC17":
        return core.wrap_displayhook_handler(a[0])
    if f == "applyCallableC17":
        return a[0](*a[1])
    raise LookupError(f)


def _unsupported(why):
    raise Unsupported(why)


@op("srcc17")
def _srcc17(t: Toks) -> str:
    f = t.next()
    dh, heap, log = parse(t), parse(t), parse(t)
    assert t.next() == "["
    args = []
    while t.peek() != "]":
        args.append(parse(t))
    t.next()
    saved = sys.displayhook
    try:
        try:
            if heap[0] != "L" or log[0] != "L":
                raise Unsupported("heap / log")
            env = Env(heap[1])
            env.recorder.log.extend(env.val(x) for x in log[1])
            hook = env.val(dh)
            a = [env.val(x) for x in args]
        except (Unsupported, ImportError, AttributeError):
            return "unsupported"
        sys.displayhook = hook
        try:
            r = _call(f, a)
            out = "ok " + env.enc(r)
        except (Unsupported, LookupError, ImportError) as e:
            if isinstance(e, KeyError):
                out = "err KeyError"
            elif isinstance(e, IndexError):
                out = "err IndexError"
            else:
                return "unsupported"
        except RecursionError:
            return "unsupported"
        except Exception as e:  # noqa: BLE001
            out = "err Exception"
            for cls in type(e).__mro__:
                if cls.__name__ in EXC:
                    out = "err " + cls.__name__
                    break
        try:
            return out + " ;; " + env.state()
        except Unsupported:
            return "unsupported"
    finally:
        sys.displayhook = saved


# ------------------------------------------------------------------ `src Tag_appendC17 [ <Tag by value> U [ … ] ]`
def _append(a):
    import htmltools
    r = htmltools.Tag.append(a[0], *a[1])
    return a[0] if r is None else ("not-none", r)


ops_src.CALLS["Tag_appendC17"] = _append
ops_src.REALIZE["Opaque"] = lambda f: OpaqueC17()


def _encode(v, enc):
    """a Tag / TagList as the `__dict__` the by-value translation sees (fields in the order of `embNode`)"""
    import htmltools
    if type(v) is htmltools.Tag:
        return (f"O Tag [ name {enc(v.name)} attrs {enc(dict(v.attrs))} children {enc(v.children)} "
                f"add_ws {enc(v.add_ws)} ]")
    if type(v) is htmltools.TagList:
        return "O TagList [ data L [ " + "".join(enc(x) + " " for x in v.data) + "] ]"
    if type(v) is OpaqueC17:
        return "O Opaque [ ]"
    if type(v) is ops_src._Repr:
        return f"O ReprObj [ _repr_html_ S {es(v._t)} ]"
    if type(v) is ops_src._TagifiableRepr:
        return f"O TagifiableObj [ tagify N _repr_html_ S {es(v._t)} ]"
    if type(v) is ops_src._Tagifiable:
        return "O TagifiableObj [ tagify N ]"
    return None


ops_src.ENCODE.append(_encode)
