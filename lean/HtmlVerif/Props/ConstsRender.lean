/- Constants tie, rendering (obligations of C05, C06): indentation unit and defaults of get_html_string / Tag(). -/
import HtmlVerif.Lemmas.ConstTie
import HtmlVerif.Model.Render

namespace HtmlVerif.ConstsRender
open HtmlVerif HtmlVerif.Generated HtmlVerif.ConstTie

theorem indent_unit : (strIs indentUnitTag [' ', ' '] && strIs indentUnitList [' ', ' ']) = true := by decide +kernel

theorem indentStr_is_units (n : Nat) : indentStr n = (List.replicate n [' ', ' ']).flatten := by
  induction n with
  | zero => rfl
  | succ k ih =>
    have : indentStr (k + 1) = indentStr k ++ [' ', ' '] := by
      show List.replicate (2 * (k + 1)) ' ' = List.replicate (2 * k) ' ' ++ [' ', ' ']
      have e : 2 * (k + 1) = 2 * k + 1 + 1 := by omega
      rw [e, List.replicate_succ', List.replicate_succ']; simp
    rw [this, ih, List.replicate_succ']
    simp

/-- indent 0, eol "\n", add_ws True, escaping on, Tag(_add_ws=True) -/
theorem render_defaults :
    (dfltNat dTagIndent 0 && dfltStr dTagEol (some ['\n']) && dfltNat dListIndent 0 && dfltStr dListEol (some ['\n'])
      && dfltBool dListAddWs true && dfltBool dListEscape true && dfltBool dTagAddWs true) = true := by decide +kernel

end HtmlVerif.ConstsRender
