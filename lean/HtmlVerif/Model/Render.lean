/-
Tag.get_html_string (_core.py:853-908) and TagList.get_html_string (_core.py:381-461).
The Python loop state (first_child, prev_was_add_ws) is carried explicitly.
-/
import HtmlVerif.Model.Escape
import HtmlVerif.Model.Tree

namespace HtmlVerif

/-- the attribute writer: `HTML` values verbatim, others `html_escape(val, attr=True)` -/
def emitAttrVal (cfg : Cfg) : AttrVal → Str
  | .plain s => htmlEscapeT cfg.attrTbl s
  | .html s => s

def renderAttrs (cfg : Cfg) : Attrs → Str
  | [] => []
  | (k, v) :: r => ' ' :: k ++ '=' :: '"' :: emitAttrVal cfg v ++ '"' :: renderAttrs cfg r

/-- `_normalize_text` on a plain string -/
def escText (cfg : Cfg) (s : Str) : Str := htmlEscapeT cfg.textTbl s

def openTag (cfg : Cfg) (name : Str) (attrs : Attrs) : Str :=
  '<' :: name ++ renderAttrs cfg attrs

def closeTag (name : Str) : Str := '<' :: '/' :: name ++ ['>']

/-- what the ReprHtml branch of the child loop emits for a node, if it takes that branch -/
def Node.reprHtml? : Node → Option Str
  | .html s => some s
  | .robj s => some s
  | .tobjL rh _ => rh
  | .tobj1 rh _ => rh
  | _ => none

/-- `len(children) == 1 and isinstance(children[0], (str, HTML))`: the single text child, and whether it is `HTML` -/
def inlineChild? : List Node → Option (Str × Bool)
  | [.text s] => some (s, false)
  | [.html s] => some (s, true)
  | _ => none

/-- what the single-child exit writes between the tags: `str(child)` under script/style,
    else `_normalize_text(child)` (HTML verbatim, str escaped) -/
def inlineText (cfg : Cfg) (name : Str) (c : Str × Bool) : Str :=
  if cfg.noesc.contains name then c.1 else if c.2 then c.1 else escText cfg c.1

mutual
  /-- `Tag.get_html_string(indent, eol)`; `[]` on non-tags (never used there) -/
  def Node.render (cfg : Cfg) : Node → Nat → Str → Str
    | .tag name ws attrs kids, indent, eol =>
      let hd := indentStr indent ++ openTag cfg name attrs
      if kids.visible.isEmpty then
        -- `len(children) == 0`: void names self-close, others are enclosed
        if cfg.void.contains name then hd ++ ['/', '>'] else hd ++ '>' :: closeTag name
      else match inlineChild? kids.visible with
        | some c => hd ++ '>' :: inlineText cfg name c ++ closeTag name
        | none =>
          hd ++ '>' :: (if ws then eol else [])
            ++ kids.renderKids cfg (indent + 1) eol true ws (!cfg.noesc.contains name)
            ++ (if ws then eol ++ indentStr indent else []) ++ closeTag name
    | _, _, _ => []
  /-- the `for child in self:` loop of TagList.get_html_string -/
  def Nodes.renderKids (cfg : Cfg) : Nodes → Nat → Str → Bool → Bool → Bool → Str
    | .nil, _, _, _, _, _ => []
    | .cons h t, indent, eol, first, prevWs, esc =>
      match h with
      | .mnode _ => t.renderKids cfg indent eol first prevWs esc
      | .dep .. => t.renderKids cfg indent eol first prevWs esc
      | .tag _ ws _ _ =>
        let pc := prevWs || ws
        (if !first && pc then eol else [])
          ++ (if pc then h.render cfg indent eol else h.render cfg 0 [])
          ++ t.renderKids cfg indent eol false ws esc
      | .text s =>
        (if !first && prevWs then eol else [])
          ++ (if prevWs then indentStr indent else [])
          ++ (if esc then escText cfg s else s)
          ++ t.renderKids cfg indent eol false false esc
      | .html s =>
        (if !first && prevWs then eol else []) ++ (if prevWs then indentStr indent else [])
          ++ s ++ t.renderKids cfg indent eol false false esc
      | .robj s =>
        (if !first && prevWs then eol else []) ++ (if prevWs then indentStr indent else [])
          ++ s ++ t.renderKids cfg indent eol false false esc
      | .tobjL rh _ =>
        -- ReprHtml is tested before Tagifiable: a self-rendering object renders; otherwise the
        -- real code raises (see `Nodes.hasTobj` / `renderChecked`), and the total model emits nothing
        (if !first && prevWs then eol else []) ++ (if prevWs then indentStr indent else [])
          ++ rh.getD [] ++ t.renderKids cfg indent eol false false esc
      | .tobj1 rh _ =>
        (if !first && prevWs then eol else []) ++ (if prevWs then indentStr indent else [])
          ++ rh.getD [] ++ t.renderKids cfg indent eol false false esc
end

/-- `TagList.get_html_string(indent, eol, add_ws=…, _escape_strings=…)` -/
def renderList (cfg : Cfg) (ks : Nodes) (indent : Nat) (eol : Str) (addWs esc : Bool) : Str :=
  ks.renderKids cfg indent eol true addWs esc

mutual
  /-- does rendering reach an un-expanded tagifiable object that is not self-rendering?
      (the child loop only descends through tags that do not take an early exit) -/
  def Node.hasTobj : Node → Bool
    | .tag _ _ _ kids =>
      if kids.visible.isEmpty then false
      else match inlineChild? kids.visible with
        | some _ => false
        | none => kids.hasTobjKids
    | _ => false
  def Nodes.hasTobjKids : Nodes → Bool
    | .nil => false
    | .cons h t =>
      (match h with
        | .tobjL none _ => true
        | .tobj1 none _ => true
        | .tag .. => h.hasTobj
        | _ => false) || t.hasTobjKids
end

inductive Err
  | typeError | valueError | keyError | runtimeError | notImplemented | exception
  deriving DecidableEq, Repr, Inhabited

/-- `get_html_string` including the RuntimeError for un-tagified objects -/
def renderTagChecked (cfg : Cfg) (n : Node) (indent : Nat) (eol : Str) : Except Err Str :=
  if n.hasTobj then .error .runtimeError else .ok (n.render cfg indent eol)

def renderListChecked (cfg : Cfg) (ks : Nodes) (indent : Nat) (eol : Str) (addWs esc : Bool) :
    Except Err Str :=
  if ks.hasTobjKids then .error .runtimeError else .ok (renderList cfg ks indent eol addWs esc)

end HtmlVerif
