/-
String level of C13: what `json.dumps` writes for a string is read back by the string scanner.
-/
import HtmlVerif.Model.Json

namespace HtmlVerif

theorem hexVal_hexDigit_fin : ∀ d : Fin 16, hexVal? (hexDigit d.val) = some d.val := by decide

theorem hexVal_hexDigit (d : Nat) (h : d < 16) : hexVal? (hexDigit d) = some d :=
  hexVal_hexDigit_fin ⟨d, h⟩

theorem hex4?_cons (a b c d : Char) (r : Str) (va vb vc vd : Nat) (ha : hexVal? a = some va)
    (hb : hexVal? b = some vb) (hc : hexVal? c = some vc) (hd : hexVal? d = some vd) :
    hex4? (a :: b :: c :: d :: r) = some (((va * 16 + vb) * 16 + vc) * 16 + vd, r) := by
  rw [hex4?, ha, hb, hc, hd]; rfl

theorem hex4?_hex4 (n : Nat) (h : n < 65536) (r : Str) : hex4? (hex4 n ++ r) = some (n, r) := by
  have h3 := hexVal_hexDigit (n / 4096 % 16) (Nat.mod_lt _ (by decide))
  have h2 := hexVal_hexDigit (n / 256 % 16) (Nat.mod_lt _ (by decide))
  have h1 := hexVal_hexDigit (n / 16 % 16) (Nat.mod_lt _ (by decide))
  have h0 := hexVal_hexDigit (n % 16) (Nat.mod_lt _ (by decide))
  have e : ((n / 4096 % 16 * 16 + n / 256 % 16) * 16 + n / 16 % 16) * 16 + n % 16 = n := by omega
  show hex4? (_ :: _ :: _ :: _ :: r) = _
  rw [hex4?_cons _ _ _ _ r _ _ _ _ h3 h2 h1 h0, e]

theorem char_valid_range (c : Char) : c.toNat < 0xD800 ∨ (0xDFFF < c.toNat ∧ c.toNat < 0x110000) :=
  c.valid

theorem strUnit?_uEsc (n : Nat) (h : n < 65536) (hs : ¬ (0xD800 ≤ n ∧ n < 0xE000)) (tail : Str) :
    strUnit? (uEsc n ++ tail) = some (Char.ofNat n, tail) := by
  have h1 : ¬ (0xD800 ≤ n ∧ n < 0xDC00) := by omega
  have h2 : ¬ (0xDC00 ≤ n ∧ n < 0xE000) := by omega
  simp [uEsc, strUnit?, hex4?_hex4 n h, h1, h2]

theorem strUnit?_pair (hi lo : Nat) (hh : 0xD800 ≤ hi ∧ hi < 0xDC00) (hl : 0xDC00 ≤ lo ∧ lo < 0xE000) (tail : Str) :
    strUnit? (uEsc hi ++ uEsc lo ++ tail) =
      some (Char.ofNat (0x10000 + (hi - 0xD800) * 0x400 + (lo - 0xDC00)), tail) := by
  have e : uEsc hi ++ uEsc lo ++ tail = '\\' :: 'u' :: (hex4 hi ++ ('\\' :: 'u' :: (hex4 lo ++ tail))) := by
    simp [uEsc]
  rw [e]
  simp [strUnit?, hex4?_hex4 hi (by omega), hex4?_hex4 lo (by omega), hh, hl]

/-- one escaped character is read back as that character -/
theorem strUnit?_esc (c : Char) (tail : Str) : strUnit? (escChar c ++ tail) = some (c, tail) := by
  unfold escChar
  by_cases h1 : c = '"'
  · subst h1; simp [strUnit?, simpleEsc?]
  by_cases h2 : c = '\\'
  · subst h2; simp [strUnit?, simpleEsc?]
  by_cases h3 : c = '\n'
  · subst h3; simp [strUnit?, simpleEsc?]
  by_cases h4 : c = '\r'
  · subst h4; simp [strUnit?, simpleEsc?]
  by_cases h5 : c = '\t'
  · subst h5; simp [strUnit?, simpleEsc?]
  by_cases h6 : c = Char.ofNat 8
  · subst h6; simp [strUnit?, simpleEsc?]
  by_cases h7 : c = Char.ofNat 12
  · subst h7; simp [strUnit?, simpleEsc?]
  simp only [h1, h2, h3, h4, h5, h6, h7, if_false]
  by_cases hp : 0x20 ≤ c.toNat ∧ c.toNat ≤ 0x7E
  · have : ¬ c.toNat < 32 := by omega
    simp [hp, strUnit?, h2, this]
  simp only [hp, if_false]
  have hv := char_valid_range c
  by_cases hb : c.toNat < 0x10000
  · simp only [hb, if_true]
    rw [strUnit?_uEsc c.toNat hb (by omega) tail, Char.ofNat_toNat]
  · simp only [hb, if_false]
    rw [strUnit?_pair _ _ (by omega) (by omega) tail]
    have : 0x10000 + (0xD800 + (c.toNat - 0x10000) / 0x400 - 0xD800) * 0x400
        + (0xDC00 + (c.toNat - 0x10000) % 0x400 - 0xDC00) = c.toNat := by omega
    rw [this, Char.ofNat_toNat]

/-- an escaped character never starts with the closing quote -/
theorem escChar_head (c : Char) : ∃ x r, escChar c = x :: r ∧ x ≠ '"' := by
  unfold escChar
  by_cases h1 : c = '"'
  · exact ⟨'\\', ['"'], by simp [h1], by decide⟩
  simp only [h1, if_false]
  repeat' split
  all_goals first
    | exact ⟨'\\', _, rfl, by decide⟩
    | exact ⟨c, [], rfl, h1⟩
    | exact ⟨'\\', _, by simp [uEsc]; rfl, by decide⟩

/-- a string-body encoder that the scanner inverts, whatever follows the closing quote
    (fuel: more than the length of the encoded body) -/
def BodyOK (enc : Str → Str) : Prop :=
  ∀ (s rest : Str) (f : Nat), (enc s).length < f → parseStrBody f (enc s ++ '"' :: rest) = some (s, rest)

theorem parseStrBody_step (f : Nat) (piece tail : Str) (c : Char)
    (hhead : ∃ x r, piece = x :: r ∧ x ≠ '"') (hu : strUnit? (piece ++ tail) = some (c, tail)) :
    parseStrBody (f + 1) (piece ++ tail) = (parseStrBody f tail).map fun p => (c :: p.1, p.2) := by
  obtain ⟨x, r, rfl, hx⟩ := hhead
  simp only [List.cons_append] at hu ⊢
  rw [parseStrBody]
  simp only [hx, if_false, hu]
  cases parseStrBody f tail <;> rfl

theorem escBody_parse (s rest : Str) (f : Nat) (hf : s.length < f) :
    parseStrBody f (escBody s ++ '"' :: rest) = some (s, rest) := by
  induction s generalizing f with
  | nil =>
    obtain ⟨f, rfl⟩ : ∃ g, f = g + 1 := ⟨f - 1, by simp at hf; omega⟩
    simp [escBody, parseStrBody]
  | cons c cs ih =>
    obtain ⟨f, rfl⟩ : ∃ g, f = g + 1 := ⟨f - 1, by simp at hf; omega⟩
    have e : escBody (c :: cs) ++ '"' :: rest = escChar c ++ (escBody cs ++ '"' :: rest) := by
      simp [escBody]
    rw [e, parseStrBody_step f _ _ c (escChar_head c) (strUnit?_esc c _), ih f (by simp at hf; omega)]
    rfl

theorem escBody_length (s : Str) : s.length ≤ (escBody s).length := by
  induction s with
  | nil => simp [escBody]
  | cons c cs ih =>
    obtain ⟨x, r, e, _⟩ := escChar_head c
    have : escBody (c :: cs) = escChar c ++ escBody cs := by simp [escBody]
    rw [this, e]; simp; omega

theorem escBody_ok : BodyOK escBody := fun s rest f hf =>
  escBody_parse s rest f (Nat.lt_of_le_of_lt (escBody_length s) hf)

/-- `json.loads(json.dumps(s)) == s` for every string over all Unicode scalar values -/
theorem jsonParseStr_jsonStr (s : Str) : jsonParseStr (jsonStr s) = some s := by
  have h := escBody_parse s [] ((escBody s).length + 1)
    (by have := escBody_length s; omega)
  simp [jsonParseStr, jsonStr, h]

end HtmlVerif
