"""Value generators for the `src` lines of C20 (htmltools/_jsx.py): every value shape `_serialize_attr`,
`_serialize_style_attr` and `_render_react_js` can meet — None, bool, int, finite and non-finite floats, str, jsx,
HTML, lists / tuples / dicts of such (nested), html Tags and JSXTags as prop values and as children, metadata nodes,
un-expanded tagifiable objects, instances of other classes."""
from __future__ import annotations

from wire import es

TEXTS = ["", "a", 'a"b', '"', '""', "a\\b", '\\"', "a\nb", "x y", "é", "😀", "a:b", "a;b", "{}", "() => 1", "'q'", "True", "inf", "nan"]
STYLES = ["", ";", "a", "a:b", "a:b;c:d", "a:b;", ";a:b", "a:b:c", "a:b;a:c", "a:b;c", 'color:"red"', "a::", ":", "a:b;x:y:z", " a : b ", "k:v;k:w;j:u"]
NAMES = ["Foo", "a.B", "X", "div", "my-tag", ""]
KEYS = ["id", "style", "className", "data-x", "on_click", "a\"b", "", "x"]
FLOATS = ["1.5", "0.0", "-0.0", "2.0", "1e+100", "1e-07", "0.1", "-3.25", "inf", "-inf", "nan", "123456789.125"]
INTS = [0, 1, -1, 7, 10, 255, -300, 10 ** 12, -(10 ** 20)]


def extra():
    """literals the source has gained since the aligned tree (change-directed generation, DESIGN §14.4)"""
    try:
        import gen
        return [w for w in gen.EXTRA if isinstance(w, str)]
    except Exception:  # noqa: BLE001
        return []


def S(s):
    return "S " + es(s)


def J(s):
    return "O jsx [ __str__ S " + es(s) + " ]"


def H(s):
    return "H " + es(s)


def text(rng):
    ex = extra()
    if ex and rng.random() < 0.2:
        return rng.choice(ex)
    return rng.choice(TEXTS) if rng.random() < 0.8 else "".join(rng.choice('a"\\\n :;é') for _ in range(rng.randint(0, 6)))


def strlike(rng):
    r = rng.random()
    return S(text(rng)) if r < 0.5 else (J(text(rng)) if r < 0.8 else H(text(rng)))


def other(rng):
    return rng.choice(["O Other [ ]", "O Other [ __str__ S " + es(text(rng)) + " ]", "O MetadataNode [ id I 1 ]",
                       "O HTMLDependency [ name S " + es("dep") + " ]", "O TagifiableObj [ tagify N ]",
                       "O TagList [ data L [ ] ]"])


def scalar(rng):
    r = rng.random()
    if r < 0.12:
        return "N"
    if r < 0.24:
        return rng.choice(["T", "F"])
    if r < 0.36:
        return "I " + str(rng.choice(INTS))
    if r < 0.52:
        return "D " + es(rng.choice(FLOATS))
    if r < 0.97:
        return strlike(rng)
    return other(rng)


def dict_of(rng, d, keys=None, style=False):
    n = rng.choice([0, 1, 1, 2, 3])
    ks = []
    for _ in range(n):
        k = rng.choice((keys or KEYS) + extra())
        if k not in ks:
            ks.append(k)
    return "M [ " + "".join(es(k) + " " + (style_val(rng, d) if (style and k == "style") else jval(rng, d)) + " " for k in ks) + "]"


def jval(rng, d):
    """a prop value"""
    r = rng.random()
    if d <= 0 or r < 0.5:
        return scalar(rng)
    if r < 0.65:
        return rng.choice(["L", "U"]) + " [ " + "".join(jval(rng, d - 1) + " " for _ in range(rng.choice([0, 1, 2, 3]))) + "]"
    if r < 0.8:
        return dict_of(rng, d - 1)
    return node(rng, d - 1, leaf=False)


def style_val(rng, d):
    r = rng.random()
    ex = extra()
    if ex and r < 0.1:
        return S(rng.choice(ex))
    if r < 0.45:
        return S(rng.choice(STYLES))
    if r < 0.55:
        return J(rng.choice(STYLES))
    if r < 0.62:
        return H(rng.choice(STYLES))
    if r < 0.70:
        return "N"
    if r < 0.85:
        return dict_of(rng, d)
    return jval(rng, d)


def taglist(rng, d):
    n = rng.choice([0, 0, 1, 2, 3]) if d > 0 else rng.choice([0, 0, 1])
    return "O TagList [ data L [ " + "".join(node(rng, d - 1) + " " for _ in range(n)) + "] ]"


def tag_attrs(rng):
    ks = rng.sample(["class", "style", "id", "data-x"], rng.choice([0, 0, 1, 2]))
    return "M [ " + "".join(es(k) + " " + ((S if rng.random() < 0.75 else H)(rng.choice(STYLES) if k == "style" else text(rng))) + " " for k in ks) + "]"


def node(rng, d, leaf=True):
    """a child (or, with leaf=False, a tag / component used as a prop value)"""
    r = rng.random()
    if leaf and (d <= 0 or r < 0.35):
        q = rng.random()
        if q < 0.6:
            return strlike(rng)
        if q < 0.8:
            return rng.choice(["O MetadataNode [ id I 1 ]", "O HTMLDependency [ name S " + es("dep") + " ]"])
        return rng.choice(["O TagifiableObj [ tagify N ]", "O Other [ ]", "N", "I 3", "L [ ]", "O TagList [ data L [ ] ]"])
    if r < 0.7:
        return (f"O JSXTag [ name {(J if rng.random() < 0.05 else S)(rng.choice(NAMES))} attrs {dict_of(rng, max(d, 0), style=True)} "
                f"children {taglist(rng, d)} ]")
    return (f"O Tag [ name {S(rng.choice(NAMES))} attrs {tag_attrs(rng)} children {taglist(rng, d)} "
            f"add_ws {rng.choice(['T', 'F'])} ]")


def register(GENS):
    def raw_name(rng):
        ex = [v for w in extra() for v in (w, w.replace("-", "_"), w + "_", w.replace("-", "_") + "_")]
        if ex and rng.random() < 0.4:
            return rng.choice(ex)
        return rng.choice(["", "_", "__", "a", "a_", "a__", "_a", "class_", "data_x_y", "x-y_", "é_", "a_b_"]
                          + ["".join(rng.choice("a_-é") for _ in range(rng.randint(0, 5)))])

    GENS["JSX_normalize_attr_name"] = lambda rng: "[ " + S(raw_name(rng)) + " ]"
    GENS["serialize_attr"] = lambda rng: f"[ {jval(rng, rng.choice([0, 1, 2, 3]))} ]"
    GENS["serialize_style_attr"] = lambda rng: f"[ {style_val(rng, rng.choice([0, 1, 2]))} ]"
    def eol(rng):
        e = rng.choice([chr(10), chr(10), "", " ", chr(13) + chr(10)])
        return J(e) if rng.random() < 0.05 else S(e)        # (a jsx string as eol: `+` on jsx operands)

    GENS["render_react_js"] = lambda rng: (f"[ {node(rng, rng.choice([0, 1, 2, 3]), leaf=rng.random() < 0.3)} "
                                           f"I {rng.choice([0, 0, 1, 2, 5])} {eol(rng)} ]")


def check_prims() -> int:
    """`python harness/srctie_c20.py --prims`: the primitives of lean/HtmlVerif/Py/PrimC20.lean that the `src` lines reach
    only on a few arguments (floatPositive, nonFiniteText, the nan test, splitChar, pyLowerJ) evaluated by Lean (`#eval`) and
    by the running interpreter on the same arguments"""
    import math
    import os
    import random
    import subprocess
    import tempfile
    rng = random.Random(1)

    def L(s):
        return "[" + ", ".join("Char.ofNat %d" % ord(c) for c in s) + "]"

    floats = [0.0, -0.0, 1.5, -1.5, 1e-7, -1e-7, 1e100, 5e-324, -5e-324, float("inf"), float("-inf"), float("nan"), 0.001,
              100.0, 1e22, 1e16, 123456.789, 2.0, -3.25] + [rng.uniform(-1, 1) * 10 ** rng.randint(-30, 30) for _ in range(60)]
    strs = ["", ";", "a", "a;b", ";;", "a;;b;", ";a", "a:b:c", "é;x"] + [
        "".join(rng.choice("a;:é") for _ in range(rng.randint(0, 7))) for _ in range(60)]
    lows = ["True", "False", "ABCxyz[]@`{", "Az09_-", "", "Zé", "\x7f~"]
    out = ["import HtmlVerif.Py.PrimC20", "open HtmlVerif HtmlVerif.Py",
           'def enc (l : List Str) : String := String.intercalate "|" (l.map fun s => String.intercalate "." (s.map fun c => toString c.toNat))']
    exp = []
    for f in floats:
        t = str(f)
        out.append(f'#eval (floatPositive {L(t)}, nonFiniteText {L(t)}, {L(t)} == "nan".toList)')
        exp.append(f"({str(f > 0).lower()}, {str(not math.isfinite(f)).lower()}, {str(math.isnan(f)).lower()})")
    for s in strs:
        for c in ";:":
            out.append(f"#eval enc (splitChar (Char.ofNat {ord(c)}) {L(s)})")
            exp.append('"' + "|".join(".".join(str(ord(ch)) for ch in p) for p in s.split(c)) + '"')
    for s in lows:
        out.append(f'#eval match pyLowerJ (.str {L(s)}) with | .ok (.str r) => enc [r] | _ => "unsupported"')
        exp.append('"' + (".".join(str(ord(ch)) for ch in s.lower()) if all(ord(c) < 128 for c in s) else "unsupported") + '"')
    lean = os.path.join(os.path.dirname(os.path.dirname(os.path.abspath(__file__))), "lean")
    with tempfile.NamedTemporaryFile("w", suffix=".lean", delete=False) as f:
        f.write("\n".join(out) + "\n")
        path = f.name
    try:
        r = subprocess.run(["lake", "-d", lean, "env", "lean", path], capture_output=True, text=True)
    finally:
        os.unlink(path)
    got = r.stdout.strip().split("\n")
    bad = [(i, g, e) for i, (g, e) in enumerate(zip(got, exp)) if g != e]
    print(f"{len(exp)} evaluations, {len(bad)} mismatches", bad[:5], r.stderr[:300])
    return 1 if bad or len(got) != len(exp) else 0


if __name__ == "__main__":
    import sys
    sys.path.insert(0, __import__("os").path.dirname(__import__("os").path.abspath(__file__)))
    sys.exit(check_prims() if "--prims" in sys.argv else 0)
