/-
C07 — Metadata nodes leave no trace in the markup.
-/
import HtmlVerif.Spec.Meta
import HtmlVerif.Lemmas.Render

namespace HtmlVerif.C07
open HtmlVerif

theorem visible_stripMeta (ks : Nodes) :
    ks.stripMeta.visible = ks.visible.map Node.stripMeta := by
  induction ks using Nodes.rec (motive_1 := fun _ => True) with
  | nil => simp [Nodes.stripMeta, Nodes.visible]
  | cons h t _ ih =>
    cases h <;> simp_all [Nodes.stripMeta, Nodes.visible, Node.isMeta, Node.stripMeta]
  | _ => trivial

theorem inlineChild?_stripMeta (v : List Node) :
    inlineChild? (v.map Node.stripMeta) = inlineChild? v := by
  match v with
  | [] => rfl
  | [a] => cases a <;> simp [Node.stripMeta, inlineChild?]
  | a :: b :: r => simp

mutual
  /-- rendering a tag is unchanged by deleting all metadata nodes below it -/
  theorem C07_tag (cfg : Cfg) (n : Node) (i : Nat) (e : Str) :
      n.stripMeta.render cfg i e = n.render cfg i e := by
    cases n with
    | tag name ws attrs kids =>
      have hv := visible_stripMeta kids
      have hk := C07_kids cfg kids
      simp only [Node.stripMeta, Node.render]
      rw [hv, inlineChild?_stripMeta, hk]
      simp
    | _ => simp [Node.stripMeta]
  theorem C07_kids (cfg : Cfg) (ks : Nodes) (i : Nat) (e : Str) (first prevWs esc : Bool) :
      ks.stripMeta.renderKids cfg i e first prevWs esc = ks.renderKids cfg i e first prevWs esc := by
    cases ks with
    | nil => simp [Nodes.stripMeta]
    | cons h t =>
      have ht := C07_kids cfg t
      cases h with
      | tag n w a k =>
        have hh := C07_tag cfg (.tag n w a k)
        simp only [Node.stripMeta] at hh
        simp [Nodes.stripMeta, Node.isMeta, Nodes.renderKids, Node.stripMeta, ht, hh]
      | _ => simp [Nodes.stripMeta, Node.isMeta, Nodes.renderKids, Node.stripMeta, ht]
end

/-- top-level list form -/
theorem C07_list (cfg : Cfg) (ks : Nodes) (i : Nat) (e : Str) (aw esc : Bool) :
    renderList cfg ks.stripMeta i e aw esc = renderList cfg ks i e aw esc :=
  C07_kids cfg ks i e true aw esc

/-- any insertion/removal of metadata nodes at any set of positions: two trees with the same
    metadata-free skeleton render identically, for every indent and eol -/
theorem C07_insert_remove (cfg : Cfg) (t t' : Node) (h : t.stripMeta = t'.stripMeta) (i : Nat) (e : Str) :
    t.render cfg i e = t'.render cfg i e := by
  rw [← C07_tag cfg t, ← C07_tag cfg t', h]

theorem C07_insert_remove_list (cfg : Cfg) (ks ks' : Nodes) (h : ks.stripMeta = ks'.stripMeta)
    (i : Nat) (e : Str) (aw esc : Bool) :
    renderList cfg ks i e aw esc = renderList cfg ks' i e aw esc := by
  rw [← C07_list cfg ks, ← C07_list cfg ks', h]

/-- non-vacuity: a tree with metadata in first / middle / only-child positions -/
example : (Node.tag ['d'] true [] (.cons (.mnode 0) (.cons (.text ['a']) (.cons (.mnode 1)
    (.cons (.tag ['b','r'] false [] (.cons (.mnode 2) .nil)) .nil))))).stripMeta
    = Node.tag ['d'] true [] (.cons (.text ['a']) (.cons (.tag ['b','r'] false [] .nil) .nil)) := by
  simp [Node.stripMeta, Nodes.stripMeta, Node.isMeta]

end HtmlVerif.C07
