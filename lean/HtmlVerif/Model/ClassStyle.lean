/-
Tag.add_class / remove_class / has_class / add_style (_core.py:730-842) and css() (_util.py:25-76).

What the Python *runtime* contributes is a parameter:
  `sp    : Char → Bool`  — `str.isspace` (used by `str.split()` and `str.strip()`),
  `lower : Str → Str`    — `str.lower` (a whole-string function: CPython's is per-character except for
                            the Greek final sigma, so the per-character form is a *hypothesis* of the
                            statements that need it, not part of the model).
The tag is represented by the part of its state these methods touch (`Attrs`); `TagObj` adds the
object identity needed to say "returns the tag itself" and "leaves the tag unmodified".
-/
import HtmlVerif.Model.Attrs

namespace HtmlVerif

/-! ### `str.split()` / `str.strip()` for a whitespace predicate -/

/-- split at *every* whitespace character, keeping empty pieces (never returns `[]`) -/
def splitAll (sp : Char → Bool) : Str → List Str
  | [] => [[]]
  | c :: r =>
    if sp c then [] :: splitAll sp r
    else match splitAll sp r with
      | [] => [[c]]
      | h :: t => (c :: h) :: t

/-- `s.split()`: the maximal whitespace-free runs of `s`, in order (no empty strings) -/
def tokens (sp : Char → Bool) (s : Str) : List Str :=
  (splitAll sp s).filter fun t => !t.isEmpty

/-- `s.rstrip()` -/
def rstrip (sp : Char → Bool) (s : Str) : Str := (s.reverse.dropWhile sp).reverse

/-- `s.strip()` -/
def strip (sp : Char → Bool) (s : Str) : Str := rstrip sp (s.dropWhile sp)

/-- `s.endswith(";")` -/
def endsSemi (s : Str) : Bool := s.getLast? == some ';'

def classKey : Str := ['c', 'l', 'a', 's', 's']
def styleKey : Str := ['s', 't', 'y', 'l', 'e']

/-- `self.attrs.get(k)` handed back to `update` as a value: the stored `str | HTML`, or `None` -/
def getArg (k : Str) (a : Attrs) : AttrArg :=
  match alookup k a with
  | some (.plain s) => .str s
  | some (.html s) => .html s
  | none => .none

/-- the text of `self.attrs.get(k) or ""` -/
def textOf (k : Str) (a : Attrs) : Str :=
  match alookup k a with
  | some v => v.str
  | none => []

/-- `dict.pop(k)` (KeyError when absent) -/
def dictPop (k : Str) : Attrs → Except Err Attrs
  | [] => .error .keyError
  | (k', v) :: r =>
    if k' = k then .ok r
    else match dictPop k r with
      | .error e => .error e
      | .ok r' => .ok ((k', v) :: r')

/-- `Tag.add_class` (_core.py:747-751): one `update` call with two one-item dicts -/
def addClass (cfg : Cfg) (a : Attrs) (cls : Str) (prepend : Bool) : Except Err Attrs :=
  if prepend then attrsUpdate cfg a [[(classKey, .str cls)], [(classKey, getArg classKey a)]]
  else attrsUpdate cfg a [[(classKey, getArg classKey a)], [(classKey, .str cls)]]

/-- the rejoined tokens, stored with the mark the class value had: HTML() stays HTML() — C16 "keeps the others" and
    C03/C04 (an HTML() attribute value is written verbatim, escaping happens exactly once): the remaining tokens of an
    HTML()-marked value must not be escaped a second time when the tag is rendered -/
def rejoinVal (a : Attrs) (s : Str) : AttrVal :=
  match alookup classKey a with
  | some (.html _) => .html s
  | _ => .plain s

def rejoinArg (a : Attrs) (s : Str) : AttrArg :=
  match alookup classKey a with
  | some (.html _) => .html s
  | _ => .str s

/-- `Tag.remove_class` (_core.py:767-788), storing what remains with the mark of the original value
    (the pinned code stores a plain `str`: `removeClassPinned`, defect F-C16b) -/
def removeClass (cfg : Cfg) (sp : Char → Bool) (a : Attrs) (cls : Str) : Except Err Attrs :=
  if cls.isEmpty then .ok a                              -- `if not class_: return self`
  else
    let c := textOf classKey a                           -- `self.attrs.get("class") or ""`
    if c.isEmpty then .ok a                              -- `if not cls: return self`
    else
      let t := strip sp cls                              -- `str(class_).strip()`
      let new := (tokens sp c).filter fun v => v != t    -- `[v for v in cls.split() if v != class_]`
      if !new.isEmpty then
        attrsUpdate cfg a [[(classKey, rejoinArg a (joinStr [' '] new))]]
      else dictPop classKey a

/-- `Tag.remove_class` as pinned: `" ".join(new_classes)` is a plain `str` whatever the class value was -/
def removeClassPinned (cfg : Cfg) (sp : Char → Bool) (a : Attrs) (cls : Str) : Except Err Attrs :=
  if cls.isEmpty then .ok a
  else
    let c := textOf classKey a
    if c.isEmpty then .ok a
    else
      let new := (tokens sp c).filter fun v => v != strip sp cls
      if !new.isEmpty then attrsUpdate cfg a [[(classKey, .str (joinStr [' '] new))]]
      else dictPop classKey a

/-- `Tag.has_class` (_core.py:804-808) -/
def hasClass (sp : Char → Bool) (a : Attrs) (cls : Str) : Bool :=
  match alookup classKey a with
  | some v => if v.str.isEmpty then false else (tokens sp v.str).contains cls
  | none => false

/-- `isinstance(style, (str, HTML)) and not style.endswith(";")`: the semicolon test applies to `str`/`HTML` only -/
def styleRejected : AttrArg → Bool
  | .str s => !endsSemi s
  | .html s => !endsSemi s
  | _ => false

/-- `Tag.add_style` (_core.py:833-842) -/
def addStyle (cfg : Cfg) (a : Attrs) (style : AttrArg) (prepend : Bool) : Except Err Attrs :=
  if styleRejected style then .error .valueError
  else if prepend then attrsUpdate cfg a [[(styleKey, style)], [(styleKey, getArg styleKey a)]]
  else attrsUpdate cfg a [[(styleKey, getArg styleKey a)], [(styleKey, style)]]

/-! ### the object layer: which object is returned, and what happens to the receiver -/

structure TagObj where
  oid : Nat
  name : Str
  ws : Bool
  attrs : Attrs
  kids : Nodes

/-- outcome of a mutating method: what it returns (the id of the returned object, or the exception)
    and the receiver's state afterwards -/
abbrev MethodResult := Except Err Nat × TagObj

/-- all three mutators end in `return self`; an exception leaves `self.attrs` as it was
    (`update` accumulates into a local dict first; the checks of `add_style` precede any write) -/
def TagObj.withAttrs (t : TagObj) : Except Err Attrs → MethodResult
  | .ok a => (.ok t.oid, { t with attrs := a })
  | .error e => (.error e, t)

def TagObj.addClass (cfg : Cfg) (t : TagObj) (cls : Str) (prepend : Bool) : MethodResult :=
  t.withAttrs (HtmlVerif.addClass cfg t.attrs cls prepend)

def TagObj.removeClass (cfg : Cfg) (sp : Char → Bool) (t : TagObj) (cls : Str) : MethodResult :=
  t.withAttrs (HtmlVerif.removeClass cfg sp t.attrs cls)

def TagObj.addStyle (cfg : Cfg) (t : TagObj) (style : AttrArg) (prepend : Bool) : MethodResult :=
  t.withAttrs (HtmlVerif.addStyle cfg t.attrs style prepend)

/-! ### css() -/

/-- a keyword value of `css()`: `None`, a list of strings (joined by one space), a list whose join raises,
    or anything else carried as its `str()` text (supplied by the harness) -/
inductive CssVal
  | none
  | text (s : Str)
  | list (xs : List Str)
  | badList
  deriving DecidableEq, Repr, Inhabited

/-- `re.sub("([A-Z])", "-\\1", k)`: a hyphen before every ASCII capital -/
def cssHyphen (k : Str) : Str :=
  k.flatMap fun c => if 'A' ≤ c ∧ c ≤ 'Z' then ['-', c] else [c]

/-- `re.sub("_", "-", re.sub("([A-Z])", "-\\1", k).lower())` -/
def cssKey (lower : Str → Str) (k : Str) : Str :=
  (lower (cssHyphen k)).map fun c => if c = '_' then '-' else c

/-- the `for k, v in kwargs.items()` loop with its accumulator `res` -/
def cssLoop (lower : Str → Str) (collapse : Str) : List (Str × CssVal) → Str → Except Err Str
  | [], res => .ok res
  | (k, v) :: r, res =>
    match v with
    | .none => cssLoop lower collapse r res
    | .badList => .error .typeError
    | .text s => cssLoop lower collapse r (res ++ (cssKey lower k ++ ':' :: s ++ ';' :: collapse))
    | .list xs =>
      cssLoop lower collapse r (res ++ (cssKey lower k ++ ':' :: joinStr [' '] xs ++ ';' :: collapse))

/-- `css(collapse_, **kwargs)`; `collapse = none` stands for a non-`str` `collapse_` -/
def css (lower : Str → Str) (collapse : Option Str) (kw : List (Str × CssVal)) : Except Err (Option Str) :=
  match collapse with
  | none => .error .typeError
  | some c =>
    match cssLoop lower c kw [] with
    | .error e => .error e
    | .ok res => .ok (if res.isEmpty then none else some res)

end HtmlVerif
