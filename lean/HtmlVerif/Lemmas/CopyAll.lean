/-
Helper lemmas for C12: `copyTo` against its specification, and the sequence of copies made by save_html.
-/
import HtmlVerif.Lemmas.CopyTo

namespace HtmlVerif
open FS

theorem copyTo_noSource {d : DepInfo} (h : isLocal d = false) (path : Str) (iv : Bool) (fs : FS) :
    copyTo d path iv fs = (fs, .ok ()) := by
  unfold isLocal at h
  cases hs : d.source with
  | none => simp [copyTo, sourcePathMap, hs]
  | href u => simp [copyTo, sourcePathMap, hs]
  | subdir a b c => simp [hs] at h

theorem copyTo_spec (d : DepInfo) (path : Str) (iv : Bool) (fs : FS) (h : CopyReady d path iv fs) :
    ∃ fs', copyTo d path iv fs = (fs', .ok ()) ∧ CopySpec d path iv fs fs' := by
  cases hs : d.source with
  | none => exact ⟨fs, copyTo_noSource (by simp [isLocal, hs]) .., by simp [CopySpec, isLocal, hs]⟩
  | href u => exact ⟨fs, copyTo_noSource (by simp [isLocal, hs]) .., by simp [CopySpec, isLocal, hs]⟩
  | subdir pkg dir abs =>
    simp only [CopyReady, hs] at h
    obtain ⟨habs, hST, hpath, hmode⟩ := h
    cases haf : d.allFiles with
    | true =>
      simp only [haf, if_true] at hmode
      obtain ⟨fs', h1, h2, h3⟩ := copyTo_all d pkg dir abs hs habs haf path iv fs hmode hST hpath
      refine ⟨fs', h1, ?_⟩
      simp only [CopySpec, isLocal, hs, if_true, srcDir, wantedB, haf]
      refine ⟨h2, fun r => ?_⟩
      rw [h3 r]
      cases r <;> simp
    | false =>
      simp only [haf, Bool.false_eq_true, if_false] at hmode
      obtain ⟨fl, hfl, hf⟩ := hmode
      obtain ⟨fs', h1, h2, h3⟩ := copyTo_listed d pkg dir abs hs habs haf fl hfl path iv fs
        (fun f hf' => (hf f hf').1) (fun f hf' => (hf f hf').2) hST hpath
      refine ⟨fs', h1, ?_⟩
      simp only [CopySpec, isLocal, hs, if_true, srcDir, wantedB, haf, hfl, Bool.false_eq_true, if_false]
      refine ⟨h2, fun r => ?_⟩
      rw [h3 r]
      simp

/-- readiness only looks at the source tree and at the way down to the target: it survives any change confined to
    a directory apart from both -/
theorem CopyReady_transfer (d : DepInfo) (path : Str) (iv : Bool) (fs fs1 : FS) (X : Path)
    (hframe : ∀ q, ¬ X <+: q → fs1.read q = fs.read q)
    (hS : isLocal d = true → Apart (srcDir d) X) (hT : isLocal d = true → Apart (tgtDir d path iv) X)
    (h : CopyReady d path iv fs) : CopyReady d path iv fs1 := by
  cases hs : d.source with
  | none => simp [CopyReady, hs]
  | href u => simp [CopyReady, hs]
  | subdir pkg dir abs =>
    have hl : isLocal d = true := by simp [isLocal, hs]
    have hS' : Apart (pathResolve abs) X := by simpa [srcDir, hs] using hS hl
    have hT' := hT hl
    simp only [CopyReady, hs] at h ⊢
    obtain ⟨habs, hST, hpath, hmode⟩ := h
    have hsrc : ∀ r, fs1.read (pathResolve abs ++ r) = fs.read (pathResolve abs ++ r) :=
      fun r => hframe _ (not_prefix_of_apart hS' r)
    refine ⟨habs, hST, ?_, ?_⟩
    · rw [fileOnPath_false_iff] at hpath ⊢
      intro k hk
      rw [hframe]
      · exact hpath k hk
      · intro hx
        exact hT'.2 (List.IsPrefix.trans hx (List.take_prefix k _))
    · cases haf : d.allFiles with
      | true =>
        simp only [haf, if_true] at hmode ⊢
        intro n r hr hn
        have e : pathResolve abs ++ [n] = pathResolve abs ++ [n] := rfl
        rw [hsrc] at hn ⊢
        exact hmode n r hr hn
      | false =>
        simp only [haf, Bool.false_eq_true, if_false] at hmode ⊢
        obtain ⟨fl, hfl, hf⟩ := hmode
        exact ⟨fl, hfl, fun f hf' => ⟨(hf f hf').1, by rw [hsrc]; exact (hf f hf').2⟩⟩

/-- the loop of save_html over the resolved dependencies -/
theorem copyAll_spec (path : Str) (iv : Bool) :
    ∀ (deps : List DepInfo) (fs : FS),
      (∀ d ∈ deps, CopyReady d path iv fs) →
      deps.Pairwise (fun a b => isLocal a = true → isLocal b = true →
        Apart (tgtDir a path iv) (tgtDir b path iv)) →
      (∀ a ∈ deps, ∀ b ∈ deps, isLocal a = true → isLocal b = true → Apart (srcDir a) (tgtDir b path iv)) →
      ∃ fs', copyAll deps path iv fs = (fs', .ok ()) ∧
        (∀ q, (∀ d ∈ deps, isLocal d = true → ¬ tgtDir d path iv <+: q) → fs'.read q = fs.read q) ∧
        (∀ d ∈ deps, isLocal d = true → ∀ r,
          fs'.read (tgtDir d path iv ++ r) = if wantedB d r then fs.read (srcDir d ++ r) else none) := by
  intro deps
  induction deps with
  | nil => intro fs _ _ _; exact ⟨fs, by simp [copyAll], by simp, by simp⟩
  | cons d rest ih =>
    intro fs hready hTT hST
    obtain ⟨fs1, hc, hspec⟩ := copyTo_spec d path iv fs (hready d (by simp))
    have hTT' := List.pairwise_cons.mp hTT
    -- what the first copy leaves untouched
    have hframe1 : ∀ q, (isLocal d = true → ¬ tgtDir d path iv <+: q) → fs1.read q = fs.read q := by
      intro q hq
      unfold CopySpec at hspec
      cases hl : isLocal d with
      | true => simp only [hl, if_true] at hspec; exact hspec.1 q (hq hl)
      | false => simp only [hl, Bool.false_eq_true, if_false] at hspec; rw [hspec]
    have hready' : ∀ e ∈ rest, CopyReady e path iv fs1 := by
      intro e he
      cases hl : isLocal d with
      | false =>
        unfold CopySpec at hspec
        simp only [hl, Bool.false_eq_true, if_false] at hspec
        rw [hspec]; exact hready e (by simp [he])
      | true =>
        apply CopyReady_transfer e path iv fs fs1 (tgtDir d path iv)
          (fun q hq => hframe1 q (fun _ => hq))
        · intro hle; exact hST e (by simp [he]) d (by simp) hle hl
        · intro hle
          have := hTT'.1 e he hl hle
          exact ⟨this.2, this.1⟩
        · exact hready e (by simp [he])
    obtain ⟨fs', hl', hF, hS⟩ := ih fs1 hready' hTT'.2
      (fun a ha b hb => hST a (by simp [ha]) b (by simp [hb]))
    refine ⟨fs', ?_, ?_, ?_⟩
    · simp [copyAll, hc, hl']
    · intro q hq
      rw [hF q (fun e he => hq e (by simp [he]))]
      exact hframe1 q (hq d (by simp))
    · intro e he hle r
      rcases List.mem_cons.mp he with he | he
      · subst he
        -- the later copies do not touch this target
        rw [hF]
        · unfold CopySpec at hspec
          simp only [hle, if_true] at hspec
          exact hspec.2 r
        · intro x hx hlx hp
          have := hTT'.1 x hx hle hlx
          exact not_prefix_of_apart this r hp
      · rw [hS e he hle r]
        by_cases hw : wantedB e r = true
        · simp only [hw, if_true]
          apply hframe1
          intro hld hp
          exact not_prefix_of_apart (hST e (by simp [he]) d (by simp) hle hld) r hp
        · simp [hw]

end HtmlVerif
