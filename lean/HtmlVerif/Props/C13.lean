/-
C13 — Serialised dependencies round-trip through HTML text.

The model follows the property where the property dictates: `neutralise` replaces every `</` (the pinned code
replaced only the exact lower-case `</script>` — defect F-C13, repaired by fixes/C13-neutralise-all-end-tags.patch).

`as_html_tags` (Model/DepTags.lean) and `_hoist_head_content` (Model/Document.lean) are modelled by other
properties and are not imported here: `C13_same_as_document` and `C13_json_mode_equiv` are stated over an
abstract `asTags : SDep → Nodes`, to be instantiated after the merge.
-/
import HtmlVerif.Lemmas.Extract
import HtmlVerif.Lemmas.JsonAscii
import HtmlVerif.Generated.Tables

namespace HtmlVerif.C13
open HtmlVerif

def cfg : Cfg :=
  { void := Generated.voidNames, noesc := Generated.noescNames,
    textTbl := Generated.textTbl, attrTbl := Generated.attrTbl }

/-! ### JSON text -/

/-- `json.loads(json.dumps(s)) == s` for every string over all Unicode scalar values (quotes, backslashes,
    control characters, non-ASCII as `\uXXXX`, astral characters as surrogate pairs) -/
theorem C13_json_str_roundtrip (s : Str) : jsonParseStr (jsonStr s) = some s :=
  jsonParseStr_jsonStr s

/-- `ensure_ascii`: the literal consists of printable ASCII characters only -/
theorem C13_json_str_ascii (s : Str) (x : Char) (h : x ∈ jsonStr s) : 0x20 ≤ x.toNat ∧ x.toNat ≤ 0x7E :=
  jsonStr_printable s x h

/-- each character is written as one self-delimiting unit that the scanner reads back as that character -/
theorem C13_json_char_roundtrip (c : Char) (tail : Str) : strUnit? (escChar c ++ tail) = some (c, tail) :=
  strUnit?_esc c tail

/-- `json.loads(json.dumps(v, indent=ind)) == v` for every value of the record fragment (objects, arrays,
    strings, true/false/null, any nesting), for `indent=None` and every `indent=n` -/
theorem C13_json_val_roundtrip (ind : Option Nat) (v : Json) : jsonParse (jsonPrint ind v) = some v :=
  jsonParse_printVal escBody escBody_ok ind v

/-- neutralising end tags does not change what the text means: `\/` is a legal JSON escape -/
theorem C13_neutralise_transparent (ind : Option Nat) (v : Json) :
    jsonParse (neutralise (jsonPrint ind v)) = jsonParse (jsonPrint ind v) := by
  rw [C13_json_val_roundtrip, neutralise_jsonPrint]
  exact jsonParse_printVal neutBody neutBody_ok ind v

/-- …and it is the dumped text with only the string bodies changed -/
theorem C13_neutralise_structure (ind : Option Nat) (v : Json) :
    neutralise (jsonPrint ind v) = printVal (fun s => neutralise (escBody s)) ind 0 v :=
  neutralise_jsonPrint ind v

/-! ### the serialised element -/

/-- the element is rendered by the ordinary renderer as OPEN, the body verbatim, CLOSE -/
theorem C13_element_render (ind : Option Nat) (d : SDep) (eol : Str) :
    (serNode ind d).render cfg 0 eol = tdSerialize ind d := by
  have hne : (['s', 'c', 'r', 'i', 'p', 't'] : Str) ∈ cfg.noesc := by decide
  have ha : htmlEscapeT cfg.attrTbl ['a', 'p', 'p', 'l', 'i', 'c', 'a', 't', 'i', 'o', 'n', '/', 'j', 's', 'o', 'n']
      = ['a', 'p', 'p', 'l', 'i', 'c', 'a', 't', 'i', 'o', 'n', '/', 'j', 's', 'o', 'n'] := by decide
  have hb : htmlEscapeT cfg.attrTbl [] = [] := by decide
  simp [serNode, Node.render, Nodes.visible, Node.isMeta, inlineChild?, inlineText, hne, openTag, renderAttrs,
    emitAttrVal, ha, hb, closeTag, indentStr, tdSerialize, openMarker, closeMarker]

/-- whatever strings the dependency contains, no end-tag-like `</script` in any letter case occurs inside the
    serialised element before its own closing tag -/
theorem C13_no_end_tag_inside (ind : Option Nat) (d : SDep) (k : Nat) :
    ciIsPrefix endTagLike ((serBody ind d).drop k) = false :=
  hasEndTagLike_drop _ (neutralise_no_end_tag _) k

/-- indeed no `</` at all is left in any neutralised text -/
theorem C13_no_lt_slash (s : Str) : ¬ ['<', '/'] <:+: neutralise s :=
  neutralise_no_lt_slash s

theorem C13_no_end_tag_exec (ind : Option Nat) (d : SDep) : hasEndTagLike (serBody ind d) = false :=
  neutralise_no_end_tag _

/-- the OPEN marker cannot occur inside the body (nor in the dumped text before neutralisation) -/
theorem C13_no_open_inside (ind : Option Nat) (d : SDep) :
    ¬ openMarker <:+: serBody ind d ∧ ¬ openMarker <:+: jsonPrint ind (depToJson d) :=
  ⟨fun h => no_win_neutralised ind _ (List.IsInfix.trans win_infix_open h),
   fun h => no_win_jsonPrint ind _ (List.IsInfix.trans win_infix_open h)⟩

/-! ### scanning and extraction -/

/-- the regex as a search: in `t₀ ++ ser d₁ ++ t₁ ++ … ++ ser dₙ ++ tₙ` with no OPEN marker inside the text
    chunks, the scan removes exactly the serialised elements and yields their bodies in order -/
theorem C13_scan_spec (t0 : Str) (items : List Item) (f : Nat) (hf : items.length ≤ f)
    (h0 : ¬ openMarker <:+: t0) (hi : ∀ it ∈ items, ¬ openMarker <:+: it.2.2) :
    scan f (interleave t0 items) = (remText t0 items, items.map Item.body) :=
  scan_interleave t0 items f hf h0 hi

/-- first OPEN, then first CLOSE after it: the two searches that make up one regex match -/
theorem C13_scan_step (t rest body post : Str) (h : ¬ openMarker <:+: t) (hb : hasLtSlash body = false) :
    findSub openMarker (t ++ (openMarker ++ rest)) = some (t, rest)
      ∧ findSub closeMarker (body ++ (closeMarker ++ post)) = some (body, post) :=
  ⟨findSub_open t rest h, findSub_close body post hb⟩

/-- dedup by exact serialised text, keeping the first occurrence, in order of appearance -/
theorem C13_dedup_keep_first (x : Str) (l : List Str) :
    tdDedupKeepFirst [] = [] ∧ tdDedupKeepFirst (x :: l) = x :: tdDedupKeepFirst (l.filter (· ≠ x)) :=
  ⟨rfl, dedupKeepFirst_cons x l⟩

/-- `HTMLDependency(**record)` gives back name, version, source, script, stylesheet, meta, all_files, and head as
    identical markup (`norm` only blanks the run-time data that is not part of the record) -/
theorem C13_recover_equal (d : SDep) (hw : d.wellFormed = true) :
    depOfJson (depToJson d) = .ok d.norm
      ∧ d.norm.info.name = d.info.name ∧ d.norm.info.version = d.info.version
      ∧ d.norm.info.source = d.info.source.forgetAbs
      ∧ d.norm.info.script = d.info.script ∧ d.norm.info.stylesheet = d.info.stylesheet
      ∧ d.norm.info.metas = d.info.metas ∧ d.norm.info.allFiles = d.info.allFiles ∧ d.norm.head = d.head :=
  ⟨depOfJson_depToJson d hw, rfl, rfl, rfl, rfl, rfl, rfl, rfl, rfl⟩

/-- …from the serialised body itself, for any indent -/
theorem C13_recover_body (ind : Option Nat) (d : SDep) (hw : d.wellFormed = true) :
    recover (serBody ind d) = .ok d.norm :=
  recover_serBody ind d hw

/-- extraction: every serialised script is removed from the text, and the dependencies come back once per
    distinct serialisation, in order of first appearance, each equal to the one serialised -/
theorem C13_extract_spec (t0 : Str) (items : List Item)
    (h0 : ¬ openMarker <:+: t0) (hi : ∀ it ∈ items, ¬ openMarker <:+: it.2.2)
    (hw : ∀ it ∈ items, it.2.1.wellFormed = true) :
    extract (interleave t0 items)
      = .ok (remText t0 items, (dedupOn Item.body items).map fun it => it.2.1.norm) :=
  extract_interleave t0 items h0 hi hw

/-- the constructor appends the extracted dependencies to the given ones -/
theorem C13_init (t0 : Str) (items : List Item) (deps : List SDep) (ph : Str)
    (h0 : ¬ openMarker <:+: t0) (hi : ∀ it ∈ items, ¬ openMarker <:+: it.2.2)
    (hw : ∀ it ∈ items, it.2.1.wellFormed = true) :
    textDocInit (interleave t0 items) (some deps) (some ph)
      = .ok (remText t0 items, deps ++ (dedupOn Item.body items).map fun it => it.2.1.norm) := by
  simp [textDocInit, C13_extract_spec t0 items h0 hi hw]

/-! ### rendering the text document -/

/-- `render()` replaces only the first occurrence of the placeholder and leaves all other text untouched:
    without an occurrence the text is unchanged; otherwise the text is `b ++ placeholder ++ a` with no occurrence
    starting inside `b`, and the result is `b ++ inserted ++ a` -/
theorem C13_replace_first (cfg : Cfg) (asTags : SDep → Nodes) (html ph : Str) (deps : List SDep) :
    ∃ out, textDocRender cfg asTags html deps (some ph) = .ok out ∧
      ((¬ ph <:+: html ∧ out = html) ∨
       (∃ b a, html = b ++ ph ++ a ∧ (∀ k, k < b.length → ¬ ph <+: html.drop k)
          ∧ out = b ++ renderList cfg (headNodes asTags deps) 0 ['\n'] true true ++ a)) := by
  refine ⟨_, rfl, ?_⟩
  unfold replaceFirst
  cases h : findSub ph html with
  | none =>
    left
    refine ⟨?_, rfl⟩
    intro hin
    obtain ⟨b, a, e⟩ := hin
    -- an occurrence exists, so the search cannot fail
    have : ∀ (b : Str), findSub ph (b ++ (ph ++ a)) ≠ none := by
      intro b
      induction b with
      | nil => rw [List.nil_append, findSub_here]; simp
      | cons c r ih =>
        rw [List.cons_append, findSub]
        split
        · simp
        · cases hr : findSub ph (r ++ (ph ++ a)) with
          | none => exact absurd hr ih
          | some p => simp
    exact this b (by rw [← List.append_assoc, e]; exact h)
  | some p =>
    obtain ⟨b, a⟩ := p
    right
    obtain ⟨e, hmin⟩ := findSub_some ph html b a h
    exact ⟨b, a, e, hmin, rfl⟩

/-- what is inserted: the listing script exactly when there are dependencies, then every dependency's tags -/
theorem C13_inserted (asTags : SDep → Nodes) (d : SDep) (ds : List SDep) :
    headNodes asTags [] = .nil
      ∧ headNodes asTags (d :: ds) = .cons (listingNode (d :: ds)) (concatNodes ((d :: ds).map asTags))
      ∧ listingText (d :: ds) = joinStr [';'] ((d :: ds).map fun x => x.info.name ++ '[' :: x.info.version ++ [']']) :=
  ⟨rfl, rfl, rfl⟩

/- Full statement (needs `Model/Document.lean` and `Model/DepTags.lean`, which are not in this branch):

     theorem C13_same_as_document :
       textDocRender cfg (asHtmlTags lp iv) html deps (some ph)
         = .ok (replaceFirst ph (renderList cfg (nodes `_hoist_head_content` appends to <head> for deps) 0 "\n" true true) html)

   What is proved here is that statement relative to the one fact about the Document model it needs
   (`hoisted = headNodes asTags`, true by unfolding `_hoist_head_content`: `head.append(listing script)` iff
   `len(deps) > 0`, then `head.extend([d.as_html_tags(...) for d in deps])`); on the real code the equality is
   checked by the runner (HTMLTextDocument.render() against HTMLDocument._hoist_head_content, same objects). -/
theorem C13_same_as_document_partial (cfg : Cfg) (asTags : SDep → Nodes) (hoisted : List SDep → Nodes)
    (hh : ∀ ds, hoisted ds = headNodes asTags ds) (html ph : Str) (deps : List SDep) :
    textDocRender cfg asTags html deps (some ph)
      = .ok (replaceFirst ph (renderList cfg (hoisted deps) 0 ['\n'] true true) html) := by
  rw [hh]; rfl

/-- a missing placeholder argument is a TypeError (`str.replace(None, …)`), and `deps` without a placeholder is
    rejected by the constructor -/
theorem C13_render_errors (cfg : Cfg) (asTags : SDep → Nodes) (html : Str) (deps : List SDep) :
    textDocRender cfg asTags html deps none = .error .typeError
      ∧ textDocInit html (some deps) none = .error .valueError :=
  ⟨rfl, rfl⟩

/-! ### JSON render mode, fed back -/

theorem listingText_norm (ds : List SDep) : listingText (ds.map SDep.norm) = listingText ds := by
  simp [listingText, List.map_map, Function.comp_def, SDep.norm]

/-- rendering in JSON mode and post-processing with HTMLTextDocument: when the invisible-mode rendering `html`
    contains no OPEN marker, the dependencies come back (once per distinct serialisation, in order; all of them when
    the serialisations are pairwise distinct, as they are after resolution to one per name), the listing is the
    same, and the remaining text is the invisible-mode rendering followed by the `n-1` newlines that joined the
    serialised copies.  (The per-dependency markup is `asTags` of equal records — `C13_same_as_document_partial`.) -/
theorem C13_json_mode_equiv (html : Str) (ds : List SDep) (h0 : ¬ openMarker <:+: html)
    (hw : ∀ d ∈ ds, d.wellFormed = true) :
    extract (jsonModeStr html ds)
        = .ok (html ++ List.replicate (ds.length - 1) '\n',
               (dedupOn Item.body (jmItems ds)).map fun it => it.2.1.norm)
      ∧ ((ds.map (serBody none)).Nodup →
          extract (jsonModeStr html ds) = .ok (html ++ List.replicate (ds.length - 1) '\n', ds.map SDep.norm)
            ∧ listingText (ds.map SDep.norm) = listingText ds) := by
  have hw' : ∀ it ∈ jmItems ds, it.2.1.wellFormed = true := by
    intro it hit
    have : it.2.1 ∈ (jmItems ds).map (·.2.1) := List.mem_map_of_mem hit
    rw [jmItems_deps] at this
    exact hw _ this
  have h1 := C13_extract_spec html (jmItems ds) h0 (jmItems_chunks ds) hw'
  rw [← jsonModeStr_eq, remText_jmItems] at h1
  refine ⟨h1, fun hnd => ⟨?_, listingText_norm ds⟩⟩
  rw [h1]
  -- without repeated serialisations nothing is dropped
  have key : ∀ (seen : List Str) (l : List Item), (∀ it ∈ l, it.body ∉ seen) → (l.map Item.body).Nodup →
      dedupOnGo Item.body seen l = l := by
    intro seen l
    induction l generalizing seen with
    | nil => intros; rfl
    | cons a r ih =>
      intro hs hn
      have ha : seen.contains a.body = false := by
        have := hs a (by simp)
        simpa using this
      simp only [dedupOnGo, ha, Bool.false_eq_true, if_false]
      rw [ih (a.body :: seen) ?_ (List.nodup_cons.mp hn).2]
      intro it hit
      simp only [List.mem_cons, not_or]
      refine ⟨?_, hs it (by simp [hit])⟩
      intro e
      exact (List.nodup_cons.mp hn).1 (by rw [← e]; exact List.mem_map_of_mem hit)
  have hnd' : ((jmItems ds).map Item.body).Nodup := by rw [jmItems_body]; exact hnd
  have := key [] (jmItems ds) (by simp) hnd'
  rw [dedupOn, this]
  have hmap : (jmItems ds).map (fun it => it.2.1.norm) = ((jmItems ds).map (·.2.1)).map SDep.norm := by
    simp [List.map_map, Function.comp_def]
  rw [hmap, jmItems_deps]

/-! ### the pinned neutralisation is not enough (F-C13) -/

/-- `text.replace(pat, new)` for a literal pattern (fuel: the length of the text) -/
def replaceLit (pat new : Str) : Nat → Str → Str
  | 0, s => s
  | _ + 1, [] => []
  | f + 1, c :: r =>
    if pat.isPrefixOf (c :: r) then new ++ replaceLit pat new f ((c :: r).drop pat.length)
    else c :: replaceLit pat new f r

/-- what the pinned code did: `.replace("</script>", "<\\/script>")` -/
def neutralisePinned (s : Str) : Str :=
  replaceLit closeMarker ['<', '\\', '/', 's', 'c', 'r', 'i', 'p', 't', '>'] s.length s

/-! ### non-vacuity -/

/-- a dependency whose head is `</SCRIPT>` (the witness of F-C13) -/
def witness : SDep :=
  { info := { name := ['n'], version := ['1'], vrank := 0, source := .none, script := [], stylesheet := [],
              metas := [], allFiles := false },
    head := some ['<', '/', 'S', 'C', 'R', 'I', 'P', 'T', '>'] }

/-- with the exact-lower-case replacement the full-strength statement is false: `head="</SCRIPT>"` leaves an
    end-tag-like `</SCRIPT>` inside the element (the witness the check replays against the real code) -/
theorem C13_pinned_neutralisation_is_false :
    ¬ ∀ (ind : Option Nat) (d : SDep), hasEndTagLike (neutralisePinned (jsonPrint ind (depToJson d))) = false := by
  intro h
  have hw : hasEndTagLike (neutralisePinned (jsonPrint none (depToJson witness))) = true := by decide +kernel
  rw [h none witness] at hw
  exact Bool.noConfusion hw

example : witness.wellFormed = true := by decide
example : hasEndTagLike (jsonPrint none (depToJson witness)) = true := by decide
example : hasEndTagLike (serBody none witness) = false := C13_no_end_tag_exec none witness
example : ¬ openMarker <:+: ['a', 'b'] := by
  intro h; obtain ⟨a, b, e⟩ := h
  have := congrArg List.length e
  simp [openMarker] at this; omega
example : ∃ b a, (['x', 'P', 'y', 'P'] : Str) = b ++ ['P'] ++ a ∧ b = ['x'] := ⟨['x'], ['y', 'P'], rfl, rfl⟩

end HtmlVerif.C13
