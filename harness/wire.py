"""Wire terms (DESIGN §4.2): Python-side encoder/decoder and realise/canonicalise adapters.

A *term* is a plain tuple mirroring the Lean model's datatypes:

  node  := ('tag', name, ws, [(key, ('p'|'h', val)), ...], [node...])
         | ('text', s) | ('html', s) | ('robj', s) | ('meta', n)
         | ('dep', depinfo, hasHead, [node...])
         | ('tobjL', rh|None, [node...]) | ('tobj1', rh|None, node)
  depinfo := dict(name, version, vrank, source, script, stylesheet, metas, all_files)
  source  := None | ('href', h) | ('subdir', pkg|None, dir, abs)
"""
from __future__ import annotations

from typing import Any


# ------------------------------------------------------------------ strings
def es(s: str) -> str:
    if s == "":
        return "-"
    return ".".join(format(ord(c), "x") for c in s)


def ds(tok: str) -> str:
    if tok == "-":
        return ""
    return "".join(chr(int(h, 16)) for h in tok.split("."))


def eb(b: bool) -> str:
    return "T" if b else "F"


def eopt(s: str | None) -> str:
    return "N" if s is None else "S " + es(s)


def elist(items: list[str]) -> str:
    return "[ " + " ".join(items) + " ]" if items else "[ ]"


def eattrval(v) -> str:
    return v[0] + " " + es(v[1])


def eattrs(attrs) -> str:
    return elist([es(k) + " " + eattrval(v) for k, v in attrs])


def eattrarg(v) -> str:
    """('none',) ('false',) ('true',) ('str', s) ('html', s) ('num', txt) ('bad',)"""
    k = v[0]
    return {"none": "an", "false": "af", "true": "at", "bad": "ab"}.get(k) or (
        {"str": "as ", "html": "ah ", "num": "am "}[k] + es(v[1]))


def eattrdict(d) -> str:
    """[(raw_key, attrarg), ...]"""
    return elist([es(k) + " " + eattrarg(v) for k, v in d])


def ekvs(d) -> str:
    return elist([es(k) + " " + es(v) for k, v in d])


def esource(src) -> str:
    if src is None:
        return "sn"
    if src[0] == "href":
        return "sh " + es(src[1])
    return "sd " + eopt(src[1]) + " " + es(src[2]) + " " + es(src[3])


def edepinfo(d: dict) -> str:
    return " ".join([
        es(d["name"]), es(d["version"]), str(d["vrank"]), esource(d["source"]),
        elist([ekvs(x) for x in d["script"]]), elist([ekvs(x) for x in d["stylesheet"]]),
        elist([ekvs(x) for x in d["metas"]]), eb(d["all_files"]),
    ])


def enode(n) -> str:
    k = n[0]
    if k == "tag":
        return "tag " + es(n[1]) + " " + eb(n[2]) + " " + eattrs(n[3]) + " " + enodes(n[4])
    if k in ("text", "html", "robj"):
        return k + " " + es(n[1])
    if k == "meta":
        return "meta " + str(n[1])
    if k == "dep":
        return "dep " + edepinfo(n[1]) + " " + eb(n[2]) + " " + enodes(n[3])
    if k == "tobjL":
        return "tobjL " + eopt(n[1]) + " " + enodes(n[2])
    if k == "tobj1":
        return "tobj1 " + eopt(n[1]) + " " + enode(n[2])
    raise ValueError(f"bad node term {n!r}")


def enodes(ns) -> str:
    return elist([enode(n) for n in ns])


# ------------------------------------------------------------------ decoding of driver answers
class Toks:
    def __init__(self, s: str):
        self.t = s.split()
        self.i = 0

    def next(self) -> str:
        t = self.t[self.i]
        self.i += 1
        return t

    def peek(self) -> str | None:
        return self.t[self.i] if self.i < len(self.t) else None

    def done(self) -> bool:
        return self.i >= len(self.t)


def p_str(t: Toks) -> str:
    return ds(t.next())


def p_bool(t: Toks) -> bool:
    return t.next() == "T"


def p_opt(t: Toks):
    x = t.next()
    return None if x == "N" else p_str(t)


def p_list(t: Toks, item):
    assert t.next() == "["
    out = []
    while t.peek() != "]":
        out.append(item(t))
    t.next()
    return out


def p_attr(t: Toks):
    k = p_str(t)
    kind = t.next()
    return (k, (kind, p_str(t)))


def p_attrarg(t: Toks):
    k = t.next()
    if k in ("an", "af", "at", "ab"):
        return ({"an": "none", "af": "false", "at": "true", "ab": "bad"}[k],)
    return ({"as": "str", "ah": "html", "am": "num"}[k], p_str(t))


def p_attrpair(t: Toks):
    return (p_str(t), p_attrarg(t))


def p_kv(t: Toks):
    return (p_str(t), p_str(t))


def p_source(t: Toks):
    x = t.next()
    if x == "sn":
        return None
    if x == "sh":
        return ("href", p_str(t))
    return ("subdir", p_opt(t), p_str(t), p_str(t))


def p_depinfo(t: Toks) -> dict:
    return dict(
        name=p_str(t), version=p_str(t), vrank=int(t.next()), source=p_source(t),
        script=p_list(t, lambda t: p_list(t, p_kv)), stylesheet=p_list(t, lambda t: p_list(t, p_kv)),
        metas=p_list(t, lambda t: p_list(t, p_kv)), all_files=p_bool(t),
    )


def p_node(t: Toks):
    k = t.next()
    if k == "tag":
        return ("tag", p_str(t), p_bool(t), p_list(t, p_attr), p_list(t, p_node))
    if k in ("text", "html", "robj"):
        return (k, p_str(t))
    if k == "meta":
        return ("meta", int(t.next()))
    if k == "dep":
        return ("dep", p_depinfo(t), p_bool(t), p_list(t, p_node))
    if k == "tobjL":
        return ("tobjL", p_opt(t), p_list(t, p_node))
    if k == "tobj1":
        return ("tobj1", p_opt(t), p_node(t))
    raise ValueError(k)


def ok_str(s: str) -> str:
    return "ok " + es(s)


ERR_KINDS = {
    TypeError: "typeError", ValueError: "valueError", KeyError: "keyError",
    RuntimeError: "runtimeError", NotImplementedError: "notImplemented",
}


def err_of(e: BaseException) -> str:
    for cls in type(e).__mro__:
        if cls in ERR_KINDS:
            # NotImplementedError is a RuntimeError subclass: mro order gives the specific one first
            return "err " + ERR_KINDS[cls]
    return "err exception"


def show(term: Any, limit: int = 400) -> str:
    s = repr(term)
    return s if len(s) <= limit else s[:limit] + "…"


# ------------------------------------------------------------------ display-hook programs (C17)
# val   := ('none',) ('ellipsis',) ('text', s) ('num', txt) ('html', s) ('reprHtml', s) ('tagRef', id) ('invalid',)
#          ('tagifiable', s) ('tagifiableRepr', s) ('tagList', [item...]) ('list', [val...]) ('tuple', [val...])
# item  := ('text', s) ('html', s) ('robj', s) ('tagRef', id) ('tobj', s) ('trobj', s)
# stmt  := ('d', val) | ('b', tag_id, [stmt...]) | ('r',) | ('k', tag_id)
_HVAL0 = {"none": "vn", "ellipsis": "ve", "invalid": "vi"}
_HVAL1 = {"text": "vt", "num": "vm", "html": "vh", "reprHtml": "vr", "tagifiable": "vf", "tagifiableRepr": "vb"}
_HVALSEQ = {"list": "vl", "tuple": "vu"}
_HITEM1 = {"text": "it", "html": "ih", "robj": "ir", "tobj": "if", "trobj": "ib"}


def ehval(v) -> str:
    k = v[0]
    if k in _HVAL0:
        return _HVAL0[k]
    if k == "tagRef":
        return "vg " + str(v[1])
    if k == "tagList":
        return "vq " + elist([ehitem(i) for i in v[1]])
    if k in _HVALSEQ:
        return _HVALSEQ[k] + " " + elist([ehval(x) for x in v[1]])
    return _HVAL1[k] + " " + es(v[1])


def ehitem(i) -> str:
    if i[0] == "tagRef":
        return "ig " + str(i[1])
    return _HITEM1[i[0]] + " " + es(i[1])


def ehprog(p) -> str:
    if p[0] == "d":
        return "d " + ehval(p[1])
    if p[0] == "r":
        return "r"
    if p[0] == "k":
        return "k " + str(p[1])
    return "b " + str(p[1]) + " " + ehprogs(p[2])


def ehprogs(ps) -> str:
    return elist([ehprog(p) for p in ps])


def p_hval(t: Toks):
    k = t.next()
    for name, tok in _HVAL0.items():
        if k == tok:
            return (name,)
    if k == "vg":
        return ("tagRef", int(t.next()))
    if k == "vq":
        return ("tagList", p_list(t, p_hitem))
    for name, tok in _HVALSEQ.items():
        if k == tok:
            return (name, p_list(t, p_hval))
    for name, tok in _HVAL1.items():
        if k == tok:
            return (name, p_str(t))
    raise ValueError(f"bad hook value {k}")


def p_hitem(t: Toks):
    k = t.next()
    if k == "ig":
        return ("tagRef", int(t.next()))
    for name, tok in _HITEM1.items():
        if k == tok:
            return (name, p_str(t))
    raise ValueError(f"bad hook item {k}")


def p_hprog(t: Toks):
    k = t.next()
    if k == "d":
        return ("d", p_hval(t))
    if k == "r":
        return ("r",)
    if k == "k":
        return ("k", int(t.next()))
    if k == "b":
        return ("b", int(t.next()), p_list(t, p_hprog))
    raise ValueError(f"bad hook statement {k}")


# ------------------------------------------------------------------ C14: argument values, stored elements, child operations
# arg    := ('none',) | ('num', 'i'|'f'|'b', txt) | ('node', node) | ('list', [arg]) | ('tuple', [arg]) | ('tl', [arg])
#         | ('seq', 'bytes'|'range'|'set'|'dict'|'gen', [arg]) | ('bad', k)
# stored := ('n', node) | ('r', arg)
# oarg   := ('v', arg) | ('self',) | ('inl', [arg], [arg])
# op     := ('init', [arg]) | ('extend', oarg) | ('append', [oarg]) | ('insert', i, oarg) | ('add', oarg) | ('radd', oarg)
#         | ('iadd', oarg) | ('slice', lo, hi, step) | ('mul', n) | ('rmul', n) | ('imul', n)
def earg(a) -> str:
    k = a[0]
    if k == "none":
        return "none"
    if k == "num":
        return "num " + a[1] + " " + es(a[2])
    if k == "node":
        return "node " + enode(a[1])
    if k in ("list", "tuple", "tl"):
        return k + " " + eargs(a[1])
    if k == "seq":
        return "seq " + a[1] + " " + eargs(a[2])
    if k == "bad":
        return "bad " + str(a[1])
    raise ValueError(f"bad arg term {a!r}")


def eargs(xs) -> str:
    return elist([earg(x) for x in xs])


def estored(x) -> str:
    return ("n " + enode(x[1])) if x[0] == "n" else ("r " + earg(x[1]))


def eoptint(v) -> str:
    return "_" if v is None else str(v)


def eoarg(a) -> str:
    if a[0] == "v":
        return "v " + earg(a[1])
    if a[0] == "self":
        return "self"
    return "inl " + eargs(a[1]) + " " + eargs(a[2])


def eop(o) -> str:
    k = o[0]
    if k == "init":
        return "init " + eargs(o[1])
    if k in ("extend", "add", "radd", "iadd"):
        return k + " " + eoarg(o[1])
    if k == "append":
        return "append " + elist([eoarg(a) for a in o[1]])
    if k == "insert":
        return "insert " + str(o[1]) + " " + eoarg(o[2])
    if k == "slice":
        return "slice " + eoptint(o[1]) + " " + eoptint(o[2]) + " " + eoptint(o[3])
    if k in ("mul", "rmul", "imul"):
        return k + " " + str(o[1])
    raise ValueError(f"bad op term {o!r}")


def eops(ops) -> str:
    return elist([eop(o) for o in ops])


def p_int(t: Toks) -> int:
    return int(t.next())


def p_optint(t: Toks):
    x = t.next()
    return None if x == "_" else int(x)


def p_arg(t: Toks):
    k = t.next()
    if k == "none":
        return ("none",)
    if k == "num":
        return ("num", t.next(), p_str(t))
    if k == "node":
        return ("node", p_node(t))
    if k in ("list", "tuple", "tl"):
        return (k, p_list(t, p_arg))
    if k == "seq":
        return ("seq", t.next(), p_list(t, p_arg))
    if k == "bad":
        return ("bad", int(t.next()))
    raise ValueError(k)


def p_stored(t: Toks):
    k = t.next()
    return ("n", p_node(t)) if k == "n" else ("r", p_arg(t))


def p_oarg(t: Toks):
    k = t.next()
    if k == "v":
        return ("v", p_arg(t))
    if k == "self":
        return ("self",)
    if k == "inl":
        return ("inl", p_list(t, p_arg), p_list(t, p_arg))
    raise ValueError(k)


def p_op(t: Toks):
    k = t.next()
    if k == "init":
        return ("init", p_list(t, p_arg))
    if k in ("extend", "add", "radd", "iadd"):
        return (k, p_oarg(t))
    if k == "append":
        return ("append", p_list(t, p_oarg))
    if k == "insert":
        return ("insert", p_int(t), p_oarg(t))
    if k == "slice":
        return ("slice", p_optint(t), p_optint(t), p_optint(t))
    if k in ("mul", "rmul", "imul"):
        return (k, p_int(t))
    raise ValueError(k)
