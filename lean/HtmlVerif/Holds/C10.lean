/-
Executable statement of C10, evaluated by the driver on the *implementation's* answers.
Uses only the specification-side definitions (`depsOf`, `dedupKeepFirst`, `firstMaxBy`,
`violations`, `vle`) — except for idempotence, which re-resolves the implementation's own output.
-/
import HtmlVerif.Spec.Deps

namespace HtmlVerif.Holds
open HtmlVerif

def nodesEq (a b : List Node) : Bool :=
  a.length == b.length && (a.zip b).all (fun p => p.1.beq p.2)

def clause (name : String) (b : Bool) : List String := if b then [] else [name]

/-- `d` is the first object of its name that none of that name exceeds -/
def repOk (ds : List Node) (d : Node) : Bool :=
  match firstMaxBy depGt (ds.filter (fun x => decide (x.depName = d.depName))) with
  | some r => r.beq d
  | none => false

/-- the statement for `get_dependencies(dedup=…)` given the document-order list `ds` of the tree;
    returns the names of the clauses that fail -/
def failsDeps (ds : List Node) (dedup : Bool) (out : List Node) : List String :=
  if !dedup then clause "dedup-off-dropped-or-reordered" (nodesEq out ds)
  else
    clause "names-not-once-each-in-first-occurrence-order"
      (out.map Node.depName == dedupKeepFirst (ds.map Node.depName))
    ++ clause "representative-not-first-highest-version"
      (out.all (repOk ds))
    ++ clause "not-idempotent" (nodesEq (resolve out) out)

def failsC10List (ks : Nodes) (dedup : Bool) (out : List Node) : List String :=
  failsDeps ks.depsOf dedup out

def failsC10Tag (n : Node) (dedup : Bool) (out : List Node) : List String :=
  match n with
  | .tag _ _ _ k => failsDeps k.depsOf dedup out
  | _ => clause "non-tag-has-dependencies" out.isEmpty

def sourceOk (s : SourceArg) (got : DepSource) : Bool :=
  match checkSource s with
  | .ok r => r == got
  | .error _ => false

/-- the statement for the constructor -/
def failsDepInit (a : DepArg) : Except Err DepInfo → List String
  | .error e =>
    if a.violations.isEmpty then ["well-formed-arguments-rejected"]
    else clause "wrong-error-kind-for-first-violation" (a.violations.head? == some e)
  | .ok d =>
    clause "malformed-arguments-accepted" a.violations.isEmpty
    ++ clause "stored-fields-differ-from-list-normalised-arguments"
      (d.name == a.name && d.version == a.version && sourceOk a.source d.source
        && d.script == a.script.dicts && d.stylesheet == a.stylesheet.dicts.map addRel
        && d.metas == a.metas.dicts && d.allFiles == a.allFiles)

/-- the statement for version comparison on plain releases: `le`, `gt` as the implementation reports -/
def failsVcmp (a b : List Nat) (le gt : Bool) : List String :=
  clause "le-not-numeric-zero-padded-order" (le == vle a b)
  ++ clause "gt-not-complement-of-le" (gt == !vle a b)

end HtmlVerif.Holds
