/-
`HTMLDependency(**record)` applied to the record of a dependency gives the dependency back (C13 `recover_equal`).
-/
import HtmlVerif.Spec.SerDep

namespace HtmlVerif

theorem kvOfMems_kvObj (d : List (Str × Str)) : kvOfMems (kvObj d) = .ok d := by
  induction d with
  | nil => rfl
  | cons kv r ih => obtain ⟨k, v⟩ := kv; simp [kvObj, kvOfMems, jsonStr?, ih]

theorem kvsOfList_kvArr (l : List (List (Str × Str))) : kvsOfList (kvArr l) = .ok l := by
  induction l with
  | nil => rfl
  | cons d r ih => simp [kvArr, kvsOfList, kvOfMems_kvObj, ih]

theorem dictList_kvArr (req : List Str) (l : List (List (Str × Str)))
    (h : l.all (fun d => req.all fun k => sdHasKey k d) = true) :
    dictList req (some (.arr (kvArr l))) = .ok l := by
  have h' : (l.all fun d => req.all fun k => d.any fun kv => kv.1 == k) = true := h
  simp [dictList, kvsOfList_kvArr, h']

theorem addRel_id (d : List (Str × Str)) (h : sdHasKey kRel d = true) : jsonAddRel d = d := by
  have h' : (d.any fun kv => kv.1 == kRel) = true := h
  simp [jsonAddRel, h']

theorem map_addRel_id (l : List (List (Str × Str))) (h : l.all (sdHasKey kRel) = true) : l.map jsonAddRel = l := by
  induction l with
  | nil => rfl
  | cons d r ih =>
    simp only [List.all_cons, Bool.and_eq_true] at h
    simp [addRel_id d h.1, ih h.2]

theorem srcOfJson_srcJson (s : DepSource) : srcOfJson (some (srcJson s)) = .ok s.forgetAbs := by
  cases s with
  | none => rfl
  | href h => simp [srcJson, srcOfJson, JMems.get?, DepSource.forgetAbs]
  | subdir p d a =>
    cases p with
    | none => simp [srcJson, srcOfJson, JMems.get?, DepSource.forgetAbs, kHref, kSubdir, kPackage]
    | some p => simp [srcJson, srcOfJson, JMems.get?, DepSource.forgetAbs, kHref, kSubdir, kPackage]

theorem all_and_left {α} (l : List α) (p q : α → Bool) (h : l.all (fun x => p x && q x) = true) : l.all p = true := by
  simp only [List.all_eq_true, Bool.and_eq_true] at h ⊢
  exact fun x hx => (h x hx).1

theorem all_and_right {α} (l : List α) (p q : α → Bool) (h : l.all (fun x => p x && q x) = true) : l.all q = true := by
  simp only [List.all_eq_true, Bool.and_eq_true] at h ⊢
  exact fun x hx => (h x hx).2

/-- the record of a well-formed dependency is accepted by the constructor and gives back every field -/
theorem depOfJson_depToJson (d : SDep) (hw : d.wellFormed = true) : depOfJson (depToJson d) = .ok d.norm := by
  obtain ⟨⟨name, version, vrank, source, script, stylesheet, metas, allFiles⟩, head⟩ := d
  simp only [SDep.wellFormed, Bool.and_eq_true] at hw
  obtain ⟨⟨hs, hst⟩, hm⟩ := hw
  have h1 : dictList [['s', 'r', 'c']] (some (.arr (kvArr script))) = .ok script :=
    dictList_kvArr _ _ (by simpa [kSrc] using hs)
  have h2 : dictList [kHref] (some (.arr (kvArr stylesheet))) = .ok stylesheet :=
    dictList_kvArr _ _ (by simpa using all_and_left _ _ _ hst)
  have h3 : dictList [kName, ['c', 'o', 'n', 't', 'e', 'n', 't']] (some (.arr (kvArr metas))) = .ok metas :=
    dictList_kvArr _ _ (by simpa [kContent] using hm)
  have h4 := map_addRel_id stylesheet (all_and_right _ _ _ hst)
  have h5 := srcOfJson_srcJson source
  cases head <;>
    simp [depOfJson, depToJson, JMems.keys, JMems.get?, depKeys, kName, kVersion, kSource, kScript, kStylesheet,
      kMeta, kAllFiles, kHead, optStrJson, SDep.norm] <;>
    simp [kName] at h1 h3 h5 <;> simp [h1, h2, h3, h4, h5]

end HtmlVerif
