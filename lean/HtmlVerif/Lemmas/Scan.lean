/-
Scanning (C13): leftmost-occurrence search, the OPEN/CLOSE specific "no earlier occurrence" facts, the scan
of an interleaving of text chunks and elements, and the keep-first deduplication.
-/
import HtmlVerif.Lemmas.Neutralise
import HtmlVerif.Model.TextDoc

namespace HtmlVerif

/-! ### `findSub` -/

theorem findSub_here (pat rest : Str) : findSub pat (pat ++ rest) = some ([], rest) := by
  cases h : pat ++ rest with
  | nil =>
    have hp : pat = [] := (List.append_eq_nil_iff.mp h).1
    have hr : rest = [] := (List.append_eq_nil_iff.mp h).2
    subst hp; subst hr; simp [findSub]
  | cons c r =>
    have hpre : pat.isPrefixOf (c :: r) = true := by
      rw [← h]; exact List.isPrefixOf_iff_prefix.mpr (List.prefix_append pat rest)
    rw [findSub, hpre, ← h]; simp

theorem findSub_skip (pat t u : Str) (h : ∀ k, k < t.length → ¬ pat <+: (t ++ u).drop k) :
    findSub pat (t ++ u) = (findSub pat u).map fun p => (t ++ p.1, p.2) := by
  induction t with
  | nil =>
    simp only [List.nil_append]
    cases findSub pat u <;> rfl
  | cons c t' ih =>
    have h0 : ¬ pat <+: (c :: t') ++ u := by simpa using h 0 (by simp)
    have hpre : pat.isPrefixOf (c :: (t' ++ u)) = false := by
      cases hh : pat.isPrefixOf (c :: (t' ++ u)) with
      | false => rfl
      | true => exact absurd (List.isPrefixOf_iff_prefix.mp hh) h0
    have ih' := ih (fun k hk => by simpa using h (k + 1) (by simp; omega))
    simp only [List.cons_append, findSub, hpre, ih']
    cases findSub pat u <;> simp

theorem findSub_none (pat s : Str) (h : ¬ pat <:+: s) : findSub pat s = none := by
  induction s with
  | nil =>
    cases pat with
    | nil => exact absurd ⟨[], [], rfl⟩ h
    | cons p ps => simp [findSub]
  | cons c r ih =>
    have hpre : pat.isPrefixOf (c :: r) = false := by
      cases hh : pat.isPrefixOf (c :: r) with
      | false => rfl
      | true => exact absurd (List.isPrefixOf_iff_prefix.mp hh).isInfix h
    have : ¬ pat <:+: r := fun hr => h (by
      obtain ⟨a, b, e⟩ := hr
      exact ⟨c :: a, b, by simp [← e]⟩)
    simp [findSub, hpre, ih this]

/-- what `findSub` returns is the leftmost occurrence -/
theorem findSub_some (pat s b a : Str) (h : findSub pat s = some (b, a)) :
    s = b ++ pat ++ a ∧ ∀ k, k < b.length → ¬ pat <+: s.drop k := by
  induction s generalizing b with
  | nil =>
    cases pat with
    | nil => simp [findSub] at h; obtain ⟨rfl, rfl⟩ := h; simp
    | cons p ps => simp [findSub] at h
  | cons c r ih =>
    rw [findSub] at h
    cases hh : pat.isPrefixOf (c :: r) with
    | true =>
      simp only [hh, if_true, Option.some.injEq, Prod.mk.injEq] at h
      obtain ⟨rfl, rfl⟩ := h
      obtain ⟨t, ht⟩ := List.isPrefixOf_iff_prefix.mp hh
      refine ⟨?_, by simp⟩
      rw [← ht]; simp
    | false =>
      simp only [hh, Bool.false_eq_true, if_false] at h
      cases hr : findSub pat r with
      | none => simp [hr] at h
      | some p =>
        obtain ⟨b', a'⟩ := p
        simp only [hr, Option.some.injEq, Prod.mk.injEq] at h
        obtain ⟨rfl, rfl⟩ := h
        obtain ⟨e, hmin⟩ := ih b' hr
        refine ⟨by rw [e]; simp, ?_⟩
        intro k hk
        cases k with
        | zero =>
          intro hp
          have := List.isPrefixOf_iff_prefix.mpr (by simpa using hp)
          rw [hh] at this; exact Bool.noConfusion this
        | succ k => simpa using hmin k (by simp at hk; omega)

/-! ### OPEN: `<` occurs only at its start -/

theorem open_lt_tail : '<' ∉ openMarker.tail := by decide

theorem open_no_early (t rest : Str) (h : ¬ openMarker <:+: t) :
    ∀ k, k < t.length → ¬ openMarker <+: (t ++ (openMarker ++ rest)).drop k := by
  intro k hk hp
  rw [List.drop_append_of_le_length (by omega)] at hp
  have hw : t.drop k ≠ [] := by
    intro e; have := congrArg List.length e; simp at this; omega
  have hsuf : t.drop k <:+ t := List.drop_suffix k t
  rcases List.prefix_or_prefix_of_prefix hp (List.prefix_append (t.drop k) (openMarker ++ rest)) with h1 | h1
  · exact h (List.IsInfix.trans h1.isInfix hsuf.isInfix)
  · obtain ⟨u, hu⟩ := h1
    have hp2 : t.drop k ++ u <+: t.drop k ++ (openMarker ++ rest) := by rw [hu]; exact hp
    have hp' : u <+: openMarker ++ rest := (List.prefix_append_right_inj _).mp hp2
    cases u with
    | nil =>
      rw [List.append_nil] at hu
      exact h (hu ▸ hsuf.isInfix)
    | cons x u' =>
      have hx : x = '<' := by
        obtain ⟨z, hz⟩ := hp'
        have := congrArg List.head? hz
        simpa [openMarker] using this
      subst hx
      cases hd : t.drop k with
      | nil => exact hw hd
      | cons w0 w' =>
        rw [hd] at hu
        have : openMarker.tail = w' ++ '<' :: u' := by
          have := congrArg List.tail hu
          simpa using this.symm
        exact open_lt_tail (by rw [this]; simp)

/-- the leftmost OPEN of `t ++ OPEN ++ rest` is the one after `t` when `t` contains none -/
theorem findSub_open (t rest : Str) (h : ¬ openMarker <:+: t) :
    findSub openMarker (t ++ (openMarker ++ rest)) = some (t, rest) := by
  rw [findSub_skip _ _ _ (open_no_early t rest h), findSub_here]; simp

/-! ### CLOSE: starts with `</` -/

theorem hasLtSlash_cons (c : Char) (s : Str) (h : hasLtSlash s = true) : hasLtSlash (c :: s) = true := by
  simp [hasLtSlash, h]

theorem hasLtSlash_drop (k : Nat) (s : Str) (h : hasLtSlash (s.drop k) = true) : hasLtSlash s = true := by
  induction s generalizing k with
  | nil => simpa using h
  | cons c r ih =>
    cases k with
    | zero => simpa using h
    | succ k => exact hasLtSlash_cons c r (ih k (by simpa using h))

theorem close_no_early (body post : Str) (h : hasLtSlash body = false) :
    ∀ k, k < body.length → ¬ closeMarker <+: (body ++ (closeMarker ++ post)).drop k := by
  intro k hk hp
  rw [List.drop_append_of_le_length (by omega)] at hp
  cases hd : body.drop k with
  | nil => have := congrArg List.length hd; simp at this; omega
  | cons c b' =>
    rw [hd] at hp
    obtain ⟨z, hz⟩ := hp
    cases b' with
    | nil => simp [closeMarker] at hz
    | cons d b'' =>
      have h1 : c = '<' ∧ d = '/' := by
        simp [closeMarker] at hz
        exact ⟨hz.1.symm, hz.2.1.symm⟩
      have : hasLtSlash (body.drop k) = true := by
        rw [hd, h1.1, h1.2]; simp [hasLtSlash]
      rw [hasLtSlash_drop k body this] at h
      exact Bool.noConfusion h

/-- the first CLOSE after a body without `</` is the one right after it -/
theorem findSub_close (body post : Str) (h : hasLtSlash body = false) :
    findSub closeMarker (body ++ (closeMarker ++ post)) = some (body, post) := by
  rw [findSub_skip _ _ _ (close_no_early body post h), findSub_here]; simp

/-! ### the scan of an interleaving -/

/-- `t₀ ++ OPEN b₁ CLOSE ++ t₁ ++ … ++ OPEN bₙ CLOSE ++ tₙ` for (body, chunk after) pairs -/
def interleaveB (t0 : Str) : List (Str × Str) → Str
  | [] => t0
  | (b, t) :: r => t0 ++ (openMarker ++ (b ++ (closeMarker ++ interleaveB t r)))

def chunksOf (t0 : Str) : List (Str × Str) → Str
  | [] => t0
  | (_, t) :: r => t0 ++ chunksOf t r

theorem scan_interleaveB (t0 : Str) (items : List (Str × Str)) (f : Nat) (hf : items.length ≤ f)
    (h0 : ¬ openMarker <:+: t0)
    (hi : ∀ it ∈ items, hasLtSlash it.1 = false ∧ ¬ openMarker <:+: it.2) :
    scan f (interleaveB t0 items) = (chunksOf t0 items, items.map (·.1)) := by
  induction items generalizing t0 f with
  | nil =>
    cases f with
    | zero => rfl
    | succ f => simp [scan, interleaveB, chunksOf, findSub_none _ _ h0]
  | cons it r ih =>
    obtain ⟨b, t⟩ := it
    obtain ⟨f, rfl⟩ : ∃ g, f = g + 1 := ⟨f - 1, by simp at hf; omega⟩
    have hb := hi (b, t) (by simp)
    have ih' := ih t f (by simp at hf; omega) hb.2 (fun it hit => hi it (by simp [hit]))
    simp only [interleaveB, scan, findSub_open t0 _ h0, findSub_close b _ hb.1, ih', chunksOf, List.map_cons]

theorem length_interleaveB (t0 : Str) (items : List (Str × Str)) : items.length ≤ (interleaveB t0 items).length := by
  induction items generalizing t0 with
  | nil => simp
  | cons it r ih =>
    obtain ⟨b, t⟩ := it
    have := ih t
    simp [interleaveB, openMarker]; omega

/-! ### keep-first deduplication -/

theorem dedupGo_congr (s1 s2 : List Str) (l : List Str) (h : ∀ y, y ∈ s1 ↔ y ∈ s2) : dedupGo s1 l = dedupGo s2 l := by
  induction l generalizing s1 s2 with
  | nil => rfl
  | cons b r ih =>
    have hc : s1.contains b = s2.contains b := by
      cases h1 : s1.contains b <;> cases h2 : s2.contains b <;> simp_all
    simp only [dedupGo, hc]
    split
    · exact ih s1 s2 h
    · rw [ih (b :: s1) (b :: s2) (fun y => by simp [h y])]

theorem dedupGo_filter (x : Str) (seen l : List Str) :
    dedupGo (x :: seen) l = dedupGo seen (l.filter (· ≠ x)) := by
  induction l generalizing seen with
  | nil => rfl
  | cons b r ih =>
    by_cases hbx : b = x
    · subst hbx; simp [dedupGo, ih]
    · have hf : (b :: r).filter (· ≠ x) = b :: r.filter (· ≠ x) := by simp [hbx]
      rw [hf]
      by_cases hbs : b ∈ seen
      · simp [dedupGo, hbs, hbx, ih]
      · simp only [dedupGo, List.contains_eq_mem, List.mem_cons, hbx, hbs, or_self, decide_false,
          Bool.false_eq_true, if_false]
        rw [← ih (b :: seen)]
        congr 1
        exact dedupGo_congr _ _ _ (fun y => by
          simp only [List.mem_cons]; constructor <;> rintro (h | h | h) <;> simp [h])

/-- keep-first: the head stays, every later copy of it goes, the rest is treated the same way -/
theorem dedupKeepFirst_cons (x : Str) (l : List Str) :
    tdDedupKeepFirst (x :: l) = x :: tdDedupKeepFirst (l.filter (· ≠ x)) := by
  simp [tdDedupKeepFirst, dedupGo, dedupGo_filter]

theorem dedupKeepFirst_nil : tdDedupKeepFirst [] = [] := rfl

/-- keep-first on items compared by a key (specification side) -/
def dedupOnGo {α} (key : α → Str) (seen : List Str) : List α → List α
  | [] => []
  | a :: r => if seen.contains (key a) then dedupOnGo key seen r else a :: dedupOnGo key (key a :: seen) r

def dedupOn {α} (key : α → Str) (l : List α) : List α := dedupOnGo key [] l

theorem dedupGo_map {α} (key : α → Str) (seen : List Str) (l : List α) :
    dedupGo seen (l.map key) = (dedupOnGo key seen l).map key := by
  induction l generalizing seen with
  | nil => rfl
  | cons a r ih =>
    simp only [List.map_cons, dedupGo, dedupOnGo]
    split <;> simp [ih]

theorem dedupKeepFirst_map {α} (key : α → Str) (l : List α) :
    tdDedupKeepFirst (l.map key) = (dedupOn key l).map key := dedupGo_map key [] l

theorem dedupOnGo_mem {α} (key : α → Str) (seen : List Str) (l : List α) (a : α) (h : a ∈ dedupOnGo key seen l) :
    a ∈ l := by
  induction l generalizing seen with
  | nil => simp [dedupOnGo] at h
  | cons b r ih =>
    simp only [dedupOnGo] at h
    split at h
    · exact List.mem_cons_of_mem _ (ih seen h)
    · rcases List.mem_cons.mp h with rfl | h
      · simp
      · exact List.mem_cons_of_mem _ (ih _ h)

end HtmlVerif
