/-
Primitives of the Python fragment used by the file-system half of C12: `HTMLDependency.copy_to` and the three `save_html`
methods (htmltools/_core.py; translator plug-in harness/pytr_c12b.py).  Same contract as Py/Prim.lean: what CPython does on
that argument shape, the exception kind CPython raises, or `unsupported`.

What is new here is the *file system*.  It is state, and what it is *after an exception* is part of the property ("a missing
file: nothing was touched"), so these functions are translated into the monad

    PyFSC12b α  =  SysC12b → Except PyErr α × SysC12b

— the state goes in and comes out on every path, also the exceptional one (as `PySM` of Py/PrimC17.lean).

`SysC12b.fs` is the abstract file system of Model/FS.lean (`FS`: a finite map path ↦ bytes, directories implicit), and **every
OS call is defined from the model's own FS operations**: `os.path.exists / isfile / isdir` are `FS.exists / isFile / isDir`,
`shutil.rmtree` is `FS.removeTree`, `shutil.copy2` is `FS.read` + `FS.write`, `shutil.copytree` is `FS.copyTree`,
`Path.glob("*")` is `FS.topLevel`, `open(file, "w")` + `write` is `FS.write`; a path string denotes the location
`pathResolve` (Model/Paths.lean) gives it — components split on "/", a relative string read from the root, `.` / `..` /
symbolic links not interpreted.  So the tie theorems (Props/SrcC12b.lean) are about the *glue* of the four methods; that each
OS call does what these definitions say is *modelled, not verified* (DESIGN §6 C12) and is compared with the real operating
system on real temporary directories by the `srcc12b` validation lines (harness/ops_src_c12b.py) on every run.

Points where the implicit-directory model is coarser than the operating system (each follows Model/FS.lean):
* creating a directory (`Path.mkdir(parents=True, exist_ok=True)`, `os.makedirs(p, exist_ok=True)`) changes nothing that
  can be observed (a directory exists iff something lies below it).  `Path.mkdir` on the target directory raises when a
  regular file lies on the path (`FS.fileOnPath`: NotADirectoryError / FileExistsError, both OSError → `exception`), as
  `copyTo` has it.  `os.makedirs` inside the copy loop has *no* failure mode, as `copyOne` has none: after the target
  directory has been set up a regular file can lie on the way to a target file only if the source tree holds a file and a
  directory of the same name — impossible in a real file system, possible in the finite-map model;
* `open(file, "w")` raises (OSError → `exception`) when `file` is a directory or a regular file lies on the way to it
  (`saveHtml`); a missing parent directory is not representable;
* the text written is encoded as UTF-8 (the locale's encoding is modelled as UTF-8, `saveHtml`).

Run-time facts are parameters carried in the state and never change: `SysC12b.resolve s` is what `str(Path(s).resolve())`
answers (the working directory and symbolic links are the run time's contribution — `fileAbs` of `saveDoc`);
`SysC12b.fsdecode n` is `os.fsdecode(n)` for a directory entry `n` (`none`: not supplied / not decodable to a `str` of
Unicode scalar values).

A `pathlib` path is the value `.obj "PosixPath" [("__str__", .str s)]` (`str(p)` and `os.fspath(p)` are `s`; pathlib's own
normalisation of the string — doubled and trailing slashes — does not change the location `pathResolve` reads from it).
An open text file is `.obj "TextIOWrapper" [("name", .str resolvedPath)]`.
-/
import HtmlVerif.Py.Prim
import HtmlVerif.Py.PrimC12
import HtmlVerif.Model.FS

namespace HtmlVerif.Py
open HtmlVerif

/-- the file system and what the run time contributes to reading paths -/
structure SysC12b where
  fs : FS
  resolve : Str → Str               -- `str(Path(s).resolve())`
  fsdecode : Bytes → Option Str     -- `os.fsdecode` of a directory entry

/-- computations that read and write the file system; the state survives an exception -/
def PyFSC12b (α : Type) : Type := SysC12b → Except PyErr α × SysC12b

namespace PyFSC12b

@[inline] protected def pure {α} (a : α) : PyFSC12b α := fun S => (.ok a, S)

@[inline] protected def bind {α β} (x : PyFSC12b α) (f : α → PyFSC12b β) : PyFSC12b β := fun S =>
  match x S with
  | (.ok a, S') => f a S'
  | (.error e, S') => (.error e, S')

instance : Monad PyFSC12b where
  pure := PyFSC12b.pure
  bind := PyFSC12b.bind

instance : MonadExceptOf PyErr PyFSC12b where
  throw e := fun S => (.error e, S)
  tryCatch x h := fun S =>
    match x S with
    | (.ok a, S') => (.ok a, S')
    | (.error e, S') => h e S'

/-- a state-free computation of the fragment: the state is untouched -/
instance : MonadLift PyM PyFSC12b where
  monadLift x := fun S => (x, S)

end PyFSC12b

/-- `a and b` / `a or b` whose operands may touch the file system (`Py.pyAnd` / `Py.pyOr` for `PyFSC12b`) -/
def pyAndSC12b (a b : PyFSC12b PVal) : PyFSC12b PVal := do
  let t ← a
  if truthy t then b else pure t

def pyOrSC12b (a b : PyFSC12b PVal) : PyFSC12b PVal := do
  let t ← a
  if truthy t then pure t else b

/-! ### paths as values -/

/-- the `pathlib.PosixPath` whose string is `s` -/
def pathObjC12b (s : Str) : PVal := .obj "PosixPath" [("__str__", .str s)]

/-- `os.fspath(v)`: a `str` or a path object; an instance of any other class is outside the fragment (it may define
    `__fspath__`); everything else — `None`, numbers, containers, `HTML` (a `UserString` is not path-like) — raises
    TypeError -/
def fspathC12b : PVal → PyM Str
  | .str s => pure s
  | .obj "PosixPath" [("__str__", .str s)] => pure s
  | .obj _ _ => throw .unsupported
  | _ => throw .typeError

/-- the path argument of `os.stat` / `open` and of what is built on them (`os.path.exists`, `shutil.copy2`, …): as
    `os.fspath`, but an `int` (a `bool`) is a file descriptor — outside the fragment -/
def fdOrPathC12b : PVal → PyM Str
  | .int _ => throw .unsupported
  | .bool _ => throw .unsupported
  | v => fspathC12b v

/-- `Path(v)` -/
def mkPathC12b (v : PVal) : PyM PVal := do
  pure (pathObjC12b (← fspathC12b v))

/-- `os.path.join(a, b)` (`posixpath.join`: the model's `posixJoin`) -/
def osPathJoinC12b (a b : PVal) : PyM PVal := do
  let x ← fspathC12b a
  let y ← fspathC12b b
  pure (.str (posixJoin x y))

/-- `os.path.dirname(p)` (the model's `dirname`) -/
def osPathDirnameC12b (p : PVal) : PyM PVal := do
  pure (.str (dirname (← fspathC12b p)))

/-- a path string as `Path.resolve()` returns it: absolute, no trailing slash (but "/" itself), no `.` component — on such
    a string `PurePath.parent` is `posixpath.dirname` -/
def normalAbsC12b (s : Str) : Bool :=
  s.head? == some '/' && (s.getLast? != some '/' || s == ['/']) && !(segs (utf8 s)).contains [0x2E]

/-- `x.parent`: for a path object whose string is in the form `resolve()` returns, the path of `dirname`; for any other
    receiver the instance attribute of that name (`pyGetAttr`) -/
def pathParentC12b (x : PVal) : PyM PVal :=
  match x with
  | .obj "PosixPath" [("__str__", .str s)] =>
    if normalAbsC12b s then pure (pathObjC12b (dirname s)) else throw .unsupported
  | _ => pyGetAttr x "parent"

/-- `rel` when `x = b/rel` as strings (`b` taken with or without its trailing slash) -/
def relStrC12b (x b : Str) : Option Str :=
  if b.isEmpty || b.getLast? == some '/' then
    if b.isPrefixOf x then some (x.drop b.length) else Option.none
  else if (b ++ ['/']).isPrefixOf x then some (x.drop (b.length + 1)) else Option.none

/-- `x.relative_to(b)` for path objects: the rest of `x` below `b`; ValueError when `x` is not below `b`.  The path itself
    (`Path(".")`) and a rest that starts with a slash are outside the fragment. -/
def pathRelativeToC12b (x b : PVal) : PyM PVal :=
  match x with
  | .obj "PosixPath" [("__str__", .str sx)] => do
    let sb ← fspathC12b b
    match relStrC12b sx sb with
    | some r => if r.isEmpty || r.head? == some '/' then throw .unsupported else pure (pathObjC12b r)
    | Option.none => if sx == sb then throw .unsupported else throw .valueError
  | .obj _ _ => throw .unsupported
  | _ => throw .attributeError

/-! ### reading the file system -/

/-- `os.path.exists(p)` -/
def osPathExistsC12b (p : PVal) : PyFSC12b PVal := fun S =>
  match fdOrPathC12b p with
  | .ok s => (.ok (.bool (S.fs.exists (pathResolve s))), S)
  | .error e => (.error e, S)

/-- `os.path.isfile(p)` -/
def osPathIsfileC12b (p : PVal) : PyFSC12b PVal := fun S =>
  match fdOrPathC12b p with
  | .ok s => (.ok (.bool (S.fs.isFile (pathResolve s))), S)
  | .error e => (.error e, S)

/-- `os.path.isdir(p)` -/
def osPathIsdirC12b (p : PVal) : PyFSC12b PVal := fun S =>
  match fdOrPathC12b p with
  | .ok s => (.ok (.bool (S.fs.isDir (pathResolve s))), S)
  | .error e => (.error e, S)

/-- `x.resolve()` for a path object: the run time's answer (`SysC12b.resolve`) -/
def pathResolveMethC12b (x : PVal) : PyFSC12b PVal := fun S =>
  match x with
  | .obj "PosixPath" [("__str__", .str s)] => (.ok (pathObjC12b (S.resolve s)), S)
  | .obj _ _ => (.error .unsupported, S)
  | _ => (.error .attributeError, S)

/-- the entries of `names` as paths below `s`, each decoded by the run time's `fsdecode` -/
def globEntriesC12b (dec : Bytes → Option Str) (s : Str) : List Bytes → PyM (List PVal)
  | [] => pure []
  | n :: r =>
    match dec n with
    | some nm => do pure (pathObjC12b (posixJoin s nm) :: (← globEntriesC12b dec s r))
    | Option.none => throw .unsupported

/-- `x.glob("*")` (consumed at once by a `for`): the entries directly below the path, dot-files included
    (`FS.topLevel`, in the order of the model's listing — the operating system's order is unspecified);
    nothing when the path is not a directory -/
def pathGlobStarC12b (x : PVal) : PyFSC12b PVal := fun S =>
  match x with
  | .obj "PosixPath" [("__str__", .str s)] =>
    match globEntriesC12b S.fsdecode s (S.fs.topLevel (pathResolve s)) with
    | .ok l => (.ok (.list l), S)
    | .error e => (.error e, S)
  | .obj _ _ => (.error .unsupported, S)
  | _ => (.error .attributeError, S)

/-! ### writing the file system -/

/-- `shutil.rmtree(p)`: FileNotFoundError when nothing is there, NotADirectoryError when `p` (or a prefix of it) is a regular
    file — both OSError → `exception`, nothing removed; otherwise everything at or below `p` disappears (`FS.removeTree`) -/
def shutilRmtreeC12b (p : PVal) : PyFSC12b PVal := fun S =>
  match fspathC12b p with
  | .ok s =>
    if !S.fs.exists (pathResolve s) || S.fs.fileOnPath (pathResolve s) then (.error .exception, S)
    else (.ok .none, { S with fs := S.fs.removeTree (pathResolve s) })
  | .error e => (.error e, S)

/-- `x.mkdir(parents=True, exist_ok=True)` for a path object: OSError (`exception`) when a regular file lies on the path
    (`FS.fileOnPath`); otherwise nothing observable changes (directories are implicit) -/
def pathMkdirPC12b (x : PVal) : PyFSC12b PVal := fun S =>
  match x with
  | .obj "PosixPath" [("__str__", .str s)] =>
    if S.fs.fileOnPath (pathResolve s) then (.error .exception, S) else (.ok .none, S)
  | .obj _ _ => (.error .unsupported, S)
  | _ => (.error .attributeError, S)

/-- `os.makedirs(p, exist_ok=True)`: nothing observable changes (directories are implicit); no failure mode, as the model's
    `copyOne` has none (see the head of this file) -/
def osMakedirsC12b (p : PVal) : PyFSC12b PVal := fun S =>
  match fspathC12b p with
  | .ok _ => (.ok .none, S)
  | .error e => (.error e, S)

/-- `shutil.copy2(a, b)`: the content of the regular file `a` is written to `b` (created or overwritten: `FS.write`);
    FileNotFoundError / IsADirectoryError (OSError → `exception`) when `a` is not a regular file -/
def shutilCopy2C12b (a b : PVal) : PyFSC12b PVal := fun S =>
  match fdOrPathC12b a, fdOrPathC12b b with
  | .ok x, .ok y =>
    match S.fs.read (pathResolve x) with
    | some c => (.ok (.str y), { S with fs := S.fs.write (pathResolve y) c })
    | Option.none => (.error .exception, S)
  | .error e, _ => (.error e, S)
  | _, .error e => (.error e, S)

/-- `shutil.copytree(a, b)`: NotADirectoryError / FileNotFoundError when `a` is not a directory, FileExistsError when `b`
    exists (all OSError → `exception`, nothing copied); otherwise every file below `a` appears at the same relative path
    below `b` (`FS.copyTree`) -/
def shutilCopytreeC12b (a b : PVal) : PyFSC12b PVal := fun S =>
  match fdOrPathC12b a, fdOrPathC12b b with
  | .ok x, .ok y =>
    if !S.fs.isDir (pathResolve x) then (.error .exception, S)
    else if S.fs.exists (pathResolve y) then (.error .exception, S)
    else (.ok (.str y), { S with fs := S.fs.copyTree (pathResolve x) (pathResolve y) })
  | .error e, _ => (.error e, S)
  | _, .error e => (.error e, S)

/-- `open(file, "w")` (text mode, as a context manager): the file is created or truncated at once — at the location the run
    time resolves `file` to.  OSError (`exception`) when that is a directory or a regular file lies on the way to it. -/
def openWriteC12b (file : PVal) : PyFSC12b PVal := fun S =>
  match fdOrPathC12b file with
  | .ok s =>
    let p := pathResolve (S.resolve s)
    if S.fs.isDir p || S.fs.fileOnPath p.dropLast then (.error .exception, S)
    else (.ok (.obj "TextIOWrapper" [("name", .str (S.resolve s))]), { S with fs := S.fs.write p [] })
  | .error e => (.error e, S)

/-- `f.write(text)` on a file just opened by `open(file, "w")`, followed by the `close()` of the `with` statement: the file
    holds the encoded text (UTF-8).  `text` must be a `str` (TypeError otherwise — also for `HTML`). -/
def fileWriteC12b (f text : PVal) : PyFSC12b PVal := fun S =>
  match f with
  | .obj "TextIOWrapper" [("name", .str nm)] =>
    match text with
    | .str t => (.ok (.int t.length), { S with fs := S.fs.write (pathResolve nm) (utf8 t) })
    | .obj _ _ => (.error .unsupported, S)
    | _ => (.error .typeError, S)
  | .obj _ _ => (.error .unsupported, S)
  | _ => (.error .attributeError, S)

/-! ### values -/

/-- `[*a, *b, …]`: the items of the parts, in order -/
def pyStarListC12b (parts : List (List PVal)) : PVal := .list parts.flatten

/-- the exception kind recorded under a name -/
def errOfNameC12b (n : Str) : PyErr :=
  if n == "TypeError".toList then .typeError
  else if n == "ValueError".toList then .valueError
  else if n == "KeyError".toList then .keyError
  else if n == "RuntimeError".toList then .runtimeError
  else if n == "NotImplementedError".toList then .notImplemented
  else if n == "Exception".toList then .exception
  else .unsupported

/-- the arguments a recorded call was made with: `None` / a `str` / a `bool` / an `int` -/
def sameArgC12b : PVal → PVal → Bool
  | .none, .none => true
  | .str a, .str b => a == b
  | .bool a, .bool b => a == b
  | .int a, .int b => a == b
  | _, _ => false

/-- `self.render(lib_prefix=lp, include_version=iv)` of an `HTMLDocument` whose `render` is not translated: what the call
    returns — or the exception it raises — is *recorded in the object* under the pseudo-attribute `__render__`
    (`.obj "RenderRecord" [("lib_prefix", lp), ("include_version", iv), ("outcome", r)]`, `r` the returned `RenderedHTML`
    dict or `.obj "Raises" [("kind", .str name)]`), in the spirit of `pyReprHtml`; without a record for exactly these
    arguments the primitive is `unsupported`.  `render()` does not touch the file system. -/
def docRenderRecC12b (self lp iv : PVal) : PyM PVal :=
  match self with
  | .obj "HTMLDocument" fs =>
    match fieldGet? "__render__" fs with
    | some (.obj "RenderRecord" [("lib_prefix", lp'), ("include_version", iv'), ("outcome", r)]) =>
      if sameArgC12b lp' lp && sameArgC12b iv' iv then
        match r with
        | .obj "Raises" [("kind", .str k)] => throw (errOfNameC12b k)
        | .dict kvs => pure (.dict kvs)
        | _ => throw .unsupported
      else throw .unsupported
    | _ => throw .unsupported
  | _ => throw .unsupported

/-- `HTMLDocument(x)` for a `Tag` / `TagList` `x` (`HTMLDocument.__init__` is not translated): `_content = TagList(x)`
    (`mkTagList` of Py/PrimC12.lean), no html attributes; what the new document's `render` answers is the record the
    receiver carries under `__doc_render__` (see `docRenderRecC12b`) -/
def mkDocC12b (x : PVal) : PyM PVal :=
  match x with
  | .obj c fs =>
    if c == "Tag" || c == "TagList" then
      match fieldGet? "__doc_render__" fs with
      | some rr => do
        let content ← mkTagList [x]
        pure (.obj "HTMLDocument" [("_content", content), ("_html_attr_args", .dict []), ("__render__", rr)])
      | Option.none => throw .unsupported
    else throw .unsupported
  | _ => throw .unsupported

end HtmlVerif.Py
