"""Translator validation for C16 (DESIGN §14): value generators for the regenerated `Tag.has_class`, `add_class`,
`add_style`, `remove_class` and `css`.

`add_class` / `add_style` read neither `str.isspace` nor `str.lower`: they run under the plain `src` op
(`register(GENS)`, `ck.add_src([...])`).  `has_class`, `remove_class` (`str.split()`, `str.strip()`) and `css`
(`str.lower()`) need what the running interpreter contributes; their lines use the op `srcc16`, which carries the
`str.isspace` table and the `str.lower()` of the strings `css` lower-cases (`add_src_c16(ck, [...])`)."""
from __future__ import annotations

from wire import es

import srctie
from srctie import S, H, rstr, scalar, other

#: whitespace of every kind `str.isspace` knows, and look-alikes it does not accept
WS = [" ", " ", " ", "\t", "\n", "\r", "\x0b", "\x0c", "\x1c", "\x1f", "\x85", "\xa0", "\u1680", "\u2000", "\u2009",
      "\u2028", "\u202f", "\u205f", "\u3000"]
NOT_WS = ["\u200b", "\u180e", "\ufeff", "\u2060", "_", "-"]
TOKS = ["a", "b", "ab", "a-b", "A", "é", "d<", "x&y", 'q"', "&amp;", "foo", "True", "5", "1.5", "None"]
CSS_KEYS = ["fontSize", "font_size", "WebkitX", "x_Y", "_a", "a_", "É", "aΣ", "aΣB", "İx", "backgroundColor", "margin_top",
            "MozBoxSizing", "a__b", "ABC", "x9", "σΣ", "ǅ", "ẞ", "class", "a-b", "Z", "_", "ÀB"]


def token(rng) -> str:
    import gen
    if gen.EXTRA and rng.random() < 0.25:      # change-directed: literals the source has gained (harness/literals.py)
        return rng.choice(gen.EXTRA)
    r = rng.random()
    if r < 0.6:
        return rng.choice(TOKS)
    if r < 0.7:
        return rng.choice(NOT_WS).join(rng.sample(TOKS, 2))
    return rstr(rng)


def class_text(rng) -> str:
    """a class value: tokens separated (and possibly surrounded) by runs of whitespace"""
    n = rng.choice([0, 1, 1, 2, 3, 3, 5])
    out = rng.choice(["", "", " ", "\t", rng.choice(WS)])
    for i in range(n):
        out += token(rng) if rng.random() < 0.8 else rng.choice(TOKS)
        if i < n - 1 or rng.random() < 0.3:
            out += "".join(rng.choice(WS) for _ in range(rng.choice([1, 1, 1, 2, 3])))
    return out


def stored(rng, txt=None) -> str:
    """a value as `TagAttrDict` stores it: `str` or `HTML`"""
    txt = rstr(rng) if txt is None else txt
    return S(txt) if rng.random() < 0.6 else H(txt)


def tag(rng, style_bias=False) -> tuple[str, str | None]:
    """a `Tag` instance (fields in the order of `embNode`) and the text of its class value"""
    attrs = []
    cls = None
    if rng.random() < 0.3:
        attrs.append(("id", stored(rng)))
    if rng.random() < 0.8:
        cls = class_text(rng)
        attrs.append(("class", stored(rng, cls)))
    if rng.random() < (0.7 if style_bias else 0.3):
        attrs.append(("style", stored(rng, rstr(rng) + rng.choice([";", ";", ""]))))
    if rng.random() < 0.3:
        attrs.append(("title", stored(rng)))
    if rng.random() < 0.3:
        rng.shuffle(attrs)
    a = "M [ " + "".join(es(k) + " " + v + " " for k, v in attrs) + "]"
    kids = rng.choice(["", S("k") + " ", H("<i>") + " " + S("x") + " "])
    name = rng.choice(["div", "span", "p", "br"])
    return (f"O Tag [ name {S(name)} attrs {a} children O TagList [ data L [ {kids}] ] add_ws {rng.choice(['T', 'F'])} ]", cls)


def receiver(rng, style_bias=False) -> tuple[str, str | None]:
    # always a Tag: the methods are reached through the attribute lookup on a Tag instance (a receiver of another
    # class fails in that lookup, before the function body, which is all the translation covers)
    return tag(rng, style_bias)


def class_arg(rng, cls) -> str:
    """the argument of has_class / remove_class: mostly a token of the class value or a near miss, with and without
    surrounding whitespace; sometimes another kind of value"""
    r = rng.random()
    toks = (cls or "").split()
    if r < 0.45 and toks:
        t = rng.choice(toks)
    elif r < 0.75:
        t = token(rng)
    elif r < 0.8:
        t = ""
    else:
        t = None
    if t is not None:
        r2 = rng.random()
        if r2 < 0.25:
            t = rng.choice(WS) + t + rng.choice(WS)
        elif r2 < 0.35:
            t = t + rng.choice(WS) + rng.choice(TOKS)
        elif r2 < 0.4:
            t = rng.choice(NOT_WS) + t
        return S(t) if rng.random() < 0.9 else H(t)
    return scalar(rng)


def truth(rng) -> str:
    return rng.choice(["T", "F", "T", "F", "T", "F", "I 0", "I 1", "N", S(""), S("x"), "L [ ]"])


def _has_class(rng) -> str:
    t, cls = receiver(rng)
    return f"[ {t} {class_arg(rng, cls)} ]"


def _remove_class(rng) -> str:
    t, cls = receiver(rng)
    return f"[ {t} {class_arg(rng, cls)} ]"


def _add_class(rng) -> str:
    t, _ = receiver(rng)
    v = S(token(rng)) if rng.random() < 0.75 else scalar(rng)
    return f"[ {t} {v} {truth(rng)} ]"


def _add_style(rng) -> str:
    t, _ = receiver(rng, style_bias=True)
    r = rng.random()
    if r < 0.7:
        txt = rng.choice(["color:red", "a:1", "", ";", rstr(rng)]) + rng.choice([";", ";", ";", ";", ";", "", " ", "; "])
        v = (S if rng.random() < 0.7 else H)(txt)
    else:
        v = scalar(rng)
    return f"[ {t} {v} {truth(rng)} ]"


def css_hyphen(k: str) -> str:
    return "".join("-" + c if "A" <= c <= "Z" else c for c in k)


def css_value(rng) -> str:
    r = rng.random()
    if r < 0.35:
        return S(rstr(rng))
    if r < 0.5:
        return "N"
    if r < 0.7:
        return "L [ " + "".join(S(rstr(rng)) + " " for _ in range(rng.choice([0, 1, 2, 3]))) + "]"
    if r < 0.76:       # a list `str.join` rejects
        items = [S(rstr(rng)) for _ in range(rng.choice([0, 1, 2]))]
        items.insert(rng.randint(0, len(items)), rng.choice(["I 1", "N", H("h"), "L [ ]", "T"]))
        return "L [ " + "".join(i + " " for i in items) + "]"
    return scalar(rng)


def _css(rng) -> tuple[list, str]:
    import gen
    keys = []
    for _ in range(rng.choice([0, 1, 1, 2, 3, 5])):
        k = rng.choice(CSS_KEYS + gen.EXTRA) if rng.random() < 0.7 else "".join(rng.choice("abXY_Σσé-İß9Z") for _ in range(rng.randint(1, 6)))
        if k not in keys:
            keys.append(k)
    collapse = rng.choice([S(""), S(""), S(""), S("\n"), S(" "), S(";x")] * 4 + ["N", "I 1", "D " + es("1.5"), H(""), "T"])
    kw = "M [ " + "".join(es(k) + " " + css_value(rng) + " " for k in keys) + "]"
    tbl = {}
    for k in keys:        # what css() lower-cases, and what an equivalent rewriting of that line might lower-case instead
        for s in (css_hyphen(k), k, k.replace("_", "-"), css_hyphen(k).replace("_", "-")):
            tbl[s] = s.lower()
    return list(tbl.items()), f"[ {collapse} {kw} ]"


#: generators of the argument lists; `util_css` also yields its lower-casing table
C16_GENS = {
    "Tag_has_class": _has_class,
    "Tag_remove_class": _remove_class,
    "Tag_add_class": _add_class,
    "Tag_add_style": _add_style,
    "util_css": _css,
}


def register(GENS):
    # only the functions that are independent of str.isspace / str.lower may run under the plain `src` op
    GENS["Tag_add_class"] = _add_class
    GENS["Tag_add_style"] = _add_style


def lines_c16(rng, funcs: list[str], n: int) -> list[str]:
    from ops_attrs import WS_TOK
    out = []
    for f in funcs:
        seen = set()
        for _ in range(n):
            g = C16_GENS[f](rng)
            tbl, args = g if isinstance(g, tuple) else ([], g)
            l = f"srcc16 {WS_TOK} [ " + "".join(es(a) + " " + es(b) + " " for a, b in tbl) + f"] {f} {args}"
            if l not in seen:
                seen.add(l)
                out.append(l)
    return out


def add_src_c16(ck, funcs: list[str], quick: int = 300, thorough: int = 3000):
    """`Check.add_src` for the functions that need the interpreter's tables (op `srcc16`)"""
    import core
    ls = lines_c16(ck.rng, funcs, thorough if ck.tier == "thorough" else quick)
    ck.src_lines += list(zip(ls, core.impl_many(ls)))
