"""Generators of tree terms: exhaustive small scopes and random large (DESIGN §4.2)."""
from __future__ import annotations

import itertools
import random

from translate import generate as _translate  # noqa: F401

# string pools -------------------------------------------------------------
META = "&<>\"'\r\n;#/ ="
TEXT_POOL = [
    "a", "", "<&>", "x\ny", " x ", "&amp;", "</script>", "<!--", "]]>", "a\"b'c", "\r\n", "é", "😀", "á",
    "  ", "&#38;", "&lt", ";",
]
HTML_POOL = ["<i>", "", "<b>x</b>", "&amp;", "a\nb", "</div>", "<!-- c -->"]
BLOCK = ["div", "p", "ul", "section"]
INLINE = ["span", "a", "b", "em"]
VOID_INLINE = ["br", "img", "input", "wbr"]
VOID_BLOCK = ["hr", "meta", "link", "base"]
RAW = ["script", "style"]
CUSTOM = ["my-elem", "x:y", "A1", "foo.bar", "h_1"]
ATTR_NAMES = ["id", "class", "data-x", "title", "href", "aria-label", "x:y", "A"]
# names that differ from an entry of the void / no-escape tables only by case, and near misses of such entries: the
# tables are looked up exactly, so all of these are ordinary elements
NEAR_CASE = ["Script", "SCRIPT", "Style", "sTyle", "BR", "Br", "Img", "HR", "Meta", "LINK", "Input"]
NEAR_MISS = ["scripts", "br2", "styl", "style2", "imgs", "hr-x", "wbrr", "scrip", "metas"]
NEAR_P = 0.05


#: literals that are new in the source (harness/literals.py); filled by `inject` before any case is generated
EXTRA: list[str] = []


def inject(words: list[str]) -> None:
    """change-directed generation: make every pool know the literals a change introduced"""
    import re as _re
    for w in words:
        if w in EXTRA:
            continue
        EXTRA.append(w)
        TEXT_POOL.append(w)
        HTML_POOL.append(w)
        if _re.fullmatch(r"[A-Za-z][A-Za-z0-9:_.-]*", w):
            CUSTOM.append(w)
            ATTR_NAMES.append(w)
        elif w and not _re.search(r"[\s\"'>/=<]", w):
            ATTR_NAMES.append(w)


#: integer literals that are new in the source (sizes / lengths / depths / counts a change may compare against)
THRESHOLDS: list[int] = []


def inject_ints(ns: list[int]) -> None:
    for n in ns:
        if n not in THRESHOLDS:
            THRESHOLDS.append(n)
            if n <= 400 and n not in BOUNDARY_LEVELS:
                BOUNDARY_LEVELS.extend(k for k in (n - 1, n, n + 1) if k not in BOUNDARY_LEVELS)


def spellings(w: str) -> list[str]:
    """ways a caller could spell an identifier that a new literal may single out: as a Python keyword (`_` for `-` / `:`),
    camel-cased, and as a prefix of a longer name (a change that tests `startswith`)"""
    import re as _re
    base = w.strip("-_:. ")
    if not base or not _re.fullmatch(r"[A-Za-z][A-Za-z0-9:_.-]*", base):
        return [w]
    snake = _re.sub(r"[-:.]", "_", base)
    parts = [q for q in _re.split(r"[-_:.]", base) if q]
    camel = parts[0] + "".join(q[:1].upper() + q[1:] for q in parts[1:])
    out = [w, base, snake, camel, snake + "_", snake + "_x", snake + "_href", camel + "X", camel + "Flex", base + "-x", base + "x", snake + "__"]
    seen = []
    for o in out:
        if o not in seen:
            seen.append(o)
    return seen


def threshold_text(rng: random.Random) -> str:
    """a text whose length sits at a size the source has started to mention, with metacharacters in it"""
    n = rng.choice(THRESHOLDS) + rng.choice([-1, 0, 0, 1, 1, 7])
    body = rng.choice(["<b>&amp;\"'", "a<b & c>d ", "x&y<z> ", "&lt;i&gt;\r\n"])
    pre = rng.choice(EXTRA) if EXTRA and rng.random() < 0.6 else ""
    return pre + (body * (n // len(body) + 1))[:max(n - len(pre), 1)]


def extra_or(rng: random.Random, pool, p: float = 0.3):
    """a new source literal with probability p (when there is one), else a member of the pool"""
    if EXTRA and rng.random() < p:
        return rng.choice(EXTRA)
    return rng.choice(pool)


def rand_text(rng: random.Random, maxlen: int = 12) -> str:
    r = rng.random()
    if THRESHOLDS and rng.random() < 0.06:
        return threshold_text(rng)
    if EXTRA and r < 0.12:
        w = rng.choice(EXTRA)
        return rng.choice([w, w, w + rng.choice(META), rng.choice(META) + w, w.upper(), w + " " + rng.choice(EXTRA)])
    if r < 0.25:
        return rng.choice(TEXT_POOL)
    n = rng.randint(0, maxlen)
    out = []
    for _ in range(n):
        q = rng.random()
        if q < 0.35:
            out.append(rng.choice(META))
        elif q < 0.8:
            out.append(chr(rng.randint(0x20, 0x7E)))
        elif q < 0.9:
            out.append(chr(rng.randint(0xA0, 0x2FF)))
        elif q < 0.95:
            out.append(rng.choice("\t\n\r\x0b\x0c\x1c\x85 　"))
        else:
            c = rng.randint(0x10000, 0x10FFFF)
            out.append(chr(c))
    return "".join(out)


def rand_attrs(rng: random.Random, maxn: int = 3, html_ok: bool = True):
    n = rng.choice([0, 0, 1, 1, 2, maxn])
    names = rng.sample(ATTR_NAMES, min(n, len(ATTR_NAMES)))
    out = []
    for k in names:
        kind = "h" if (html_ok and rng.random() < 0.2) else "p"
        out.append((k, (kind, rand_text(rng, 8))))
    return out


def rand_name(rng: random.Random, all_names=None, near=("case", "miss")) -> tuple[str, bool]:
    """(name, default add_ws)"""
    if near and rng.random() < NEAR_P:
        pool = (NEAR_CASE if "case" in near else []) + (NEAR_MISS if "miss" in near else [])
        return rng.choice(pool), rng.random() < 0.5
    r = rng.random()
    if r < 0.3:
        return rng.choice(BLOCK), True
    if r < 0.55:
        return rng.choice(INLINE), False
    if r < 0.65:
        return rng.choice(VOID_INLINE), False
    if r < 0.72:
        return rng.choice(VOID_BLOCK), True
    if r < 0.78:
        return rng.choice(RAW), True
    if r < 0.85:
        return rng.choice(CUSTOM), rng.random() < 0.5
    if all_names:
        return rng.choice(all_names)
    return rng.choice(BLOCK + INLINE), rng.random() < 0.5


def rand_node(rng: random.Random, depth: int, *, leaves=("text", "html", "robj", "meta"), fan: int = 4,
              all_names=None, flip_ws: float = 0.15, attrs: bool = True, html_attrs: bool = True, near=("case", "miss")):
    if depth <= 0 or rng.random() < 0.3:
        k = rng.choice(leaves)
        if k == "text":
            return ("text", rand_text(rng))
        if k == "html":
            return ("html", rng.choice(HTML_POOL) if rng.random() < 0.5 else rand_text(rng))
        if k == "robj":
            return ("robj", rng.choice(HTML_POOL) if rng.random() < 0.5 else rand_text(rng))
        if k == "meta":
            return ("meta", rng.randint(0, 9))
        raise ValueError(k)
    name, ws = rand_name(rng, all_names, near)
    if rng.random() < flip_ws:
        ws = not ws
    n = rng.choice([0, 1, 1, 2, 2, 3, fan])
    kids = [rand_node(rng, depth - 1, leaves=leaves, fan=fan, all_names=all_names, flip_ws=flip_ws,
                      attrs=attrs, html_attrs=html_attrs, near=near) for _ in range(n)]
    return ("tag", name, ws, rand_attrs(rng, html_ok=html_attrs) if attrs else [], kids)


def rand_tag(rng, depth, **kw):
    while True:
        n = rand_node(rng, depth, **kw)
        if n[0] == "tag":
            return n


# exhaustive small scope ---------------------------------------------------
def small_leaves():
    return [("text", "a"), ("text", "<&>"), ("text", ""), ("text", "x\ny"), ("html", "<i>"), ("robj", "<u>r</u>"),
            ("meta", 0)]


def small_tags():
    # (name, ws): block, inline, void-inline, void-block, raw-text, block-p
    return [("div", True), ("span", False), ("br", False), ("hr", True), ("script", True), ("p", True)]


def trees_upto(n_nodes: int, leaves=None, tags=None):
    """all trees (single root node of any kind) with at most n_nodes nodes"""
    leaves = leaves if leaves is not None else small_leaves()
    tags = tags if tags is not None else small_tags()
    memo_t = {}
    memo_f = {}

    def trees(n):  # exactly n nodes
        if n in memo_t:
            return memo_t[n]
        out = []
        if n == 1:
            out.extend(leaves)
        if n >= 1:
            for f in forests(n - 1):
                for (nm, ws) in tags:
                    out.append(("tag", nm, ws, [], list(f)))
        memo_t[n] = out
        return out

    def forests(n):  # ordered forests with exactly n nodes in total
        if n in memo_f:
            return memo_f[n]
        out = []
        if n == 0:
            out.append(())
        else:
            for k in range(1, n + 1):
                for t in trees(k):
                    for rest in forests(n - k):
                        out.append((t,) + rest)
        memo_f[n] = out
        return out

    for n in range(1, n_nodes + 1):
        yield from trees(n)


def forests_upto(n_nodes: int, leaves=None, tags=None):
    leaves = leaves if leaves is not None else small_leaves()
    tags = tags if tags is not None else small_tags()
    # reuse trees_upto's machinery through a synthetic root
    for t in trees_upto(n_nodes + 1, leaves, [("__root__", True)] + list(tags)):
        if t[0] == "tag" and t[1] == "__root__":
            if not _has_root(t[4]):
                yield list(t[4])


def _has_root(kids) -> bool:
    for k in kids:
        if k[0] == "tag" and (k[1] == "__root__" or _has_root(k[4])):
            return True
    return False


def count_nodes(n) -> int:
    if n[0] == "tag":
        return 1 + sum(count_nodes(c) for c in n[4])
    if n[0] == "tobjL":
        return 1 + sum(count_nodes(c) for c in n[2])
    if n[0] == "tobj1":
        return 1 + count_nodes(n[2])
    if n[0] == "dep":
        return 1 + sum(count_nodes(c) for c in n[3])
    return 1


def depth_of(n) -> int:
    if n[0] == "tag":
        return 1 + max([depth_of(c) for c in n[4]] + [0])
    return 1


# shared case generator for the exact-string rendering properties -----------------------------
def render_lines(rng, tier: str, budget, all_fns=None, eols_quick=((0, "\n"), (2, "<!>")),
                 eols_thorough=((0, "\n"), (1, ""), (3, "<!>"), (2, "\r\n")), bound_quick=4, bound_thorough=5,
                 leaves=None, tags=None, rand_leaves=("text", "html", "robj", "meta")):
    """-> (lines, scopes): render_tag / render_list wire lines"""
    from wire import enode, enodes, es, eb
    lines = []
    scopes = []
    bound = bound_quick if tier == "quick" else bound_thorough
    cfgs = eols_quick if tier == "quick" else eols_thorough
    n_ex = 0
    for t in trees_upto(bound, leaves, tags):
        if t[0] != "tag":
            continue
        for (i, e) in (cfgs if count_nodes(t) <= 4 else cfgs[:2]):
            lines.append(f"render_tag {enode(t)} {i} {es(e)}")
        n_ex += 1
    scopes.append({"scope": f"all tag-rooted trees with <= {bound} nodes over {len(tags or small_tags())} tag kinds x "
                            f"{len(leaves or small_leaves())} leaf kinds x {len(cfgs)} (indent, eol) settings",
                   "trees": n_ex, "exhaustive": True})
    fb = 3 if tier == "quick" else 4
    n_f = 0
    for f in forests_upto(fb, leaves, tags):
        for aw in (True, False):
            for (i, e) in cfgs[:2]:
                lines.append(f"render_list {enodes(f)} {i} {es(e)} {eb(aw)} T")
        n_f += 1
    scopes.append({"scope": f"all top-level lists with <= {fb} nodes x add_ws x 2 (indent, eol) settings", "lists": n_f, "exhaustive": True})
    # every tag function as parent and as child, with its own default flag
    if all_fns:
        for (nm, ws) in all_fns:
            for kids in ([], [("text", "t")], [("text", "a"), ("tag", "span", False, [], [("text", "b")])],
                         [("tag", "div", True, [], [])], [("meta", 1)]):
                lines.append(f"render_tag {enode(('tag', nm, ws, [], kids))} 1 {es(chr(10))}")
            for (pn, pws) in (("div", True), ("span", False)):
                lines.append(f"render_tag {enode(('tag', pn, pws, [], [('text', 'x'), ('tag', nm, ws, [], [('text', 'y')]), ('text', 'z')]))} 0 {es(chr(10))}")
        scopes.append({"scope": "every tags/svg function (name, default flag) as parent of 5 child patterns and as child of block/inline parent",
                       "functions": len(all_fns), "exhaustive": True})
    for _ in range(budget(2000, 60000)):
        t = rand_tag(rng, rng.randint(1, 8), leaves=rand_leaves, all_names=all_fns)
        i = rng.choice([0, 0, 1, 2, 5])
        e = rng.choice(["\n", "\n", "", "\r\n", "<!>", " ", "\n\n"])
        lines.append(f"render_tag {enode(t)} {i} {es(e)}")
    for _ in range(budget(600, 15000)):
        ks = [rand_node(rng, rng.randint(0, 4), leaves=rand_leaves, all_names=all_fns) for _ in range(rng.randint(0, 6))]
        i = rng.choice([0, 1, 3])
        e = rng.choice(["\n", "", "<!>"])
        lines.append(f"render_list {enodes(ks)} {i} {es(e)} {eb(rng.random() < 0.6)} {eb(rng.random() < 0.85)}")
    lines += deep_chain_lines(rng, 40 if tier == "quick" else 400)
    scopes.append({"scope": "boundary stream: nesting depth and indent argument in " + str(BOUNDARY_LEVELS), "exhaustive": False})
    lines += boundary_lines(rng, leaves=rand_leaves)
    scopes.append({"scope": "width stream: fan-out / attribute count in " + str(WIDTHS) + " x {all block, all inline, all text, all void, mixed} "
                            "x {block parent, inline parent, top-level list}; text lengths " + str(ALIAS_LENGTHS) + "; every case variant / near miss "
                            "of a void or no-escape name (" + ", ".join(NEAR_CASE + NEAR_MISS) + ") x 2 flags x 6 child patterns", "exhaustive": True})
    return lines, scopes


def fn_catalogue(info) -> list[tuple[str, bool]]:
    """(name, default add_ws) for every wrapper row the translator found"""
    out = []
    seen = set()
    for r in info.get("html_rows", []) + info.get("svg_rows", []):
        if r["shape"] and r["lit"] not in seen:
            seen.add(r["lit"])
            out.append((r["lit"], r["dflt"]))
    return out


# the same characters in different roles, at sizes around typical cache / interning thresholds --------------
ALIAS_LENGTHS = [1, 2, 8, 16, 31, 32, 33, 47, 48, 49, 63, 64, 65, 100, 127, 128, 129, 255, 256, 257, 1000, 4100]


def alias_string(rng: random.Random, n: int) -> str:
    base = rng.choice(["<b>&x</b>", "a<&>\"'", "&lt;i&gt;", "x & y < z > w", "</script><img src=x onerror=alert(1)>"])
    s = (base * (n // len(base) + 1))[:n]
    if n >= 4 and not any(c in s for c in "&<>"):
        s = s[:-3] + "<&>"
    return s


def alias_trees(rng: random.Random, count: int):
    """trees in which one and the same string occurs as HTML(), as plain text, as a _repr_html_ result and as plain /
    HTML() attribute values, in varying orders (history- and aliasing-sensitive implementations show up here)"""
    roles = ["text", "html", "robj"]
    out = []
    for _ in range(count):
        s = alias_string(rng, rng.choice(ALIAS_LENGTHS))
        order = [rng.choice(roles) for _ in range(rng.randint(2, 5))]
        if "text" not in order:
            order.append("text")
        if "html" not in order:
            order.insert(0, "html")
        kids = [(r, s) for r in order]
        if rng.random() < 0.5:
            kids = [("tag", rng.choice(["span", "div", "p"]), rng.random() < 0.5, [], [k]) for k in kids]
        attrs = []
        if rng.random() < 0.6:
            attrs = [("title", ("h", s)), ("alt", ("p", s))] if rng.random() < 0.5 else [("alt", ("p", s)), ("title", ("h", s))]
        out.append(("tag", rng.choice(["div", "span", "section"]), rng.random() < 0.7, attrs, kids))
    return out


# boundary depths / indents ------------------------------------------------------------------------------
BOUNDARY_LEVELS = [14, 15, 16, 17, 18, 31, 32, 33, 63, 64, 65, 100]


WIDTHS = [7, 8, 9, 15, 16, 17, 31, 32, 33, 64, 100]


def wide_trees(rng: random.Random, leaves=("text", "html", "robj", "meta"), html_attrs: bool = True):
    """fan-outs, attribute counts and text lengths around typical thresholds (8, 16, 32, …): a fast path that switches
    on for "many children" / "many attributes" / "long text" shows up here"""
    out = []
    leaf_cycle = [k for k in ("text", "html", "robj", "meta") if k in leaves] or ["text"]

    def leaf(kind, i):
        return ("meta", i % 10) if kind == "meta" else (kind, ["a", "<&>", "x y", "", "é"][i % 5] + str(i))

    for w in WIDTHS:
        shapes = {
            "block": [("tag", "div", True, [], [("text", str(i))]) for i in range(w)],
            "inline": [("tag", "span", False, [], [("text", str(i))]) for i in range(w)],
            "text": [("text", f"t{i}<") for i in range(w)],
            "void": [("tag", ["br", "hr", "img"][i % 3], ["br", "hr", "img"][i % 3] == "hr", [], []) for i in range(w)],
            "mixed": [(("tag", "div", True, [], [("text", "b")]), ("tag", "em", False, [], [("text", "i")]), ("text", "t&"),
                       leaf(leaf_cycle[i % len(leaf_cycle)], i), ("tag", "p", True, [], []))[i % 5] for i in range(w)],
        }
        for kind, kids in shapes.items():
            for (pn, pws) in (("div", True), ("span", False)):
                out.append(("tag", pn, pws, [], kids))
            out.append(("list", kids))
        attrs = [(f"a{i}", ("h" if (html_attrs and i % 7 == 3) else "p", f"v{i}\"&")) for i in range(w)]
        out.append(("tag", "div", True, attrs, [("text", "x")]))
        out.append(("tag", "img", False, attrs, []))
    for n in ALIAS_LENGTHS:
        s_ = alias_string(rng, n)
        out.append(("tag", "div", True, [], [("text", s_), ("tag", "span", False, [], [("text", s_)]), ("text", s_)]))
        out.append(("tag", "span", False, [("title", ("p", s_))], [("text", s_)]))
    return out


def near_name_trees(near=("case", "miss")):
    """every near-table name as an only element, as a parent of text / several children, and as a child"""
    names = (NEAR_CASE if "case" in near else []) + (NEAR_MISS if "miss" in near else [])
    out = []
    for nm in names:
        for ws in (True, False):
            for kids in ([], [("text", "a<b&c>")], [("text", "x"), ("text", "<y>")], [("tag", "b", False, [], [("text", "&")])],
                         [("text", "</" + nm + ">")]):
                out.append(("tag", nm, ws, [], kids))
            out.append(("tag", "div", True, [], [("text", "p"), ("tag", nm, ws, [], [("text", "<q>")]), ("text", "r")]))
    return out


def boundary_cases(rng: random.Random, leaves=("text", "html", "robj", "meta"), near=("case", "miss"), html_attrs: bool = True):
    """wide_trees and near_name_trees as marker-substitution cases (harness/subst.py check_cases)"""
    out = []
    for t in wide_trees(rng, leaves, html_attrs) + near_name_trees(near):
        if t[0] == "list":
            out.append(("list", t[1], 1, "\n", True, True))
        else:
            out.append(("tag", t, 1, "\n"))
    return out


def boundary_lines(rng: random.Random, leaves=("text", "html", "robj", "meta"), near=("case", "miss"), html_attrs: bool = True,
                   cfgs=((0, "\n"), (2, "<!>"))):
    """render_tag / render_list lines for wide_trees and near_name_trees"""
    from wire import enode, enodes, es
    lines = []
    for t in wide_trees(rng, leaves, html_attrs) + near_name_trees(near):
        for (i, e) in cfgs:
            if t[0] == "list":
                lines.append(f"render_list {enodes(t[1])} {i} {es(e)} T T")
            else:
                lines.append(f"render_tag {enode(t)} {i} {es(e)}")
    return lines


def deep_chain_lines(rng: random.Random, n_extra: int = 40):
    """nested chains and large `indent` arguments around typical table / cache sizes (16, 32, 64, …)"""
    from wire import enode, enodes, es, eb
    lines = []
    for d in BOUNDARY_LEVELS:
        for ws in (True, False):
            leaf = [("text", "t"), ("tag", "span", False, [], [("text", "s")])]
            t = ("tag", "p", True, [], leaf)
            for k in range(d):
                t = ("tag", "div" if ws else "span", ws, [], [t] + ([("text", "x")] if k % 5 == 0 else []))
            lines.append(f"render_tag {enode(t)} 0 {es(chr(10))}")
        t = ("tag", "div", True, [], [("tag", "p", True, [], [("text", "a"), ("tag", "b", False, [], [("text", "c")])]), ("text", "z")])
        lines.append(f"render_tag {enode(t)} {d} {es(chr(10))}")
        lines.append(f"render_list {enodes([t, ('text', 'q'), t])} {d} {es(chr(13) + chr(10))} T T")
    for _ in range(n_extra):
        t = rand_tag(rng, rng.randint(2, 5))
        lines.append(f"render_tag {enode(t)} {rng.choice(BOUNDARY_LEVELS)} {es(rng.choice([chr(10), '', '<!>']))}")
    return lines


# process history: the same characters in the other role first ---------------------------------------------
_TWIN = {"text": "html", "html": "text", "p": "h", "h": "p", "as": "ah", "ah": "as"}
HISTORY_OPS = ("render_tag", "render_tag_n", "render_list", "render_tag_via", "attr_render", "ahist", "chist", "consolidate",
               "document_render", "doc_render", "render_full_list", "render_full_tag", "tagify_list", "tagify_tag", "hexpr",
               "head_content", "ser", "jsonmode", "textdoc", "c08_views", "deps_render")


def twin(line: str) -> str:
    """the same line with every plain string turned into trusted markup and vice versa (text <-> HTML() leaves,
    plain <-> HTML() attribute values); string tokens are hexadecimal and cannot collide with the kind tokens"""
    return " ".join(_TWIN.get(t, t) for t in line.split(" "))


def raising_lines() -> list[str]:
    """renderings that raise part-way through (an un-expanded tagifiable object deep inside script / style / ordinary
    and inline parents): state that is set before a child list is rendered and restored afterwards must be restored on
    the exceptional exit too"""
    from wire import enode, es
    tob = ("tobjL", None, [])
    out = []
    for name, ws in (("script", True), ("style", True), ("div", True), ("span", False), ("pre", False)):
        t = ("tag", name, ws, [("id", ("p", "a<b"))], [("text", "a<b>&c"), tob, ("html", "<i>")])
        out.append(f"render_tag {enode(t)} 0 {es(chr(10))}")
        out.append(f"render_tag {enode(('tag', 'div', True, [], [t, ('text', 'x')]))} 1 {es(chr(10))}")
    return out


def with_history(rng: random.Random, line: str, p: float = 0.08) -> str:
    """with probability p the line preceded, in the same process, by its twin or by a rendering that raises"""
    if rng.random() >= p or line.startswith("after ") or len(line) > 4000:
        return line
    pre = twin(line) if rng.random() < 0.5 else rng.choice(raising_lines())
    return line if pre == line else f"after {pre} ;; {line}"


def history_lines(rng: random.Random, lines: list[str], k: int) -> list[str]:
    """`after <history> ;; <line>`: a sample of the given lines, each evaluated after (a) its twin, (b) its twin twice
    and another line, in the same process — state left behind by earlier calls (caches keyed on equal-but-different
    values, module-level memos) then reaches the line's answer; the model answers for the line alone"""
    cand = [l for l in lines if l.split(" ", 1)[0] in HISTORY_OPS and len(l) < 4000]
    if not cand:
        return []
    out = []
    for l in rng.sample(cand, min(k, len(cand))):
        tw = twin(l)
        r = rng.random()
        if r < 0.25:
            out.append(f"after {rng.choice(raising_lines())} ;; {l}")
        elif tw == l:
            continue
        elif r < 0.75:
            out.append(f"after {tw} ;; {l}")
        else:
            out.append(f"after {tw} ;; {rng.choice(cand)} ;; {tw} ;; {l}")
    return out
