/-
Executable statement of C01, evaluated by the driver on the *implementation's* output:
"the real output tokenizes, builds and normalises to `[expected t]`" (when the guards hold).
These are the very definitions `C01_tag` / `C01_list` are about.
-/
import HtmlVerif.Spec.Html

namespace HtmlVerif.Holds
open HtmlVerif

def ordinaryTag (cfg : Cfg) (t : Node) : Bool := t.isTag && t.ordinary cfg.noesc

def optTreesEq : Option (List PTree) → Option (List PTree) → Bool
  | some a, some b => PTree.beqList a b
  | none, none => true
  | _, _ => false

/-- guard ∧ statement; outside the guard the statement is silent (`true`) -/
def holdsC01Tag (cfg : Cfg) (t : Node) (eol : Str) (out : Str) : Bool :=
  if ordinaryTag cfg t && wsOnly eol then
    optTreesEq (parseHtml out) (some [expected cfg.void t])
  else true

def holdsC01List (cfg : Cfg) (ks : Nodes) (eol : Str) (esc : Bool) (out : Str) : Bool :=
  if ks.ordinaryKids cfg.noesc && wsOnly eol && esc then
    optTreesEq (parseHtml out) (some (expectedKids cfg.void ks))
  else true

end HtmlVerif.Holds
