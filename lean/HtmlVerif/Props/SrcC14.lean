/-
Source tie (DESIGN §14) for C14 — child lists hold only normalised nodes.  The Lean functions regenerated from the
*text* of `is_tag_node`, `is_tag_child` (htmltools/_core.py), `flatten`, `_flatten_recurse` (htmltools/_util.py),
`_tagchilds_to_tagnodes` and the `TagList` constructor / mutators compute, for every argument value of the child-list
model (Model/Children.lean: None, numbers, strings, nodes, lists / tuples / TagLists nested to any depth, other iterables,
unsupported objects) what the model computes — TypeError branches included.

`_flatten_recurse(x, result)` mutates its parameter; its translation returns the new `result` (harness/pytr_c14.py states and
checks the no-aliasing conditions).  It is self-recursive, so it takes fuel; the theorems hold for every fuel that covers the
nesting depth of the argument.  The functions above it are emitted with a fuel argument as well (they pass it on).

The embedding `embA : Arg → PVal` is in Lemmas/SrcC14.lean.  `argRep x` says that the text the model carries for every number
in `x` is what `str()` gives for the embedded value (the model takes that text as a parameter) and that dict keys are strings.

Every theorem takes `<fn>_available = true` for the function and for every translated function it calls; when a function has
left the translatable fragment the flag is `false` and the first alternative (`absurd`) proves the theorem vacuously.
No loop body is spelled out: the loops are taken from the regenerated definitions by unification (`flat_loop_k`, `conv_loop`).
-/
import HtmlVerif.Generated.Src
import HtmlVerif.Lemmas.SrcC14

namespace HtmlVerif.SrcTie
open HtmlVerif HtmlVerif.Py HtmlVerif.Generated.Src

/-! ### is_tag_node / is_tag_child -/

/-- `is_tag_node(x)` as the source has it = `Arg.isTagNode`, for every value -/
theorem src_is_tag_node (h : is_tag_node_available = true) (G : Globals) (a : Arg) :
    is_tag_node G (embA a) = .ok (.bool a.isTagNode) := by
  first
  | exact absurd h (by decide)
  | unfold is_tag_node
    simp only [pure_eq_ok]
    cases a with
    | node n => cases n <;> simp [embA, embNode, isInstance, builtinClasses, classBases, Arg.isTagNode, Node.isTagNode]
    | num k t => cases k <;> simp [embA, numVal, isInstance, builtinClasses, Arg.isTagNode]
    | seqLike k xs => cases k <;> simp [embA, embSeq, seqName, isInstance, builtinClasses, classBases, Arg.isTagNode]
    | _ => simp [embA, isInstance, builtinClasses, classBases, Arg.isTagNode]

/-- (C15b) `a or b` with a bool left operand: `src_is_tag_child` then also covers the `return a or b or c` spelling of the three
    tests (benign/B3-1) -/
theorem pyOr_boolC15b (x : Bool) (m : PyM PVal) : pyOr (.ok (.bool x)) m = if x then .ok (.bool true) else m := by
  cases x <;> rfl

set_option linter.unusedSimpArgs false in
/-- `is_tag_child(x)` as the source has it = `Arg.isTagChild`, for every value -/
theorem src_is_tag_child (h : is_tag_child_available = true) (hn : is_tag_node_available = true) (G : Globals) (a : Arg) :
    is_tag_child G (embA a) = .ok (.bool a.isTagChild) := by
  first
  | exact absurd h (by decide)
  | unfold is_tag_child
    simp only [src_is_tag_node hn, ok_bind, pure_eq_ok, truthy_bool, pyOr_boolC15b]
    cases a with
    | node n =>
      cases n <;> simp [Arg.isTagNode, Node.isTagNode, Arg.isTagChild]
    | num k t =>
      cases k <;> simp [embA, numVal, isInstance, isInstanceSeq, isSequence, builtinClasses, Arg.isTagNode, Arg.isTagChild, isNone]
    | seqLike k xs =>
      cases k <;> simp [embA, embSeq, seqName, isInstance, isInstanceSeq, isSequence, builtinClasses, classBases, Arg.isTagNode,
        Arg.isTagChild, isNone, SeqKind.isSequence]
    | _ => simp [embA, isInstance, isInstanceSeq, isSequence, builtinClasses, classBases, Arg.isTagNode, Arg.isTagChild, isNone]

/-! ### flatten -/

/-- one level of `_flatten_recurse`: given the tie for the nested lists / tuples / TagLists at this fuel -/
theorem src_flatten_recurse_step (h : util_flatten_recurse_available = true) (G : Globals) (fuel : Nat)
    (xs : Args) (acc : List Arg) (X : PVal) (hX : pyIter X = .ok (embAs xs))
    (HP : ∀ c ∈ xs.toList, ∀ (b : List Arg), argIsNest c = true →
      util_flatten_recurse G fuel (embA c) (.list (b.map embA)) = .ok (.list ((c.flattenItem b).map embA))) :
    util_flatten_recurse G (fuel + 1) X (.list (acc.map embA)) = .ok (.list ((xs.flattenInto acc).map embA)) := by
  first
  | exact absurd h (by decide)
  | rw [util_flatten_recurse]
    simp only [pure_eq_ok, truthy_bool, hX, ok_bind]
    refine flat_loop_k xs acc _ (embAs_toList xs) _ _ ?step _ _ ?k
    case k => intro s hs; rw [hs]
    case step =>
      intro c hc s b hs
      obtain ⟨s1, s2⟩ := s
      simp only at hs; subst hs
      simp only [isInstance_cons2, isList_emb, isTuple_emb, isTL_emb, isNone_emb]
      cases c with
      | list ys => simp only [argIsList, argIsTuple, argIsTL, Bool.or_true, Bool.true_or, Bool.false_or, Bool.or_false, if_true, HP _ hc b rfl, ok_bind]; exact ⟨_, rfl, rfl⟩
      | tuple ys => simp only [argIsList, argIsTuple, argIsTL, Bool.or_true, Bool.true_or, Bool.false_or, Bool.or_false, if_true, HP _ hc b rfl, ok_bind]; exact ⟨_, rfl, rfl⟩
      | taglist ys => simp only [argIsList, argIsTuple, argIsTL, Bool.or_true, Bool.true_or, Bool.false_or, Bool.or_false, if_true, HP _ hc b rfl, ok_bind]; exact ⟨_, rfl, rfl⟩
      | none => exact ⟨_, rfl, rfl⟩
      | _ => simp [argIsList, argIsTuple, argIsTL, argIsNone, pyListAppend_list, Arg.flattenItem]

/-- `_flatten_recurse(x, result)`, for all items nested to depth ≤ n and any fuel above n: the returned list is `result`
    followed by the model's flattening -/
theorem src_flatten_recurse_depth (h : util_flatten_recurse_available = true) (G : Globals) (n : Nat) :
    ∀ (xs : Args), argsFdepth xs ≤ n → ∀ fuel, n < fuel → ∀ (X : PVal) (acc : List Arg), pyIter X = .ok (embAs xs) →
      util_flatten_recurse G fuel X (.list (acc.map embA)) = .ok (.list ((xs.flattenInto acc).map embA)) := by
  induction n with
  | zero =>
    intro xs hd fuel hf X acc hX
    obtain ⟨f, rfl⟩ : ∃ f, fuel = f + 1 := ⟨fuel - 1, by omega⟩
    refine src_flatten_recurse_step h G f xs acc X hX ?_
    intro c hc b hn
    have := fdepth_mem xs c hc
    cases c <;> simp [argIsNest] at hn <;> simp [argFdepth] at this <;> omega
  | succ n ih =>
    intro xs hd fuel hf X acc hX
    obtain ⟨f, rfl⟩ : ∃ f, fuel = f + 1 := ⟨fuel - 1, by omega⟩
    refine src_flatten_recurse_step h G f xs acc X hX ?_
    intro c hc b hn
    have hdc := fdepth_mem xs c hc
    cases c with
    | list ys => exact ih ys (by simp [argFdepth] at hdc; omega) f (by omega) _ b rfl
    | tuple ys => exact ih ys (by simp [argFdepth] at hdc; omega) f (by omega) _ b rfl
    | taglist ys => exact ih ys (by simp [argFdepth] at hdc; omega) f (by omega) _ b (pyIter_taglist _)
    | _ => simp [argIsNest] at hn

/-- `_flatten_recurse(x, result)` as the source has it: TypeError when `x` is not iterable, else `result` extended by the
    model's flattening of the items of `x` -/
theorem src_flatten_recurse (h : util_flatten_recurse_available = true) (G : Globals) (x : Arg) (hr : argRep x = true)
    (acc : List Arg) (fuel : Nat) (hf : iterDepth x < fuel) :
    util_flatten_recurse G fuel (embA x) (.list (acc.map embA))
      = match x.iter with
        | .ok items => .ok (.list ((items.flattenInto acc).map embA))
        | .error e => .error (embErr e) := by
  first
  | exact absurd h (by decide)
  | have hi := pyIter_emb x hr
    cases hx : x.iter with
    | ok items =>
      rw [hx] at hi
      have hd : argsFdepth items ≤ iterDepth x := iter_fdepth x items hx
      exact src_flatten_recurse_depth h G (iterDepth x) items hd fuel hf (embA x) acc hi
    | error e =>
      rw [hx] at hi
      obtain ⟨f, rfl⟩ : ∃ f, fuel = f + 1 := ⟨fuel - 1, by omega⟩
      rw [util_flatten_recurse]
      simp only [hi, error_bind]

/-- `flatten(x)` as the source has it = the model's `flatten` of what iterating `x` yields (TypeError when `x` is not
    iterable), for every value and any fuel above its nesting depth + 1 -/
theorem src_flatten (h : util_flatten_available = true) (hr' : util_flatten_recurse_available = true) (G : Globals)
    (x : Arg) (hr : argRep x = true) (fuel : Nat) (hf : iterDepth x + 1 < fuel) :
    util_flatten G fuel (embA x)
      = match x.iter with
        | .ok items => .ok (.list ((flatten items).map embA))
        | .error e => .error (embErr e) := by
  first
  | exact absurd h (by decide)
  | obtain ⟨f, rfl⟩ : ∃ f, fuel = f + 1 := ⟨fuel - 1, by omega⟩
    rw [util_flatten]
    simp only [pure_eq_ok]
    have := src_flatten_recurse hr' G x hr [] f (by omega)
    simp only [List.map_nil] at this
    rw [this]
    cases x.iter <;> rfl

/-! ### _tagchilds_to_tagnodes -/

/-- `_tagchilds_to_tagnodes(x)` as the source has it = `chTagchildsToTagnodes`: a `str` is one child; otherwise the items of
    `x` are flattened, numbers become their `str()` text, and anything that is not a tag node makes the call raise TypeError;
    for every value and any fuel above its nesting depth + 2 -/
theorem src_tagchilds_to_tagnodes (h : tagchilds_to_tagnodes_available = true) (hf' : util_flatten_available = true)
    (hr' : util_flatten_recurse_available = true) (hn : is_tag_node_available = true) (G : Globals)
    (x : Arg) (hr : argRep x = true) (fuel : Nat) (hf : iterDepth x + 2 < fuel) :
    tagchilds_to_tagnodes G fuel (embA x) = embRes (fun r => .list (r.map embStored)) (chTagchildsToTagnodes x) := by
  first
  | exact absurd h (by decide)
  | obtain ⟨f, rfl⟩ : ∃ f, fuel = f + 1 := ⟨fuel - 1, by omega⟩
    rw [tagchilds_to_tagnodes]
    simp only [pure_eq_ok, truthy_bool, isStr_emb]
    unfold chTagchildsToTagnodes
    by_cases hs : x.isStr = true
    · simp [hs, embRes, embStored_ofArg]
    · simp only [hs, Bool.false_eq_true, if_false]
      rw [src_flatten hf' hr' G x hr f (by omega)]
      cases hx : x.iter with
      | error e => rfl
      | ok items =>
        have hrep := flatten_rep items (iter_rep x hr items hx)
        simp only [ok_bind, pyEnumerate_emb, pyIter_list]
        refine conv_loop (flatten items) _ _ ?step
        intro p hp s b hs hlen
        obtain ⟨i, a⟩ := p
        obtain ⟨s1, s2⟩ := s
        simp only at hs; subst hs
        have hi : i < b.length := by have := enumP_mem _ _ _ hp; simp at this; omega
        have ha : a ∈ flatten items := by
          have : ∀ (L : List Arg) (k : Nat), (i, a) ∈ enumP k L → a ∈ L := by
            intro L; induction L with
            | nil => intro k hk; simp [enumP] at hk
            | cons c r ih =>
              intro k hk; simp only [enumP, List.mem_cons, Prod.mk.injEq] at hk
              rcases hk with ⟨_, rfl⟩ | hk
              · simp
              · simp [ih _ hk]
          exact this _ _ hp
        simp only [embIdx, pyUnpack2_tuple, ok_bind, isInstance_cons2, isInt_emb, isFloat_emb, src_is_tag_node hn]
        have hsplit : (argIsInt a || argIsFloat a) = argIsNum a ∧ (argIsFloat a || argIsInt a) = argIsNum a := by
          cases a <;> first | exact ⟨rfl, rfl⟩ | (rename_i k t; cases k <;> exact ⟨rfl, rfl⟩)
        simp only [hsplit.1, hsplit.2]
        by_cases hnum : argIsNum a = true
        · cases a <;> simp [argIsNum] at hnum
          rename_i k t
          have hok : numOk k t = true := by simpa [argRep] using hrep _ ha
          simp only [argIsNum, if_true, embA, numOk_pyStr hok, ok_bind, pySetItem_list_nat b i _ hi, convStep_num, Sim]
          exact ⟨_, rfl, _, rfl, rfl, by simpa using hlen⟩
        · have hnum' : argIsNum a = false := by simpa using hnum
          rw [convStep_other _ _ _ hnum']
          simp only [hnum', Bool.false_eq_true, if_false, ok_bind, truthy_bool]
          by_cases ht : a.isTagNode = true
          · simp only [ht, Bool.not_true, Bool.false_eq_true, if_false, if_true, Sim]
            exact ⟨_, rfl, _, rfl, rfl, hlen⟩
          · simp [ht, Sim, embErr]

/-! ### TagList: constructor and mutators -/

/-- `TagList._should_not_expand(x)` = `isinstance(x, str)` -/
theorem src_should_not_expand (h : TagList_should_not_expand_available = true) (G : Globals) (self : PVal) (x : Arg) :
    TagList_should_not_expand G self (embA x) = .ok (.bool x.isStr) := by
  first
  | exact absurd h (by decide)
  | unfold TagList_should_not_expand
    simp only [pure_eq_ok, isStr_emb]

/-- `TagList(*args)` as the source has it = `TL.init`: the new instance's `.data` is the normalised list, or TypeError -/
theorem src_TagList_init (h : TagList_init_available = true) (ht : tagchilds_to_tagnodes_available = true)
    (hf' : util_flatten_available = true) (hr' : util_flatten_recurse_available = true) (hn : is_tag_node_available = true)
    (G : Globals) (args : List Arg) (hr : args.all argRep = true) (fuel : Nat)
    (hf : argsFdepth (Args.ofList args) + 3 < fuel) :
    TagList_init G fuel (.obj "TagList" []) (.tuple (args.map embA)) = embRes embTL (TL.init args) := by
  first
  | exact absurd h (by decide)
  | obtain ⟨f, rfl⟩ : ∃ f, fuel = f + 1 := ⟨fuel - 1, by omega⟩
    rw [TagList_init]
    have key := src_tagchilds_to_tagnodes ht hf' hr' hn G (.tuple (Args.ofList args)) (by simpa [argRep, rep_ofList] using hr) f
      (by simp only [iterDepth]; omega)
    simp only [embA, embAs_ofList] at key
    simp only [pure_eq_ok, key, TL.init]
    cases chTagchildsToTagnodes (.tuple (Args.ofList args)) with
    | error e => rfl
    | ok r => simp [embRes, userListInit_new, embTL]

/-- `self.extend(other)` as the source has it = `TL.extend` -/
theorem src_TagList_extend (h : TagList_extend_available = true) (ht : tagchilds_to_tagnodes_available = true)
    (hf' : util_flatten_available = true) (hr' : util_flatten_recurse_available = true) (hn : is_tag_node_available = true)
    (G : Globals) (s : TL) (other : Arg) (hr : argRep other = true) (fuel : Nat) (hf : iterDepth other + 3 < fuel) :
    TagList_extend G fuel (embTL s) (embA other) = embOut (s.extend other) := by
  first
  | exact absurd h (by decide)
  | obtain ⟨f, rfl⟩ : ∃ f, fuel = f + 1 := ⟨fuel - 1, by omega⟩
    rw [TagList_extend]
    simp only [pure_eq_ok, src_tagchilds_to_tagnodes ht hf' hr' hn G other hr f (by omega), TL.extend]
    cases chTagchildsToTagnodes other with
    | error e => rfl
    | ok r => simp [embRes, embTL, userListExtend_tl, embOut]

/-- `self.append(item, *args)` as the source has it = `TL.append` (with at least the one required argument) -/
theorem src_TagList_append (h : TagList_append_available = true) (he : TagList_extend_available = true)
    (ht : tagchilds_to_tagnodes_available = true) (hf' : util_flatten_available = true)
    (hr' : util_flatten_recurse_available = true) (hn : is_tag_node_available = true)
    (G : Globals) (s : TL) (item : Arg) (rest : List Arg) (hr : (item :: rest).all argRep = true) (fuel : Nat)
    (hf : argsFdepth (Args.ofList (item :: rest)) + 4 < fuel) :
    TagList_append G fuel (embTL s) (embA item) (.tuple (rest.map embA)) = embOut (s.append (item :: rest)) := by
  first
  | exact absurd h (by decide)
  | obtain ⟨f, rfl⟩ : ∃ f, fuel = f + 1 := ⟨fuel - 1, by omega⟩
    rw [TagList_append]
    have key := src_TagList_extend he ht hf' hr' hn G s (.list (Args.ofList (item :: rest)))
      (by simpa only [argRep, rep_ofList] using hr) f (by simp only [iterDepth]; omega)
    simp only [embA, embAs_ofList, List.map_cons] at key
    simp only [pure_eq_ok, pyIter_tuple, ok_bind, List.singleton_append, key, TL.append, bind_ok_self]

/-- `self.insert(i, item)` as the source has it = `TL.insert` (slice insertion with Python's index clamping) -/
theorem src_TagList_insert (h : TagList_insert_available = true) (ht : tagchilds_to_tagnodes_available = true)
    (hf' : util_flatten_available = true) (hr' : util_flatten_recurse_available = true) (hn : is_tag_node_available = true)
    (G : Globals) (s : TL) (i : Int) (item : Arg) (hr : argRep item = true) (fuel : Nat) (hf : argFdepth item + 3 < fuel) :
    TagList_insert G fuel (embTL s) (.int i) (embA item) = embOut (s.insert i item) := by
  first
  | exact absurd h (by decide)
  | obtain ⟨f, rfl⟩ : ∃ f, fuel = f + 1 := ⟨fuel - 1, by omega⟩
    rw [TagList_insert]
    have key := src_tagchilds_to_tagnodes ht hf' hr' hn G (.list (.cons item .nil)) (by simpa [argRep, argsRep] using hr) f
      (by simp only [iterDepth, argsFdepth]; omega)
    simp only [embA, embAs] at key
    simp only [pure_eq_ok, key, TL.insert]
    cases chTagchildsToTagnodes (.list (.cons item .nil)) with
    | error e => rfl
    | ok r => simp [embRes, embTL, userListSliceInsert_tl, embOut, List.map_append, List.map_take, List.map_drop]

/-- `self + item` as the source has it = `TL.add`: a new TagList of the receiver followed by `item` itself (a `str`) or by
    what iterating `item` yields; TypeError if `item` is not iterable or holds an unsupported value -/
theorem src_TagList_add (h : TagList_add_available = true) (hi : TagList_init_available = true)
    (hs : TagList_should_not_expand_available = true) (ht : tagchilds_to_tagnodes_available = true)
    (hf' : util_flatten_available = true) (hr' : util_flatten_recurse_available = true) (hn : is_tag_node_available = true)
    (G : Globals) (s : TL) (item : Arg) (hrs : tlRep s = true) (hr : argRep item = true) (fuel : Nat)
    (hf1 : tlDepth s + 5 < fuel) (hf2 : argFdepth item + 4 < fuel) (hf3 : iterDepth item + 4 < fuel) :
    TagList_add G fuel (embTL s) (embA item) = embRes embTL (s.add item) := by
  first
  | exact absurd h (by decide)
  | obtain ⟨f, rfl⟩ : ∃ f, fuel = f + 1 := ⟨fuel - 1, by omega⟩
    rw [TagList_add]
    simp only [src_should_not_expand hs, ok_bind, truthy_bool, TL.add]
    by_cases hstr : item.isStr = true
    · simp only [hstr, if_true]
      have key := src_TagList_init hi ht hf' hr' hn G [s.toArg, item] (by simp [rep_toArg, hrs, hr]) f
        (by
          have := fdepth_ofList_le [s.toArg, item] (f - 4)
            (by intro a ha; simp at ha; rcases ha with rfl | rfl <;> first | (simp only [fdepth_toArg]; omega) | omega)
          omega)
      simp only [List.map_cons, List.map_nil, embTL_toArg] at key
      exact key
    · simp only [hstr, Bool.false_eq_true, if_false, pyIter_emb item hr]
      cases hx : item.iter with
      | error e => rfl
      | ok items =>
        have hd := iter_fdepth item items hx
        have hri := iter_rep item hr items hx
        have key := src_TagList_init hi ht hf' hr' hn G (s.toArg :: items.toList)
          (by simp only [List.all_cons, rep_toArg, hrs, Bool.true_and]; rw [← rep_toList]; exact hri) f
          (by
            have := fdepth_ofList_le (s.toArg :: items.toList) (f - 4)
              (by
                intro a ha; simp only [List.mem_cons] at ha; rcases ha with rfl | ha
                · simp only [fdepth_toArg]; omega
                · have := fdepth_mem items a ha; omega)
            omega)
        simp only [List.map_cons, embTL_toArg, ← embAs_toList] at key
        simp only [ok_bind, List.singleton_append]
        exact key

/-- `item + self` as the source has it = `TL.radd` -/
theorem src_TagList_radd (h : TagList_radd_available = true) (hi : TagList_init_available = true)
    (hs : TagList_should_not_expand_available = true) (ht : tagchilds_to_tagnodes_available = true)
    (hf' : util_flatten_available = true) (hr' : util_flatten_recurse_available = true) (hn : is_tag_node_available = true)
    (G : Globals) (s : TL) (item : Arg) (hrs : tlRep s = true) (hr : argRep item = true) (fuel : Nat)
    (hf1 : tlDepth s + 5 < fuel) (hf2 : argFdepth item + 4 < fuel) (hf3 : iterDepth item + 4 < fuel) :
    TagList_radd G fuel (embTL s) (embA item) = embRes embTL (s.radd item) := by
  first
  | exact absurd h (by decide)
  | obtain ⟨f, rfl⟩ : ∃ f, fuel = f + 1 := ⟨fuel - 1, by omega⟩
    rw [TagList_radd]
    simp only [src_should_not_expand hs, ok_bind, truthy_bool, TL.radd]
    by_cases hstr : item.isStr = true
    · simp only [hstr, if_true]
      have key := src_TagList_init hi ht hf' hr' hn G [item, s.toArg] (by simp [rep_toArg, hrs, hr]) f
        (by
          have := fdepth_ofList_le [item, s.toArg] (f - 4)
            (by intro a ha; simp at ha; rcases ha with rfl | rfl <;> first | (simp only [fdepth_toArg]; omega) | omega)
          omega)
      simp only [List.map_cons, List.map_nil, embTL_toArg] at key
      exact key
    · simp only [hstr, Bool.false_eq_true, if_false, pyIter_emb item hr]
      cases hx : item.iter with
      | error e => rfl
      | ok items =>
        have hd := iter_fdepth item items hx
        have hri := iter_rep item hr items hx
        have key := src_TagList_init hi ht hf' hr' hn G (items.toList ++ [s.toArg])
          (by simp only [List.all_append, List.all_cons, List.all_nil, rep_toArg, hrs, Bool.and_true]; rw [← rep_toList]; exact hri) f
          (by
            have := fdepth_ofList_le (items.toList ++ [s.toArg]) (f - 4)
              (by
                intro a ha; simp only [List.mem_append, List.mem_singleton] at ha; rcases ha with ha | rfl
                · have := fdepth_mem items a ha; omega
                · simp only [fdepth_toArg]; omega)
            omega)
        simp only [List.map_append, List.map_cons, List.map_nil, embTL_toArg, ← embAs_toList] at key
        simp only [ok_bind]
        exact key

/-- `self += item` as the source has it = `TL.iadd` (extend in place, the receiver is returned) -/
theorem src_TagList_iadd (h : TagList_iadd_available = true) (he : TagList_extend_available = true)
    (ht : tagchilds_to_tagnodes_available = true) (hf' : util_flatten_available = true)
    (hr' : util_flatten_recurse_available = true) (hn : is_tag_node_available = true)
    (G : Globals) (s : TL) (other : Arg) (hr : argRep other = true) (fuel : Nat) (hf : iterDepth other + 4 < fuel) :
    TagList_iadd G fuel (embTL s) (embA other) = embOut (s.iadd other) := by
  first
  | exact absurd h (by decide)
  | obtain ⟨f, rfl⟩ : ∃ f, fuel = f + 1 := ⟨fuel - 1, by omega⟩
    rw [TagList_iadd]
    simp only [pure_eq_ok, src_TagList_extend he ht hf' hr' hn G s other hr f (by omega), TL.iadd, bind_ok_self]

/-! ### the hypotheses are satisfiable by non-trivial values -/

/-- `[3, (True, None, "ab"), TagList(1.5, [-20]), {"k": …}]` is representable -/
example : argRep (.list (.cons (.num .int "3".toList) (.cons (.tuple (.cons (.num .bool "True".toList) (.cons .none
    (.cons (.node (.text "ab".toList)) .nil)))) (.cons (.taglist (.cons (.num .float "1.5".toList)
    (.cons (.list (.cons (.num .int "-20".toList) .nil)) .nil))) (.cons (.seqLike .dict (.cons (.node (.text "k".toList)) .nil))
    .nil))))) = true := by decide +kernel

/-- a number text that is not what `str()` of any int gives is not -/
example : argRep (.num .int "03".toList) = false := by decide +kernel

end HtmlVerif.SrcTie
