"""C12 — Dependency URLs and copied files agree (file-system half: partial)."""
from __future__ import annotations

import itertools
import os
import posixpath

import core
import gen
import ops
import ops_paths as fsops
from wire import es, eb, eopt, elist, enodes, edepinfo, Toks, p_str
import adapters

PID = "C12"
MANIFEST = dict(
    text="PARTIAL (the operating system is modelled, not verified) + KNOWN FINDING F-C12. 24 Lean theorems over a byte-level model of "
         "urllib.parse.quote / unquote_to_bytes / posixpath.join and of source_path_map, as_dict, as_html_tags, copy_to, save_html over an "
         "abstract file system (finite map path -> bytes): C12_quote_roundtrip(_str), C12_quote_inert (quote emits only unreserved characters, "
         "'/' and '%'); C12_url_local, C12_url_local_closed, C12_url_remote (URL = [lib_prefix/]name[-version]/quote(path) resp. "
         "href/quote(path), exactly one '/'; prefix, name, version unencoded), C12_dict_scripts / C12_dict_sheets; C12_target, C12_agree "
         "(clean relative path, clean libdir, directory name over printable ASCII without % # ? : / \\: the URL is a plain relative "
         "reference and, percent-decoded and resolved against the file's directory, IS the path copy_to writes to); C12_copy_ok / "
         "C12_copy_ok_all (target = exactly the listed files / the whole source directory, byte-identical, stale content gone, nothing outside "
         "changed); C12_copy_missing, C12_copy_keyerror (raises, returned state = initial state); C12_no_copy; C12_save_destdir; "
         "C12_save_urls (any rendering); and over the ACTUAL document model (Doc.docRender, asHtmlTags): C12_head_urls (the markup written is "
         "the doctype + the tree whose one head holds, for every resolved dependency, link/script tags whose href/src attribute is exactly "
         "urlOf d libdir iv path), C12_saved_deps_resolved, C12_save_doc (HTMLDocument / Tag / TagList: returns `file`, the file holds that "
         "markup, every URL of a wanted file resolves to a byte-identical copy, targets hold nothing else, everything else unchanged), "
         "C12_save_fail. FINDING F-C12: clause 2 is FALSE on the code when [libdir/]name[-version] contains %XX, '#', '?' or a ':' in its "
         "first component (clause 1 prescribes these parts unencoded): C12_urls_resolve_full_is_false(_more) prove the negation by "
         "witnesses, C12_guards_exclude_special shows the guards exclude exactly this class among printable ASCII; the check generates the "
         "class, reports it as KNOWN-FINDING (matcher prefix_or_name_or_version_has_url_special) and treats every other failure as a "
         "violation. The model is tied to the code by differential runs against REAL temporary directories, judged on file-system STATE only "
         "(complete tree before/after; no library call is observed), and the executable statement (Holds/C12.lean, evaluated WITHOUT the "
         "character guards) is evaluated on the real outcome: returned path, URLs extracted from the written file, the complete destination "
         "tree, exception kinds; every choice of one missing listed file is enumerated (sentinel and stale files, directories included, "
         "compared byte for byte). An independent Python oracle (html.unescape + urlsplit + unquote_to_bytes + byte comparison) re-checks "
         "every save_html case.",
    design="DESIGN.md §6 C12",
    note="Modelled, not verified (hence partial): the operating system — shutil.copy2/copytree/rmtree, pathlib.Path.glob/resolve/mkdir, "
         "os.path.exists/isfile/isdir/realpath, open(); symbolic links, permissions, the locale encoding of open(file,'w') (taken as UTF-8), "
         "empty directories (not representable in the implicit-directory file-system model; the atomicity op compares them on the real "
         "tree), '.'/'..' path segments; urllib.parse.quote, posixpath.join/dirname, str.encode('utf-8') (modelled byte for byte and compared "
         "exhaustively on small scopes); package_dir()'s import machinery (its result is an input); version order (packaging, passed as a "
         "rank). HTMLDocument.render is C11's model (Doc.docRender), used here unchanged. Guards of the theorems: CleanRel path, CleanDir "
         "libdir, SafeSeg name[-version] (printable ASCII without % # ? : / \\ — non-ASCII prefixes/names are covered by the executable "
         "statement only), SoleKeys (one key per dict normalises to src/href), pairwise different directory names, source / target / "
         "html-file directories apart, no regular file on the way to a target, SrcWF for all_files; C11's noDepInDepHead where the copied "
         "list is identified with the resolved list.",
    technique="Lean 4 proofs over a byte-level path algebra, an abstract file system and the document model + differential correspondence "
              "check on real temporary directories (state-based) with fault enumeration (every choice of one missing listed file); "
              "negation witness + matcher for the recorded finding",
)
PROP_FILES = ["HtmlVerif/Props/C12.lean", "HtmlVerif/Props/ConstsDeps.lean", "HtmlVerif/Props/SrcC12.lean", "HtmlVerif/Props/SrcC12b.lean"]

V = fsops.VROOT

# ------------------------------------------------------------------ alphabets
FILE_NAMES = [
    "a.js", "a b.js", "100%.css", "x%20y.js", "q#1.js", "w?v=1.js", "a&b.css", "it's.js", 'q"uote.js', "é.css",
    "日本 語.js", "😀.js", "sub/n.js", "sub/deep er/m#.css", "~t_.-x", "+p lus.js", "a=b;c.js", "<t>.js", ".dot.js",
    "%41.js", "%zz", "c:d.js", "sub/é/ü.css",
    # round 3: backslash (a plain character on POSIX; a separator to user agents unless encoded), upper case, leading and
    # trailing blanks, the decomposed (NFD) twin of "é.css", every sub-delim / gen-delim together
    "js\\app.js", "UP/Case.JS", " lead.js", "trail.js ", "e\u0301.css", "x+y&z;k=v~'\"!$(),*@[].js", "Sub/N.js",
]
# directory names (name[-version]) are written into URLs *unencoded* (statement, clause 1).  The first group is inert for
# every reader; the second group changes under quote() / lower() / unquote() but still satisfies clause 2 (a change that
# quotes, or fails to quote, only the name shows here); the third group is finding F-C12 (clause 2 fails as the code is).
DEP_NAMES_INERT = ["dep", "my-dep", "d_1.x", "A~b", "zz9"]
DEP_NAMES_QUOTABLE = ["my dep", "d&b'q\"x", "Dé", "d+e=f;g", "<n>", "%zz", "b\\s"]
DEP_NAMES_SPECIAL = ["a%41", "a#b", "a?b", "c:d", "p%20q"]
DEP_NAMES = DEP_NAMES_INERT + DEP_NAMES_QUOTABLE
VERSIONS = ["1.0", "2.1.3", "1.0+local", "1!2.0", "0.0", "3.0a1"]       # packaging normalises to [0-9a-z.!+]: all URL-inert
LIBDIRS = [None, "", "lib", "a/b", "a/b/"]
LIBDIRS_QUOTABLE = ["my lib", "l&b'q\"x", "é/ü", "L+ib;=~", "100%", "x\\y"]
LIBDIRS_SPECIAL = ["my%20lib", "a#b", "a?b", "c:d/e", "ok/%41"]
HREFS = ["https://cdn.example/pkg", "https://cdn.example/pkg/", "//cdn/x", "/abs/url/", "rel/url"]
QUOTE_ALPHA = ["a", "Z", "0", "~", "/", " ", "%", "#", "?", "é", "€", "😀", "+", "\x00", "\x7f", "&", '"']
UNQ_ALPHA = ["%", "4", "1", "g", "F", "a", "/", "é"]
JOIN_ALPHA = ["/", "a", "."]


def pkg_dir() -> str:
    import htmltools
    return os.path.dirname(htmltools.__file__)


def abs_of(source, cwd: str) -> str:
    """what the run time contributes to source_path_map: the absolute source directory (virtual for /V paths)"""
    if source[1] is None:
        return posixpath.normpath(posixpath.join(cwd, source[2]))
    return os.path.join(pkg_dir(), source[2])


def subdir_source(pkg, d, cwd=V):
    s = ("subdir", pkg, d, "")
    return ("subdir", pkg, d, abs_of(s, cwd))


def mk_dep(name, version, source, scripts=(), sheets=(), metas=(), all_files=False, attrs=True):
    sc = []
    for k, p in enumerate(scripts):
        d = [("src", p)]
        if attrs and k % 3 == 1:
            d.append(("defer", ""))
        if attrs and k % 3 == 2:
            d = [("type", "module"), ("src", p), ("data_x", "1")]
        sc.append(d)
    sh = []
    for k, p in enumerate(sheets):
        d = [("href", p), ("rel", "stylesheet")]
        if attrs and k % 2 == 1:
            d = [("media", "print"), ("href", p), ("rel", "alternate")]
        sh.append(d)
    return dict(name=name, version=version, vrank=0, source=source, script=sc, stylesheet=sh,
                metas=[list(m) for m in metas], all_files=all_files)


def listed(info) -> list[str]:
    return [dict(s)["src"] for s in info["script"]] + [dict(s)["href"] for s in info["stylesheet"]]


def dir_name(info, iv: bool) -> str:
    return info["name"] + ("-" + info["version"] if iv else "")


def href_base(lp, dn: str) -> str:
    """[prefix/]name[-version] as clause 1 of the statement writes it (prefix, name, version unencoded)"""
    if not lp:
        return dn
    return lp + dn if lp.endswith("/") else lp + "/" + dn


def url_special(base: str) -> bool:
    """Spec/Paths.lean `urlSpecial`: a character a URL reader interprets — % # ? anywhere, ':' in the first component"""
    return any(c in base for c in "%#?") or ":" in base.split("/")[0]


def is_special(info, lp, iv: bool) -> bool:
    s = info["source"]
    return s is not None and s[0] == "subdir" and url_special(href_base(lp, dir_name(info, iv)))


def content_of(tag: str, rng) -> str:
    """small distinct latin-1 content (arbitrary bytes, not valid UTF-8 on purpose)"""
    return "<" + tag.encode("utf-8").decode("latin-1") + ">" + "".join(chr(rng.choice([0, 10, 13, 65, 128, 255, 233])) for _ in range(rng.randint(0, 4)))


def read_tree(root: str):
    """present the files of a real directory tree (package sources)"""
    out = []
    for r, _, fs in os.walk(root):
        for f in fs:
            p = os.path.join(r, f)
            with open(p, "rb") as fh:
                out.append((p, fsops.present(fh.read())))
    return out


def source_files(info, rng, extras=True, nested=True):
    """virtual files making up the source directory of a directory-sourced dependency"""
    src = info["source"]
    if src is None or src[0] != "subdir":
        return []
    base = src[3]
    if src[1] is not None:
        return read_tree(base)
    out = {}
    for p in listed(info):
        out[posixpath.join(base, p)] = content_of(p, rng)
    if extras:
        out[base + "/extra.txt"] = content_of("extra", rng)
        out[base + "/.hidden"] = content_of("hidden", rng)
    if nested:
        out[base + "/nested/deep/z z.bin"] = content_of("z", rng)
        out[base + "/nested/.dot/k"] = content_of("k", rng)
        out[base + "/.cfg/inner%20.txt"] = content_of("cfg", rng)
    return list(out.items())


def stale_files(target: str, info, rng, sentinel=True):
    out = {}
    if sentinel:
        out[target + "/SENTINEL"] = "sentinel"
    out[target + "/stale.js"] = content_of("stale", rng)
    out[target + "/old/sub/x.css"] = content_of("oldx", rng)
    ls = listed(info)
    if ls:
        out[posixpath.join(target, ls[0])] = "STALE VERSION OF " + ls[0].encode("utf-8").decode("latin-1")
    return list(out.items())


def outdated_copy(target: str, info, sources):
    """the target holds exactly the listed files, each as long as its source and with other bytes (an earlier build of
    the same package, unpacked with the same timestamps)"""
    src = info["source"]
    base = src[3]
    by_path = dict(sources)
    out = []
    for p in listed(info):
        c = by_path.get(posixpath.join(base, p))
        if c is not None:
            out.append((posixpath.join(target, p), "".join(chr((ord(ch) + 1) % 256) if ord(ch) < 255 else "\x00" for ch in c)))
    return out


def neighbour_files(destdir: str, info, iv: bool, rng):
    """files next to the target that must survive: sibling dependency, a directory whose *name* extends the target's"""
    dn = dir_name(info, iv)
    # directories a copy routine might use for staging / backup next to the target (they are somebody else's files: they
    # survive and nothing of them reaches the target), plus any suffix-like literal the source has gained (§14.4)
    sfx = [".tmp", ".bak", ".old", "~", ".new", ".part", "-tmp", ".lock"] + [w for w in gen.EXTRA if 0 < len(w) <= 12 and "/" not in w and "\x00" not in w]
    staged = rng.sample(sfx, min(3, len(sfx)))
    return [(destdir + "/" + dn + x + "/left/over.js", content_of("staging" + x, rng)) for x in staged] + [
        (destdir + "/." + dn + "/hidden.js", content_of("hidden", rng)),
        (destdir + "/other-1.0/keep.js", content_of("keep", rng)),
        (destdir + "/" + dn + "x/keep.js", content_of("keepx", rng)),
        (destdir + "/" + dn[:-1] + "/keep.js", content_of("keepshort", rng)) if len(dn) > 1 else (destdir + "/k", "k"),
        (V + "/unrelated/file.txt", content_of("unrelated", rng)),
    ]


# ------------------------------------------------------------------ line builders
def copy_line(opname, info, path, iv, cwd, fs) -> str:
    return f"{opname} {edepinfo(info)} {es(path)} {eb(iv)} {es(cwd)} {fsops.efs(fs)}"


def dep_node(info, head=None):
    return ("dep", info, head is not None, head or [])


def prerender(recv, content, libdir, iv, cwd):
    """the document's own render(lib_prefix=libdir, include_version=iv): html + resolved dependencies (with abs filled in)"""
    import htmltools
    objs = [adapters.realize(n) for n in content]
    x = fsops.build_receiver(recv, objs)
    doc = x if recv == "doc" else htmltools.HTMLDocument(x)
    r = doc.render(lib_prefix=libdir, include_version=iv)
    deps = []
    for d in r["dependencies"]:
        info = adapters.canon_dep(d, None)[1]
        if info["source"] is not None and info["source"][0] == "subdir":
            s = info["source"]
            info["source"] = ("subdir", s[1], s[2], abs_of(s, cwd))
        deps.append(info)
    return r["html"], deps


def save_line(recv, content, file, cwd, libdir, iv, fs) -> str:
    file_abs = posixpath.normpath(posixpath.join(cwd, file))
    # the model renders the document itself: version order is the run time's contribution (packaging), as a rank
    import ops_tagify
    content = ops_tagify.rank_terms(content)
    html, deps = prerender(recv, content, libdir, iv, cwd)
    return (f"save_html {recv} {enodes(content)} {es(file)} {es(file_abs)} {eopt(libdir)} {eb(iv)} {es(cwd)} "
            f"{es(html)} {elist([edepinfo(d) for d in deps])} {fsops.efs(fs)}")


def body_with(deps_nodes, rng):
    kids = [("text", "hello")]
    for d in deps_nodes:
        kids.insert(rng.randint(0, len(kids)), d)
    return ("tag", "div", True, [("id", ("p", "main"))], kids)


def destdir_of(file_abs: str, libdir) -> str:
    d = posixpath.dirname(file_abs)
    return os.path.join(d, libdir) if libdir else d


# ------------------------------------------------------------------ case generation
def gen_pure(ck, tier):
    lines = []
    # quote / utf8: exhaustive strings <= 3 over the alphabet, unquote <= 4 (quick: 3), join pairs <= 3 x <= 3
    nq = 3
    n = 0
    for k in range(nq + 1):
        for tup in itertools.product(QUOTE_ALPHA, repeat=k):
            s = "".join(tup)
            lines.append(("quote " + es(s), True, "quote"))
            n += 1
    ck.exhaustive_scopes.append({"scope": f"quote: all strings of length <= {nq} over {len(QUOTE_ALPHA)} characters "
                                          "(unreserved, '/', space, %, #, ?, &, quote, NUL, DEL, 2/3/4-byte UTF-8)",
                                 "strings": n, "exhaustive": True})
    nu = 4 if tier == "quick" else 5
    n = 0
    for k in range(nu + 1):
        for tup in itertools.product(UNQ_ALPHA, repeat=k):
            lines.append(("unquote " + es("".join(tup)), "%" in tup, "unquote"))
            n += 1
    ck.exhaustive_scopes.append({"scope": f"unquote_to_bytes: all strings of length <= {nu} over {UNQ_ALPHA}", "strings": n,
                                 "exhaustive": True})
    strs = ["".join(t) for k in range(4) for t in itertools.product(JOIN_ALPHA, repeat=k)]
    for a in strs:
        for b in strs:
            lines.append((f"posix_join {es(a)} {es(b)}", True, "posix_join"))
        lines.append(("dirname " + es(a), True, "dirname"))
        lines.append(("dirname " + es("/x" + a), True, "dirname"))
    ck.exhaustive_scopes.append({"scope": "posixpath.join: all pairs of strings of length <= 3 over '/', 'a', '.'; dirname on the same strings",
                                 "pairs": len(strs) ** 2, "exhaustive": True})
    for cp in [0, 0x7F, 0x80, 0x7FF, 0x800, 0xD7FF, 0xE000, 0xFFFF, 0x10000, 0x10FFFF]:
        lines.append(("utf8 " + es("x" + chr(cp)), True, "utf8"))
    rng = ck.rng
    for _ in range(ck.budget(1500, 60000)):
        s = gen.rand_text(rng, 10)
        if any(0xD800 <= ord(c) <= 0xDFFF for c in s):
            continue
        lines.append(("quote " + es(s), True, "quote"))
        lines.append(("utf8 " + es(s), True, "utf8"))
        q = "".join(rng.choice(["%", "%", "2", "F", "f", "a", "/", "é", "G", "0"]) for _ in range(rng.randint(0, 9)))
        lines.append(("unquote " + es(q), True, "unquote"))
    return lines


def all_sources():
    return ([None] + [("href", h) for h in HREFS]
            + [subdir_source(None, V + "/src/d1"), subdir_source(None, "src/rel", cwd=os.path.realpath(os.getcwd())),   # realpath() of a relative subdir: the process cwd
               subdir_source("htmltools", "libtest/testdep"), subdir_source("htmltools", "lib/react")])


def gen_urls(ck, tier):
    """source_path_map / as_dict / as_html_tags over names x versions x sources x lib_prefix x include_version"""
    rng = ck.rng
    lines = []
    n = 0
    lps = [None, "", "lib", "a/b", "a/b/", "my lib", "/abs", "l%20b"] + LIBDIRS_QUOTABLE[1:] + LIBDIRS_SPECIAL
    for src in all_sources():
        for lp in lps:
            for iv in (True, False):
                name = DEP_NAMES[n % len(DEP_NAMES)]
                ver = VERSIONS[n % len(VERSIONS)]
                n += 1
                k = n % (len(FILE_NAMES) - 3)
                info = mk_dep(name, ver, src, FILE_NAMES[k:k + 3], FILE_NAMES[k + 1:k + 3],
                              metas=[[("name", "viewport"), ("content", "w=1&h=\"2\"")]] if n % 2 else [])
                lines.append((f"source_path_map {edepinfo(info)} {eopt(lp)} {eb(iv)}", True, "source_path_map"))
                lines.append((f"as_dict {edepinfo(info)} F [ ] {eopt(lp)} {eb(iv)}", True, "as_dict"))
                lines.append((f"as_html_tags {edepinfo(info)} F [ ] {eopt(lp)} {eb(iv)}", True, "as_html_tags"))
    ck.exhaustive_scopes.append({"scope": f"{len(all_sources())} source kinds (none, URL with/without trailing slash, scheme-relative, "
                                          f"absolute-path and relative URL, absolute / relative directory, 2 package sources) x {len(lps)} "
                                          "lib_prefix values x include_version, names/versions/file names cycling",
                                 "cases": n, "exhaustive": True})
    # every directory name x every prefix (inert, changed-by-quote, finding class) x include_version, local source:
    # clause 1 (format) and clause 2 (decodes to libdir/name[-version]/path) evaluated without the character guards
    m = 0
    all_names = DEP_NAMES_INERT + DEP_NAMES_QUOTABLE + DEP_NAMES_SPECIAL
    all_lps = LIBDIRS + LIBDIRS_QUOTABLE + LIBDIRS_SPECIAL
    for name in all_names:
        for lp in all_lps:
            for iv in (True, False):
                k = m % (len(FILE_NAMES) - 2)
                m += 1
                info = mk_dep(name, VERSIONS[m % len(VERSIONS)], subdir_source(None, V + "/s"), FILE_NAMES[k:k + 2], FILE_NAMES[k + 1:k + 2])
                cls = "special" if is_special(info, lp, iv) else "plain"
                lines.append((f"as_dict {edepinfo(info)} F [ ] {eopt(lp)} {eb(iv)}", True, "as_dict:names-x-prefixes:" + cls))
                if m % 3 == 0:
                    lines.append((f"as_html_tags {edepinfo(info)} F [ ] {eopt(lp)} {eb(iv)}", True, "as_html_tags:names-x-prefixes:" + cls))
    ck.exhaustive_scopes.append({"scope": f"as_dict: {len(all_names)} directory names x {len(all_lps)} lib_prefix values x include_version "
                                          "(inert; changed by quote()/lower()/unquote() yet harmless: space & ' \" < + ; = non-ASCII, '%' without "
                                          "hex digits, backslash; and the finding class: %XX, #, ?, ':' in the first component)",
                                 "cases": m, "exhaustive": True})
    # every file name on its own, local and remote
    for p in FILE_NAMES:
        for src in (subdir_source(None, V + "/s"), ("href", "https://h/x"), ("href", "https://h/x/")):
            for lp in (None, "lib", "a/b/"):
                info = mk_dep("dep", "1.0", src, [p], [p])
                lines.append((f"as_dict {edepinfo(info)} F [ ] {eopt(lp)} T", True, "as_dict"))
                lines.append((f"as_html_tags {edepinfo(info)} F [ ] {eopt(lp)} F", True, "as_html_tags"))
    # corner cases of as_dict / as_html_tags: heads, reserved keyword names, missing keys are impossible after __init__
    heads = [[("tag", "title", True, [], [("text", "T<&>")])], [("html", "<script>1 && 1</script>")], [],
             [("text", "x"), ("tag", "link", True, [("href", ("p", "x y"))], [])],
             [("tobjL", None, [("text", "u")])], [("tag", "div", True, [], [("tobj1", None, ("text", "u")), ("text", "v")])]]
    for hd in heads:
        for src in (None, subdir_source(None, V + "/s")):
            info = mk_dep("h", "0.0", src, ["a.js"], ["b.css"])
            lines.append((f"as_dict {edepinfo(info)} T {enodes(hd)} S {es('lib')} T", True, "as_dict"))
            lines.append((f"as_html_tags {edepinfo(info)} T {enodes(hd)} S {es('lib')} T", True, "as_html_tags"))
    for key in ("self", "_name", "_add_ws", "class_", "data_a_b", "for_", "_x", "x__", "async"):
        info = mk_dep("k", "1.0", subdir_source(None, V + "/s"), ["a.js"], ["b.css"])
        info["script"][0].append((key, "v"))
        lines.append((f"as_html_tags {edepinfo(info)} F [ ] N T", True, "as_html_tags"))
        info = mk_dep("k", "1.0", None, [], [], metas=[[("name", "n"), ("content", "c"), (key, "v")]])
        lines.append((f"as_html_tags {edepinfo(info)} F [ ] N T", True, "as_html_tags"))
        info = mk_dep("k", "1.0", None, [], ["b.css"])
        info["stylesheet"][0].insert(0, (key, "v"))
        lines.append((f"as_html_tags {edepinfo(info)} F [ ] N T", True, "as_html_tags"))
        lines.append((f"as_dict {edepinfo(info)} F [ ] N T", True, "as_dict"))
    # merged duplicate keys after normalisation
    info = mk_dep("k", "1.0", None, ["a.js"], [])
    info["script"][0] += [("data_x", "1"), ("data-x", "2"), ("src_", "z")]
    lines.append((f"as_html_tags {edepinfo(info)} F [ ] N T", True, "as_html_tags"))
    # random
    extra_files = gen.EXTRA + ["é " + w for w in gen.EXTRA] + [w + " é" for w in gen.EXTRA]   # a new literal as a file name, as a suffix, as a prefix
    for _ in range(ck.budget(300, 20000)):
        src = rng.choice(all_sources())
        info = mk_dep(rng.choice(DEP_NAMES + DEP_NAMES_SPECIAL + gen.EXTRA), rng.choice(VERSIONS), src,      # gen.EXTRA: literals the source has gained (DESIGN §14.4)
                      rng.sample(FILE_NAMES + extra_files, rng.randint(0, 4)), rng.sample(FILE_NAMES + extra_files, rng.randint(0, 3)),
                      all_files=rng.random() < 0.3)
        for w in gen.EXTRA:      # a new literal as an attribute of an item
            for it in info["script"] + info["stylesheet"]:
                if rng.random() < 0.3 and w not in dict(it):
                    it.append((w, "v"))
        lp = rng.choice(lps + gen.EXTRA)
        iv = rng.random() < 0.5
        opn = rng.choice(["source_path_map", "as_dict", "as_html_tags"])
        if opn == "source_path_map":
            lines.append((f"source_path_map {edepinfo(info)} {eopt(lp)} {eb(iv)}", True, opn))
        else:
            lines.append((f"{opn} {edepinfo(info)} F [ ] {eopt(lp)} {eb(iv)}", True, opn))
    return lines


def gen_copy(ck, tier):
    """copy_to on real directories: names x stale state x include_version x all_files x every single missing file"""
    rng = ck.rng
    lines = []
    n_fault = 0
    dests = [V + "/out", V + "/out/lib", V + "/o ut/a/b/"]
    # (a) every file name alone and groups of names; with stale target + neighbours
    groups = [[p] for p in FILE_NAMES] + [FILE_NAMES[i:i + 4] for i in range(0, len(FILE_NAMES) - 3, 3)]
    for gi, g in enumerate(groups):
        for iv in (True, False):
            src = subdir_source(None, V + "/src/d " + str(gi % 3))
            info = mk_dep(DEP_NAMES[gi % len(DEP_NAMES)], VERSIONS[gi % len(VERSIONS)], src, g[::2], g[1::2])
            dest = dests[gi % len(dests)]
            target = posixpath.join(dest, dir_name(info, iv))
            fs = source_files(info, rng) + stale_files(target, info, rng) + neighbour_files(dest.rstrip("/"), info, iv, rng)
            lines.append((copy_line("copy_to", info, dest, iv, V, fs), True, "copy_to:ok"))
            srcs = source_files(info, rng, extras=False, nested=False)
            lines.append((copy_line("copy_to", info, dest, iv, V, srcs + outdated_copy(target, info, srcs)), True, "copy_to:outdated-copy"))
            # fault enumeration: every choice of one missing listed file; the sentinel and stale files must survive
            # (copy_to: files of the whole sandbox before/after; copy_atomic: directories, names, contents)
            for miss in listed(info):
                fs2 = [(p, c) for p, c in fs if p != posixpath.join(src[3], miss)]
                lines.append((copy_line("copy_to", info, dest, iv, V, fs2), True, "copy_to:missing"))
                lines.append((copy_line("copy_atomic", info, dest, iv, V, fs2), True, "copy_atomic:missing"))
                n_fault += 1
            if gi % 4 == 0 and iv:
                # fresh destination (nothing there yet): success, and a missing file must not even create the directory
                fresh = source_files(info, rng)
                lines.append((copy_line("copy_to", info, dest, iv, V, fresh), True, "copy_to:fresh"))
                for miss in listed(info)[:1]:
                    fs2 = [(p, c) for p, c in fresh if p != posixpath.join(src[3], miss)]
                    lines.append((copy_line("copy_atomic", info, dest, iv, V, fs2), True, "copy_atomic:missing-fresh"))
    ck.exhaustive_scopes.append({"scope": f"copy_to: {len(groups)} file-name groups (each of {len(FILE_NAMES)} adversarial names alone, and "
                                          "overlapping groups of 4) x include_version, stale target content + sentinel + neighbour directories; "
                                          "for each, EVERY choice of one missing listed file",
                                 "single_missing_file_cases": n_fault, "exhaustive": True})
    # (b) all_files: whole directory incl. nested directories and dot-files; listed files may be missing without error
    for gi, g in enumerate(groups[::3]):
        for iv in (True, False):
            src = subdir_source(None, V + "/src/all")
            info = mk_dep("alld", "1.0", src, g[:1], g[1:2], all_files=True)
            dest = dests[gi % len(dests)]
            target = posixpath.join(dest, dir_name(info, iv))
            fs = source_files(info, rng) + stale_files(target, info, rng) + neighbour_files(dest.rstrip("/"), info, iv, rng)
            lines.append((copy_line("copy_to", info, dest, iv, V, fs), True, "copy_to:all_files"))
            miss = listed(info)[0]
            fs2 = [(p, c) for p, c in fs if p != posixpath.join(src[3], miss)]
            lines.append((copy_line("copy_to", info, dest, iv, V, fs2), True, "copy_to:all_files"))
    # (c) package sources, relative directory sources (cwd), URL and absent sources (copy nothing)
    for iv in (True, False):
        for af in (True, False):
            for (sub, sc, sh) in (("libtest/testdep", ["testdep.js"], ["testdep.css"]), ("lib/react", ["react.production.min.js"], []),
                                  ("libtest", ["dep2/td2.js"], ["testdep/testdep.css"])):
                src = subdir_source("htmltools", sub)
                info = mk_dep("w", "1.0", src, sc, sh, all_files=af)
                target = posixpath.join(V + "/out", dir_name(info, iv))
                fs = source_files(info, rng) + stale_files(target, info, rng)
                lines.append((copy_line("copy_to", info, V + "/out", iv, V, fs), True, "copy_to:package"))
                if not af:
                    bad = mk_dep("w", "1.0", src, sc + ["nope.js"], sh)
                    lines.append((copy_line("copy_to", bad, V + "/out", iv, V, fs), True, "copy_to:missing"))
                    lines.append((copy_line("copy_atomic", bad, V + "/out", iv, V, fs), True, "copy_atomic:missing"))
        cwd = V + "/work"
        src = subdir_source(None, "src/rel", cwd=cwd)
        info = mk_dep("rel", "2.1.3", src, ["a b.js", "sub/n.js"], ["é.css"])
        target = posixpath.join(V + "/out", dir_name(info, iv))
        fs = source_files(info, rng) + stale_files(target, info, rng)
        lines.append((copy_line("copy_to", info, V + "/out", iv, cwd, fs), True, "copy_to:relative"))
        for src in (None, ("href", HREFS[0]), ("href", HREFS[1])):
            info = mk_dep("remote", "1.0", src, ["a.js"], ["b.css"], all_files=bool(iv))
            target = posixpath.join(V + "/out", dir_name(info, iv))
            fs = stale_files(target, info, rng) + [(V + "/unrelated/file.txt", "u")]
            lines.append((copy_line("copy_to", info, V + "/out", iv, V, fs), True, "copy_to:nocopy"))
            lines.append((copy_line("copy_atomic", info, V + "/out", iv, V, fs), True, "copy_atomic:nocopy"))
    # (d) listed directories, duplicates, conflicts, blocked targets — model faithfulness outside the theorems' guards
    src = subdir_source(None, V + "/src/dd")
    base_fs = [(src[3] + "/dir/a.js", "A"), (src[3] + "/dir/in/b.js", "B"), (src[3] + "/top.js", "T"), (src[3] + "/dir2/c", "C")]
    for sc, tag in ((["dir"], "dir"), (["top.js", "top.js"], "dup"), (["dir", "dir"], "conflict"), (["dir/a.js", "dir"], "conflict"),
                    (["dir", "dir/a.js"], "dir"), (["dir/in", "dir2"], "dir"), (["dir/in", "dir"], "conflict")):
        info = mk_dep("dd", "1.0", src, sc, [], attrs=False)
        fs = base_fs + [(V + "/out/dd-1.0/stale", "s")]
        lines.append((copy_line("copy_to", info, V + "/out", True, V, fs), True, "copy_to:" + tag))
    info = mk_dep("dd", "1.0", src, ["top.js"], [])
    lines.append((copy_line("copy_to", info, V + "/out", True, V, base_fs + [(V + "/out/dd-1.0", "a file where the directory should be")]),
                  True, "copy_to:blocked"))
    lines.append((copy_line("copy_to", info, V + "/out/x", True, V, base_fs + [(V + "/out", "a file above the target")]),
                  True, "copy_to:blocked"))
    # source and target directories overlap (outside the theorems' guard `Apart`): the model must still mirror the code
    for sdir, dest, af in ((V + "/out/ov-1.0", V + "/out", False), (V + "/out/ov-1.0/inner", V + "/out", False),
                           (V + "/out/ov-1.0", V + "/out", True), (V + "/out", V + "/out", True)):
        src = subdir_source(None, sdir)
        info = mk_dep("ov", "1.0", src, ["a.js"], [], all_files=af, attrs=False)
        fs = [(sdir + "/a.js", "A"), (sdir + "/more/b.js", "B"), (V + "/out/ov-1.0/stale", "s")]
        lines.append((copy_line("copy_to", info, dest, True, V, list(dict(fs).items())), True, "copy_to:overlap"))
    # (e) random mixtures
    for _ in range(ck.budget(800, 12000)):
        iv = rng.random() < 0.5
        af = rng.random() < 0.3
        src = subdir_source(None, V + "/src/" + rng.choice(["r", "r r", "ré"]))
        names = rng.sample(FILE_NAMES, rng.randint(0, 5))
        k = rng.randint(0, len(names))
        info = mk_dep(rng.choice(DEP_NAMES), rng.choice(VERSIONS), src, names[:k], names[k:], all_files=af)
        dest = rng.choice(dests)
        target = posixpath.join(dest, dir_name(info, iv))
        fs = source_files(info, rng, extras=rng.random() < 0.5, nested=rng.random() < 0.5)
        if rng.random() < 0.7:
            fs += stale_files(target, info, rng)
        if rng.random() < 0.5:
            fs += neighbour_files(dest.rstrip("/"), info, iv, rng)
        tag = "copy_to:random"
        if names and rng.random() < 0.3:
            miss = rng.choice(names)
            fs = [(p, c) for p, c in fs if p != posixpath.join(src[3], miss)]
            tag = "copy_to:random-missing"
        fs = list(dict(fs).items())
        lines.append((copy_line("copy_to", info, dest, iv, V, fs), True, tag))
    return lines


def gen_save(ck, tier):
    """save_html end to end on real directories"""
    rng = ck.rng
    lines = []
    n = 0
    files = [(V + "/out/index.html", V), ("index.html", V + "/out"), ("sub dir/p%20age#1.html", V + "/out"),
             (V + "/out/é/ö.html", V + "/elsewhere")]
    for li, libdir in enumerate(LIBDIRS):
        for iv in (True, False):
            for ri, recv in enumerate(("doc", "tag", "list")):
                for fi, (file, cwd) in enumerate(files):
                    k = (n * 5) % (len(FILE_NAMES) - 5)
                    n += 1
                    d1 = mk_dep("d-one", "1.0", subdir_source(None, V + "/src/one", cwd), FILE_NAMES[k:k + 3], FILE_NAMES[k + 3:k + 5])
                    d1_old = mk_dep("d-one", "0.9", subdir_source(None, V + "/src/old", cwd), ["old.js"], [])
                    d2 = mk_dep("two", "2.1.3", subdir_source(None, "src/t wo", cwd), [], [FILE_NAMES[(k + 7) % len(FILE_NAMES)]],
                                all_files=(n % 3 == 0))
                    d3 = mk_dep("cdn", "1.0", ("href", HREFS[n % 2]), ["r.js"], ["r.css"])
                    d4 = mk_dep("nosrc", "1.0", None, [], [], metas=[[("name", "gen"), ("content", "x")]])
                    d5 = mk_dep("w", "1.0", subdir_source("htmltools", "libtest/testdep"), ["testdep.js"], ["testdep.css"], all_files=(n % 2 == 0))
                    use = [d1, d1_old, d2, d3, d4, d5]
                    nodes = [dep_node(d, [("tag", "title", True, [], [("text", "t")])] if d is d4 else None) for d in use]
                    body = body_with(nodes, rng)
                    content = [body] if recv != "list" else [("text", "lead"), body]
                    file_abs = posixpath.normpath(posixpath.join(cwd, file))
                    dest = destdir_of(file_abs, libdir)
                    fs = []
                    for d in use:
                        fs += source_files(d, rng, nested=(d is d2))
                    for d in (d1, d2, d5):
                        fs += stale_files(posixpath.join(dest, dir_name(d, iv)), d, rng)
                    fs += neighbour_files(dest.rstrip("/"), d1, iv, rng)
                    if n % 2:
                        fs.append((file_abs, "previous content of the html file"))
                    fs = list(dict(fs).items())
                    lines.append((save_line(recv, content, file, cwd, libdir, iv, fs), True, "save_html:ok"))
                    # one missing listed file of d1 / d2 (d2 only when not all_files): every choice, on a rotating subset
                    if n % 4 == 0 or tier != "quick":
                        for d in (d1, d2):
                            if d["all_files"]:
                                continue
                            for miss in listed(d):
                                fs2 = [(p, c) for p, c in fs if p != posixpath.join(d["source"][3], miss)]
                                lines.append((save_line(recv, content, file, cwd, libdir, iv, fs2), True, "save_html:missing"))
    ck.exhaustive_scopes.append({"scope": "save_html: libdir in {None,'','lib','a/b','a/b/'} x include_version x receiver in {HTMLDocument, Tag, TagList} "
                                          "x 4 file/cwd forms (absolute, relative, nested with space/%/#, non-ASCII); 6 dependencies each (two "
                                          "versions of one name, relative dir, URL, source-less with head, package); all combinations in both tiers", "cases": n, "exhaustive": True})
    # prefixes and names that quote()/unquote()/lower() would change: harmless ones (clause 2 holds) and the finding class
    m = 0
    combos = ([(lib, nm) for lib in LIBDIRS_QUOTABLE + LIBDIRS_SPECIAL for nm in ("d-one", "my dep")]
              + [(lib, nm) for lib in (None, "lib") for nm in DEP_NAMES_QUOTABLE + DEP_NAMES_SPECIAL])
    for lib, nm in combos:
        for iv in ((True, False) if tier != "quick" else (m % 2 == 0,)):
            recv = ("doc", "tag", "list")[m % 3]
            file, cwd = files[m % len(files)]
            k = (m * 7) % (len(FILE_NAMES) - 4)
            m += 1
            d1 = mk_dep(nm, VERSIONS[m % len(VERSIONS)], subdir_source(None, V + "/src/one", cwd), FILE_NAMES[k:k + 2], FILE_NAMES[k + 2:k + 4])
            d2 = mk_dep("two", "2.1.3", subdir_source(None, V + "/src/two", cwd), ["js\\app.js"], ["UP/Case.CSS"], all_files=(m % 4 == 0))
            body = body_with([dep_node(d1), dep_node(d2)], rng)
            content = [body] if recv != "list" else [("text", "lead"), body]
            file_abs = posixpath.normpath(posixpath.join(cwd, file))
            dest = destdir_of(file_abs, lib)
            fs = source_files(d1, rng, nested=False) + source_files(d2, rng, nested=False)
            fs += stale_files(posixpath.join(dest, dir_name(d1, iv)), d1, rng)
            fs.append((posixpath.dirname(file_abs) + "/.keep", ""))
            fs = list(dict(fs).items())
            cls = "special" if (is_special(d1, lib, iv) or is_special(d2, lib, iv)) else "plain"
            lines.append((save_line(recv, content, file, cwd, lib, iv, fs), True, "save_html:names-x-libdirs:" + cls))
    ck.exhaustive_scopes.append({"scope": "save_html: every libdir of the quotable / finding groups x {inert, spaced} name, and every name of "
                                          "those groups x libdir in {None,'lib'}; receiver, file form, include_version rotating (both values in the thorough tier)",
                                 "cases": m, "exhaustive": True})
    # random documents: random subsets of dependencies, file names, libdir, receiver; sometimes one listed file missing
    more_libs = LIBDIRS + ["l-1/x_y", "L", "a/b//", "x/y/z"] + LIBDIRS_QUOTABLE + LIBDIRS_SPECIAL[:2]
    for _ in range(ck.budget(250, 2500)):
        libdir = rng.choice(more_libs)
        iv = rng.random() < 0.5
        recv = rng.choice(["doc", "tag", "list"])
        file, cwd = rng.choice(files)
        deps = []
        names = rng.sample(DEP_NAMES + DEP_NAMES_SPECIAL[:2], rng.randint(1, 4))
        for i, nm in enumerate(names):
            kind = rng.random()
            if kind < 0.65:
                fn = rng.sample(FILE_NAMES, rng.randint(0, 4))
                k = rng.randint(0, len(fn))
                deps.append(mk_dep(nm, rng.choice(VERSIONS), subdir_source(None, V + f"/src/r{i} é", cwd), fn[:k], fn[k:],
                                   all_files=rng.random() < 0.25))
            elif kind < 0.8:
                deps.append(mk_dep(nm, rng.choice(VERSIONS), ("href", rng.choice(HREFS[:2])), ["r.js"], ["r.css"]))
            elif kind < 0.9:
                deps.append(mk_dep(nm, "1.0", subdir_source("htmltools", "libtest/testdep"), ["testdep.js"], ["testdep.css"]))
            else:
                deps.append(mk_dep(nm, "0.0", None, [], []))
        body = body_with([dep_node(d) for d in deps], rng)
        content = [body] if recv != "list" else [body, ("text", "tail")]
        file_abs = posixpath.normpath(posixpath.join(cwd, file))
        dest = destdir_of(file_abs, libdir)
        fs = []
        for d in deps:
            fs += source_files(d, rng, extras=rng.random() < 0.5, nested=rng.random() < 0.4)
            if rng.random() < 0.6 and d["source"] is not None and d["source"][0] == "subdir":
                fs += stale_files(posixpath.join(dest, dir_name(d, iv)), d, rng)
        # the directory of the html file must exist; the model has no empty directories, so a file stands for it
        fs.append((posixpath.dirname(file_abs) + "/.keep", ""))
        fs = list(dict(fs).items())
        tag = "save_html:random"
        cands = [(d, p) for d in deps if d["source"] and d["source"][0] == "subdir" and d["source"][1] is None
                 and not d["all_files"] for p in listed(d)]
        if cands and rng.random() < 0.3:
            d, miss = rng.choice(cands)
            fs = [(p, c) for p, c in fs if p != posixpath.join(d["source"][3], miss)]
            tag = "save_html:random-missing"
        lines.append((save_line(recv, content, file, cwd, libdir, iv, fs), True, tag))
    # file path problems: the file is a directory / its parent is a regular file
    d1 = mk_dep("d-one", "1.0", subdir_source(None, V + "/src/one"), ["a.js"], [])
    body = body_with([dep_node(d1)], rng)
    fs = source_files(d1, rng, nested=False)
    lines.append((save_line("doc", [body], V + "/out/index.html", V, "lib", True, fs + [(V + "/out/index.html/inside", "x")]), True, "save_html:blocked"))
    lines.append((save_line("doc", [body], V + "/out/f/index.html", V, "lib", True, fs + [(V + "/out/f", "x")]), True, "save_html:blocked"))
    return lines


# ------------------------------------------------------------------ independent Python oracle on the real outcome
def py_oracle(ck, line: str, impl: str):
    """C12's statement re-evaluated in plain Python on the answer of a save_html case (urllib + bytes comparison)"""
    import urllib.parse
    t = Toks(line)
    t.next()
    a = fsops._save_args(t)
    ti = Toks(impl)
    status = ti.next()
    if status != "ok":
        return
    ret = p_str(ti)
    from wire import p_list
    urls = p_list(ti, p_str)
    after = dict(fsops.p_fs(ti))
    before = {fsops.canon_path(p): c for p, c in a["fs"]}
    if ret != a["file"]:
        ck.py_violation(line, impl, f"save_html returned {ret!r}, not the file it was given {a['file']!r}")
        return
    fdir = posixpath.dirname(a["file_abs"])
    expected = []
    for d in a["deps"]:
        if d["source"] is None:
            continue
        for p in [dict(x)["href"] for x in d["stylesheet"]] + [dict(x)["src"] for x in d["script"]]:   # document order: links, scripts
            expected.append((d, p))
    if len(urls) != len(expected):
        ck.py_violation(line, impl, f"{len(urls)} src/href URLs in the file, {len(expected)} listed files")
        return
    for u, (d, p) in zip(urls, expected):
        if d["source"][0] != "subdir":
            continue
        base = href_base(a["libdir"], dir_name(d, a["iv"]))
        # finding F-C12: the URL is exactly what clause 1 prescribes, its unencoded prefix/name/version part holds a
        # character URL readers interpret, and that alone keeps it from naming the copied file
        known = "url-special: " if (url_special(base) and u == base + "/" + urllib.parse.quote(p)) else ""
        sp = urllib.parse.urlsplit(u)
        if sp.scheme or sp.netloc or sp.query or sp.fragment or "#" in u or "?" in u or u.startswith("/"):
            ck.py_violation(line, impl, f"{known}URL {u!r} is not a plain relative reference (scheme / query / fragment part)")
            return
        target = posixpath.join(fdir, os.fsdecode(urllib.parse.unquote_to_bytes(sp.path)))
        got = after.get(fsops.canon_path(target))
        want = before.get(fsops.canon_path(posixpath.join(d["source"][3], p)))
        if want is None and d["all_files"]:
            if got is not None:
                ck.py_violation(line, impl, f"{known}URL {u!r} resolves to {target!r} which exists although the source does not")
                return
            continue
        if got is None or want is None or got != want:
            ck.py_violation(line, impl, f"{known}URL {u!r} resolves to {target!r}: content {got!r}, source content {want!r}")
            return


# ------------------------------------------------------------------ finding F-C12
def _line_in_special_class(line: str) -> bool:
    """the input class of the finding: some directory-sourced dependency of the case has `%`, `#`, `?` (or a ':' in the
    first component) in [prefix/]name[-version]"""
    try:
        t = Toks(line)
        opn = t.next()
        if opn in ("as_dict", "as_html_tags"):
            from wire import p_depinfo, p_bool, p_list, p_node, p_opt
            info = p_depinfo(t)
            p_bool(t)
            p_list(t, p_node)
            lp = p_opt(t)
            iv = p_bool(t)
            return is_special(info, lp, iv)
        if opn == "save_html":
            a = fsops._save_args(t)
            return any(is_special(d, a["libdir"], a["iv"]) for d in a["deps"])
    except Exception:
        return False
    return False


def prefix_or_name_or_version_has_url_special(f) -> bool:
    """exactly F-C12: the input is in the class AND the verdict says that the only thing wrong is a URL which, written in
    the prescribed format, does not decode to the copied file (Lean: `Verdict.known`; Python oracle: `url-special:`).
    Any other failure on such an input — wrong format, wrong copy, wrong return value — does not match."""
    if f.kind != "property" or not f.line:
        return False
    d = f.detail or ""
    if not (d.startswith("KNOWN url-special") or d.startswith("url-special: ")):
        return False
    return _line_in_special_class(f.line)


MATCHERS = {"prefix_or_name_or_version_has_url_special": prefix_or_name_or_version_has_url_special}


# ------------------------------------------------------------------ readable replays
def _dep_expr(info) -> str:
    src = info["source"]
    if src is None:
        s = "None"
    elif src[0] == "href":
        s = repr({"href": src[1]})
    elif src[1] is None:
        s = "{'subdir': " + (f"V + {src[2][len(V):]!r}" if fsops.is_virtual(src[2]) else repr(src[2])) + "}"
    else:
        s = repr({"package": src[1], "subdir": src[2]})
    return (f"htmltools.HTMLDependency({info['name']!r}, {info['version']!r}, source={s}, "
            f"script={[dict(x) for x in info['script']]!r}, stylesheet={[dict(x) for x in info['stylesheet']]!r}, "
            f"meta={[dict(x) for x in info['metas']]!r}, all_files={info['all_files']!r})")


def _fs_setup(fs) -> str:
    virt = {p[len(V):]: c for p, c in fs if fsops.is_virtual(p)}
    return ("import os, shutil, tempfile, htmltools\n"
            "V = os.path.realpath(tempfile.mkdtemp())          # stands for /V of the wire line\n"
            f"files = {virt!r}   # path below V -> content (latin-1)\n"
            "for p, c in files.items():\n"
            "    os.makedirs(os.path.dirname(V + p), exist_ok=True); open(V + p, 'wb').write(c.encode('latin-1'))\n")


_TREE = ("for r, _, fs in sorted(os.walk(V)):\n"
         "    for f in sorted(fs): print(os.path.join(r, f)[len(V):], open(os.path.join(r, f), 'rb').read()[:60])\n"
         "shutil.rmtree(V)\n")


def py_snippet(line: str) -> str:
    """a stand-alone Python reproduction of a file-system case against the public API"""
    t = Toks(line)
    opn = t.next()
    if opn in ("copy_to", "copy_atomic"):
        info, path, iv, cwd, fs = fsops._copy_args(t)
        return (_fs_setup(fs) + f"os.makedirs(V + {cwd[len(V):]!r}, exist_ok=True); os.chdir(V + {cwd[len(V):]!r})\n"
                f"dep = {_dep_expr(info)}\n"
                f"try:\n    print(dep.copy_to(V + {path[len(V):]!r}, include_version={iv}))\n"
                "except Exception as e:\n    print('raised', type(e).__name__, e)\n" + _TREE)
    if opn == "save_html":
        a = fsops._save_args(t)

        def expr(n):
            if n[0] == "tag":
                return f"htmltools.Tag({n[1]!r}, " + "".join(expr(c) + ", " for c in n[4]) + f"_add_ws={n[2]})"
            if n[0] == "dep":
                return _dep_expr(n[1])
            return repr(n[1])
        objs = ", ".join(expr(n) for n in a["content"])
        ctor = {"doc": f"htmltools.HTMLDocument({objs})", "tag": objs, "list": f"htmltools.TagList({objs})"}[a["recv"]]
        f = a["file"]
        fexpr = f"V + {f[len(V):]!r}" if fsops.is_virtual(f) else repr(f)
        return (_fs_setup(a["fs"]) + f"os.makedirs(V + {a['cwd'][len(V):]!r}, exist_ok=True); os.chdir(V + {a['cwd'][len(V):]!r})\n"
                f"x = {ctor}\n"
                f"try:\n    print('returned', x.save_html({fexpr}, libdir={a['libdir']!r}, include_version={a['iv']}))\n"
                "except Exception as e:\n    print('raised', type(e).__name__, e)\n" + _TREE)
    return ""


def decode_answer(ans: str) -> str:
    """wire answer with its string tokens decoded (for people)"""
    from wire import ds
    out = []
    for tok in ans.split(" "):
        if tok and all(c in "0123456789abcdef." for c in tok) and tok not in ("0",):
            try:
                out.append(repr(ds(tok)))
                continue
            except Exception:
                pass
        out.append(tok)
    return " ".join(out)


def make_shrink(ck):
    def shrink(f):
        if ck.driver is not None and f.line:
            f.model = ck.driver.run([f.line])[0]
            cls = ck.driver.run(["c12_class " + f.line])[0]
            f.detail = (f"executable statement of C12 is {f.detail or 'violated'} on the implementation's answer; "
                        f"clause exercised: {cls}; implementation: {decode_answer(f.impl)[:1500]} ; "
                        f"model (what the theorems predict): {decode_answer(f.model)[:1500]}")
        try:
            f.py = py_snippet(f.line)
        except Exception as e:       # the reproduction text is a convenience only
            f.py = f"(no snippet: {e})"
        return f
    return shrink


def replay(body: dict) -> int:
    line = body.get("line")
    if not line:
        import json
        print(json.dumps(body, indent=1))
        return 1
    impl = ops.run_line(line)
    drv = core.Driver()
    model = drv.run([line])[0]
    holds = drv.run([f"holds {PID} {line} | {impl}"])[0]
    print("op line :", line[:2000])
    print("impl    :", decode_answer(impl)[:3000])
    print("model   :", decode_answer(model)[:3000])
    print("statement holds on the implementation's answer:", holds)
    print("clause  :", drv.run(["c12_class " + line])[0])
    if body.get("python"):
        print("--- reproduce with:\n" + body["python"])
    return 0 if (holds == "T" and impl == model) else 1


# ------------------------------------------------------------------ run
def clause_coverage(ck, lines) -> dict:
    """which clause of the executable statement each file-system / URL case exercises (a vacuous pass must show)"""
    if ck.driver is None:
        return {}
    sel = [l for l in lines if l.split(" ", 1)[0] in ("copy_to", "save_html", "as_dict")]
    outs = ck.driver.run(["c12_class " + l for l in sel])
    cov: dict = {}
    urls = [0, 0, 0]
    for l, o in zip(sel, outs):
        opn = l.split(" ", 1)[0]
        if opn == "as_dict":
            a, b, c = (int(x) for x in o.split())
            urls = [urls[0] + a, urls[1] + b, urls[2] + c]
        else:
            cov[opn + ":" + o] = cov.get(opn + ":" + o, 0) + 1
    cov["as_dict:urls"], cov["as_dict:urls-closed-form-checked"], cov["as_dict:urls-agreement-checked"] = urls
    return cov


def _run_chunk(ls):
    return [ops.run_line(l) for l in ls]


def impl_split(lines):
    """the real code on every line: the pure ops in-process, the file-system cases (each builds and removes a real
    temporary directory) spread evenly over a few worker processes"""
    heavy = [i for i, l in enumerate(lines) if l.split(" ", 1)[0] in ("copy_to", "copy_atomic", "save_html")]
    hs = set(heavy)
    out = [None] * len(lines)
    for i, l in enumerate(lines):
        if i not in hs:
            out[i] = ops.run_line(l)
    procs = min(8, os.cpu_count() or 1)
    if len(heavy) < 40 or procs < 2:
        for i in heavy:
            out[i] = ops.run_line(lines[i])
        return out
    import multiprocessing as mp
    chunks = [heavy[k::procs * 4] for k in range(procs * 4)]
    with mp.get_context("fork").Pool(procs) as pool:
        res = pool.map(_run_chunk, [[lines[i] for i in ch] for ch in chunks])
    for ch, rs in zip(chunks, res):
        for i, r in zip(ch, rs):
            out[i] = r
    return out


REQUIRED_CLAUSES = ["copy_to:listed:ready", "copy_to:listed:missing", "copy_to:all:ready", "copy_to:no-copy",
                    "save_html:all-ready", "save_html:fails:missing"]


def repeat_save_oracle(ck, n: int):
    """the same dependency saved several times in ONE process into the SAME directory, with the destination and the
    sources edited in between: after every save the statement must hold afresh (stale content gone, every listed
    file byte-identical to its *current* source) — a save must not remember an earlier one"""
    import shutil
    import tempfile
    from htmltools import HTMLDependency, HTMLDocument, Tag, TagList
    rng = ck.rng
    done = 0
    for _ in range(n):
        root = tempfile.mkdtemp(prefix="c12rep-")
        try:
            src = os.path.join(root, "src")
            os.makedirs(os.path.join(src, "js"))
            files = {"js/app one.js": b"v1-app", "main.css": b"v1-css", "data#1.json": b"{}"}
            for rel, data in files.items():
                with open(os.path.join(src, rel), "wb") as f:
                    f.write(data)
            allf = rng.random() < 0.4
            dep = HTMLDependency("widget", rng.choice(["2.1.0", "1"]), source={"subdir": src},
                                 script=[{"src": "js/app one.js"}, {"src": "data#1.json"}], stylesheet={"href": "main.css"}, all_files=allf)
            libdir = rng.choice(["lib", "assets/lib", None])
            iv = rng.random() < 0.6
            out = os.path.join(root, "site")
            os.makedirs(out)
            file = os.path.join(out, "index.html")
            target = os.path.join(out, *( [libdir] if libdir else [] ), "widget" + (("-" + str(dep.version)) if iv else ""))
            receivers = [lambda: Tag("div", dep), lambda: TagList("x", dep), lambda: HTMLDocument(Tag("p", dep))]

            def check(step):
                want = {rel: open(os.path.join(src, rel), "rb").read() for rel in files if os.path.exists(os.path.join(src, rel))}
                got = {}
                for dp, _dn, fn in os.walk(target):
                    for name in fn:
                        full = os.path.join(dp, name)
                        got[os.path.relpath(full, target).replace(os.sep, "/")] = open(full, "rb").read()
                if got != want:
                    ck.py_violation(f"repeat_save step={step} libdir={libdir!r} include_version={iv} all_files={allf}",
                                    repr(sorted(got.items()))[:300],
                                    f"after save #{step} into the same directory the dependency's target holds {sorted(got)} with contents differing from "
                                    f"the current sources {sorted(want)} (stale file kept, damaged copy not refreshed, or deleted copy not restored)",
                                    py="save_html() twice in one process with the destination / sources edited in between")
                    return False
                return True
            for step in (1, 2, 3):
                ret = receivers[(step + done) % 3]().save_html(file, libdir=libdir, include_version=iv)
                ck.holds_checked += 1
                if ret != file or not check(step):
                    break
                if step == 1:       # damage the destination
                    open(os.path.join(target, "js", "old-bundle.js"), "wb").write(b"stale")
                    open(os.path.join(target, "main.css"), "wb").write(b"damaged")
                    os.remove(os.path.join(target, "data#1.json"))
                elif step == 2:     # new versions of the sources
                    for rel in files:
                        open(os.path.join(src, rel), "wb").write(b"v2-" + rel.encode())
            done += 1
        except Exception as e:  # noqa: BLE001
            ck.py_violation("repeat_save", f"raised {type(e).__name__}: {e}", f"saving a well-formed dependency again raised {type(e).__name__}: {e}")
        finally:
            shutil.rmtree(root, ignore_errors=True)
    ck.extra_cov["repeat_save_histories"] = done


def run(tier: str) -> int:
    ck = core.Check(PID, tier, PROP_FILES)
    ck.prepare()
    ck.rule = ("a case is one call of quote/unquote/join, of source_path_map/as_dict/as_html_tags, or one copy_to / save_html run on a real "
               "temporary directory; non-trivial = every case except unquote inputs without '%'; distinct by wire line")
    cases = gen_pure(ck, tier) + gen_urls(ck, tier) + gen_copy(ck, tier) + gen_save(ck, tier)
    lines = [c[0] for c in cases]
    impl = impl_split(lines)
    for im in impl:
        if im.startswith("harness-error"):
            raise core.Infra("sandbox failure on the harness side: " + im[:400])
    for (l, nt, tag), im in zip(cases, impl):
        ck.add(l, im, nontrivial=nt, tag=tag)
        if tag.startswith("save_html"):
            ck.holds_checked += 1
            py_oracle(ck, l, im)
    ck.add_src(['HTMLDependency_source_path_map', 'HTMLDependency_as_dict', 'HTMLDependency_as_html_tags'])
    __import__("srctie_c12b").add_src_c12b(ck, ['HTMLDependency_copy_toC12b', 'HTMLDocument_save_htmlC12b', 'Tag_save_htmlC12b', 'TagList_save_htmlC12b'])
    ck.correspond(holds=True)
    repeat_save_oracle(ck, ck.budget(12, 150))
    cov = clause_coverage(ck, lines)
    ck.extra_cov["statement_clauses_exercised"] = cov
    thin = [c for c in REQUIRED_CLAUSES if cov.get(c, 0) < 5]
    if thin and ck.driver is not None:
        raise core.Infra(f"generator no longer reaches the clauses {thin} of the statement (guards fail?): {cov}")
    ck.assumptions.append("operating system behaviour (shutil, pathlib, os.path, open) is modelled, not verified: partial")
    ck.assumptions.append("guards of the theorems: CleanRel path, CleanDir libdir, SafeSeg name[-version], source/target/html-file apart; "
                          "the executable statement is evaluated without the character guards (finding F-C12 is what then fails)")
    # report the smallest failing input first, inputs outside the finding's class before those inside
    ck.failures.sort(key=lambda f: (f.kind != "property", _line_in_special_class(f.line), len(f.line)))
    ck.extra_cov["finding_class_cases"] = sum(v for k, v in ck.tags.items() if k.endswith(":special"))
    return ck.finish(matchers=MATCHERS, shrink=make_shrink(ck))
