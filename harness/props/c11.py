"""C11 — HTMLDocument builds one head/body and hoists every dependency into head."""
from __future__ import annotations

import copy
import itertools
import re
import time

import core
import gen
import ops  # noqa: F401  (registers the implementation side, incl. ops_document)
from adapters import canon
from props.c10 import V, collected, mk_dep, oracle_resolve, py_of, walk_deps
from wire import Toks, ds, eattrdict, eb, elist, enodes, eopt, p_attrpair, p_bool, p_list, p_node, p_opt

PID = "C11"
MANIFEST = dict(
    text="Lean: _gen_html_tag_tree (three cases decided on the stored, un-expanded content; len()==1 counts metadata nodes) and "
         "_hoist_head_content are modelled as written (index loop for the first direct <head> child or insert at 0, copy, "
         "insert(0, meta charset), append(listing) iff dependencies, extend(as_html_tags of each), then Tag.render's tagify / "
         "get_dependencies / get_html_string) and proved equal, error for error, to a tree built directly from the statement "
         "(C11_tree_is_spec): root by case (C11_root_html/_body/_fragment, C11_case_on_stored_content), exactly one direct <head> "
         "under the decidable guard headCount <= 1 for a user's <html> (C11_one_head; C11_head_count_general otherwise), head = "
         "<meta charset> :: user's head children ++ listing R ++ markup of R in place (C11_head, C11_head_new, C11_head_user), "
         "listing text (C11_listing), markup of R = concatenation in resolved order of one block per dependency "
         "(C11_dep_markup_order), block = metas, links, scripts (one childless tag per entry) then the dependency's head "
         "(C11_dep_tags), markup = doctype line + rendering, never a RuntimeError (C11_doctype), nothing added outside the head and "
         "the markup equals that of the dependency-free skeleton (C11_rest_is_plain via C07, C11_page_layout), objects replaced by "
         "their expansion below the chosen case (C11_objects_expanded*, C09 corollary), render() leaves the content alone "
         "(C11_pure, C11_repeat), appended content (C11_append), when it raises (C11_errors); HTMLTextDocument.render() inserts at its "
         "placeholder exactly the nodes _hoist_head_content appends (C11_same_as_text_document = the full C13_same_as_document, "
         "instantiating C13_same_as_document_partial with this document model and the as_html_tags model). Returned list = resolved list R "
         "under noDepInDepHead (C11_returned); the unguarded statement is refuted by the witness (C11_returned_full_is_false, "
         "F-C11) and C11_returned_general says what is returned instead. Tie to /repo: exact equality of render()['html'], of the "
         "returned dependency objects (canonical form with a unique marker per object) and of the user's own objects after the "
         "call, content given at construction or appended later, exhaustive small scopes + random; the executable statement "
         "(specification side only) is evaluated by the Lean driver on every real answer; independent Python oracle for "
         "'every resolved dependency's markup exactly once, nothing else hoisted, listing = resolved names'.",
    design="DESIGN.md §6 C11 (F-C11 recorded finding; F-C08a fix: fixes/C08-doc-render-no-mutation.patch)",
    note="Modelled, not verified: Python's copy()/list insert/extend as the corresponding list functions; object identity of the "
         "hoisted head nodes (the same objects as in the dependency's head; irrelevant to markup); keyword names that collide with "
         "parameter names (self, _name, _add_ws) are not generated; HTMLDependency sources with package= (package_dir) are not "
         "generated (href / non-package subdir / None only); SHA-1 naming of head_content() is produced by the real function. "
         "save_html is C12's subject.",
    technique="Lean 4 proofs (refinement of the literal index/insert/extend algorithm to a declarative tree, list lemmas, mutual "
              "structural induction through C07/C09/C10) + differential correspondence check with exhaustive small scopes",
)
PROP_FILES = ["HtmlVerif/Props/C11.lean", "HtmlVerif/Props/C11TextDoc.lean", "HtmlVerif/Props/ConstsDoc.lean", "HtmlVerif/Props/SrcC12.lean"]
PROP_FILES.append("HtmlVerif/Props/SrcRenderC11.lean")   # the renderer tie restated on the embedding of tagify / get_dependencies
PROP_FILES.append("HtmlVerif/Props/SrcC11.lean")   # source tie: _gen_html_tag_tree, _hoist_head_content, render, __init__, append, Tag.render/insert/extend/append, TagAttrDict.__init__

LPS = [None, "", "lib", "a/b", "a/b/"]
KWS = [
    [],
    [("lang", ("str", "en"))],
    [("class_", ("str", "a b")), ("data_x", ("true",)), ("n", ("num", "3")), ("skip", ("none",)), ("f", ("false",))],
    [("lang", ("html", "<&>\"")), ("LANG_", ("str", "é\"<")), ("lang_", ("str", "again"))],
    [("b", ("bad",))],
]


# ------------------------------------------------------------------ terms
def T(name, *kids, ws=True, attrs=()):
    return ("tag", name, ws, list(attrs), list(kids))


def D(name, version, **kw):
    head = kw.pop("head", None)
    sheet = kw.pop("stylesheet", None)
    d = mk_dep(name, version, head=head, **kw)
    if sheet is not None:
        d[1]["stylesheet"] = [list(x) + ([] if any(k == "rel" for k, _ in x) else [("rel", "stylesheet")]) for x in sheet]
    return d


VIEWPORT = [("name", "viewport"), ("content", "width=device-width")]


def d_a1():
    # a1 and b declare a byte-identical <meta> (and b declares it twice): every dependency's own markup is emitted
    return D("a", "1.0", extra_meta=[list(VIEWPORT)], head=[("html", "<x>"), T("style", ("text", "p{}"))], script=[[("src", "s 1.js"), ("defer", "")]],
             stylesheet=[[("href", "c.css")]], source=("subdir", None, "srcdir", ""))


def d_a2():
    return D("a", "2.0", script=[[("src", "t.js")]], stylesheet=[[("href", "u v.css"), ("media", "print")]],
             source=("href", "https://cdn/x"))


def d_b():
    return D("b", "0.9", extra_meta=[list(VIEWPORT), list(VIEWPORT)], head=[T("link", attrs=[("href", ("p", "q"))])], source=None)


_HC_CACHE: dict = {}


def hc(*head_terms):
    """the term of `head_content(*head)`: name = the real digest of the real rendering"""
    key = enodes(list(head_terms))
    if key not in _HC_CACHE:
        import htmltools
        from ops_document import realize_doc_node
        _HC_CACHE[key] = canon(htmltools.head_content(*[realize_doc_node(h) for h in head_terms]), None)
    return copy.deepcopy(_HC_CACHE[key])


def hc1():
    return hc(T("link", attrs=[("href", ("p", "hc.css"))]))


def hc2():
    return hc(T("script", ("text", "1<2"), attrs=[("id", ("p", "z"))]), ("text", "tail"))


def d_nested():
    """F-C11's class: a dependency whose head contains a dependency (below a tag)"""
    return D("h", "1", head=[T("div", D("inner", "1"))])


def d_nested_top():
    """… directly in the head, same name as a hoisted one and a higher version"""
    return D("h2", "1", head=[D("a", "3.0", script=[[("src", "in.js")]], source=("href", "//i")), ("text", "after")])


def d_objhead():
    """a dependency whose head holds a self-rendering tagifiable object (expanded by the final tagify())"""
    return D("o", "1", head=[("tobjL", "<rh>", [("text", "exp"), T("b", ("tobj1", None, ("text", "deep")))])])


def d_badhead():
    """… and one that is not self-rendering: as_html_tags raises RuntimeError"""
    return D("bad", "1", head=[("tobjL", None, [("text", "never")])])


def finish(terms):
    """unique marker in the first meta of every dependency that has one; version ranks over the whole case"""
    ctr = itertools.count()
    vs = set()

    def mark(d):
        m = d[1]["metas"]
        if m and m[0][0] == ("name", "id"):
            m[0] = [("name", "id"), ("content", "m" + str(next(ctr)) + "k")]
        vs.add(d[1]["version"])

    for t in terms:
        walk_deps(t, mark)
    order = sorted({V(v) for v in vs})
    rk = {v: i for i, v in enumerate(order)}

    def setrank(d):
        d[1]["vrank"] = rk[V(d[1]["version"])]

    for t in terms:
        walk_deps(t, setrank)
    return terms


def split_content(content, mode):
    """content given at construction or appended later"""
    if mode == 0 or not content:
        return content, []
    if mode == 1:
        return [], [content]
    if mode == 2:
        return content[:1], [[c] for c in content[1:]]
    k = len(content) // 2
    return content[:k], [content[k:]]


def mk_line(content, kw, lp, iv, mode=0, opn="document_render"):
    finish(content)
    init, later = split_content(content, mode)
    return f"{opn} {enodes(init)} {elist([enodes(b) for b in later])} {eattrdict(kw)} {eopt(lp)} {eb(iv)}"


# ------------------------------------------------------------------ Python-side reading of a case (independent of Lean)
def expand(n):
    """forward expansion of tagifiable objects (list of terms)"""
    k = n[0]
    if k == "tag":
        return [("tag", n[1], n[2], n[3], [e for c in n[4] for e in expand(c)])]
    if k == "tobjL":
        return [e for c in n[2] for e in expand(c)]
    if k == "tobj1":
        return expand(n[2])
    return [n]


def marker(d):
    m = d[1]["metas"]
    return dict(m[0]).get("content") if m and m[0][0] == ("name", "id") else None


def has_nested_dep(content) -> bool:
    """some dependency anywhere in the content has a head that contains a dependency (at any depth)"""
    found = []

    def chk(d):
        inner = []
        for c in d[3]:
            walk_deps(c, inner.append)
        if inner:
            found.append(d)

    for t in content:
        walk_deps(t, chk)
    return bool(found)


def parse_line(line):
    t = Toks(line)
    opn = t.next()
    init = p_list(t, p_node)
    later = p_list(t, lambda t: p_list(t, p_node))
    kw = p_list(t, p_attrpair)
    lp = p_opt(t)
    iv = p_bool(t)
    return opn, init, later, kw, lp, iv


def snippet(line: str) -> str:
    try:
        _, init, later, kw, lp, iv = parse_line(line)
        kws = "".join(f", {k}={'HTML(' + repr(v[1]) + ')' if v[0] == 'html' else repr(v[1]) if v[0] in ('str',) else v[1] if v[0] == 'num' else {'none': 'None', 'true': 'True', 'false': 'False', 'bad': 'object()'}[v[0]]}"
                      for k, v in kw)
        s = "from htmltools import *\ndoc = HTMLDocument(" + (", ".join(py_of(n) for n in init) + kws).lstrip(", ") + ")\n"
        for b in later:
            s += "doc.append(" + ", ".join(py_of(n) for n in b) + ")\n"
        s += f"r = doc.render(lib_prefix={lp!r}, include_version={iv}); r['html'], r['dependencies']  # then look at the objects passed in"
        return s
    except Exception as e:  # never let the explanation break the report
        return f"(no snippet: {e})"


def explain(f):
    if not f.py:
        f.py = snippet(f.line)
    return f


def m_fc11(f) -> bool:
    """failing input inside the recorded finding's class: the only failing clause of the executable statement is the
    one about the returned list, evaluated outside the Lean guard `noDepInDepHead` (the driver labels it `returned!g`),
    and — checked independently on the term — some dependency's head does contain a dependency"""
    if f.kind != "property" or not f.detail.startswith("F "):
        return False
    labels = f.detail.split()[1:]
    if labels != ["returned!g"]:
        return False
    try:
        _, init, later, *_ = parse_line(f.line)
    except Exception:
        return False
    return has_nested_dep(init + [n for b in later for n in b])


LISTING_RE = re.compile(r'<script type="application/html-dependencies">(.*?)</script>', re.S)


def oracle(line, impl):
    """independent statement on the real answer: every resolved dependency's marker meta exactly once in the markup, no
    other dependency's marker at all, the listing names exactly the resolved dependencies.  -> failure text or None"""
    _, init, later, kw, lp, iv = parse_line(line)
    if not impl.startswith("ok "):
        return None
    html = ds(impl.split(" ", 2)[1])
    content = init + [n for b in later for n in b]
    exp = [e for c in content for e in expand(c)]
    R = oracle_resolve(collected(exp))
    if not html.startswith("<!DOCTYPE html>\n<html"):
        return "markup does not start with the doctype line followed by <html"
    alld = []
    for c in content:
        walk_deps(c, alld.append)
    rmk = {marker(d) for d in R}       # one object placed at several positions: same marker, hoisted once
    for d in alld:
        mk = marker(d)
        if mk is None:
            continue
        n = html.count(f'<meta name="id" content="{mk}"/>')
        want = 1 if mk in rmk else 0
        if n != want:
            return f"markup of dependency {d[1]['name']}[{d[1]['version']}] (marker {mk}) occurs {n} times, expected {want}"
    m = LISTING_RE.findall(html)
    want = ";".join(f"{d[1]['name']}[{d[1]['version']}]" for d in R)
    if (m != [want]) if R else bool(m):
        return f"listing script {m!r}, expected {[want] if R else []!r}"
    return None


# ------------------------------------------------------------------ the run
WITNESS_CONTENT = lambda: [T("div", d_nested())]   # noqa: E731


def repeat_render_oracle(ck) -> int:
    """a document is rendered several times; parts of it come from user objects whose tagify() hands back the SAME stored
    tag every time (a component that builds its markup once).  Every rendering must be the first one again: one head, the
    charset meta once, the listing once, every dependency's tags once"""
    from htmltools import HTMLDependency, HTMLDocument, Tag, TagList, tags
    n = 0

    class Stored:
        def __init__(self, t):
            self.t = t

        def tagify(self):
            return self.t

    dep = lambda k: HTMLDependency(f"d{k}", "1.0", source={"href": "/x"}, script={"src": f"s{k}.js"})  # noqa: E731

    def docs():
        yield "stored head", HTMLDocument(tags.html(Stored(tags.head(tags.title("T"))), tags.body("x", dep(1))), lang="en")
        yield "stored html child", HTMLDocument(tags.html(tags.head(), Stored(tags.body(dep(1), dep(2), "y"))))
        yield "stored body", HTMLDocument(Stored(tags.body("z", dep(3))))
        yield "stored fragment", HTMLDocument(TagList(Stored(tags.div(dep(1), "a")), Stored(TagList(tags.p("b"), dep(2)))))
        yield "stored head with dep", HTMLDocument(tags.html(Stored(tags.head(dep(4), tags.title("T"))), tags.body("x")))
        h = tags.head(tags.title("plain"))
        yield "plain html, plain head", HTMLDocument(tags.html(h, tags.body(dep(5))))

    for label, d in docs():
        n += 1
        ck.holds_checked += 1
        try:
            rs = [d.render() for _ in range(3)]
        except Exception as e:  # noqa: BLE001
            ck.py_violation(f"repeat_render {label}", f"raised {type(e).__name__}: {e}", "rendering a document several times raised", py=label)
            continue
        htmls = [r["html"] for r in rs]
        names = [[x.name for x in r["dependencies"]] for r in rs]
        if len(set(htmls)) != 1 or any(nm != names[0] for nm in names) or htmls[0].count("<head>") != 1 or htmls[0].count('charset="utf-8"') != 1:
            k = next((i for i in range(3) if htmls[i] != htmls[0]), 0)
            ck.py_violation(f"repeat_render {label}", htmls[k][:400],
                            f"rendering #{k + 1} of the same document differs from rendering #1 (or <head> / charset are not unique): "
                            f"{htmls[k][:300]!r} vs {htmls[0][:300]!r}", py=f"{label}: doc.render() three times; the component's tagify() returns the same stored Tag each time")
    ck.exhaustive_scopes.append({"scope": "repeated rendering of 6 documents whose head / body / fragments come from components that return the same stored tag from tagify()", "n": n, "exhaustive": True})
    return n


def odd_nodes_oracle(ck) -> int:
    """content items that are legal nodes (self-rendering or tagifiable) and at the same time instances of dict / Mapping:
    inside a document they are nodes — the body is the content's ordinary rendering — never attribute maps of <body>/<html>"""
    import collections.abc
    from htmltools import HTMLDocument, Tag, TagList, tags
    n = 0

    class PlainRepr:
        def __init__(self, h):
            self.h = h

        def _repr_html_(self):
            return self.h

    class PlainTagifiable:
        def __init__(self, t):
            self.t = t

        def tagify(self):
            return self.t()

    class DictRepr(dict):
        def _repr_html_(self):
            return "<table>rec</table>"

    class DictTagifiable(dict):
        def tagify(self):
            return Tag("dl", Tag("dt", "k"))

    class MapRepr(collections.abc.Mapping):
        def __init__(self, **kw):
            self.d = kw

        def __getitem__(self, k):
            return self.d[k]

        def __iter__(self):
            return iter(self.d)

        def __len__(self):
            return len(self.d)

        def _repr_html_(self):
            return "<table>map</table>"

    odd = [("dict subclass with _repr_html_", lambda: DictRepr(id="r1", lang="en"), lambda: PlainRepr("<table>rec</table>")),
           ("empty dict subclass with _repr_html_", lambda: DictRepr(), lambda: PlainRepr("<table>rec</table>")),
           ("dict subclass with tagify", lambda: DictTagifiable({"class": "c"}), lambda: PlainTagifiable(lambda: Tag("dl", Tag("dt", "k")))),
           ("Mapping with _repr_html_", lambda: MapRepr(title="t"), lambda: PlainRepr("<table>map</table>"))]
    shapes = [("fragment of several items", lambda w: HTMLDocument("a", w, tags.p("b"))),
              ("sole item", lambda w: HTMLDocument(w)),
              ("inside a list", lambda w: HTMLDocument(TagList(w, "z"), lang="en")),
              ("appended later", lambda w: (lambda d: (d.append(w), d)[1])(HTMLDocument(tags.p("first")))),
              ("inside a lone body's child list", lambda w: HTMLDocument(tags.body(TagList("x", w))))]
    for olabel, mk, plain in odd:
        for slabel, shape in shapes:
            n += 1
            ck.holds_checked += 1
            try:
                want = shape(plain()).render()["html"]
            except Exception as e:  # noqa: BLE001
                ck.py_violation(f"odd_nodes {olabel} / {slabel}", f"raised {type(e).__name__}: {e}", "the reference document (ordinary object) raised", py=olabel)
                continue
            try:
                got = shape(mk()).render()["html"]
            except Exception as e:  # noqa: BLE001
                got = f"raised {type(e).__name__}: {e}"
            if got != want:
                ck.py_violation(f"odd_nodes {olabel} / {slabel}", got[:400],
                                f"a content item that is a {olabel} ({slabel}) is not rendered as the node it is: {got[:300]!r}; the same document with an "
                                f"ordinary object that renders alike: {want[:300]!r}",
                                py=f"class Rec(dict):\n    def _repr_html_(self): return '<table>rec</table>'\n# {olabel}; {slabel}\nHTMLDocument('a', Rec(id='r1', lang='en'), tags.p('b')).render()['html']")
    ck.exhaustive_scopes.append({"scope": "content items that are nodes and also dict / Mapping instances: 4 kinds x 5 places in a document", "n": n, "exhaustive": True})
    return n


def run(tier: str) -> int:
    ck = core.Check(PID, tier, PROP_FILES)
    t0 = time.time()
    ck.prepare()
    phase = {"build_audit": round(time.time() - t0, 1)}
    t1 = time.time()
    rng = ck.rng
    thorough = tier == "thorough"
    ck.rule = ("a case is one HTMLDocument(*content, **attrs) (content at construction and/or appended later) and one "
               "render(lib_prefix=…, include_version=…) call, observed by its markup, its returned dependency objects and the "
               "objects passed in afterwards; non-trivial = the content holds a dependency or a head_content() item, or is a "
               "user <html>/<body> tag, or html attribute arguments are given; distinct by wire term")
    cases: list[tuple[str, bool, str]] = []

    def nontrivial(content, kw):
        alld = []
        for c in content:
            walk_deps(c, alld.append)
        return bool(alld) or bool(kw) or (len(content) == 1 and content[0][0] == "tag" and content[0][1] in ("html", "body"))

    def add(content, kw, lp, iv, mode=0, tag="misc", tree=False):
        cases.append((mk_line(content, kw, lp, iv, mode), nontrivial(content, kw), tag))
        if tree:
            cases.append((mk_line(content, kw, lp, iv, mode, "document_tree"), nontrivial(content, kw), tag + "-tree"))

    # 0. corpus: the suite's documents, the findings' witnesses, hand-picked corners
    witness_line = mk_line(WITNESS_CONTENT(), [], "lib", True)
    cases.append((witness_line, True, "corpus"))
    corpus = [
        [],
        [("text", "x")],
        [T("html")],
        [T("html", T("body", ("text", "b")))],
        [T("html", T("head", T("title", ("text", "t"))), T("body", ("text", "b")), attrs=[("lang", ("p", "x"))])],
        [T("html", d_a1(), T("body", ("text", "b")), T("head", T("title", ("text", "t")), d_a2(), hc1()), T("head", ("text", "2nd")),
           attrs=[("lang", ("p", "x")), ("class", ("h", "<k>"))])],
        [T("body", ("text", "x"), d_a1(), attrs=[("class", ("p", "c"))])],
        [T("body", ws=False)],
        [T("BODY", ("text", "not a body"))],
        [T("html", ws=False), ("meta", 1)],
        [("meta", 1), T("html", T("body"))],
        [("tobj1", None, T("html", T("head", ("tobjL", "<r>", [d_a1()]))))],
        [T("html", ("tobj1", None, T("head", ("tobjL", "<r>", [d_a1()]), ("text", "own"))), d_objhead())],
        [T("html", ("tobjL", None, [T("body"), T("head", hc2())]), T("head"))],
        [T("html", d_badhead())],
        [T("div", d_nested())],
        [d_nested_top(), d_a1()],
        [d_a1(), d_nested_top()],
        [T("html", T("body", d_nested_top()), T("head", d_a2()))],
        [hc1(), hc1(), hc2(), T("head", hc1())],
        [T("script", ("text", "a<b")), T("head", ("text", "in body")), d_b(), d_b()],
        [T("html", T("head", ws=False, attrs=[("data-u", ("p", "1"))]), ws=False)],
        [T("html", T("body"), T("head", ("text", "only text")))],
        [T("html", ("text", "t"), T("head", T("meta", attrs=[("charset", ("p", "latin1"))])))],
    ]
    # one and the same dependency object at several positions (the terms share their record, hence their marker)
    for mkd in (d_a1, d_b, d_nested):
        sd = mkd()
        corpus.append([sd, T("div", sd), ("text", "x"), sd])
        sd = mkd()
        corpus.append([T("html", T("head", sd, T("title")), T("body", sd, d_a2(), sd))])
    for c in corpus:
        for kw in KWS:
            for (lp, iv) in (("lib", True), (None, False), ("a/b/", True)):
                add(copy.deepcopy(c), kw, lp, iv, mode=len(cases) % 4, tag="corpus", tree=True)
    # every prefix x flag x attribute set on three dependency-rich documents, construction and append
    for c in (corpus[5], corpus[6], corpus[19]):
        for kw in KWS:
            for lp in LPS:
                for iv in (True, False):
                    for mode in (0, 1, 2):
                                add(copy.deepcopy(c), kw, lp, iv, mode=mode, tag="settings")
    ck.exhaustive_scopes.append({"scope": "3 dependency-rich documents x 5 attribute-argument sets x lib_prefix in "
                                          "{None,'','lib','a/b','a/b/'} x include_version x 3 ways of giving the content",
                                 "cases": 3 * len(KWS) * len(LPS) * 2 * 3, "exhaustive": True})

    # 1. exhaustive structure scope: every content forest with <= N nodes over html/head/body/div x {text, a-1.0, a-2.0, head_content}
    N = 5 if thorough else 4
    leaf_mk = [lambda: ("text", "x"), d_a1, d_a2, hc1]
    leaves = [("text", str(i)) for i in range(len(leaf_mk))]
    tags = [("html", True), ("head", True), ("body", True), ("div", True)]

    def inst(s):
        if s[0] == "text":
            return leaf_mk[int(s[1])]()
        return ("tag", s[1], s[2], [], [inst(c) for c in s[4]])

    n1 = 0
    for shape in gen.forests_upto(N, leaves, tags):
        content = [inst(s) for s in shape]
        size = sum(gen.count_nodes(s) for s in shape)
        if size <= 2:
            for kw in KWS[:3]:
                for lp in LPS:
                    for iv in (True, False):
                        add([inst(s) for s in shape], kw, lp, iv, mode=(n1 % 4), tag=f"forest{size}")
        else:
            k = n1 * 7 + size
            add(content, KWS[k % 4 if k % 11 else 4], LPS[k % 5], bool((k // 5) % 2), mode=(k // 3) % 4, tag=f"forest{size}")
        n1 += 1
    ck.exhaustive_scopes.append({
        "scope": f"every content forest with <= {N} nodes over tags html/head/body/div x leaves text / dependency a-1.0 (subdir source, "
                 "script, stylesheet, head) / dependency a-2.0 (href source) / head_content(link): fragments, lists, lone <body>, lone "
                 "<html> with/without <head>/<body>, head in every child position, several heads, dependencies and head_content items "
                 "at every position and multiplicity incl. inside a user <head> with children; settings cycled (all 5 prefixes x both "
                 "flags x 3 attribute sets on forests of <= 2 nodes)",
        "forests": n1, "exhaustive": True})

    # 2. exhaustive dependency scope: every sequence of <= L items from 8 dependency kinds in the slots of 6 frames
    dep_mk = [d_a1, d_a2, d_b, hc1, hc2, d_nested, d_nested_top, d_objhead]
    frames = [
        lambda s1, s2: s1 + [("text", "x")] + s2,
        lambda s1, s2: [T("div", *s1), T("p", ("text", "y"), *s2)],
        lambda s1, s2: [T("body", *s1, T("div", *s2))],
        lambda s1, s2: [T("html", T("head", T("title", ("text", "t")), *s1), T("body", *s2))],
        lambda s1, s2: [T("html", *s1, T("body", ("text", "b")), T("head", ("text", "own"), *s2))],
        lambda s1, s2: [T("html", T("body", *s1), *s2)],
    ]
    L = 3 if thorough else 2
    n2 = 0
    for fi, fr in enumerate(frames):
        for l1 in range(L + 1):
            for l2 in range(L + 1 - l1):
                for seq in itertools.product(range(len(dep_mk)), repeat=l1 + l2):
                    items = [dep_mk[i]() for i in seq]
                    k = n2 * 3 + fi
                    add(fr(items[:l1], items[l1:]), KWS[k % 3], LPS[k % 5], bool((k // 5) % 2), mode=(k // 2) % 4, tag="depseq")
                    n2 += 1
    ck.exhaustive_scopes.append({
        "scope": f"every sequence of <= {L} dependencies over 8 kinds (a-1.0, a-2.0, b, two head_content items, a dependency whose head "
                 "holds a dependency below a tag / at top level with a clashing name, a dependency whose head holds a tagifiable "
                 "object) distributed over the two slots of 6 frames (fragment, nested tags, lone <body>, lone <html> with slots in "
                 "<head> and <body>, <html> with head after body, <html> without head)",
        "cases": n2, "exhaustive": True})

    # 3. random large documents
    fns = gen.fn_catalogue(ck.proof.translate_info)

    def rand_dep(depth):
        r = rng.random()
        if r < 0.12:
            return hc(*[gen.rand_node(rng, 1, leaves=("text", "html"), all_names=fns) for _ in range(rng.randint(0, 2))])
        head = None
        if rng.random() < 0.4:
            head = [gen.rand_node(rng, 1, leaves=("text", "html", "robj"), all_names=fns) for _ in range(rng.randint(0, 2))]
            if depth > 0 and rng.random() < 0.15:
                head.insert(rng.randint(0, len(head)), rng.choice([rand_dep(0), T("div", rand_dep(0))]))
            if rng.random() < 0.1:
                head.append(("tobjL", "<r>", [("text", gen.rand_text(rng, 4))]))
        src = rng.choice([None, ("href", rng.choice(["https://c/d", "", "/abs/", "rel", "a b"])),
                          ("subdir", None, rng.choice(["dir", "a/b", "x y"]), "")])
        ns = rng.randint(0, 2)
        return D(rng.choice(["a", "b", "a b", "é", "x[1]", ";"]), rng.choice(["1", "1.0", "1.10", "2", "0.0", "1.0a1", "3.dev1"]),
                 head=head, source=src,
                 extra_meta=rng.choice([None, None, [list(VIEWPORT)], [list(VIEWPORT), list(VIEWPORT)], [[("name", "x"), ("content", "y")]]]),
                 script=[[("src", rng.choice(["s.js", "a b.js", "../u.js", "é.js", "/r.js"]))] + ([("async", "")] if rng.random() < 0.3 else [])
                         for _ in range(ns)] if src is not None or rng.random() < 0.5 else None,
                 stylesheet=[[("href", rng.choice(["c.css", "d e.css"]))] for _ in range(rng.randint(0, 1))])

    def rand_kids(depth, n):
        out = []
        for _ in range(n):
            r = rng.random()
            if r < 0.3:
                out.append(rand_dep(1))
            elif r < 0.55 and depth > 0:
                nm, ws = rng.choice([("head", True), ("body", True), ("html", True)]) if rng.random() < 0.25 else gen.rand_name(rng, fns)
                out.append(("tag", nm, ws if rng.random() < 0.85 else not ws, gen.rand_attrs(rng), rand_kids(depth - 1, rng.randint(0, 3))))
            elif r < 0.62 and depth > 0:
                out.append(("tobjL", rng.choice([None, "<q>"]), rand_kids(depth - 1, rng.randint(0, 2))))
            elif r < 0.66 and depth > 0:
                out.append(("tobj1", None, rng.choice([T("head", *rand_kids(0, 1)), T("html"), rand_dep(0), ("text", "o")])))
            else:
                out.append(gen.rand_node(rng, 0))
        return out

    def rand_kw():
        r = rng.random()
        if r < 0.35:
            return []
        names = rng.sample(["lang", "class_", "data_x", "id", "style", "LANG", "x_y_", "http_equiv", "é"], rng.randint(1, 3))
        vals = [("str", gen.rand_text(rng, 5)), ("html", gen.rand_text(rng, 5)), ("true",), ("false",), ("none",), ("num", "7"),
                ("num", "1.5")]
        kw = [(n, rng.choice(vals)) for n in names]
        if rng.random() < 0.03:
            kw.append(("zz", ("bad",)))
        return kw

    for _ in range(ck.budget(5000, 40000)):
        r = rng.random()
        if r < 0.4:
            content = rand_kids(3, rng.randint(0, 4))
        elif r < 0.75:
            content = [("tag", "html", rng.random() < 0.9, gen.rand_attrs(rng), rand_kids(3, rng.randint(0, 5)))]
        else:
            content = [("tag", "body", rng.random() < 0.9, gen.rand_attrs(rng), rand_kids(3, rng.randint(0, 4)))]
        if rng.random() < 0.05:
            content.append(("meta", 0))
        add(content, rand_kw(), rng.choice(LPS + ["..", "x y", "é"]), rng.random() < 0.5, mode=rng.randint(0, 3), tag="random",
            tree=rng.random() < 0.2)

    # ------------------------------------------------------------------ run the real code
    cases.sort(key=lambda c: len(c[0]))   # the first failing input reported is then a shortest one
    lines = [c[0] for c in cases]
    phase["generate"] = round(time.time() - t1, 1)
    t1 = time.time()
    impl = core.impl_many(lines)
    phase["implementation"] = round(time.time() - t1, 1)
    t1 = time.time()
    n_or = 0
    for (l, nt, tag), im in zip(cases, impl):
        # a realised term that does not read back as the term (on the unchanged tree this never happens — every clean run
        # checks it): the implementation's doing, e.g. a name or text that depends on earlier calls; it is kept as the
        # implementation's answer, which no model answer equals
        ck.add(l, im, nontrivial=nt, tag=tag)
        if l.startswith("document_render "):
            bad = oracle(l, im)
            n_or += 1
            if bad:
                ck.py_violation(l, im, "python-oracle: " + bad, snippet(l))
    ck.holds_checked += n_or
    phase["python_oracle"] = round(time.time() - t1, 1)
    t1 = time.time()
    ck.add_src(['HTMLDependency_as_html_tags'])
    ck.add_src(['TagAttrDict_initC11', 'Tag_insertC11', 'Tag_extendC11', 'Tag_appendC11', 'HTMLDocument_initC11', 'HTMLDocument_appendC11'], quick=150, thorough=800)
    __import__("srctie_c11").add_src_c11(ck, ['HTMLDocument_hoist_head_contentC11', 'HTMLDocument_gen_html_tag_treeC11', 'HTMLDocument_renderC11', 'Tag_renderC11'], thorough=1500)
    ck.extra_cov["repeat_render_cases"] = repeat_render_oracle(ck)
    ck.extra_cov["odd_node_cases"] = odd_nodes_oracle(ck)
    ck.extra_cov["render_mode_cases"] = __import__("modeoracle").oracle(ck, "C11 (one <html> element, dependency markup in <head> only)")
    ck.correspond(holds=True)
    phase["model_and_statement"] = round(time.time() - t1, 1)
    ck.extra_cov["phase_s"] = phase
    ck.extra_cov["python_oracle_evaluations"] = n_or
    # the recorded finding's witness is replayed on every run: a stale record is reported, not hidden
    known = [k for k in core.load_known().get("findings", []) if k["property"] == PID]
    wit = [f for f in ck.failures if f.kind == "property" and f.line == witness_line]
    if known and not (wit and m_fc11(wit[0])):
        print(f"WARNING: property={PID} stale known finding {known[0]['id']}: its witness no longer fails")
    return ck.finish(matchers={"dependency_head_contains_dependency": m_fc11}, shrink=explain)
