/-
Executable statements of C02 (text) and C03 (attribute values) at the character level, evaluated on the
implementation's `html_escape` output.  (The tree-level part is the marker substitution, harness/subst.py.)
-/
import HtmlVerif.Ops.Base
import HtmlVerif.Spec.Refs

namespace HtmlVerif.Ops
open HtmlVerif HtmlVerif.Wire

def escHolds (attr : Bool) (s out : Str) : Bool :=
  if attr then
    out == s.flatMap escAttrChar && decodeCharRefs out == s && ampsOk attrRefs out
      && !(out.any fun c => c == '<' || c == '>' || c == '"' || c == '\'' || c == '\r' || c == '\n')
  else
    out == s.flatMap escTextChar && decodeCharRefs out == s && ampsOk textRefs out
      && !(out.any fun c => c == '<' || c == '>')

def holdsC02 : OpTable
  | "escape" => some do
    let a ← bool; let s ← str
    expect "|"
    let out ← str
    pure (encBool (escHolds a s out))
  | _ => none

end HtmlVerif.Ops
