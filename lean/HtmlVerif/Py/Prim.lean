/-
Primitives of the Python fragment (see Py/Val.lean).  Each mirrors one CPython operation on the
argument shapes the translated functions can meet; anything else is `unsupported`.
-/
import HtmlVerif.Py.Val
import HtmlVerif.Model.Escape

namespace HtmlVerif.Py
open HtmlVerif

/-! ### truthiness, identity tests -/

/-- `bool(x)` -/
def truthy : PVal → Bool
  | .none => false
  | .bool b => b
  | .int n => n != 0
  | .float t => !(t == "0.0".toList || t == "-0.0".toList)
  | .str s => !s.isEmpty
  | .html s => !s.isEmpty
  | .list xs => !xs.isEmpty
  | .tuple xs => !xs.isEmpty
  | .dict kvs => !kvs.isEmpty
  | .obj _ _ => true

def isNone : PVal → Bool
  | .none => true
  | _ => false

/-- `x is True` / `x is False` -/
def isBool (b : Bool) : PVal → Bool
  | .bool b' => b == b'
  | _ => false

/-! ### isinstance -/

/-- direct and inherited class names of the built-in value kinds -/
def builtinClasses : PVal → List String
  | .none => ["NoneType", "object"]
  | .bool _ => ["bool", "int", "object"]
  | .int _ => ["int", "object"]
  | .float _ => ["float", "object"]
  | .str _ => ["str", "object"]
  | .html _ => ["HTML", "UserString", "ReprHtml", "object"]
  | .list _ => ["list", "object"]
  | .tuple _ => ["tuple", "object"]
  | .dict _ => ["dict", "object"]
  | .obj _ _ => ["object"]

/-- base classes (and the runtime-checkable protocols satisfied by construction) of the library's classes -/
def classBases : String → List String
  | "HTMLDependency" => ["MetadataNode"]
  | "Tag" => ["Tagifiable", "ReprHtml"]
  | "TagList" => ["UserList", "Tagifiable", "ReprHtml"]
  | "JSXTag" => ["Tagifiable", "ReprHtml"]
  | "TagAttrDict" => ["dict"]
  | _ => []

/-- `isinstance(v, (c₁, …))`.  For instances of other classes the two runtime-checkable protocols are
    attribute presence, as in `typing.runtime_checkable`. -/
def isInstance (v : PVal) (classes : List String) : Bool :=
  match v with
  | .obj cls fields =>
    classes.any fun c =>
      c == cls || c == "object" || (classBases cls).contains c
        || (c == "ReprHtml" && (fields.any fun f => f.1 == "_repr_html_"))
        || (c == "Tagifiable" && (fields.any fun f => f.1 == "tagify"))
  | _ => classes.any fun c => (builtinClasses v).contains c

/-! ### str -/

/-- `str(x)` -/
def pyStr : PVal → PyM PVal
  | .str s => pure (.str s)
  | .html s => pure (.str s)
  | .int n => pure (.str (toString n).toList)
  | .float t => pure (.str t)
  | .bool true => pure (.str "True".toList)
  | .bool false => pure (.str "False".toList)
  | .none => pure (.str "None".toList)
  | .obj _ fs =>
    -- an instance whose `__str__()` returns the text recorded under "__str__"
    match fs.find? (fun f => f.1 == "__str__") with
    | some (_, .str s) => pure (.str s)
    | _ => throw .unsupported
  | _ => throw .unsupported

/-- the text of a `str` or `UserString` receiver -/
def textOf : PVal → Option Str
  | .str s => some s
  | .html s => some s
  | _ => Option.none

/-- rewrap the result of a `str` method: `UserString` methods return an instance of the receiver's class -/
def rewrap : PVal → Str → PVal
  | .html _, s => .html s
  | _, s => .str s

/-- `s.endswith(suffix)` -/
def pyEndswith (s suf : PVal) : PyM PVal :=
  match textOf s, textOf suf with
  | some a, some b => pure (.bool (b.reverse.isPrefixOf a.reverse))
  | some _, Option.none => throw .typeError
  | Option.none, _ => throw .attributeError

/-- `s.startswith(pre)` for a `str` / `HTML` receiver and a `str` prefix -/
def pyStartswith (s pre : PVal) : PyM PVal :=
  match textOf s, textOf pre with
  | some a, some b => pure (.bool (b.isPrefixOf a))
  | some _, Option.none => throw .typeError
  | Option.none, _ => throw .attributeError

/-- `s.replace(old, new)` for a one-character `old` -/
def pyReplace (s old new : PVal) : PyM PVal :=
  match textOf s, textOf old, textOf new with
  | some a, some [k], some v => pure (rewrap s (replaceChar k v a))
  | some _, some _, some _ => throw .unsupported
  | some _, _, _ => throw .typeError
  | Option.none, _, _ => throw .attributeError

/-- Python slice bounds on a sequence of length `n`: `[lo:hi]` with negative indices from the end, clamped -/
def clampIdx (n : Nat) (i : Int) : Nat :=
  if i < 0 then (i + n).toNat else min i.toNat n

def sliceList {α} (xs : List α) (lo hi : Option Int) : List α :=
  let n := xs.length
  let l := match lo with | some i => clampIdx n i | Option.none => 0
  let h := match hi with | some i => clampIdx n i | Option.none => n
  (xs.take h).drop l

/-- `x[lo:hi]` -/
def pySlice (x : PVal) (lo hi : Option Int) : PyM PVal :=
  match x with
  | .str s => pure (.str (sliceList s lo hi))
  | .html s => pure (.html (sliceList s lo hi))
  | .list xs => pure (.list (sliceList xs lo hi))
  | .tuple xs => pure (.tuple (sliceList xs lo hi))
  | .dict _ => throw .keyError        -- CPython 3.12: a slice is hashable, so `d[a:b]` is a failed key lookup
  | _ => throw .typeError

/-- `sep.join(iterable of str)` -/
def strsOf : List PVal → PyM (List Str)
  | [] => pure []
  | .str s :: r => do pure (s :: (← strsOf r))
  | _ => throw .typeError      -- `str.join` accepts `str` items only (an `HTML` item raises TypeError)

/-! ### iteration, containers -/

/-- the items `for x in v` visits -/
def pyIter : PVal → PyM (List PVal)
  | .list xs => pure xs
  | .tuple xs => pure xs
  | .dict kvs => pure (kvs.map fun kv => .str kv.1)
  | .str s => pure (s.map fun c => .str [c])
  | .html s => pure (s.map fun c => .html [c])
  | .obj _ fs =>
    -- a `UserList` instance (TagList) iterates over its `data`
    match fs.find? (fun f => f.1 == "data") with
    | some (_, .list xs) => pure xs
    | _ => throw .typeError
  | _ => throw .typeError

def pyJoin (sep it : PVal) : PyM PVal :=
  match sep with
  | .str sp => do pure (.str (joinStr sp (← strsOf (← pyIter it))))
  | _ => throw .unsupported

/-- `d.items()` (as a list of pairs) -/
def pyItems : PVal → PyM PVal
  | .dict kvs => pure (.list (kvs.map fun kv => .tuple [.str kv.1, kv.2]))
  | _ => throw .attributeError

def pyKeys : PVal → PyM PVal
  | .dict kvs => pure (.list (kvs.map fun kv => .str kv.1))
  | _ => throw .attributeError

def pyValues : PVal → PyM PVal
  | .dict kvs => pure (.list (kvs.map fun kv => kv.2))
  | _ => throw .attributeError

/-- `a, b = v` -/
def pyUnpack2 : PVal → PyM (PVal × PVal)
  | .tuple [a, b] => pure (a, b)
  | .list [a, b] => pure (a, b)
  | .tuple _ => throw .valueError
  | .list _ => throw .valueError
  | _ => throw .typeError

def dictGet? (k : Str) : List (Str × PVal) → Option PVal
  | [] => Option.none
  | (k', v) :: r => if k' = k then some v else dictGet? k r

/-- `d[k] = v` on an insertion-ordered dict: replace in place, else append -/
def dictSet (k : Str) (v : PVal) : List (Str × PVal) → List (Str × PVal)
  | [] => [(k, v)]
  | (k', v') :: r => if k' = k then (k, v) :: r else (k', v') :: dictSet k v r

def dictDel (k : Str) : List (Str × PVal) → List (Str × PVal)
  | [] => []
  | (k', v') :: r => if k' = k then r else (k', v') :: dictDel k r

/-- `d[k]` / `xs[i]` -/
def pyGetItem (c k : PVal) : PyM PVal :=
  match c, k with
  | .dict kvs, .str key => match dictGet? key kvs with
    | some v => pure v
    | Option.none => throw .keyError
  | .list xs, .int i =>
    let j := if i < 0 then i + xs.length else i
    if j < 0 then throw .indexError else match xs[j.toNat]? with
      | some v => pure v
      | Option.none => throw .indexError
  | .tuple xs, .int i =>
    let j := if i < 0 then i + xs.length else i
    if j < 0 then throw .indexError else match xs[j.toNat]? with
      | some v => pure v
      | Option.none => throw .indexError
  | _, _ => throw .unsupported

/-- `c[k] = v` (the new container) -/
def pySetItem (c k v : PVal) : PyM PVal :=
  match c, k with
  | .dict kvs, .str key => pure (.dict (dictSet key v kvs))
  | .list xs, .int i =>
    let j := if i < 0 then i + xs.length else i
    if j < 0 ∨ j.toNat ≥ xs.length then throw .indexError else pure (.list (xs.set j.toNat v))
  | _, _ => throw .unsupported

/-- `d.get(k)` / `d.get(k, default)` -/
def pyDictGet (d k dflt : PVal) : PyM PVal :=
  match d, k with
  | .dict kvs, .str key => pure ((dictGet? key kvs).getD dflt)
  | _, _ => throw .unsupported

/-- `d.update(other)` on plain dicts (the new dict) -/
def pyDictUpdate (d other : PVal) : PyM PVal :=
  match d, other with
  | .dict kvs, .dict o => pure (.dict (o.foldl (fun c kv => dictSet kv.1 kv.2 c) kvs))
  | _, _ => throw .unsupported

/-- `len(x)` -/
def pyLen : PVal → PyM PVal
  | .str s => pure (.int s.length)
  | .html s => pure (.int s.length)
  | .list xs => pure (.int xs.length)
  | .tuple xs => pure (.int xs.length)
  | .dict kvs => pure (.int kvs.length)
  | _ => throw .typeError

/-- `x in c` for dict keys and for substring tests -/
def pyIn (x c : PVal) : PyM PVal :=
  match c, x with
  | .dict kvs, .str key => pure (.bool (dictGet? key kvs).isSome)
  | .str s, .str n => pure (.bool (isInfix n s))
  | .list xs, .str n => pure (.bool (xs.any fun
      | .str s => s == n
      | .html s => s == n      -- UserString.__eq__ compares the text
      | _ => false))
  | _, _ => throw .unsupported

/-- `==` on the value shapes the fragment compares -/
def pyEq (a b : PVal) : PyM PVal :=
  match a, b with
  | .str x, .str y => pure (.bool (x == y))
  | .html x, .str y => pure (.bool (x == y))
  | .str x, .html y => pure (.bool (x == y))
  | .html x, .html y => pure (.bool (x == y))
  | .none, .none => pure (.bool true)
  | .bool x, .bool y => pure (.bool (x == y))
  | .int x, .int y => pure (.bool (x == y))
  | .str _, .none => pure (.bool false)
  | .none, .str _ => pure (.bool false)
  | _, _ => throw .unsupported

/-- tuple concatenation and the numeric / plain-string cases of `+`; `HTML` operands are dispatched
    to the translated `HTML.__add__` / `__radd__` by `Generated.Src.pyAdd` -/
def pyAddBase (a b : PVal) : PyM PVal :=
  match a, b with
  | .str x, .str y => pure (.str (x ++ y))
  | .tuple x, .tuple y => pure (.tuple (x ++ y))
  | .list x, .list y => pure (.list (x ++ y))
  | .int x, .int y => pure (.int (x + y))
  | .str _, _ => throw .typeError
  | .obj _ _, _ => throw .typeError      -- instances here define no `__add__` (and `str` has no `__radd__`)
  | _, _ => throw .unsupported

/-- `s * n` for a string and a non-negative int -/
def pyMul (a b : PVal) : PyM PVal :=
  match a, b with
  | .str s, .int n => pure (.str (List.flatten (List.replicate n.toNat s)))
  | .int x, .int y => pure (.int (x * y))
  | _, _ => throw .unsupported

/-! ### the two uses of `re` -/

/-- characters with a meaning in a regular expression -/
def reSpecial (c : Char) : Bool := ".^$*+?{}[]\\|()".toList.contains c

/-- a pattern that is an alternation of single literal characters -/
def altChars : Str → Option (List Char)
  | [] => Option.none
  | [c] => if reSpecial c then Option.none else some [c]
  | c :: '|' :: r => if reSpecial c then Option.none else (altChars r).map (c :: ·)
  | _ => Option.none

/-- `re.search(pattern, text)` (truthiness of the match object) for such a pattern -/
def reSearch (p t : PVal) : PyM PVal :=
  match p, t with
  | .str pat, .str s =>
    if pat.isEmpty then pure (.bool true)      -- the empty pattern matches at position 0
    else match altChars pat with
      | some cs => pure (.bool (s.any fun c => cs.contains c))
      | Option.none => throw .unsupported
  | .str _, _ => throw .typeError
  | _, _ => throw .unsupported

/-! ### attributes of instances -/

def fieldGet? (k : String) : List (String × PVal) → Option PVal
  | [] => Option.none
  | (k', v) :: r => if k' = k then some v else fieldGet? k r

def fieldSet (k : String) (v : PVal) : List (String × PVal) → List (String × PVal)
  | [] => [(k, v)]
  | (k', v') :: r => if k' = k then (k, v) :: r else (k', v') :: fieldSet k v r

/-- `x.name` for an instance attribute -/
def pyGetAttr (x : PVal) (name : String) : PyM PVal :=
  match x with
  | .obj _ fs => match fieldGet? name fs with
    | some v => pure v
    | Option.none => throw .attributeError
  | .html s => if name == "data" then pure (.str s) else throw .attributeError
  | _ => throw .attributeError

/-- `x.name = v` (the new instance) -/
def pySetAttr (x : PVal) (name : String) (v : PVal) : PyM PVal :=
  match x with
  | .obj c fs => pure (.obj c (fieldSet name v fs))
  | _ => throw .attributeError

/-! ### short-circuit operators, f-strings, constructors -/

/-- `a and b` (operands are values of the exception monad: an error in `b` matters only if `b` is needed) -/
def pyAnd (a b : PyM PVal) : PyM PVal := do
  let t ← a
  if truthy t then b else pure t

/-- `a or b` -/
def pyOr (a b : PyM PVal) : PyM PVal := do
  let t ← a
  if truthy t then pure t else b

/-- concatenation of the (already `str()`-converted) pieces of an f-string -/
def pyConcat : List PVal → PyM PVal
  | [] => pure (.str [])
  | .str s :: r => do
    match ← pyConcat r with
    | .str t => pure (.str (s ++ t))
    | _ => throw .unsupported
  | _ => throw .unsupported

/-- `HTML(x)`: `UserString.__init__(self, str(x))` -/
def mkHTML (x : PVal) : PyM PVal := do
  match ← pyStr x with
  | .str s => pure (.html s)
  | _ => throw .unsupported

/-- `a > b` on ints and on `packaging` versions (instances carrying their rank in the order supplied by `packaging`) -/
def pyGt (a b : PVal) : PyM PVal :=
  match a, b with
  | .int x, .int y => pure (.bool (decide (x > y)))
  | .obj "Version" fa, .obj "Version" fb =>
    match fieldGet? "rank" fa, fieldGet? "rank" fb with
    | some (.int x), some (.int y) => pure (.bool (decide (x > y)))
    | _, _ => throw .unsupported
  | _, _ => throw .unsupported

/-- `a >= b`, `a <= b`, `a < b` on ints (and on versions by rank) -/
def pyGe (a b : PVal) : PyM PVal :=
  match a, b with
  | .int x, .int y => pure (.bool (decide (x ≥ y)))
  | .obj "Version" fa, .obj "Version" fb =>
    match fieldGet? "rank" fa, fieldGet? "rank" fb with
    | some (.int x), some (.int y) => pure (.bool (decide (x ≥ y)))
    | _, _ => throw .unsupported
  | _, _ => throw .unsupported

def pyLe (a b : PVal) : PyM PVal := pyGe b a

def pyLt (a b : PVal) : PyM PVal := pyGt b a

/-- `a - b` on ints -/
def pySub (a b : PVal) : PyM PVal :=
  match a, b with
  | .int x, .int y => pure (.int (x - y))
  | _, _ => throw .unsupported

/-! ### instances of the library's classes -/

/-- class name used for run-time method dispatch -/
def pyClassOf : PVal → String
  | .obj c _ => c
  | .html _ => "HTML"
  | .str _ => "str"
  | .list _ => "list"
  | .tuple _ => "tuple"
  | .dict _ => "dict"
  | .int _ => "int"
  | .bool _ => "bool"
  | .float _ => "float"
  | .none => "NoneType"

/-- `x._repr_html_()` for `HTML` and for instances of user classes, whose method returns the text recorded under
    `_repr_html_` -/
def pyReprHtml : PVal → PyM PVal
  | .html s => pure (.str s)
  | .obj _ fs => match fs.find? (fun f => f.1 == "_repr_html_") with
    | some (_, .str s) => pure (.str s)
    | some _ => throw .unsupported
    | Option.none => throw .attributeError
  | _ => throw .attributeError

/-- `enumerate(x)` as a list of pairs -/
def pyEnumerate (x : PVal) : PyM PVal := do
  let xs ← pyIter x
  pure (.list (((List.range xs.length).zip xs).map fun p => PVal.tuple [PVal.int (p.1 : Nat), p.2]))

/-- `reversed(x)` as a list -/
def pyReversed (x : PVal) : PyM PVal := do pure (.list (← pyIter x).reverse)

/-- `range(n)` as a list -/
def pyRange : PVal → PyM PVal
  | .int n => pure (.list ((List.range n.toNat).map fun (i : Nat) => PVal.int (i : Int)))
  | _ => throw .typeError

/-- `list(x)` -/
def pyList (x : PVal) : PyM PVal := do pure (.list (← pyIter x))

/-- `tuple(x)` -/
def pyTuple (x : PVal) : PyM PVal := do pure (.tuple (← pyIter x))

/-- `d.pop(k)` as a statement: the new dict (KeyError when absent) -/
def pyDictPop (d k : PVal) : PyM PVal :=
  match d, k with
  | .dict kvs, .str key => if (dictGet? key kvs).isSome then pure (.dict (dictDel key kvs)) else throw .keyError
  | _, _ => throw .unsupported

/-- `s.split()`: maximal runs of non-whitespace characters (`str.isspace` per character is supplied by `G`) -/
def splitWs (sp : Char → Bool) : Str → Str → List Str
  | [], cur => if cur.isEmpty then [] else [cur]
  | c :: r, cur => if sp c then (if cur.isEmpty then splitWs sp r [] else cur :: splitWs sp r []) else splitWs sp r (cur ++ [c])

def pySplit (G : Globals) : PVal → PyM PVal
  | .str s => pure (.list ((splitWs G.isSpace s []).map .str))
  | .html s => pure (.list ((splitWs G.isSpace s []).map .str))    -- UserString.split returns plain `str` items
  | _ => throw .attributeError

/-- `s.strip()` -/
def pyStrip (G : Globals) : PVal → PyM PVal
  | .str s => pure (.str ((s.dropWhile G.isSpace).reverse.dropWhile G.isSpace).reverse)
  | .html s => pure (.html ((s.dropWhile G.isSpace).reverse.dropWhile G.isSpace).reverse)
  | _ => throw .attributeError

/-- `s.lower()` -/
def pyLower (G : Globals) : PVal → PyM PVal
  | .str s => pure (.str (G.lower s))
  | .html s => pure (.html (G.lower s))
  | _ => throw .attributeError

end HtmlVerif.Py
