"""Translator validation lines for the C17 translations (op `srcc17`, harness/ops_src_c17.py; `src` for the by-value
`Tag.append`): interpreter states with one to three Tags (children of every stored kind, entered or not), every kind of
display hook (the recorder, wrappers around a tag's `append` / the recorder / another wrapper, None, things that are not
callable) and every kind of displayed value — None, Ellipsis, str, bool / int / float, HTML, self-rendering objects, Tags
(by identity), Tagifiable objects with and without `_repr_html_`, TagLists, lists / tuples nested, dicts and other objects
that are no tag child, Ellipsis below the top level."""
from __future__ import annotations

from srctie import S, H, rstr
from wire import es

INNER_QUAL = "wrap_displayhook_handler.<inner>"


def ref(k: int) -> str:
    return f"O Tag [ __id__ I {k} ]"


def num(rng) -> str:
    r = rng.random()
    if r < 0.45:
        return "I " + str(rng.choice([0, 1, -1, 3, 42, -300, 10 ** 12]))
    if r < 0.6:
        return rng.choice(["T", "F"])
    return "D " + es(rng.choice(["1.5", "0.0", "-0.0", "2.0", "1e+100", "0.1", "-3.25", "inf", "nan"]))


def tobj(rng) -> str:
    n = S(rng.choice(["f", "g", "w", rstr(rng)]))
    if rng.random() < 0.5:
        return f"O TagifiableObj [ tagify N name {n} ]"
    return f"O TagifiableObj [ tagify N _repr_html_ {S(rng.choice(['<i>j</i>', '', rstr(rng)]))} name {n} ]"


def item(rng, ntags: int) -> str:
    """a stored child"""
    r = rng.random()
    if r < 0.35:
        return S(rstr(rng))
    if r < 0.5:
        return H(rstr(rng))
    if r < 0.62:
        return f"O ReprObj [ _repr_html_ {S(rstr(rng))} ]"
    if r < 0.8:
        return ref(rng.randrange(ntags))
    return tobj(rng)


def taglist(rng, ntags: int) -> str:
    return "O TagList [ data L [ " + "".join(item(rng, ntags) + " " for _ in range(rng.choice([0, 1, 2, 3]))) + "] ]"


def value(rng, ntags: int, depth: int = 2, top: bool = True) -> str:
    """a displayed value (or an element of a displayed list)"""
    r = rng.random()
    if r < 0.08:
        return "N"
    if r < 0.14 if top else r < 0.10:
        return "O ellipsis [ ]"
    if r < 0.26:
        return S(rstr(rng))
    if r < 0.36:
        return num(rng)
    if r < 0.43:
        return H(rstr(rng))
    if r < 0.52:
        return f"O ReprObj [ _repr_html_ {S(rstr(rng))} ]"
    if r < 0.62:
        return ref(rng.randrange(ntags))
    if r < 0.72:
        return tobj(rng)
    if r < 0.78:
        return taglist(rng, ntags)
    if r < 0.93 and depth > 0:
        k = rng.choice(["L", "L", "U"])
        return f"{k} [ " + "".join(value(rng, ntags, depth - 1, False) + " " for _ in range(rng.choice([0, 1, 2, 2, 3]))) + "]"
    if r < 0.93:
        return S("d")
    return rng.choice(["O Opaque [ ]", "M [ ]", "M [ " + es("k") + " N ]"])


def callable_(rng, ntags: int, depth: int = 2) -> str:
    """something that sits in sys.displayhook / prev_displayhook / is handed to wrap_displayhook_handler"""
    r = rng.random()
    if r < 0.25:
        return "O recorder [ ]"
    if r < 0.5:
        return f"O method [ self {ref(rng.randrange(ntags))} func {S('Tag.append')} ]"
    if r < 0.9 and depth > 0:
        return f"O closure [ fn {S(INNER_QUAL)} captured L [ {callable_(rng, ntags, depth - 1)} ] ]"
    if r < 0.9:
        return "O recorder [ ]"
    return rng.choice(["N", "N", S("print"), "I 3", "L [ ]", "O ellipsis [ ]", H("h"), "T", "D " + es("1.5"), "U [ ]", "M [ ]"])


def tag_object(rng, ntags: int) -> str:
    attrs = rng.choice(["M [ ]", "M [ ]", "M [ " + es("class") + " " + S("a b") + " ]", "M [ " + es("id") + " " + H("x") + " ]"])
    prev = "N" if rng.random() < 0.55 else callable_(rng, ntags, 1)
    return (f"O Tag [ name {S(rng.choice(['div', 'span', 'p']))} add_ws {rng.choice(['T', 'T', 'F'])} attrs {attrs} "
            f"children {taglist(rng, ntags)} prev_displayhook {prev} ]")


def state(rng) -> tuple[int, str]:
    ntags = rng.choice([1, 2, 2, 3])
    dh = callable_(rng, ntags)
    heap = "L [ " + "".join(tag_object(rng, ntags) + " " for _ in range(ntags)) + "]"
    log = "L [ " + "".join(value(rng, ntags, 1) + " " for _ in range(rng.choice([0, 0, 1, 2]))) + "]"
    return ntags, f"{dh} {heap} {log}"


def _handler_wrapper(rng):
    n, st = state(rng)
    return f"{st} [ {callable_(rng, n)} {value(rng, n)} ]"


def _enter(rng):
    n, st = state(rng)
    return f"{st} [ {ref(rng.randrange(n))} ]"


def _exit(rng):
    n, st = state(rng)
    exc = rng.choice(["N N N", "N N N", f"{S('Boom')} {S('msg')} N"])
    return f"{st} [ {ref(rng.randrange(n))} {exc} ]"


def _wrap(rng):
    n, st = state(rng)
    return f"{st} [ {callable_(rng, n) if rng.random() < 0.8 else value(rng, n)} ]"


def _apply(rng):
    n, st = state(rng)
    k = rng.choice([1, 1, 1, 1, 1, 1, 0, 2])
    return f"{st} [ {callable_(rng, n)} L [ " + "".join(value(rng, n) + " " for _ in range(k)) + "] ]"


C17_GENS = {
    "handler_wrapperC17": _handler_wrapper,
    "Tag_enterC17": _enter,
    "Tag_exitC17": _exit,
    "wrap_displayhook_handlerC17": _wrap,
    "applyCallableC17": _apply,
}


# ---- `src Tag_appendC17 [ <Tag by value> U [ … ] ]`: the by-value translation under the plain op
def _v_item(rng, depth=1) -> str:
    r = rng.random()
    if r < 0.4:
        return S(rstr(rng))
    if r < 0.55:
        return H(rstr(rng))
    if r < 0.7:
        return f"O ReprObj [ _repr_html_ {S(rstr(rng))} ]"
    if r < 0.85 or depth == 0:
        return rng.choice(["O TagifiableObj [ tagify N ]", "O TagifiableObj [ tagify N _repr_html_ " + S("<r>") + " ]"])
    return _v_tag(rng, depth - 1)


def _v_tag(rng, depth=1) -> str:
    kids = "L [ " + "".join(_v_item(rng, depth) + " " for _ in range(rng.choice([0, 1, 2]))) + "]"
    return f"O Tag [ name {S(rng.choice(['div', 'b']))} attrs M [ ] children O TagList [ data {kids} ] add_ws T ]"


def _v_arg(rng, depth=2) -> str:
    r = rng.random()
    if depth > 0 and r < 0.3:
        k = rng.choice(["L", "U", "TL"])
        items = "".join(_v_arg(rng, depth - 1) + " " for _ in range(rng.choice([0, 1, 2, 3])))
        return f"O TagList [ data L [ {items}] ]" if k == "TL" else f"{k} [ {items}]"
    if r < 0.4:
        return "N"
    if r < 0.52:
        return num(rng)
    if r < 0.9:
        return _v_item(rng)
    return rng.choice(["O Opaque [ ]", "M [ ]"])


def _append(rng):
    return f"[ {_v_tag(rng)} U [ " + "".join(_v_arg(rng) + " " for _ in range(rng.choice([0, 1, 1, 1, 2, 3]))) + "] ]"


def register(GENS):
    GENS["Tag_appendC17"] = _append


def lines_c17(rng, funcs: list[str], n: int) -> list[str]:
    out = []
    for f in funcs:
        seen = set()
        for _ in range(n):
            l = f"srcc17 {f} {C17_GENS[f](rng)}"
            if l not in seen:
                seen.add(l)
                out.append(l)
    return out


def add_src_c17(ck, funcs: list[str], quick: int = 300, thorough: int = 3000):
    """`Check.add_src` for the state-passing translations (op `srcc17`)"""
    import core
    ls = lines_c17(ck.rng, funcs, thorough if ck.tier == "thorough" else quick)
    ck.src_lines += list(zip(ls, core.impl_many(ls)))
