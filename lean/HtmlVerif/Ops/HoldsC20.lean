/-
`holds C20 <op> <args…> | <impl answer>` — the executable statement of C20, evaluated on the implementation's
answer, clause by clause, with the specification-side definitions the theorems of Props/C20.lean are about
(`mirror`/`print`, `metasIn`, `expectedScript`, `jsStringDenotes`, `mkProps`, `propsAllowed`).
Answer: `T`, or `F <clause>` naming the first clause that fails.
-/
import HtmlVerif.Ops.Jsx
import HtmlVerif.Spec.Jsx

namespace HtmlVerif.Ops
open HtmlVerif HtmlVerif.Wire

def decErr : String → Option Err
  | "typeError" => some .typeError
  | "valueError" => some .valueError
  | "keyError" => some .keyError
  | "runtimeError" => some .runtimeError
  | "notImplemented" => some .notImplemented
  | "exception" => some .exception
  | _ => none

def errTok : P Err := do
  let t ← next
  match decErr t with
  | some e => pure e
  | none => throw s!"bad error kind {t}"

/-- `ok <str>` | `err <kind>` -/
def implStrRes : P (Except Err Str) := do
  let t ← next
  if t == "ok" then .ok <$> zstr else if t == "err" then .error <$> errTok else throw s!"bad result {t}"

def firstFail (cs : List (String × Bool)) : String :=
  match cs.find? (fun c => !c.2) with
  | none => "T"
  | some c => "F " ++ c.1

def sameStrRes (a b : Except Err Str) : Bool :=
  match a, b with
  | .ok s, .ok s' => s == s'
  | .error e, .error e' => e == e'
  | _, _ => false

/-- what C20 says `tagify()` returns for the component -/
def specTagify (x : JNode) : Except Err Node :=
  match x with
  | .comp name _ _ =>
    match ((x.walk .demanded).node.mirror) with
    | .error e => .error e
    | .ok j => expectedScript jsxVersions name (j.print 2 ['\n']) x.metasIn
  | _ => .error .exception

/-- clauses for the answer of `jsx_tagify` / `jsx_alias` (up to and including the `again` flag) -/
def tagifyClauses (x : JNode) : P (List (String × Bool)) := do
  let t ← next
  let res : Except Err (Str × Node) ←
    if t == "ok" then (do let s ← zstr; let n ← node; pure (.ok (s, restoreBody s n)))
    else if t == "err" then .error <$> errTok
    else throw s!"bad result {t}"
  expect "after"
  let a1 ← jnode; let a4 ← jnode; let ids ← bool; let again ← bool
  let resOk : List (String × Bool) :=
    match specTagify x, res with
    | .error e, .error e' => [("script:error-kind", e == e')]
    | .error _, .ok _ => [("script:should-raise", false)]
    | .ok _, .error _ => [("script:raised", false)]
    | .ok n, .ok (s, n') =>
      [("script:shape-and-collected-metadata", n.beq n'), ("script:text", s == n.render cfg 0 ['\n'])]
  pure ([("pure:component-after-one-call", a1.beq x), ("pure:component-after-four-calls", a4.beq x),
    ("pure:id-graph", ids), ("pure:same-result-again", again)] ++ resOk)

def holdsC20 : OpTable
  | "jsx_alias" => some do
    let x ← jnode
    expect "|"
    let cs ← tagifyClauses x
    let fresh ← bool
    pure (firstFail (cs ++ [("pure:result-shares-a-mutable-object-with-the-component", fresh)]))
  | "jsx_num" => some do
    let t ← str; let v ← pyNum
    expect "|"
    let r ← implStrRes
    if !v.wf then throw "jsx_num: the float is not in canonical form"
    pure (firstFail [("numbers:python-str-of-the-number-is-not-what-the-statement-assumes", pyStrOf t v),
      ("numbers:emitted-text-is-not-a-javascript-number-denoting-the-value",
        match r with | .ok out => jsNumberDenotes out v | .error _ => false),
      ("values:serialize", sameStrRes r (.ok (numJs t)))])
  | "jsx_tagify" => some do
    let x ← jnode
    expect "|"
    let cs ← tagifyClauses x
    pure (firstFail cs)
  | "jsx_init" => some do
    let name ← str; let up ← str; let allowed ← allowedArg; let kw ← jkwargs; let ks ← jnodes
    expect "|"
    let t ← next
    let res : Except Err (JNode × Except Err Str) ←
      if t == "ok" then (do let x ← jnode; let r ← implStrRes; pure (.ok (x, r)))
      else if t == "err" then .error <$> errTok
      else throw s!"bad result {t}"
    let nameOk := nameInitial name == up
    let outside := match allowed with
      | some ps => kw.any fun kv => !ps.contains kv.1      -- a declared list, empty or not
      | none => false
    let cs : List (String × Bool) :=
      match res with
      | .error e =>
        [("init:rejected-without-reason", !nameOk || outside), ("init:error-kind", e == .notImplemented)]
      | .ok (x, r) =>
        [("allowed:prop-outside-allow-list-accepted", !outside), ("init:lower-case-name-accepted", nameOk),
         ("init:props-under-normalised-names-children-in-order", x.beq (.comp name (mkProps kw) ks)),
         ("init:str", sameStrRes r ((specTagify (.comp name (mkProps kw) ks)).map fun n => n.render cfg 0 ['\n']))]
    pure (firstFail cs)
  | "jsx_render" => some do
    let x ← jnode; let i ← nat; let e ← str
    expect "|"
    let r ← implStrRes
    pure (firstFail [("mirror:render", sameStrRes r (x.mirror.map fun j => j.print i e))])
  | "jsx_attr" => some do
    let v ← jval
    expect "|"
    let r ← implStrRes
    let denotes : Bool :=
      match v, r with
      | .node (.str .plain s), .ok out => !plainJsText s || jsStringDenotes out == some s
      | .node (.str .html s), .ok out => !plainJsText s || jsStringDenotes out == some s
      | _, _ => true
    pure (firstFail [("values:serialize", sameStrRes r (v.mirrorVal.map fun j => j.print 0 ['\n'])),
      ("strings:literal-denotes-the-text", denotes)])
  | "jsx_style" => some do
    let v ← jval
    expect "|"
    let r ← implStrRes
    pure (firstFail [("values:style", sameStrRes r (v.mirrorStyle.map fun j => j.print 0 ['\n']))])
  | "jsx_libfiles" => some do
    expect "|"
    let rest ← get
    set ([] : List String)
    let want := (libRow (chars% "react") (chars% "react.production.min.js") ++ " "
      ++ libRow (chars% "react-dom") (chars% "react-dom.production.min.js"))
    pure (firstFail [("react:versions-and-script-files-exist", " ".intercalate rest == want)])
  | _ => none

end HtmlVerif.Ops
