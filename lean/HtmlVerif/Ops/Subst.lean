import HtmlVerif.Ops.Base
import HtmlVerif.Holds.Subst

namespace HtmlVerif.Ops
open HtmlVerif HtmlVerif.Wire HtmlVerif.Holds

def encContrib (c : Contrib) : String :=
  toString c.id ++ " " ++ String.singleton c.kind ++ " " ++ encStr c.emit

def substOps : OpTable
  | "contribs" => some do
    let n ← node
    pure (encList ((contribs cfg n 0).1.map encContrib))
  | "contribs_list" => some do
    let ks ← nodes; let esc ← bool
    pure (encList ((contribsKids cfg ks esc 0).1.map encContrib))
  | "spec_escape" => some do
    let a ← bool; let s ← str
    pure (encStr (s.flatMap (if a then escAttrChar else escTextChar)))
  | "valid_escape" => some do
    let a ← bool; let orig ← str; let out ← str
    pure (encBool (validEscape (if a then attrSpecials else textSpecials) orig out))
  | "decode_refs" => some do
    let s ← str
    pure (encStr (decodeCharRefs s))
  | _ => none

end HtmlVerif.Ops
