/-
Character-level lemmas for C01: `spanP` over an explicit stop set, trimming of HTML whitespace.
No trees here.
-/
import HtmlVerif.Spec.Html

namespace HtmlVerif

/-! ### spanP -/

/-- the run stops exactly where the first character failing `p` stands -/
theorem spanP_append (p : Char → Bool) (a b : Str) (ha : ∀ c ∈ a, p c = true)
    (hb : ∀ c r, b = c :: r → p c = false) : spanP p (a ++ b) = (a, b) := by
  induction a with
  | nil =>
    cases b with
    | nil => rfl
    | cons c r => simp [spanP, hb c r rfl]
  | cons x xs ih =>
    have hx : p x = true := ha x (by simp)
    have := ih (fun c hc => ha c (by simp [hc]))
    simp [spanP, hx, this]

theorem spanP_append_cons (p : Char → Bool) (a : Str) (c : Char) (r : Str) (ha : ∀ x ∈ a, p x = true)
    (hc : p c = false) : spanP p (a ++ c :: r) = (a, c :: r) :=
  spanP_append p a (c :: r) ha (by intro c' r' h; cases h; exact hc)

theorem spanP_all_nil (p : Char → Bool) (a : Str) (ha : ∀ x ∈ a, p x = true) : spanP p a = (a, []) := by
  simpa using spanP_append p a [] ha (by intro c r h; cases h)

/-! ### whitespace -/

theorem wsOnly_append (a b : Str) : wsOnly (a ++ b) = (wsOnly a && wsOnly b) := by simp [wsOnly]

@[simp] theorem wsOnly_nil : wsOnly [] = true := rfl

theorem wsOnly_indentStr (n : Nat) : wsOnly (indentStr n) = true := by
  simp [wsOnly, indentStr, isWs]

theorem dropWhile_append_of_all {p : Char → Bool} (w s : Str) (hw : ∀ c ∈ w, p c = true) :
    (w ++ s).dropWhile p = s.dropWhile p := by
  induction w with
  | nil => rfl
  | cons x xs ih =>
    have hx : p x = true := hw x (by simp)
    simp [hx, ih (fun c hc => hw c (by simp [hc]))]

theorem dropWhile_append_ne {p : Char → Bool} (a s : Str) (h : a.dropWhile p ≠ []) :
    (a ++ s).dropWhile p = a.dropWhile p ++ s := by
  induction a with
  | nil => simp at h
  | cons x xs ih =>
    by_cases hx : p x = true
    · simp [List.dropWhile, hx] at h ⊢; exact ih h
    · simp [List.dropWhile, hx]

theorem dropWhile_eq_nil_all {p : Char → Bool} (a : Str) (h : a.dropWhile p = []) : ∀ c ∈ a, p c = true := by
  induction a with
  | nil => simp
  | cons x xs ih =>
    by_cases hx : p x = true
    · simp [List.dropWhile, hx] at h; intro c hc; simp at hc; rcases hc with rfl | hc
      · exact hx
      · exact ih h c hc
    · simp [List.dropWhile, hx] at h

/-- strings that agree after stripping leading whitespace still do after appending the same thing -/
theorem lstrip_congr_append {a b : Str} (h : a.dropWhile isWs = b.dropWhile isWs) (s : Str) :
    (a ++ s).dropWhile isWs = (b ++ s).dropWhile isWs := by
  by_cases ha : a.dropWhile isWs = []
  · have hb : b.dropWhile isWs = [] := by rw [← h]; exact ha
    rw [dropWhile_append_of_all a s (dropWhile_eq_nil_all a ha),
      dropWhile_append_of_all b s (dropWhile_eq_nil_all b hb)]
  · have hb : b.dropWhile isWs ≠ [] := by rw [← h]; exact ha
    rw [dropWhile_append_ne a s ha, dropWhile_append_ne b s hb, h]

theorem trimWs_congr {a b : Str} (h : a.dropWhile isWs = b.dropWhile isWs) : trimWs a = trimWs b := by
  simp [trimWs, h]

theorem lstrip_ws_append (w s : Str) (hw : wsOnly w = true) :
    (w ++ s).dropWhile isWs = s.dropWhile isWs :=
  dropWhile_append_of_all w s (by simpa [wsOnly] using hw)

/-- trailing layout whitespace disappears by trimming -/
theorem trimWs_append_ws (s w : Str) (hw : wsOnly w = true) : trimWs (s ++ w) = trimWs s := by
  have hw' : ∀ c ∈ w.reverse, isWs c = true := by simpa [wsOnly] using hw
  by_cases hs : s.dropWhile isWs = []
  · have h1 : (s ++ w).dropWhile isWs = [] := by
      rw [dropWhile_append_of_all s w (dropWhile_eq_nil_all s hs)]
      have := dropWhile_append_of_all (p := isWs) w [] (by simpa [wsOnly] using hw)
      simpa using this
    simp [trimWs, hs, h1]
  · unfold trimWs
    rw [dropWhile_append_ne s w hs, List.reverse_append, dropWhile_append_of_all _ _ hw']

theorem trimWs_ws (w : Str) (hw : wsOnly w = true) : trimWs w = [] := by
  have := trimWs_append_ws [] w hw
  simpa [trimWs] using this

end HtmlVerif
