/-
Spec-side definitions used in the statements of C12: the guards taken from the property's wording and what a
user agent does with a relative reference.
-/
import HtmlVerif.Model.FS

namespace HtmlVerif

/-- characters of a prefix / name / version that a URL reader takes literally: printable ASCII other than
    `%` (percent-decoding), `#` `?` (fragment, query), `:` (scheme), `/` (separator) and `\` (which user agents
    fold into `/`).  Space, `&`, `'`, `"`, `<`, `+`, `!`, `;`, `=`, `~` … are in: HTML attribute escaping of the
    written file is undone by the HTML parser (C03), and `unquote` does not turn `+` into a space.
    The library writes prefix, name and version *unencoded* (statement, clause 1), so the excluded characters are
    exactly where clause 2 fails on the code as it is (`C12_urls_resolve_full_is_false`, finding F-C12);
    non-ASCII characters are harmless but outside what is proved (the executable statement covers them). -/
def inertN (n : Nat) : Bool :=
  0x20 ≤ n && n < 0x7F && n != 0x25 && n != 0x2F && n != 0x3F && n != 0x23 && n != 0x3A && n != 0x5C

def inertC (c : Char) : Bool := inertN c.toNat

def strDot : Str := ['.']
def strDotDot : Str := ['.', '.']

/-- `SafeSeg name`: a single, non-empty path segment over URL-inert characters that is not `.` / `..`.
    The library does not percent-encode names and versions, so this is what "prefix/name[-version]/…" presupposes. -/
def SafeSeg (s : Str) : Bool := !s.isEmpty && s.all inertC && s != strDot && s != strDotDot

/-- a component the OS and a URL parser read literally: not empty, not `.`/`..`, no NUL -/
def goodSeg (s : Bytes) : Bool := !s.isEmpty && s != [0x2E] && s != [0x2E, 0x2E] && !s.contains 0

/-- `CleanRel p`: a relative path in the sense of the statement — `/`-separated components, none empty (so not
    absolute, no trailing or doubled slash), none `.` or `..`, no NUL -/
def CleanRel (p : Str) : Bool := (splitSlash (utf8 p)).all goodSeg

/-- `CleanDir l` (for a non-empty `libdir` / `lib_prefix`): relative, URL-inert characters and `/` only, no `.`/`..`
    component; doubled and trailing slashes are allowed (`"a/b/"`) -/
def CleanDir (l : Str) : Bool :=
  l.all (fun c => inertC c || c == '/') && l.head? != some '/' && (segs (utf8 l)).all goodSeg

/-- `CleanDir?` for the optional argument: `None` and `""` mean "no prefix" -/
def CleanDirOpt : Option Str → Bool
  | none => true
  | some l => l.isEmpty || CleanDir l

/-- the components an optional directory contributes -/
def segsOpt : Option Str → Path
  | none => []
  | some l => segs (utf8 l)

/-- a reference a user agent treats as a plain relative path: no query, no fragment, not rooted, and no `:` in
    the first component (which would make it a scheme) -/
def relRefOk (u : Str) : Bool :=
  u.all (fun c => c != '?' && c != '#') && u.head? != some '/' && !(u.takeWhile (· != '/')).contains ':'

/-- where a relative reference `u`, found in a document whose directory is `dir`, points: percent-decode, split on `/`,
    append (RFC 3986 §5.2 for a reference that passes `relRefOk` and has no dot segments) -/
def resolveRef (dir : Path) (u : Str) : Path := dir ++ segs (unquoteB u)

/-- two directories neither of which contains the other -/
def Apart (a b : Path) : Prop := ¬ a <+: b ∧ ¬ b <+: a

end HtmlVerif

namespace HtmlVerif

/-- a regular file directly inside `S` has nothing below it (every real file system guarantees this; the
    finite-map model does not by itself) -/
def SrcWF (fs : FS) (S : Path) : Prop :=
  ∀ n r, r ≠ [] → (fs.read (S ++ [n])).isSome = true → fs.read (S ++ n :: r) = none

/-- the resolved source directory of a directory-sourced dependency -/
def srcDir (d : DepInfo) : Path :=
  match d.source with
  | .subdir _ _ abs => pathResolve abs
  | _ => []

def isLocal (d : DepInfo) : Bool :=
  match d.source with
  | .subdir .. => true
  | _ => false

/-- the directory `copy_to(path, include_version=iv)` fills: `path/name[-version]` -/
def tgtDir (d : DepInfo) (path : Str) (iv : Bool) : Path := pathResolve (posixJoin path (dirName d iv))

/-- the files (relative to the source directory) a dependency wants copied: everything when `all_files`,
    else exactly the listed ones -/
def wantedB (d : DepInfo) (q : Path) : Bool :=
  if d.allFiles then !q.isEmpty
  else match listedFiles d with
    | .ok fl => (fl.map fun f => segs (utf8 f)).contains q
    | .error _ => false

end HtmlVerif

namespace HtmlVerif

/-- what `copy_to(path, include_version=iv)` of `d` needs from the file system in order to go through
    (nothing for URL-sourced and source-less dependencies):
    the source and target directories do not contain one another, no regular file sits on the way to the target,
    and either (`all_files`) the source directory is well formed, or every listed path is relative and names a
    regular file -/
def CopyReady (d : DepInfo) (path : Str) (iv : Bool) (fs : FS) : Prop :=
  match d.source with
  | .subdir _ _ abs =>
    abs ≠ [] ∧ Apart (pathResolve abs) (tgtDir d path iv) ∧ fs.fileOnPath (tgtDir d path iv) = false ∧
    (if d.allFiles then SrcWF fs (pathResolve abs)
     else ∃ fl, listedFiles d = .ok fl ∧
       ∀ f ∈ fl, f.head? ≠ some '/' ∧ (fs.read (pathResolve abs ++ segs (utf8 f))).isSome = true)
  | _ => True

/-- the effect of that copy: the target directory holds exactly the wanted files, byte-identical to their
    sources (stale content gone); nothing outside the target directory changes -/
def CopySpec (d : DepInfo) (path : Str) (iv : Bool) (fs fs' : FS) : Prop :=
  if isLocal d then
    (∀ q, ¬ tgtDir d path iv <+: q → fs'.read q = fs.read q) ∧
    (∀ r, fs'.read (tgtDir d path iv ++ r) = if wantedB d r then fs.read (srcDir d ++ r) else none)
  else fs' = fs

end HtmlVerif

namespace HtmlVerif

/-- the closed form of a local dependency's base URL: `[lib_prefix/]name[-version]`, one separator
    whether or not the prefix already ends in one -/
def hrefBaseSpec (lp : Option Str) (dn : Str) : Str :=
  match lp with
  | none => dn
  | some l =>
    if l.isEmpty then dn
    else if l.getLast? = some '/' then l ++ dn
    else l ++ '/' :: dn

end HtmlVerif

namespace HtmlVerif

/-! ### the statement without the character guards (what the executable statement evaluates; finding F-C12) -/

/-- a single path component with **any** characters: not empty, no `/`, no NUL, not `.` / `..` -/
def WideSeg (s : Str) : Bool :=
  !s.isEmpty && !s.contains '/' && !s.contains (Char.ofNat 0) && s != strDot && s != strDotDot

/-- a relative directory with **any** characters: not rooted, no `.` / `..` / NUL component -/
def WideDir (l : Str) : Bool := l.head? != some '/' && (segs (utf8 l)).all goodSeg

def WideDirOpt : Option Str → Bool
  | none => true
  | some l => l.isEmpty || WideDir l

/-- the characters a URL reader interprets and the library leaves unencoded in prefix, name and version -/
def urlSpecialC (c : Char) : Bool := c == '%' || c == '#' || c == '?'

/-- `[prefix/]name[-version]` contains `%`, `#` or `?`, or a `:` in its first component (read as a scheme) -/
def urlSpecial (base : Str) : Bool := base.any urlSpecialC || (base.takeWhile (· != '/')).contains ':'

/-- clause 2 of the statement for one URL, exactly as worded: read as a relative reference and percent-decoded it
    names `libdir/name[-version]/p` below the directory of the HTML file -/
def agreeFull (lp : Option Str) (dn p url : Str) : Bool :=
  relRefOk url && segs (unquoteB url) == segsOpt lp ++ [utf8 dn] ++ segs (utf8 p)

end HtmlVerif

namespace HtmlVerif

/-- exactly one key of the dict `s` normalises to the attribute name `k` (`src_`, `src` and `src__`… would be merged
    into one attribute by `Tag(**s)`; such dicts are outside "each script URL") -/
def SoleKey (k : Str) (s : KVs) : Bool := (s.filter fun kv => normAttrName kv.1 == k).length == 1

/-- the value of attribute `k` of a node that is a `<nm>` tag -/
def tagAttr (nm k : Str) : Node → Option AttrVal
  | .tag n _ a _ => if n = nm then alookup k a else none
  | _ => none

end HtmlVerif
