/-
Executable statement of C04's concatenation clause on the implementation's answer:
the result is HTML() iff some operand is, and rendering it equals rendering the operands one after the other.
-/
import HtmlVerif.Ops.HtmlExpr

namespace HtmlVerif.Ops
open HtmlVerif HtmlVerif.Wire

def holdsC04 : OpTable
  | "hexpr" => some do
    let _mode ← next
    let e ← hexpr
    expect "|"
    let t ← next
    if t == "ok" then do
      let v ← hval
      pure (encBool (v.isHtml == e.containsHtml
        && renderLeaf cfg v == e.operands.flatMap (renderLeaf cfg)))
    else do
      let _ ← next
      -- an error is acceptable only where Python's own dispatch has no applicable `+` (str/other mixes)
      pure (encBool (match e.eval cfg with | .error _ => true | .ok _ => false))
  | _ => none

end HtmlVerif.Ops
