"""Realise wire terms as real htmltools objects and canonicalise real objects back to terms.

htmltools is imported from the repository's *working tree* (VERIF_REPO, default /repo).
"""
from __future__ import annotations

import copy
import os
import sys

REPO = os.environ.get("VERIF_REPO", "/repo")
if sys.path[0] != REPO:
    sys.path.insert(0, REPO)

import htmltools  # noqa: E402
from htmltools import HTML, HTMLDependency, MetadataNode, Tag, TagList  # noqa: E402
from packaging.version import Version  # noqa: E402

assert os.path.realpath(os.path.dirname(htmltools.__file__)) == os.path.realpath(
    os.path.join(REPO, "htmltools")
), f"htmltools imported from {htmltools.__file__}, expected {REPO}"


# ------------------------------------------------------------------ helper classes
class _StrResult(str):
    """a plain str subclass (markupsafe-style result type)"""


class ReprObj:
    """Object that is only self-rendering."""

    def __init__(self, s: str):
        self.s = s
        # decoys: a self-rendering object is not a Tag, whatever attributes it happens to have.  Half of the instances carry
        # attributes named like a Tag's fields (a component that mimics the tag-function signature, or forwards attribute
        # access to the tag it wraps); the library tells kinds apart by type, so they must make no difference
        if len(s) % 2 == 0:
            self.add_ws = True
            if len(s) % 4 == 0:
                self.name = "div"
                self.attrs = {"class": "decoy"}
                self.children = ["decoy"]

    def _repr_html_(self) -> str:
        # every third payload (by length) is handed over as an instance of a str SUBCLASS (markupsafe-style strings):
        # still a `str`, so the contract `-> str` is met and the rendering must be the same
        return _StrResult(self.s) if len(self.s) % 3 == 1 else self.s

    def __eq__(self, other):
        return isinstance(other, ReprObj) and other.s == self.s

    def __hash__(self):
        return hash(self.s)


class Meta(MetadataNode):
    """A bare metadata node, identified by a number."""

    def __init__(self, n: int):
        self.n = n

    def __eq__(self, other):
        return isinstance(other, Meta) and other.n == self.n

    def __hash__(self):
        return hash(self.n)


class TObjL:
    """Tagifiable object whose tagify() returns TagList(*content).tagify()."""

    def __init__(self, content: list):
        self.content = content

    def tagify(self):
        return TagList(*self.content).tagify()


class TObjLR(TObjL):
    def __init__(self, content: list, rh: str):
        super().__init__(content)
        self.rh = rh

    def _repr_html_(self) -> str:
        return self.rh


class TObj1:
    """Tagifiable object whose tagify() returns content.tagify() (or the leaf itself)."""

    def __init__(self, content):
        self.content = content

    def tagify(self):
        c = self.content
        if hasattr(c, "tagify"):
            return c.tagify()
        if isinstance(c, MetadataNode):
            return copy.copy(c)
        return c


class TObj1R(TObj1):
    def __init__(self, content, rh: str):
        super().__init__(content)
        self.rh = rh

    def _repr_html_(self) -> str:
        return self.rh


# ------------------------------------------------------------------ realise
def realize_attrval(v):
    return HTML(v[1]) if v[0] == "h" else v[1]


def realize_source(src):
    if src is None:
        return None
    if src[0] == "href":
        return {"href": src[1]}
    d = {"subdir": src[2]}
    if src[1] is not None:
        d["package"] = src[1]
    return d


def realize_dep(info: dict, has_head: bool, head_terms: list):
    kw = {}
    if has_head:
        kw["head"] = TagList(*[realize(h) for h in head_terms])
    return HTMLDependency(
        info["name"], info["version"],
        source=realize_source(info["source"]),
        script=[dict(x) for x in info["script"]],
        stylesheet=[dict(x) for x in info["stylesheet"]],
        meta=[dict(x) for x in info["metas"]],
        all_files=info["all_files"],
        **kw,
    )


def realize(n):
    k = n[0]
    if k == "tag":
        attrs = {key: realize_attrval(v) for key, v in n[3]}
        kids = [realize(c) for c in n[4]]
        t = Tag(n[1], *kids, _add_ws=n[2])
        # attributes are given in stored (normalised) form: install them without renormalising
        for key, v in attrs.items():
            dict.__setitem__(t.attrs, key, v)
        return t
    if k == "text":
        return n[1]
    if k == "html":
        return HTML(n[1])
    if k == "robj":
        return ReprObj(n[1])
    if k == "meta":
        return Meta(n[1])
    if k == "dep":
        return realize_dep(n[1], n[2], n[3])
    if k == "tobjL":
        c = [realize(x) for x in n[2]]
        return TObjL(c) if n[1] is None else TObjLR(c, n[1])
    if k == "tobj1":
        c = realize(n[2])
        return TObj1(c) if n[1] is None else TObj1R(c, n[1])
    raise ValueError(n)


def realize_list(ns) -> TagList:
    return TagList(*[realize(n) for n in ns])


# ------------------------------------------------------------------ canonicalise
class Ranks:
    """Dense rank of version strings under packaging's order, per case."""

    def __init__(self, versions=()):
        self.set(versions)

    def set(self, versions):
        vs = sorted({Version(v) for v in versions})
        self.rank = {v: i for i, v in enumerate(vs)}

    def of(self, v) -> int:
        v = v if isinstance(v, Version) else Version(v)
        if v not in self.rank:
            # extend consistently (rare: versions appearing only in outputs)
            vs = sorted(set(self.rank) | {v})
            self.rank = {x: i for i, x in enumerate(vs)}
        return self.rank[v]


def canon_source(src):
    if src is None:
        return None
    if "href" in src:
        return ("href", str(src["href"]))
    return ("subdir", src.get("package"), str(src["subdir"]), "")


def canon_dep(d: HTMLDependency, ranks: Ranks | None):
    info = dict(
        name=d.name, version=str(d.version), vrank=ranks.of(d.version) if ranks else 0,
        source=canon_source(d.source),
        script=[[(str(k), str(v)) for k, v in x.items()] for x in d.script],
        stylesheet=[[(str(k), str(v)) for k, v in x.items()] for x in d.stylesheet],
        metas=[[(str(k), str(v)) for k, v in x.items()] for x in d.meta],
        all_files=bool(d.all_files),
    )
    head = d.head
    return ("dep", info, head is not None, [canon(c, ranks) for c in head] if head is not None else [])


def canon(x, ranks: Ranks | None = None):
    if isinstance(x, Tag):
        return (
            "tag", x.name, x.add_ws,
            [(k, ("h" if isinstance(v, HTML) else "p", str(v))) for k, v in x.attrs.items()],
            [canon(c, ranks) for c in x.children],
        )
    if isinstance(x, HTML):
        return ("html", x.as_string())
    if isinstance(x, str):
        return ("text", str(x))
    if isinstance(x, ReprObj):
        return ("robj", x.s)
    if isinstance(x, Meta):
        return ("meta", x.n)
    if isinstance(x, HTMLDependency):
        return canon_dep(x, ranks)
    if isinstance(x, TObjLR):
        return ("tobjL", x.rh, [canon(c, ranks) for c in x.content])
    if isinstance(x, TObjL):
        return ("tobjL", None, [canon(c, ranks) for c in x.content])
    if isinstance(x, TObj1R):
        return ("tobj1", x.rh, canon(x.content, ranks))
    if isinstance(x, TObj1):
        return ("tobj1", None, canon(x.content, ranks))
    return ("raw", type(x).__name__)


def canon_list(xs, ranks: Ranks | None = None):
    return [canon(c, ranks) for c in xs]


def versions_in(n, acc=None):
    """all version strings occurring in a node term"""
    acc = [] if acc is None else acc
    k = n[0]
    if k == "tag":
        for c in n[4]:
            versions_in(c, acc)
    elif k == "dep":
        acc.append(n[1]["version"])
        for c in n[3]:
            versions_in(c, acc)
    elif k == "tobjL":
        for c in n[2]:
            versions_in(c, acc)
    elif k == "tobj1":
        versions_in(n[2], acc)
    return acc
