import HtmlVerif.Spec.Refs
import HtmlVerif.Lemmas.Escape
import HtmlVerif.Generated.Tables

namespace HtmlVerif

/-! ### the generated tables realise the per-character maps of the specification -/

theorem textTbl_ok : TblOk Generated.textTbl = true := by decide +kernel
theorem attrTbl_ok : TblOk Generated.attrTbl = true := by decide +kernel

theorem textTbl_spec (c : Char) : escCharT Generated.textTbl c = escTextChar c := by
  unfold escTextChar
  by_cases h1 : c = '&'
  · subst h1; decide +kernel
  by_cases h2 : c = '<'
  · subst h2; decide +kernel
  by_cases h3 : c = '>'
  · subst h3; decide +kernel
  have e1 : ('&' == c) = false := by simpa using fun e => h1 e.symm
  have e2 : ('<' == c) = false := by simpa using fun e => h2 e.symm
  have e3 : ('>' == c) = false := by simpa using fun e => h3 e.symm
  simp [escCharT, Generated.textTbl, List.find?, e1, e2, e3, h1, h2, h3]

theorem attrTbl_spec (c : Char) : escCharT Generated.attrTbl c = escAttrChar c := by
  unfold escAttrChar
  by_cases h1 : c = '&'
  · subst h1; decide +kernel
  by_cases h2 : c = '<'
  · subst h2; decide +kernel
  by_cases h3 : c = '>'
  · subst h3; decide +kernel
  by_cases h4 : c = '"'
  · subst h4; decide +kernel
  by_cases h5 : c = '\''
  · subst h5; decide +kernel
  by_cases h6 : c = '\r'
  · subst h6; decide +kernel
  by_cases h7 : c = '\n'
  · subst h7; decide +kernel
  have e1 : ('&' == c) = false := by simpa using fun e => h1 e.symm
  have e2 : ('<' == c) = false := by simpa using fun e => h2 e.symm
  have e3 : ('>' == c) = false := by simpa using fun e => h3 e.symm
  have e4 : ('"' == c) = false := by simpa using fun e => h4 e.symm
  have e5 : ('\'' == c) = false := by simpa using fun e => h5 e.symm
  have e6 : ('\r' == c) = false := by simpa using fun e => h6 e.symm
  have e7 : ('\n' == c) = false := by simpa using fun e => h7 e.symm
  have e4' : (Char.ofNat 34 == c) = false := e4
  have e5' : (Char.ofNat 39 == c) = false := e5
  have e6' : (Char.ofNat 13 == c) = false := e6
  have e7' : (Char.ofNat 10 == c) = false := e7
  simp [escCharT, Generated.attrTbl, List.find?, e1, e2, e3, e4', e5', e6', e7', h1, h2, h3, h4, h5, h6, h7]

/-- `html_escape(s)` (text table) is the per-character map of the specification -/
theorem escapeText_eq (s : Str) : htmlEscapeT Generated.textTbl s = s.flatMap escTextChar := by
  rw [htmlEscapeT_perChar _ textTbl_ok]; congr 1; funext c; exact textTbl_spec c

/-- `html_escape(s, attr=True)` is the per-character map of the specification -/
theorem escapeAttr_eq (s : Str) : htmlEscapeT Generated.attrTbl s = s.flatMap escAttrChar := by
  rw [htmlEscapeT_perChar _ attrTbl_ok]; congr 1; funext c; exact attrTbl_spec c

end HtmlVerif
