/-
Primitives of the Python fragment used by the translation of `HTMLDependency.__init__` (harness/pytr_c10b.py) that
Py/Prim.lean lacks.  Same rules as Py/Prim.lean: what CPython does on that argument shape, the exception kind CPython
raises, or `unsupported`.  Each was compared with CPython (/venv/bin/python): `TagList(x)` on every value kind below;
`Version(s)` is a parameter (`Globals.mkVersion`), supplied per call by the harness from the real `packaging`.
-/
import HtmlVerif.Py.Prim

namespace HtmlVerif.Py
open HtmlVerif

/-- a `packaging` Version as a Python value: its rank in the order `packaging` reports among the versions in play
    (what `pyGt` compares) and its `str()` text -/
def versionObjC10b (rank : Nat) (text : Str) : PVal :=
  .obj "Version" [("rank", .int rank), ("text", .str text)]

/-- `Version(s)`: `packaging.version.Version` is not translated.  For a `str` the answer — the Version object, or
    `InvalidVersion` (a subclass of ValueError) — is what `G.mkVersion` says; any other argument is outside the fragment
    (the translated call is guarded by `isinstance(version, str)`). -/
def pyMkVersion (G : Globals) (v : PVal) : PyM PVal :=
  match v with
  | .str s => match G.mkVersion s with
    | some ver => pure ver
    | Option.none => throw .valueError
  | _ => throw .unsupported

/-- the sequence held in a field after its elements were updated one by one (harness/pytr_c10b.py, `_elem_loop`):
    the same kind of sequence with the new elements; an empty string has no elements and stays what it is -/
def pyRebuildSeq (orig : PVal) (elems : List PVal) : PyM PVal :=
  match orig with
  | .list _ => pure (.list elems)
  | .tuple _ => pure (.tuple elems)
  | .str [] => pure orig
  | .html [] => pure orig
  | _ => throw .unsupported

def tagListObjC10b (items : List PVal) : PVal := .obj "TagList" [("data", .list items)]

/-- a sequence that `flatten` would enter -/
def isNestedSeqC10b : PVal → Bool
  | .list _ => true
  | .tuple _ => true
  | .obj c _ => c == "TagList"
  | _ => false

/-- what one item that is not itself a sequence contributes to `TagList(…)` (`_tagchilds_to_tagnodes`): `None` is
    dropped, a number becomes its `str()`, a `str` / `HTML` / tag node (`is_tag_node`) is kept, anything else raises
    TypeError -/
def headItemC10b (v : PVal) : PyM (List PVal) :=
  match v with
  | .none => pure []
  | .str _ => pure [v]
  | .html _ => pure [v]
  | .int _ => do pure [← pyStr v]
  | .float _ => do pure [← pyStr v]
  | .bool _ => do pure [← pyStr v]
  | .dict _ => throw .typeError
  | .obj _ _ =>
    if isInstance v ["Tagifiable", "MetadataNode", "ReprHtml"] then pure [v]
    else if isInstance v ["dict", "list", "tuple", "str", "int", "float"] then throw .unsupported   -- an instance of a subclass of a built-in
    else throw .typeError
  | _ => throw .unsupported

def headItemsC10b : List PVal → PyM (List PVal)
  | [] => pure []
  | v :: r => do
    let a ← headItemC10b v
    let b ← headItemsC10b r
    pure (a ++ b)

/-- the items of a flat sequence; a sequence nested in it is outside the fragment -/
def headSeqC10b (xs : List PVal) : PyM PVal :=
  if xs.any isNestedSeqC10b then throw .unsupported else do pure (tagListObjC10b (← headItemsC10b xs))

/-- `TagList(x)` with one positional argument (`_tagchilds_to_tagnodes((x,))`): `x` itself if it is not a sequence
    (`headItemC10b`), the items of a list / tuple / TagList in order — **restricted** to a flat sequence (an item that
    is itself a list / tuple / TagList is `unsupported`). -/
def pyTagList1 (x : PVal) : PyM PVal :=
  match x with
  | .list xs => headSeqC10b xs
  | .tuple xs => headSeqC10b xs
  | .obj c fs =>
    if c == "TagList" then
      match fieldGet? "data" fs with
      | some (.list xs) => headSeqC10b xs
      | _ => throw .unsupported
    else do pure (tagListObjC10b (← headItemC10b x))
  | _ => do pure (tagListObjC10b (← headItemC10b x))

end HtmlVerif.Py
