/-
Helper definitions and lemmas of the source tie for C08b (Props/SrcC08b.lean): the embedding of the tree model into the
Python objects the copy functions see (`embC08b`), loop rules for the dict comprehension of `Tag.__copy__` (`dictcomp_loop_C08b`,
`dictcomp_loopH_C08b`) and the `enumerate` loop of `_copy_tag_nodes` (`forIn_enum_keep_k_C08b`; over the heap `forIn_copyLoop_C08b`), facts about
the primitives of Py/PrimC08b.lean, and — for the translations over the heap — the monad `HMC08b` without unfolding `bind`, what
a heap must hold for a tag (`TagAtC08b`) and for a tree (`ReprC08b` / `ReprsC08b`, with the frame lemmas), and what one pass of
the loop of `_copy_tag_nodes` does (`copyPassC08b`, `copyLoopC08b`).

Specification functions defined here because the model has no counterpart: `depReprTextC08b` (the text of
`repr(HTMLDependency)`: the model's views are those of Tag / TagList); `copyFieldsHC08b`, `copyPassC08b`, `copyLoopC08b`
(intermediate forms of the translated loops over the heap, each proved equal to the generated loop).
-/
import HtmlVerif.Lemmas.SrcTie
import HtmlVerif.Lemmas.SrcC08
import HtmlVerif.Lemmas.Tagify
import HtmlVerif.Lemmas.Ident
import HtmlVerif.Py.PrimC08b
import HtmlVerif.Generated.Src

set_option linter.unusedSimpArgs false

/-! ### the heap monad `HMC08b`, without unfolding `bind` under binders -/

namespace HtmlVerif.Py
open HtmlVerif

instance : LawfulMonad HMC08b := LawfulMonad.mk' HMC08b
  (id_map := by
    intro α x; funext H
    show HMC08b.bind x (fun a => HMC08b.pure a) H = x H
    unfold HMC08b.bind HMC08b.pure
    rcases h : x H with e | ⟨a, H'⟩ <;> rfl)
  (pure_bind := by intro α β a f; rfl)
  (bind_assoc := by
    intro α β γ x f g; funext H
    show HMC08b.bind (HMC08b.bind x f) g H = HMC08b.bind x (fun a => HMC08b.bind (f a) g) H
    unfold HMC08b.bind
    rcases h : x H with e | ⟨a, H'⟩ <;> rfl)

theorem HMC08b.run_pure {α} (a : α) (H : List PVal) : (pure a : HMC08b α) H = .ok (a, H) := rfl
theorem HMC08b.run_bind {α β} (x : HMC08b α) (f : α → HMC08b β) (H : List PVal) :
    (x >>= f) H = match x H with
      | .ok (a, H') => f a H'
      | .error e => .error e := rfl
theorem HMC08b.run_bind_ok {α β} {x : HMC08b α} {f : α → HMC08b β} {H H' : List PVal} {a : α} (h : x H = .ok (a, H')) :
    (x >>= f) H = f a H' := by rw [HMC08b.run_bind, h]
theorem HMC08b.run_bind_error {α β} {x : HMC08b α} {f : α → HMC08b β} {H : List PVal} {e : PyErr} (h : x H = .error e) :
    (x >>= f) H = .error e := by rw [HMC08b.run_bind, h]
@[simp] theorem HMC08b.lift_ok {α} (a : α) : (liftM (Except.ok a : PyM α) : HMC08b α) = pure a := rfl
@[simp] theorem HMC08b.lift_error {α} (e : PyErr) : (liftM (Except.error e : PyM α) : HMC08b α) = throw e := rfl
@[simp] theorem HMC08b.throw_bind {α β} (e : PyErr) (f : α → HMC08b β) : ((throw e : HMC08b α) >>= f) = throw e := rfl
theorem HMC08b.run_throw {α} (e : PyErr) (H : List PVal) : (throw e : HMC08b α) H = .error e := rfl

/-- the dict comprehension of `Tag.__copy__` over the heap: the values are copied in order (each copy may allocate), each
    stored under its key -/
def copyFieldsHC08b : List (String × PVal) → List (Str × PVal) → HMC08b (List (Str × PVal))
  | [], acc => pure acc
  | kv :: r, acc => do
    let v ← hCopyFieldC08b kv.2
    copyFieldsHC08b r (dictSet kv.1.toList v acc)
end HtmlVerif.Py

namespace HtmlVerif.SrcTie
open HtmlVerif HtmlVerif.Py HtmlVerif.Generated.Src HtmlVerif.Ident

/-! ### `str()` returns a `str` -/

theorem pyStr_ok_str_C08b (x v : PVal) (h : pyStr x = .ok v) : ∃ s, v = .str s := by
  cases x with
  | obj c fs =>
    simp only [pyStr] at h
    split at h
    · cases h; exact ⟨_, rfl⟩
    · cases h
  | bool b => cases b <;> (cases h; exact ⟨_, rfl⟩)
  | none => cases h; exact ⟨_, rfl⟩
  | int n => cases h; exact ⟨_, rfl⟩
  | float t => cases h; exact ⟨_, rfl⟩
  | str s => cases h; exact ⟨_, rfl⟩
  | html s => cases h; exact ⟨_, rfl⟩
  | list xs => cases h
  | tuple xs => cases h
  | dict kvs => cases h

/-- the text of `repr(dep)`: `<HTMLDependency "name-version">` (specification function: the model has no counterpart) -/
def depReprTextC08b (name version : Str) : Str :=
  ['<', 'H', 'T', 'M', 'L', 'D', 'e', 'p', 'e', 'n', 'd', 'e', 'n', 'c', 'y', ' ', '"'] ++ name ++ ['-'] ++ version ++ ['"', '>']

/-- an f-string whose pieces are all strings -/
theorem pyConcat_strs_C08b (l : List Str) : pyConcat (l.map PVal.str) = .ok (.str l.flatten) := by
  induction l with
  | nil => rfl
  | cons a t ih => simp only [List.map_cons, pyConcat, ih, ok_bind, pure_eq_ok, List.flatten_cons]

theorem pyConcat5_C08b (a b c d e : Str) :
    pyConcat [.str a, .str b, .str c, .str d, .str e] = .ok (.str (a ++ b ++ c ++ d ++ e)) := by
  simpa using pyConcat_strs_C08b [a, b, c, d, e]

theorem pyStr_embEVersion_C08b (d : DepInfo) : pyStr (embEVersion d) = .ok (.str d.version) := rfl

theorem pyGetAttr_obj_C08b (c : String) (fs : List (String × PVal)) (k : String) (v : PVal) (h : fieldGet? k fs = some v) :
    pyGetAttr (.obj c fs) k = .ok v := by simp [pyGetAttr, h]

/-! ### the Python objects the copy functions see -/

mutual
  /-- as `embE` (Lemmas/SrcC08.lean: every library object with its whole `__dict__` in creation order), except that a
      bare metadata node is an instance of `MetadataNode` itself (so that `isinstance(child, MetadataNode)` sees it) and a
      self-rendering object is the fragment's `ReprObj` -/
  def embC08b : Node → PVal
    | .tag name ws attrs kids =>
      .obj "Tag" [("name", .str name), ("add_ws", .bool ws), ("attrs", embAttrs attrs),
                  ("children", eqTagList (embsC08b kids)), ("prev_displayhook", .none)]
    | .text s => .str s
    | .html s => .html s
    | .robj s => .obj "ReprObj" [("_repr_html_", .str s)]
    | .mnode n => .obj "MetadataNode" [("n", .int n)]
    | .dep d hh head =>
      .obj "HTMLDependency" [("name", .str d.name), ("version", embEVersion d), ("source", embESource d.source),
        ("script", embEKvs d.script), ("stylesheet", embEKvs d.stylesheet), ("meta", embEKvs d.metas),
        ("all_files", .bool d.allFiles), ("head", if hh then eqTagList (embsC08b head) else .none)]
    | .tobjL _ _ => .obj "TagifiableObj" [("tagify", .none)]
    | .tobj1 _ _ => .obj "TagifiableObj" [("tagify", .none)]
  def embsC08b : Nodes → List PVal
    | .nil => []
    | .cons h t => embC08b h :: embsC08b t
end

theorem embsC08b_toList (ks : Nodes) : embsC08b ks = ks.toList.map embC08b := by
  induction ks using Nodes.rec (motive_1 := fun _ => True) with
  | nil => rfl
  | cons h t _ ih => simp [embsC08b, Nodes.toList, ih]
  | _ => trivial

mutual
  /-- fuel that suffices for `_copy_tag_nodes` on a child list: one level per Tag nesting (`_copy_tag_nodes` calls itself on
      the children), two per dependency nesting (`HTMLDependency.__copy__`, then `_copy_tag_nodes` on its head) -/
  def cpFuelC08b : Node → Nat
    | .tag _ _ _ k => cpFuelKidsC08b k + 1
    | .dep _ _ k => cpFuelKidsC08b k + 2
    | _ => 0
  def cpFuelKidsC08b : Nodes → Nat
    | .nil => 0
    | .cons h t => max (cpFuelC08b h) (cpFuelKidsC08b t)
end

theorem cpFuel_le_kids_C08b (ks : Nodes) (c : Node) (h : c ∈ ks.toList) : cpFuelC08b c ≤ cpFuelKidsC08b ks := by
  induction ks using Nodes.rec (motive_1 := fun _ => True) with
  | nil => simp [Nodes.toList] at h
  | cons x t _ ih =>
    simp only [Nodes.toList, List.mem_cons] at h
    simp only [cpFuelKidsC08b]
    rcases h with rfl | h
    · omega
    · have := ih h; omega
  | _ => trivial

/-! ### facts about the by-value primitives -/

theorem plainNew_ne_type_C08b (c : String) (h : plainNewC08b c = true) : (c == "type") = false := by
  simp only [plainNewC08b, Bool.or_eq_true, beq_iff_eq] at h
  rcases h with (((rfl | rfl) | rfl) | rfl) | rfl <;> decide

theorem classNameC08b_mk (c : String) : classNameC08b (mkClassC08b c) = some c := by
  simp [classNameC08b, mkClassC08b]

theorem pyNewC08b_mk (c : String) (h : plainNewC08b c = true) : pyNewC08b (mkClassC08b c) (mkClassC08b c) = .ok (.obj c []) := by
  simp [pyNewC08b, classNameC08b_mk, h]

/-- field values that `copy()` inside `Tag.__copy__` returns as they are, by value -/
def copyPlainC08b : PVal → Bool
  | .obj c fs => !hasCopyMethodC08b c && (fieldGet? "__copy__" fs).isNone
  | _ => true

theorem pyCopyFieldC08b_plain (v : PVal) (h : copyPlainC08b v = true) : pyCopyFieldC08b v = .ok v := by
  cases v with
  | obj c fs =>
    simp only [copyPlainC08b, Bool.and_eq_true, Bool.not_eq_true', Option.isNone_iff_eq_none] at h
    simp [pyCopyFieldC08b, pyCopy, h.1, h.2]
  | _ => rfl

theorem pyCopyDispC08b_tag (tg dp : PVal → PyM PVal) (fs) : pyCopyDispC08b tg dp (.obj "Tag" fs) = tg (.obj "Tag" fs) := rfl
theorem pyCopyDispC08b_dep (tg dp : PVal → PyM PVal) (fs) :
    pyCopyDispC08b tg dp (.obj "HTMLDependency" fs) = dp (.obj "HTMLDependency" fs) := rfl
theorem pyCopyDispC08b_taglist (tg dp : PVal → PyM PVal) (l : List PVal) :
    pyCopyDispC08b tg dp (eqTagList l) = .ok (eqTagList l) := rfl
theorem pyCopyDispC08b_mnode (tg dp : PVal → PyM PVal) (n : Int) :
    pyCopyDispC08b tg dp (.obj "MetadataNode" [("n", .int n)]) = .ok (.obj "MetadataNode" [("n", .int n)]) := rfl

/-- `d[k] = v` for a key that is not in the dict appends -/
theorem dictSet_append_C08b (k : Str) (v : PVal) (acc : List (Str × PVal)) (h : k ∉ acc.map (·.1)) :
    Py.dictSet k v acc = acc ++ [(k, v)] := by
  induction acc with
  | nil => rfl
  | cons x t ih =>
    simp only [List.map_cons, List.mem_cons, not_or] at h
    simp only [Py.dictSet, List.cons_append]
    rw [if_neg (fun e => h.1 e.symm), ih h.2]

theorem fieldSet_append_C08b (k : String) (v : PVal) (acc : List (String × PVal)) (h : k ∉ acc.map (·.1)) :
    fieldSet k v acc = acc ++ [(k, v)] := by
  induction acc with
  | nil => rfl
  | cons x t ih =>
    simp only [List.map_cons, List.mem_cons, not_or] at h
    simp only [fieldSet, List.cons_append]
    rw [if_neg (fun e => h.1 e.symm), ih h.2]

/-- the dict comprehension over a `__dict__` with distinct keys rebuilds it -/
theorem dictcomp_fold_C08b (fs : List (String × PVal)) (acc : List (Str × PVal)) (hk : (fs.map (·.1)).Nodup)
    (hd : ∀ kv ∈ fs, kv.1.toList ∉ acc.map (·.1)) :
    fs.foldl (fun a kv => Py.dictSet kv.1.toList kv.2 a) acc = acc ++ fs.map fun kv => (kv.1.toList, kv.2) := by
  induction fs generalizing acc with
  | nil => simp
  | cons x t ih =>
    simp only [List.map_cons, List.nodup_cons] at hk
    simp only [List.foldl_cons, List.map_cons]
    rw [dictSet_append_C08b _ _ _ (hd x (by simp)), ih _ hk.2]
    · simp
    · intro kv hkv
      simp only [List.map_append, List.map_cons, List.map_nil, List.mem_append, List.mem_cons, List.not_mem_nil, or_false,
        not_or]
      refine ⟨hd kv (by simp [hkv]), fun e => hk.1 ?_⟩
      have : kv.1 = x.1 := String.toList_inj.mp e
      rw [← this]
      exact List.mem_map_of_mem (f := (·.1)) hkv

/-- `x.__dict__.update(d)` with the entries of a `__dict__` with distinct keys, on an instance that has none of them -/
theorem fieldfold_rebuild_C08b (fs acc : List (String × PVal)) (hk : (fs.map (·.1)).Nodup)
    (hd : ∀ kv ∈ fs, kv.1 ∉ acc.map (·.1)) :
    (fs.map fun kv => (kv.1.toList, kv.2)).foldl (fun a kv => fieldSet (String.ofList kv.1) kv.2 a) acc = acc ++ fs := by
  induction fs generalizing acc with
  | nil => simp
  | cons x t ih =>
    simp only [List.map_cons, List.nodup_cons] at hk
    simp only [List.map_cons, List.foldl_cons, String.ofList_toList]
    rw [fieldSet_append_C08b _ _ _ (hd x (by simp)), ih _ hk.2]
    · simp
    · intro kv hkv
      simp only [List.map_append, List.map_cons, List.map_nil, List.mem_append, List.mem_cons, List.not_mem_nil, or_false,
        not_or]
      refine ⟨hd kv (by simp [hkv]), fun e => hk.1 ?_⟩
      rw [← e]
      exact List.mem_map_of_mem (f := (·.1)) hkv

/-- the loop of a dict comprehension `{k: … for k, v in d.items()}` whatever its body is: if one pass on the entry
    `(k, v)` stores `g v` under `k`, the loop is the fold of `dictSet` -/
theorem dictcomp_loop_C08b (g : PVal → PVal) (fs : List (String × PVal)) (acc : List (Str × PVal))
    (f : PVal → PVal → PyM (ForInStep PVal))
    (hstep : ∀ kv ∈ fs, ∀ a : List (Str × PVal),
      f (.tuple [.str kv.1.toList, kv.2]) (.dict a) = .ok (.yield (.dict (Py.dictSet kv.1.toList (g kv.2) a)))) :
    forIn (fs.map fun kv => PVal.tuple [PVal.str kv.1.toList, kv.2]) (PVal.dict acc) f
      = .ok (.dict (fs.foldl (fun a kv => Py.dictSet kv.1.toList (g kv.2) a) acc)) := by
  induction fs generalizing acc with
  | nil => rfl
  | cons x t ih =>
    simp only [List.map_cons, List.forIn_cons, hstep x (by simp) acc, ok_bind, List.foldl_cons]
    exact ih _ (fun kv hkv a => hstep kv (by simp [hkv]) a)

/-- `pyObjDict` then `.items()` then iteration: the entries of the `__dict__` as pairs -/
theorem pyObjDict_obj_C08b (c : String) (fs : List (String × PVal)) (hp : (fs.any fun f => pseudoField f.1) = false) :
    pyObjDict (.obj c fs) = .ok (.dict (fs.map fun kv => (kv.1.toList, kv.2))) := by
  simp [pyObjDict, hp]

theorem pyObjDictUpdateC08b_obj (c : String) (fs : List (String × PVal)) (kvs : List (Str × PVal))
    (hc : (c == "type") = false) (hp : (fs.any fun f => pseudoField f.1) = false) :
    pyObjDictUpdateC08b (.obj c fs) (.dict kvs)
      = .ok (.obj c (kvs.foldl (fun acc kv => fieldSet (String.ofList kv.1) kv.2 acc) fs)) := by
  simp [pyObjDictUpdateC08b, hc, hp]

/-! ### a loop that leaves what the continuation reads unchanged -/

/-- whatever the loop body and the shape of the loop state are: if the continuation `k` gives `r` on the initial state and
    every pass, from a state on which `k` gives `r`, yields a state on which `k` gives `r`, then the loop followed by `k`
    gives `r` (the invariant is stated through the continuation, so the state tuple is never destructured) -/
theorem forIn_keep_k_C08b {α σ β : Type} (l : List α) (init : σ) (f : α → σ → PyM (ForInStep σ)) (k : σ → PyM β) (r : PyM β)
    (h0 : k init = r)
    (hstep : ∀ a ∈ l, ∀ s, k s = r → ∃ s', f a s = .ok (.yield s') ∧ k s' = r) :
    (forIn l init f >>= k) = r := by
  induction l generalizing init with
  | nil => simpa using h0
  | cons a t ih =>
    obtain ⟨s', h1, h2⟩ := hstep a (by simp) init h0
    simp only [List.forIn_cons, h1, ok_bind]
    exact ih s' h2 (fun b hb s hs => hstep b (by simp [hb]) s hs)

theorem mem_enum_C08b (l : List PVal) (a : PVal)
    (h : a ∈ ((List.range l.length).zip l).map fun p => PVal.tuple [PVal.int (p.1 : Nat), p.2]) :
    ∃ (i : Nat) (x : PVal), l[i]? = some x ∧ a = .tuple [.int (i : Nat), x] := by
  obtain ⟨p, hp, rfl⟩ := List.mem_map.mp h
  obtain ⟨j, hj, hpj⟩ := List.mem_iff_getElem.mp hp
  refine ⟨p.1, p.2, ?_, rfl⟩
  have hj' : j < l.length := by simp at hj; omega
  have : p = (j, l[j]) := by rw [← hpj]; simp
  rw [this]
  simp [hj']

/-- the same for the loop `for i, x in enumerate(l)` -/
theorem forIn_enum_keep_k_C08b {σ β : Type} (l : List PVal) (init : σ) (f : PVal → σ → PyM (ForInStep σ)) (k : σ → PyM β)
    (r : PyM β) (h0 : k init = r)
    (hstep : ∀ (i : Nat) (x : PVal), l[i]? = some x → ∀ s, k s = r →
      ∃ s', f (.tuple [.int (i : Nat), x]) s = .ok (.yield s') ∧ k s' = r) :
    (forIn (((List.range l.length).zip l).map fun p => PVal.tuple [PVal.int (p.1 : Nat), p.2]) init f >>= k) = r := by
  refine forIn_keep_k_C08b _ init f k r h0 ?_
  intro a ha s hs
  obtain ⟨i, x, hix, rfl⟩ := mem_enum_C08b l a ha
  exact hstep i x hix s hs

theorem pyEnumerate_taglist_C08b (l : List PVal) :
    pyEnumerate (eqTagList l)
      = .ok (.list (((List.range l.length).zip l).map fun p => PVal.tuple [PVal.int (p.1 : Nat), p.2])) := rfl

/-- storing at position `i` of a TagList the item that is there already -/
theorem pySetItemU_same_C08b (l : List PVal) (i : Nat) (x : PVal) (h : l[i]? = some x) :
    pySetItemU (eqTagList l) (.int (i : Nat)) x = .ok (eqTagList l) := by
  have hi : i < l.length := by
    rcases Nat.lt_or_ge i l.length with h' | h'
    · exact h'
    · rw [List.getElem?_eq_none h'] at h; cases h
  have hx : l[i] = x := by rw [List.getElem?_eq_getElem hi] at h; exact Option.some.inj h
  have hneg : ¬ ((i : Int) < 0) := by omega
  have hge : ¬ ((i : Int) < 0 ∨ (i : Int).toNat ≥ l.length) := by
    intro h'; rcases h' with h' | h'
    · exact hneg h'
    · simp at h'; omega
  have hge' : ¬ (False ∨ i ≥ l.length) := by
    intro h'; rcases h' with h' | h'
    · exact h'
    · omega
  simp only [pySetItemU, eqTagList, userListData?, fieldGet?, if_true, pySetItem, hneg, if_false, hge, pure_eq_ok, ok_bind,
    Int.toNat_natCast, fieldSet, ← hx, List.set_getElem_self, hge']

theorem fieldSet_sameC08b (k : String) (v : PVal) (fs : List (String × PVal)) (h : fieldGet? k fs = some v) :
    fieldSet k v fs = fs := by
  induction fs with
  | nil => simp [fieldGet?] at h
  | cons x t ih =>
    obtain ⟨k', v'⟩ := x
    simp only [fieldGet?] at h
    simp only [fieldSet]
    split
    · next e => simp only [e, if_true] at h; cases h; rw [e]
    · next e => simp only [e, if_false] at h; rw [ih h]

/-! ### plain data -/

theorem plainData_ekv_C08b (d : List (Str × Str)) : plainDataC08b (embEKv d) = true := by
  have : plainDataKvsC08b (d.map fun kv => (kv.1, PVal.str kv.2)) = true := by
    induction d with
    | nil => rfl
    | cons x t ih => simp [plainDataKvsC08b, plainDataC08b, ih]
  simp [embEKv, plainDataC08b, this]

theorem plainData_ekvs_C08b (ds : List (List (Str × Str))) : plainDataC08b (embEKvs ds) = true := by
  have : plainDataListC08b (ds.map embEKv) = true := by
    induction ds with
    | nil => rfl
    | cons x t ih => simp [plainDataListC08b, plainData_ekv_C08b, ih]
  simp [embEKvs, plainDataC08b, this]

theorem plainData_source_C08b (s : DepSource) : plainDataC08b (embESource s) = true := by
  cases s with
  | none => rfl
  | href h => rfl
  | subdir p d x => cases p <;> rfl

theorem pyDeepcopyC08b_plain (v : PVal) (h : plainDataC08b v = true) : pyDeepcopyC08b v = .ok v := by
  simp [pyDeepcopyC08b, h]

/-! ### the `enumerate` loop of `_copy_tag_nodes`, by value -/

theorem isInstance_tag_Tag_C08b (fs) : isInstance (.obj "Tag" fs) ["Tag"] = true := by simp [isInstance]
theorem isInstance_dep_Tag_C08b (fs) : isInstance (.obj "HTMLDependency" fs) ["Tag"] = false := by
  simp [isInstance, classBases]
theorem isInstance_dep_Meta_C08b (fs) : isInstance (.obj "HTMLDependency" fs) ["MetadataNode"] = true := by
  simp [isInstance, classBases]

theorem embTag_isTag_C08b (nm ws a k) : isInstance (embC08b (.tag nm ws a k)) ["Tag"] = true := by simp [embC08b, isInstance]
theorem embTag_disp_C08b (tg dp : PVal → PyM PVal) (nm ws a k) :
    pyCopyDispC08b tg dp (embC08b (.tag nm ws a k)) = tg (embC08b (.tag nm ws a k)) := rfl
theorem embTag_children_C08b (nm ws a k) : pyGetAttr (embC08b (.tag nm ws a k)) "children" = .ok (eqTagList (embsC08b k)) := by
  simp [embC08b, pyGetAttr, fieldGet?]
theorem embTag_setChildren_C08b (nm ws a k) :
    pySetAttr (embC08b (.tag nm ws a k)) "children" (eqTagList (embsC08b k)) = .ok (embC08b (.tag nm ws a k)) := by
  simp [embC08b, pySetAttr, fieldSet]
theorem embDep_isTag_C08b (d hh k) : isInstance (embC08b (.dep d hh k)) ["Tag"] = false := by
  simp [embC08b, isInstance, classBases]
theorem embDep_isMeta_C08b (d hh k) : isInstance (embC08b (.dep d hh k)) ["MetadataNode"] = true := by
  simp [embC08b, isInstance, classBases]
theorem embDep_disp_C08b (tg dp : PVal → PyM PVal) (d hh k) :
    pyCopyDispC08b tg dp (embC08b (.dep d hh k)) = dp (embC08b (.dep d hh k)) := rfl
theorem embMeta_isTag_C08b (m) : isInstance (embC08b (.mnode m)) ["Tag"] = false := by simp [embC08b, isInstance, classBases]
theorem embMeta_isMeta_C08b (m) : isInstance (embC08b (.mnode m)) ["MetadataNode"] = true := by simp [embC08b, isInstance]
theorem embMeta_disp_C08b (tg dp : PVal → PyM PVal) (m) :
    pyCopyDispC08b tg dp (embC08b (.mnode m)) = .ok (embC08b (.mnode m)) := rfl

theorem keep_step_C08b {σ β : Type} {x : PyM (ForInStep σ)} {k : σ → PyM β} {r : PyM β} (X : σ)
    (hx : x = .ok (.yield X)) (hk : k X = r) : ∃ s', x = .ok (.yield s') ∧ k s' = r := ⟨X, hx, hk⟩

/-- the nodes `_copy_tag_nodes` keeps as they are -/
def keptC08b (v : PVal) : Bool := !isInstance v ["Tag"] && !isInstance v ["MetadataNode"]

theorem embC08b_cases (c : Node) :
    (∃ nm ws a k, c = .tag nm ws a k) ∨ (∃ d hh k, c = .dep d hh k) ∨ (∃ n, c = .mnode n) ∨ keptC08b (embC08b c) = true := by
  cases c with
  | tag nm ws a k => exact .inl ⟨_, _, _, _, rfl⟩
  | dep d hh k => exact .inr (.inl ⟨_, _, _, rfl⟩)
  | mnode n => exact .inr (.inr (.inl ⟨_, rfl⟩))
  | text s => exact .inr (.inr (.inr rfl))
  | html s => exact .inr (.inr (.inr rfl))
  | robj s => exact .inr (.inr (.inr (by simp [keptC08b, embC08b, isInstance, classBases])))
  | tobjL a b => exact .inr (.inr (.inr (by simp [keptC08b, embC08b, isInstance, classBases])))
  | tobj1 a b => exact .inr (.inr (.inr (by simp [keptC08b, embC08b, isInstance, classBases])))

theorem pySetAttr_same_C08b (c : String) (fs : List (String × PVal)) (k : String) (v : PVal) (h : fieldGet? k fs = some v) :
    pySetAttr (.obj c fs) k v = .ok (.obj c fs) := by simp [pySetAttr, fieldSet_sameC08b k v fs h]


/-! ### the translations over the heap -/

theorem getElem?_lt_C08b {α} {l : List α} {i : Nat} {x : α} (h : l[i]? = some x) : i < l.length := by
  rcases Nat.lt_or_ge i l.length with h' | h'
  · exact h'
  · rw [List.getElem?_eq_none h'] at h; cases h

theorem refId_mkRef_C08b (c : String) (i : Nat) : refIdC08b (mkRefC08b c i) = some i := by
  simp [refIdC08b, mkRefC08b]

theorem refClass_mkRef_C08b (c : String) (i : Nat) : refClassC08b (mkRefC08b c i) = c := rfl

theorem hDeref_ok_C08b (H : List PVal) (c : String) (i : Nat) (o : PVal) (h : H[i]? = some o) :
    hDerefC08b (mkRefC08b c i) H = .ok (o, H) := by
  simp [hDerefC08b, refId_mkRef_C08b, h]

theorem hAlloc_run_C08b (H : List PVal) (c : String) (o : PVal) : hAllocC08b c o H = .ok (mkRefC08b c H.length, H ++ [o]) := rfl

theorem hStore_ok_C08b (H : List PVal) (c : String) (i : Nat) (o : PVal) (h : i < H.length) :
    hStoreC08b (mkRefC08b c i) o H = .ok (⟨⟩, H.set i o) := by
  simp [hStoreC08b, refId_mkRef_C08b, h]

theorem hObjDict_ok_C08b (H : List PVal) (c c' : String) (i : Nat) (fs : List (String × PVal)) (h : H[i]? = some (.obj c' fs))
    (hp : (fs.any fun f => pseudoField f.1) = false) :
    hObjDictC08b (mkRefC08b c i) H = .ok (.dict (fs.map fun kv => (kv.1.toList, kv.2)), H) := by
  unfold hObjDictC08b
  rw [HMC08b.run_bind_ok (hDeref_ok_C08b H c i _ h)]
  simp only [pyObjDict_obj_C08b c' fs hp]
  rfl

theorem dictcomp_loopH_C08b (fs : List (String × PVal)) (acc : List (Str × PVal))
    (f : PVal → PVal → HMC08b (ForInStep PVal))
    (hstep : ∀ kv ∈ fs, ∀ a : List (Str × PVal),
      f (.tuple [.str kv.1.toList, kv.2]) (.dict a)
        = (hCopyFieldC08b kv.2 >>= fun v => pure (.yield (.dict (Py.dictSet kv.1.toList v a))))) :
    forIn (fs.map fun kv => PVal.tuple [PVal.str kv.1.toList, kv.2]) (PVal.dict acc) f
      = (copyFieldsHC08b fs acc >>= fun kvs => pure (PVal.dict kvs)) := by
  induction fs generalizing acc with
  | nil => simp [copyFieldsHC08b]
  | cons x t ih =>
    simp only [List.map_cons, List.forIn_cons, hstep x (by simp) acc, bind_assoc, pure_bind, copyFieldsHC08b]
    congr 1
    funext v
    exact ih _ (fun kv hkv a => hstep kv (by simp [hkv]) a)


/-- the `__dict__` of a Tag object whose `attrs` / `children` are the objects `a` / `k` -/
def tagObjC08b (nm : Str) (ws : Bool) (a k : Nat) : PVal :=
  .obj "Tag" [("name", .str nm), ("add_ws", .bool ws), ("attrs", mkRefC08b "TagAttrDict" a),
              ("children", mkRefC08b "TagList" k), ("prev_displayhook", .none)]

/-- the heap holds a tag: its Tag object `i`, its TagAttrDict `a` with the entries `attrs`, its TagList `k` with the items `kids` -/
structure TagAtC08b (H : List PVal) (i a k : Nat) (nm : Str) (ws : Bool) (attrs : List (Str × PVal)) (kids : List PVal) :
    Prop where
  tag : H[i]? = some (tagObjC08b nm ws a k)
  attrs : H[a]? = some (.dict attrs)
  kids : H[k]? = some (.obj "TagList" [("data", .list kids)])

theorem hObjDictUpdate_ok_C08b (H : List PVal) (c : String) (i : Nat) (o d o' : PVal) (h : H[i]? = some o)
    (hu : pyObjDictUpdateC08b o d = .ok o') :
    hObjDictUpdateC08b (mkRefC08b c i) d H = .ok (⟨⟩, H.set i o') := by
  unfold hObjDictUpdateC08b
  rw [HMC08b.run_bind_ok (hDeref_ok_C08b H c i _ h)]
  simp only [hu, HMC08b.lift_ok, pure_bind]
  exact hStore_ok_C08b H c i o' (getElem?_lt_C08b h)

theorem hCopyField_str_C08b (s : Str) : hCopyFieldC08b (.str s) = pure (.str s) := rfl
theorem hCopyField_bool_C08b (b : Bool) : hCopyFieldC08b (.bool b) = pure (.bool b) := rfl
theorem hCopyField_none_C08b : hCopyFieldC08b .none = pure .none := rfl

theorem hCopyObj_attrs_C08b (H : List PVal) (a : Nat) (kvs : List (Str × PVal)) (h : H[a]? = some (.dict kvs)) :
    hCopyFieldC08b (mkRefC08b "TagAttrDict" a) H = .ok (mkRefC08b "TagAttrDict" H.length, H ++ [.dict kvs]) := by
  have : hCopyFieldC08b (mkRefC08b "TagAttrDict" a) = hCopyObjC08b (mkRefC08b "TagAttrDict" a) := by
    simp [hCopyFieldC08b, mkRefC08b, refIdC08b]
  rw [this]
  unfold hCopyObjC08b
  rw [HMC08b.run_bind_ok (hDeref_ok_C08b H _ a _ h)]
  rfl

theorem hCopyObj_dict_C08b (H : List PVal) (a : Nat) (kvs : List (Str × PVal)) (h : H[a]? = some (.dict kvs)) :
    hCopyFieldC08b (mkRefC08b "dict" a) H = .ok (mkRefC08b "dict" H.length, H ++ [.dict kvs]) := by
  have : hCopyFieldC08b (mkRefC08b "dict" a) = hCopyObjC08b (mkRefC08b "dict" a) := by
    simp [hCopyFieldC08b, mkRefC08b, refIdC08b]
  rw [this]
  unfold hCopyObjC08b
  rw [HMC08b.run_bind_ok (hDeref_ok_C08b H _ a _ h)]
  rfl

theorem hCopyObj_taglist_C08b (H : List PVal) (k : Nat) (xs : List PVal) (h : H[k]? = some (.obj "TagList" [("data", .list xs)])) :
    hCopyFieldC08b (mkRefC08b "TagList" k) H
      = .ok (mkRefC08b "TagList" H.length, H ++ [.obj "TagList" [("data", .list xs)]]) := by
  have : hCopyFieldC08b (mkRefC08b "TagList" k) = hCopyObjC08b (mkRefC08b "TagList" k) := by
    simp [hCopyFieldC08b, mkRefC08b, refIdC08b]
  rw [this]
  unfold hCopyObjC08b
  rw [HMC08b.run_bind_ok (hDeref_ok_C08b H _ k _ h)]
  rfl


/-- the entries of a stored attribute dict as heap values -/
def attrKvsC08b (a : Attrs) : List (Str × PVal) := a.map fun kv => (kv.1, embVal kv.2)

/-- nothing that was in the heap is touched by an extension -/
theorem getElem?_append_some_C08b {H L : List PVal} {j : Nat} {o : PVal} (h : H[j]? = some o) : (H ++ L)[j]? = some o := by
  rw [List.getElem?_append_left (getElem?_lt_C08b h)]; exact h

/-! ### `_copy_tag_nodes` over the heap: one pass of its loop, as a function of the position and the child -/

/-- what one pass of the loop of `_copy_tag_nodes` does (`cp`: the new list, `i`: the position, `child`: the item there) -/
def copyPassC08b (G : Globals) (fuel : Nat) (cp i child : PVal) : HMC08b PUnit :=
  if isInstance child ["Tag"] then do
    let c ← hCopyDispC08b (Tag_copyHC08b G) (HTMLDependency_copyHC08b G fuel) child
    let r ← copy_tag_nodesHC08b G fuel (← hGetAttrC08b child "children")
    hSetAttrC08b c "children" r
    hSetItemUC08b cp i c
  else if isInstance child ["MetadataNode"] then do
    let c ← hCopyDispC08b (Tag_copyHC08b G) (HTMLDependency_copyHC08b G fuel) child
    hSetItemUC08b cp i c
  else pure ⟨⟩

/-- `x` does to the heap what `y` does and yields some loop state -/
def YieldsLikeC08b {σ : Type} (x : Except PyErr (ForInStep σ × List PVal)) (y : Except PyErr (PUnit × List PVal)) : Prop :=
  match y with
  | .ok (_, H') => ∃ s', x = .ok (.yield s', H')
  | .error e => x = .error e

theorem YieldsLikeC08b.bind {σ α : Type} (A : HMC08b α) (k : α → HMC08b (ForInStep σ)) (k' : α → HMC08b PUnit) (H : List PVal)
    (h : ∀ a H', YieldsLikeC08b (k a H') (k' a H')) : YieldsLikeC08b ((A >>= k) H) ((A >>= k') H) := by
  rw [HMC08b.run_bind, HMC08b.run_bind]
  cases hA : A H with
  | error e => exact rfl
  | ok r => obtain ⟨a, H'⟩ := r; exact h a H'

theorem YieldsLikeC08b.last {σ : Type} (D : HMC08b PUnit) (s : σ) (H : List PVal) :
    YieldsLikeC08b ((D >>= fun _ => pure (ForInStep.yield s)) H) (D H) := by
  rw [HMC08b.run_bind]
  cases hD : D H with
  | error e => exact rfl
  | ok r => obtain ⟨u, H'⟩ := r; exact ⟨s, rfl⟩

theorem YieldsLikeC08b.pure {σ : Type} (s : σ) (H : List PVal) :
    YieldsLikeC08b ((pure (ForInStep.yield s) : HMC08b (ForInStep σ)) H) ((pure ⟨⟩ : HMC08b PUnit) H) := ⟨s, rfl⟩

/-- `enumerate` of a list, from position `m` on -/
def enumFromC08b : Nat → List PVal → List PVal
  | _, [] => []
  | m, v :: r => PVal.tuple [PVal.int (m : Nat), v] :: enumFromC08b (m + 1) r

theorem enum_range_C08b' (m : Nat) (vs : List PVal) :
    ((List.range' m vs.length).zip vs).map (fun p => PVal.tuple [PVal.int (p.1 : Nat), p.2]) = enumFromC08b m vs := by
  induction vs generalizing m with
  | nil => rfl
  | cons v r ih => simp [List.range'_succ, enumFromC08b, ih (m + 1)]

theorem enum_eq_C08b (vs : List PVal) :
    ((List.range vs.length).zip vs).map (fun p => PVal.tuple [PVal.int (p.1 : Nat), p.2]) = enumFromC08b 0 vs := by
  rw [List.range_eq_range']; exact enum_range_C08b' 0 vs

/-- the loop over the items from position `m` on, as the sequence of its passes -/
def copyLoopC08b (G : Globals) (fuel : Nat) (cp : PVal) : Nat → List PVal → HMC08b PUnit
  | _, [] => pure ⟨⟩
  | m, v :: r => do
    copyPassC08b G fuel cp (.int (m : Nat)) v
    copyLoopC08b G fuel cp (m + 1) r

/-- whatever the loop body and the loop state are: if every pass does to the heap what `copyPassC08b` does, the loop
    followed by code that does not read the loop state is the sequence of passes followed by that code -/
theorem forIn_copyLoop_C08b {σ α : Type} (G : Globals) (fuel : Nat) (cp : PVal) (f : PVal → σ → HMC08b (ForInStep σ))
    (hf : ∀ (m : Nat) (v : PVal) (s : σ) (H : List PVal),
      YieldsLikeC08b (f (.tuple [.int (m : Nat), v]) s H) (copyPassC08b G fuel cp (.int (m : Nat)) v H))
    (k : HMC08b α) (vs : List PVal) (m : Nat) (init : σ) (H : List PVal) :
    (forIn (enumFromC08b m vs) init f >>= fun _ => k) H = (copyLoopC08b G fuel cp m vs >>= fun _ => k) H := by
  induction vs generalizing m init H with
  | nil => rfl
  | cons v r ih =>
    simp only [enumFromC08b, List.forIn_cons, copyLoopC08b, bind_assoc]
    have h := hf m v init H
    rw [HMC08b.run_bind, HMC08b.run_bind]
    cases hp : copyPassC08b G fuel cp (.int (m : Nat)) v H with
    | error e =>
      rw [hp] at h
      simp only [YieldsLikeC08b] at h
      rw [h]
    | ok p =>
      obtain ⟨u, H'⟩ := p
      rw [hp] at h
      obtain ⟨s', hs'⟩ := h
      rw [hs']
      exact ih (m + 1) s' H'


theorem pair_fst_C08b {α β : Type} (a : α) (b : β) : (a, b).fst = a := rfl
theorem pair_snd_C08b {α β : Type} (a : α) (b : β) : (a, b).snd = b := rfl

theorem pyEnumerate_list_C08b (vs : List PVal) : pyEnumerate (.list vs) = .ok (.list (enumFromC08b 0 vs)) := by
  simp only [pyEnumerate, pyIter_list, ok_bind, pure_eq_ok, enum_eq_C08b]

/-! ### what a heap must hold for a tree; frames -/

/-- a TagList object with these items -/
abbrev tagListObjC08b (xs : List PVal) : PVal := .obj "TagList" [("data", .list xs)]

mutual
  /-- the trees `src_copy_tag_nodes_heap_C08b_partial` covers: tags, strings, `HTML`, self-rendering objects, bare metadata nodes -/
  def plainTreeC08b : ITree → Bool
    | .tag _ _ _ _ _ _ kids => plainTreesC08b kids
    | .text _ => true
    | .html _ => true
    | .robj _ => true
    | .mnode _ _ => true
    | .dep .. => false
    | .tobjL .. => false
    | .tobj1 .. => false
  def plainTreesC08b : ITrees → Bool
    | .nil => true
    | .cons h t => plainTreeC08b h && plainTreesC08b t
end

mutual
  theorem plainTree_noTobj_C08b (x : ITree) (h : plainTreeC08b x = true) : x.noTobj = true := by
    cases x with
    | tag i a k nm ws at' kids => simpa [ITree.noTobj] using plainTrees_noTobj_C08b kids (by simpa [plainTreeC08b] using h)
    | dep i d hh hid hd => simp [plainTreeC08b] at h
    | tobjL rh c => simp [plainTreeC08b] at h
    | tobj1 rh c => simp [plainTreeC08b] at h
    | _ => rfl
  theorem plainTrees_noTobj_C08b (ks : ITrees) (h : plainTreesC08b ks = true) : ks.noTobjAll = true := by
    cases ks with
    | nil => rfl
    | cons x t =>
      simp only [plainTreesC08b, Bool.and_eq_true] at h
      simp [ITrees.noTobjAll, plainTree_noTobj_C08b x h.1, plainTrees_noTobj_C08b t h.2]
end

mutual
  /-- fuel for `_copy_tag_nodes` over the heap on such trees: one level per Tag nesting -/
  def cpFuelIC08b : ITree → Nat
    | .tag _ _ _ _ _ _ k => cpFuelKidsIC08b k + 1
    | _ => 0
  def cpFuelKidsIC08b : ITrees → Nat
    | .nil => 0
    | .cons h t => max (cpFuelIC08b h) (cpFuelKidsIC08b t)
end

mutual
  /-- the value `v` stands for the tree `x` in the heap `H`: a Tag is a reference to a Tag object whose `attrs` / `children`
      are references to its TagAttrDict / TagList objects (at the model's ids), whose items stand for the children; a bare
      metadata node is a reference to its object; strings, `HTML` and self-rendering objects are values -/
  def ReprC08b (H : List PVal) : ITree → PVal → Prop
    | .text s, v => v = .str s
    | .html s, v => v = .html s
    | .robj s, v => v = .obj "ReprObj" [("_repr_html_", .str s)]
    | .mnode i n, v => v = mkRefC08b "MetadataNode" i ∧ H[i]? = some (.obj "MetadataNode" [("n", .int n)])
    | .tag i a k nm ws at' kids, v =>
      v = mkRefC08b "Tag" i ∧ ∃ vs, TagAtC08b H i a k nm ws (attrKvsC08b at') vs ∧ ReprsC08b H kids vs
    | .dep .., _ => False
    | .tobjL .., _ => False
    | .tobj1 .., _ => False
  def ReprsC08b (H : List PVal) : ITrees → List PVal → Prop
    | .nil, vs => vs = []
    | .cons x xs, vs => ∃ v r, vs = v :: r ∧ ReprC08b H x v ∧ ReprsC08b H xs r
end

mutual
  /-- a heap that agrees with `H` on the ids of the tree represents it as well -/
  theorem ReprC08b.frame (H H' : List PVal) (x : ITree) (v : PVal) (h : ReprC08b H x v)
      (hf : ∀ j ∈ x.ids, H'[j]? = H[j]?) : ReprC08b H' x v := by
    cases x with
    | text s => exact h
    | html s => exact h
    | robj s => exact h
    | mnode i n =>
      obtain ⟨rfl, hi⟩ := h
      exact ⟨rfl, by rw [hf i (by simp [ITree.ids])]; exact hi⟩
    | tag i a k nm ws at' kids =>
      obtain ⟨rfl, vs, ht, hk⟩ := h
      refine ⟨rfl, vs, ⟨?_, ?_, ?_⟩, ReprsC08b.frame H H' kids vs hk (fun j hj => hf j (by simp [ITree.ids, hj]))⟩
      · rw [hf i (by simp [ITree.ids])]; exact ht.tag
      · rw [hf a (by simp [ITree.ids])]; exact ht.attrs
      · rw [hf k (by simp [ITree.ids])]; exact ht.kids
    | dep i d hh hid hd => exact h.elim
    | tobjL rh c => exact h.elim
    | tobj1 rh c => exact h.elim
  theorem ReprsC08b.frame (H H' : List PVal) (ks : ITrees) (vs : List PVal) (h : ReprsC08b H ks vs)
      (hf : ∀ j ∈ ks.idsAll, H'[j]? = H[j]?) : ReprsC08b H' ks vs := by
    cases ks with
    | nil => exact h
    | cons x t =>
      obtain ⟨v, r, rfl, hx, ht⟩ := h
      exact ⟨v, r, rfl, ReprC08b.frame H H' x v hx (fun j hj => hf j (by simp [ITrees.idsAll, hj])),
        ReprsC08b.frame H H' t r ht (fun j hj => hf j (by simp [ITrees.idsAll, hj]))⟩
end

/-! ### the heap primitives on references -/

theorem hCopyDisp_tag_C08b (tg dp : PVal → HMC08b PVal) (i : Nat) :
    hCopyDispC08b tg dp (mkRefC08b "Tag" i) = tg (mkRefC08b "Tag" i) := by
  simp [hCopyDispC08b, mkRefC08b, refIdC08b]

theorem hCopyDisp_field_C08b (tg dp : PVal → HMC08b PVal) (c : String) (i : Nat) (h1 : c ≠ "Tag") (h2 : c ≠ "HTMLDependency")
    (h3 : c ≠ "HTMLDocument") : hCopyDispC08b tg dp (mkRefC08b c i) = hCopyFieldC08b (mkRefC08b c i) := by
  unfold hCopyDispC08b mkRefC08b
  split
  · next hh => cases hh; exact absurd rfl h1
  · next hh => cases hh; exact absurd rfl h2
  · next hh => cases hh; exact absurd rfl h3
  · rfl

theorem hCopyDisp_taglist_C08b (tg dp : PVal → HMC08b PVal) (H : List PVal) (k : Nat) (xs : List PVal)
    (h : H[k]? = some (tagListObjC08b xs)) :
    hCopyDispC08b tg dp (mkRefC08b "TagList" k) H = .ok (mkRefC08b "TagList" H.length, H ++ [tagListObjC08b xs]) := by
  rw [hCopyDisp_field_C08b tg dp "TagList" k (by decide) (by decide) (by decide)]
  exact hCopyObj_taglist_C08b H k xs h

theorem hCopyDisp_meta_C08b (tg dp : PVal → HMC08b PVal) (H : List PVal) (i : Nat) (fs : List (String × PVal))
    (h : H[i]? = some (.obj "MetadataNode" fs)) :
    hCopyDispC08b tg dp (mkRefC08b "MetadataNode" i) H
      = .ok (mkRefC08b "MetadataNode" H.length, H ++ [.obj "MetadataNode" fs]) := by
  rw [hCopyDisp_field_C08b tg dp "MetadataNode" i (by decide) (by decide) (by decide)]
  have : hCopyFieldC08b (mkRefC08b "MetadataNode" i) = hCopyObjC08b (mkRefC08b "MetadataNode" i) := by
    simp [hCopyFieldC08b, mkRefC08b, refIdC08b]
  rw [this]
  unfold hCopyObjC08b
  rw [HMC08b.run_bind_ok (hDeref_ok_C08b H _ i _ h)]
  rfl

theorem hGetAttr_ref_C08b (H : List PVal) (c : String) (i : Nat) (o : PVal) (name : String) (v : PVal) (h : H[i]? = some o)
    (hv : pyGetAttr o name = .ok v) : hGetAttrC08b (mkRefC08b c i) name H = .ok (v, H) := by
  unfold hGetAttrC08b
  simp only [refId_mkRef_C08b]
  rw [HMC08b.run_bind_ok (hDeref_ok_C08b H c i o h)]
  simp only [hv, HMC08b.lift_ok]
  rfl

theorem hSetAttr_ok_C08b (H : List PVal) (c c' : String) (i : Nat) (fs : List (String × PVal)) (name : String) (v : PVal)
    (h : H[i]? = some (.obj c' fs)) :
    hSetAttrC08b (mkRefC08b c i) name v H = .ok (⟨⟩, H.set i (.obj c' (fieldSet name v fs))) := by
  unfold hSetAttrC08b
  rw [HMC08b.run_bind_ok (hDeref_ok_C08b H c i _ h)]
  exact hStore_ok_C08b H c i _ (getElem?_lt_C08b h)

theorem hSetItemU_ok_C08b (H : List PVal) (c : String) (i : Nat) (xs : List PVal) (m : Nat) (v : PVal)
    (h : H[i]? = some (tagListObjC08b xs)) (hm : m < xs.length) :
    hSetItemUC08b (mkRefC08b c i) (.int (m : Nat)) v H = .ok (⟨⟩, H.set i (tagListObjC08b (xs.set m v))) := by
  unfold hSetItemUC08b
  rw [HMC08b.run_bind_ok (hDeref_ok_C08b H c i _ h)]
  have hneg : ¬ ((m : Int) < 0) := by omega
  have hge : ¬ ((m : Int) < 0 ∨ (m : Int).toNat ≥ xs.length) := by
    intro h'; rcases h' with h' | h'
    · exact hneg h'
    · simp at h'; omega
  have hge' : ¬ (False ∨ m ≥ xs.length) := by
    intro h'; rcases h' with h' | h'
    · exact h'
    · omega
  have : pySetItemU (tagListObjC08b xs) (.int (m : Nat)) v = .ok (tagListObjC08b (xs.set m v)) := by
    simp only [pySetItemU, tagListObjC08b, userListData?, fieldGet?, if_true, pySetItem, hneg, if_false, hge, pure_eq_ok,
      ok_bind, Int.toNat_natCast, fieldSet, hge']
  simp only [this, HMC08b.lift_ok, pure_bind]
  exact hStore_ok_C08b H c i _ (getElem?_lt_C08b h)

theorem hItems_ok_C08b (H : List PVal) (c : String) (i : Nat) (xs : List PVal) (h : H[i]? = some (tagListObjC08b xs)) :
    hItemsC08b (mkRefC08b c i) H = .ok (xs, H) := by
  unfold hItemsC08b
  rw [HMC08b.run_bind_ok (hDeref_ok_C08b H c i _ h)]
  rfl

/-- reading a list after `set` -/
theorem getElem?_set_ne_C08b' {α} (l : List α) (i j : Nat) (x : α) (h : i ≠ j) : (l.set i x)[j]? = l[j]? := by
  simp [List.getElem?_set, h]

theorem getElem?_set_self_C08b' {α} (l : List α) (i : Nat) (x : α) (h : i < l.length) : (l.set i x)[i]? = some x := by
  simp [List.getElem?_set, h]


end HtmlVerif.SrcTie
