/-
html_escape, as written in htmltools/_util.py:
    table = HTML_ATTRS_ESCAPE_TABLE if attr else HTML_ESCAPE_TABLE
    if not re.search("|".join(table), text): return text
    for key, value in table.items(): text = text.replace(key, value)
The tables themselves are generated from the source (Generated/Tables.lean).
-/
import HtmlVerif.Model.Str

namespace HtmlVerif

/-- `text.replace(k, v)` for a one-character key -/
def replaceChar (k : Char) (v : Str) (s : Str) : Str :=
  s.flatMap fun c => if c = k then v else [c]

/-- the `for key, value in table.items()` loop: sequential passes in table order -/
def seqReplace : List (Char × Str) → Str → Str
  | [], s => s
  | (k, v) :: t, s => seqReplace t (replaceChar k v s)

/-- the `re.search("|".join(table), text)` guard, for single-character literal keys -/
def needsEscape (tbl : List (Char × Str)) (s : Str) : Bool :=
  s.any fun c => tbl.any fun kv => kv.1 == c

def htmlEscapeT (tbl : List (Char × Str)) (s : Str) : Str :=
  if needsEscape tbl s then seqReplace tbl s else s

/-- per-character specification: first table entry for the character, else itself -/
def escCharT (tbl : List (Char × Str)) (c : Char) : Str :=
  match tbl.find? (fun kv => kv.1 == c) with
  | some kv => kv.2
  | none => [c]

end HtmlVerif
