/-
Specification side of C06: the documented line layout, written as a line-oriented pretty-printer
that never mentions the renderer's loop state.
A layout is a list of lines `(indent level, content)`.
-/
import HtmlVerif.Spec.Flat

namespace HtmlVerif

abbrev Line := Nat × Str

/-- lines joined by `eol`, each indented two spaces per level -/
def joinLines (eol : Str) : List Line → Str
  | [] => []
  | [(i, s)] => indentStr i ++ s
  | (i, s) :: l :: ls => indentStr i ++ s ++ eol ++ joinLines eol (l :: ls)

/-- every line preceded by `eol` -/
def pjoin (eol : Str) (ls : List Line) : Str := ls.flatMap fun l => eol ++ indentStr l.1 ++ l.2

mutual
  /-- inline tags contain no block tags (the premise of the documented layout) -/
  def Node.valid : Node → Bool
    | .tag _ ws _ kids => if ws then kids.validKids else kids.noWsKids
    | _ => true
  def Nodes.validKids : Nodes → Bool
    | .nil => true
    | .cons h t => h.valid && t.validKids
end

/-- a block (whitespace-enabled) tag -/
def Node.isBlock : Node → Bool
  | .tag _ ws _ _ => ws
  | _ => false

mutual
  /-- one line for inline tags, empty tags and tags with a single text child; otherwise the opening tag,
      the children's lines one level deeper, and the closing tag aligned with the opening tag -/
  def Node.layout (cfg : Cfg) : Node → Nat → List Line
    | .tag name ws attrs kids, i =>
      if !ws || kids.visible.isEmpty || (inlineChild? kids.visible).isSome then
        [(i, (Node.tag name ws attrs kids).flat cfg)]
      else
        (i, openTag cfg name attrs ++ ['>'])
          :: kids.groupLines cfg (i + 1) (!cfg.noesc.contains name) none ++ [(i, closeTag name)]
    | _, _ => []
  /-- the sibling rule: each maximal run of adjacent non-block children is one line (their flat forms
      concatenated), each block child is laid out on its own lines; `cur` is the run being collected -/
  def Nodes.groupLines (cfg : Cfg) : Nodes → Nat → Bool → Option Str → List Line
    | .nil, _, _, none => []
    | .nil, lvl, _, some run => [(lvl, run)]
    | .cons h t, lvl, esc, cur =>
      if h.isMeta then t.groupLines cfg lvl esc cur
      else if h.isBlock then
        (match cur with | none => [] | some run => [(lvl, run)])
          ++ h.layout cfg lvl ++ t.groupLines cfg lvl esc none
      else t.groupLines cfg lvl esc (some (cur.getD [] ++ h.flatIn cfg esc))
end

end HtmlVerif
