"""Translator plug-in for `render()`, the string views and `head_content` (C09 / C08 / C18; DESIGN §14).

Functions (callees first; every one takes a fuel argument because it calls the fuel-recursive `tagify` /
`get_dependencies` / `get_html_string` / `TagList.__init__`):

  TagList.render, Tag.render                      -> TagList_render, Tag_render
  _render_tag_or_taglist, Tag.__str__, TagList.__str__   -> render_tag_or_taglist, Tag_str, TagList_str
  hash_deterministic (htmltools/_util.py)         -> hash_deterministic
  head_content                                    -> head_content

New syntax, confined to the functions of this plug-in (`MINE`):

* `x.tagify()` / `x.render()` (no arguments): decided at run time by the class of the receiver — `Tag` / `TagList` go to
  the translated methods; for `tagify` any other instance goes to `pyTagifyObj` (the value its `tagify()` returns is
  recorded in the instance, as in harness/pytr_c10.py); for `render` any other receiver is `pyRenderOtherC18`
  (AttributeError for the value kinds that have no such attribute, `unsupported` for an instance of a foreign class).
  `x.get_dependencies()` / `x.get_html_string()` go through the translator's ordinary `DISPATCH`.
* `from . import html_dependency_render_mode` as a statement **of the function body** (not nested): binds the local name
  to the value the package attribute has at that moment, `G.renderModeC18` (Py/Val.lean; the harness / the theorem says
  what it is).  Conditions checked: the statement is at the top level of the body, the name is bound by nothing else in
  the function and is not a parameter; a use of the name textually before the statement is refused (Python would raise
  UnboundLocalError).  Between the import and the uses nothing can rebind the local, so reading it once is faithful.
* `x.serialize_to_script_json()` (no arguments): `HTMLDependency.serialize_to_script_json` is NOT translated (`json.dumps`
  is outside the fragment).  It is the primitive `pySerializeToScriptJsonC18` (Py/PrimC18.lean), which returns the value
  recorded in the dependency object under the field `serialize_to_script_json` — the `<script>` Tag the real method
  returns for that object (in the spirit of `pyReprHtml` / `pyTagifyObj`); AttributeError for a receiver without it.
* `hashlib.sha1(s.encode("utf-8")).hexdigest()`: `pySha1HexC18 G s` — SHA-1 is not translated; the digest function is a
  parameter, `G.sha1HexC18` (the driver supplies the executable `Model/Sha1.lean`; the theorem is for every `H`).
* `HTMLDependency(k=v, …)`: the translated `HTMLDependency.__init__` (harness/pytr_c10b.py) on a new, empty instance.
  Conditions: the class is the one of this module whose `__init__` was translated, it defines no `__new__`, and neither
  does its only base `MetadataNode` (checked on the source).
* `TagList(*args)` is handled by the constructor hook of harness/pytr_c14.py (the translated `TagList.__init__`).
"""
from __future__ import annotations

import ast
import os

MINE = {"TagList_render", "Tag_render", "render_tag_or_taglist", "Tag_str", "TagList_str", "hash_deterministic",
        "head_content"}

RENDER_MODE = "html_dependency_render_mode"

_T = None
_mods: dict[str, ast.Module] = {}


def _module(fn) -> ast.Module:
    path = os.path.join(_T.repo(), fn.spec.file)
    if path not in _mods:
        with open(path, encoding="utf-8") as f:
            _mods[path] = ast.parse(f.read())
    return _mods[path]


def _classdef(fn, name: str):
    return next((n for n in _module(fn).body if isinstance(n, ast.ClassDef) and n.name == name), None)


def _defines(cdef: ast.ClassDef, name: str) -> bool:
    return any(isinstance(m, (ast.FunctionDef, ast.AsyncFunctionDef)) and m.name == name
               or isinstance(m, ast.Assign) and any(isinstance(t, ast.Name) and t.id == name for t in m.targets)
               for m in cdef.body)


def _shadowed(fn, *names):
    for n in names:
        if n in fn.all_params or n in fn.locals:
            raise _T.Untranslatable(f"the name `{n}` is shadowed by a local")


def _method_dispatch(fn, e: ast.Call, meth: str, other: str) -> str:
    """`x.<meth>()` decided by the class of x at run time over the translated `Tag.<meth>` / `TagList.<meth>`"""
    if e.args or e.keywords:
        raise _T.Untranslatable(f"{meth}() with arguments")
    recv = fn.V(e.func.value)
    arms = []
    for cls in ("Tag", "TagList"):
        info = fn.pick(f"{cls}.{meth}")
        if info is None or not info.available:
            raise _T.Untranslatable(f"method {cls}.{meth} is not translated")
        arms.append(f'| "{cls}" => (do pure {fn.call_known(info, [], [], recv=recv)})')
    return f"(← match pyClassOf {recv} with " + " ".join(arms) + f" | _ => {other} {recv})"


def _is_sha1_hex(e) -> bool:
    """hashlib.sha1(<x>.encode("utf-8")).hexdigest()"""
    if not (isinstance(e, ast.Call) and isinstance(e.func, ast.Attribute) and e.func.attr == "hexdigest"
            and not e.args and not e.keywords):
        return False
    c = e.func.value
    if not (isinstance(c, ast.Call) and isinstance(c.func, ast.Attribute) and c.func.attr == "sha1"
            and isinstance(c.func.value, ast.Name) and c.func.value.id == "hashlib" and len(c.args) == 1 and not c.keywords):
        return False
    enc = c.args[0]
    return (isinstance(enc, ast.Call) and isinstance(enc.func, ast.Attribute) and enc.func.attr == "encode"
            and not enc.keywords and (not enc.args or (len(enc.args) == 1 and isinstance(enc.args[0], ast.Constant)
                                                       and enc.args[0].value in ("utf-8", "utf8", "UTF-8"))))


def _expr_hook(fn, e):
    if fn.spec.lean not in MINE:
        return None
    T = _T
    if isinstance(e, ast.Call) and isinstance(e.func, ast.Attribute):
        if e.func.attr == "tagify":
            return _method_dispatch(fn, e, "tagify", "pyTagifyObj")
        if e.func.attr == "render":
            return _method_dispatch(fn, e, "render", "pyRenderOtherC18")
        if e.func.attr == "serialize_to_script_json":
            if e.args or e.keywords:
                raise T.Untranslatable("serialize_to_script_json() with arguments")
            return f"(← pySerializeToScriptJsonC18 {fn.V(e.func.value)})"
        if _is_sha1_hex(e):
            _shadowed(fn, "hashlib")
            return f"(← pySha1HexC18 G {fn.V(e.func.value.args[0].func.value)})"
    if isinstance(e, ast.Call) and isinstance(e.func, ast.Name) and e.func.id == "HTMLDependency":
        _shadowed(fn, "HTMLDependency")
        info = fn.known.get("HTMLDependency_init")
        if info is None or not info.available:
            raise T.Untranslatable("HTMLDependency.__init__ is not translated")
        cdef = _classdef(fn, "HTMLDependency")
        if (info.spec.file != fn.spec.file or info.spec.qual != "HTMLDependency.__init__" or cdef is None
                or not info.spec.returns_self or _defines(cdef, "__new__") or cdef.keywords
                or len(cdef.bases) != 1 or not isinstance(cdef.bases[0], ast.Name)):
            raise T.Untranslatable("constructor call of HTMLDependency: not the plain class of this module")
        base = _classdef(fn, cdef.bases[0].id)
        if base is None or base.bases or base.keywords or _defines(base, "__new__") or _defines(base, "__init__") \
                or _defines(base, "__init_subclass__"):
            raise T.Untranslatable("constructor call of HTMLDependency: its base class is not a plain class")
        return fn.call_known(info, e.args, e.keywords, recv='(PVal.obj "HTMLDependency" [])')
    return None


def _stmt_hook(fn, ind: int, s: ast.stmt):
    if fn.spec.lean not in MINE:
        return False
    T = _T
    if isinstance(s, ast.ImportFrom):
        if not (s.level == 1 and s.module is None and len(s.names) == 1 and s.names[0].name == RENDER_MODE
                and s.names[0].asname is None):
            raise T.Untranslatable("import statement in a function body (other than `from . import html_dependency_render_mode`)")
        if s not in fn.node.body:
            raise T.Untranslatable("`from . import html_dependency_render_mode` nested in another statement")
        if RENDER_MODE in fn.all_params or RENDER_MODE in fn.locals:
            raise T.Untranslatable(f"`{RENDER_MODE}` is also bound by an assignment / is a parameter")
        n_imports = sum(1 for n in ast.walk(fn.node) if isinstance(n, (ast.Import, ast.ImportFrom)))
        if n_imports != 1 or any(isinstance(n, (ast.Global, ast.Nonlocal, ast.Delete, ast.NamedExpr, ast.Lambda)) for n in ast.walk(fn.node)) \
                or any(isinstance(n, (ast.FunctionDef, ast.AsyncFunctionDef, ast.ClassDef)) and n is not fn.node for n in ast.walk(fn.node)):
            raise T.Untranslatable("`from . import html_dependency_render_mode` next to other binding constructs")
        v = fn.fresh("mode")
        fn.emit(ind, f"let {v} : PVal := G.renderModeC18")
        # from here on the name denotes that value (a use before this statement finds no binding: refused as a free name)
        fn.scopes = fn.scopes + [{RENDER_MODE: v}]
        return True
    return False


def register(T):
    global _T
    _T = T
    F = "htmltools/_core.py"
    T.SPECS += [
        T.FnSpec(F, "TagList.render", "TagList_render", recursive=True),
        T.FnSpec(F, "Tag.render", "Tag_render", recursive=True),
        T.FnSpec(F, "_render_tag_or_taglist", "render_tag_or_taglist", recursive=True),
        T.FnSpec(F, "Tag.__str__", "Tag_str", recursive=True),
        T.FnSpec(F, "TagList.__str__", "TagList_str", recursive=True),
        T.FnSpec("htmltools/_util.py", "hash_deterministic", "hash_deterministic"),
        T.FnSpec(F, "head_content", "head_content", recursive=True),
    ]
    T.ARITY.update({"TagList_render": 1, "Tag_render": 1, "render_tag_or_taglist": 1, "Tag_str": 1, "TagList_str": 1,
                    "hash_deterministic": 1, "head_content": 1})
    if "HtmlVerif.Py.PrimC18" not in T.IMPORTS:
        T.IMPORTS.append("HtmlVerif.Py.PrimC18")
    # first in line: the statement hook of harness/pytr_c14.py refuses every import statement it does not know
    T.EXPR_HOOKS.insert(0, _expr_hook)
    T.STMT_HOOKS.insert(0, _stmt_hook)
