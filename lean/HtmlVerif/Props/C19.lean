/-
C19 — Every tag function creates its own element with the documented default.
All statements are over tables regenerated from the source by harness/translate.py on every run,
so the kernel re-checks them against what tags.py / svg.py / __init__.py / generate_tags.py say now.
-/
import HtmlVerif.Generated.Tables
import HtmlVerif.Generated.TagFns
import HtmlVerif.Model.TagFn
import HtmlVerif.Spec.TagCensus

namespace HtmlVerif.C19
open HtmlVerif HtmlVerif.Generated HtmlVerif.TagCensus

/-- every function body is exactly `return Tag("<lit>", *args, _add_ws=_add_ws, **kwargs)` with signature
    `(*args, _add_ws=<bool constant>, **kwargs)`: children, dicts and keywords are forwarded untouched -/
theorem C19_shape : allFns.all (·.shapeOk) = true := by decide +kernel

/-- the element name is the function's own name -/
theorem C19_name : allFns.all (fun r => r.tagLit == r.fnName) = true := by decide +kernel

/-- default whitespace flag: inline exactly for the names the project classifies as inline -/
theorem C19_default : allFns.all (fun r => r.dflt == !inlineNames.contains r.fnName) = true := by
  decide +kernel

/-- per module, no function name is defined twice (so the table rows are the exported functions) -/
theorem C19_distinct :
    (htmlFns.map (·.fnName)).Nodup ∧ (svgFns.map (·.fnName)).Nodup := by decide +kernel

/-- the tables were read from displays of the required shape, and are non-empty -/
theorem C19_tables_ok : allShapesOk = true ∧ htmlFns ≠ [] ∧ svgFns ≠ [] ∧ inlineNames ≠ [] := by
  decide +kernel

/-- top-level shortcuts: imported unrenamed from `.tags`, exported in `__all__`, and rows of the html table -/
theorem C19_reexport :
    reexportShapeOk = true ∧ reexports ≠ [] ∧
    reexports.all (fun n => initAll.contains n && htmlFns.any (fun r => r.fnName == n)) = true := by
  decide +kernel

/-- **census** (by name, never by count): every public tag function of the pinned tree — the 113 html and 66 svg
    wrappers and the 17 top-level shortcuts the property quantifies over, recorded by harness/mkcensus.py — still
    has a row (so `C19_shape/_name/_default/_call` speak about it) / is still imported from `.tags` and exported in
    `__all__`.  Rows that were added since are allowed (the harness lists them in the evidence). -/
theorem C19_census :
    censusHtml.all (fun n => htmlFns.any (fun r => r.fnName == n)) = true ∧
    censusSvg.all (fun n => svgFns.any (fun r => r.fnName == n)) = true ∧
    censusTop.all (fun n => reexports.contains n && initAll.contains n) = true := by
  decide +kernel

/-- what the modules themselves declare: every name in `tags.__all__` is a wrapper of tags.py; and every name of
    the `__all__` that scripts/generate_tags.py writes into tags.py (when the translator located it) is a wrapper
    and is in the current `tags.__all__` -/
theorem C19_declared_exports :
    tagsAll.all (fun n => htmlFns.any (fun r => r.fnName == n)) = true ∧
    (match genTagsAll with
     | none => true
     | some g => g.all (fun n => htmlFns.any (fun r => r.fnName == n) && tagsAll.contains n)) = true := by
  decide +kernel

/-- the census is not vacuous -/
example : censusHtml.length ≥ 100 ∧ censusSvg.length ≥ 60 ∧ censusTop.length ≥ 17 ∧
    censusHtml.contains ['l','a','b','e','l'] = true ∧ censusSvg.contains ['t','e','x','t','P','a','t','h'] = true := by
  decide +kernel

/-- calling any wrapper: default flag when `_add_ws` is omitted, explicit bool honoured, non-bool rejected -/
theorem C19_call (r : TagFnRow) (h : r ∈ allFns) :
    callWrapper r none = some (r.fnName, !inlineNames.contains r.fnName) ∧
    (∀ b, callWrapper r (some (.bool b)) = some (r.fnName, b)) ∧
    callWrapper r (some .other) = none := by
  have hn := List.all_eq_true.mp C19_name r h
  have hd := List.all_eq_true.mp C19_default r h
  simp only [beq_iff_eq] at hn hd
  refine ⟨?_, ?_, ?_⟩ <;> simp [callWrapper, tagInitWs, hn, hd]

/-- non-vacuity: the table really contains e.g. `div` (block) and `span` (inline) -/
example : allFns.any (fun r => r.fnName == ['d','i','v'] && r.dflt) = true
    ∧ allFns.any (fun r => r.fnName == ['s','p','a','n'] && !r.dflt) = true := by decide +kernel

end HtmlVerif.C19
