/-
Helper lemmas for C14 (flatten-then-convert vs the one-pass specification, list algebra).
-/
import HtmlVerif.Spec.Children

namespace HtmlVerif

@[simp] theorem Args.toList_ofList (l : List Arg) : (Args.ofList l).toList = l := by
  induction l with
  | nil => rfl
  | cons h t ih => simp [Args.ofList, Args.toList, ih]

@[simp] theorem Args.ofList_toList (xs : Args) : Args.ofList xs.toList = xs := by
  induction xs using Args.rec (motive_1 := fun _ => True) with
  | nil => rfl
  | cons h t _ ih => simp [Args.ofList, Args.toList, ih]
  | _ => trivial

theorem Node.isTagNode_true (n : Node) : n.isTagNode = true := by
  cases n <;> rfl

/-! ### the accumulator of `_flatten_recurse` only ever grows at the end -/

mutual
  theorem Arg.flattenItem_acc (a : Arg) (acc : List Arg) :
      a.flattenItem acc = acc ++ a.flattenItem [] := by
    cases a with
    | list xs => simpa [Arg.flattenItem] using Args.flattenInto_acc xs acc
    | tuple xs => simpa [Arg.flattenItem] using Args.flattenInto_acc xs acc
    | taglist xs => simpa [Arg.flattenItem] using Args.flattenInto_acc xs acc
    | _ => simp [Arg.flattenItem]
  theorem Args.flattenInto_acc (xs : Args) (acc : List Arg) :
      xs.flattenInto acc = acc ++ xs.flattenInto [] := by
    cases xs with
    | nil => simp [Args.flattenInto]
    | cons h t =>
      simp only [Args.flattenInto]
      rw [Args.flattenInto_acc t (h.flattenItem acc), Args.flattenInto_acc t (h.flattenItem []),
        Arg.flattenItem_acc h acc]
      simp
end

theorem flatten_cons (h : Arg) (t : Args) :
    flatten (.cons h t) = h.flattenItem [] ++ flatten t := by
  simp only [flatten, Args.flattenInto]
  exact Args.flattenInto_acc t _

/-! ### the conversion loop distributes over concatenation -/

/-- sequencing of two fallible results, first error wins -/
def both {α} (a b : Except Err (List α)) : Except Err (List α) :=
  match a with
  | .error e => .error e
  | .ok x =>
    match b with
    | .error e => .error e
    | .ok y => .ok (x ++ y)

theorem convertLoop_append (a b : List Arg) :
    convertLoop (a ++ b) = both (convertLoop a) (convertLoop b) := by
  induction a with
  | nil => cases h : convertLoop b <;> simp [convertLoop, both, h]
  | cons x r ih =>
    cases x with
    | num k t =>
      simp only [List.cons_append, convertLoop, ih]
      cases convertLoop r <;> cases convertLoop b <;> simp [both]
    | _ =>
      simp only [List.cons_append, convertLoop, ih]
      split
      · cases convertLoop r <;> cases convertLoop b <;> simp [both]
      · simp [both]

theorem Args.spec_cons (h : Arg) (t : Args) : (Args.cons h t).spec = both h.spec t.spec := by
  simp only [Args.spec, both]
  cases h.spec <;> cases t.spec <;> rfl

theorem mapOk_both {α β} (f : α → β) (a b : Except Err (List α)) :
    mapOk (List.map f) (both a b) = both (mapOk (List.map f) a) (mapOk (List.map f) b) := by
  cases a <;> cases b <;> simp [both, mapOk]

/-! ### flatten-then-convert is the one-pass specification -/

mutual
  theorem Arg.convert_flatten (a : Arg) :
      convertLoop (a.flattenItem []) = mapOk (List.map Stored.node) a.spec := by
    cases a with
    | none => simp [Arg.flattenItem, convertLoop, Arg.spec, mapOk]
    | num k t => simp [Arg.flattenItem, convertLoop, Arg.spec, mapOk]
    | node n =>
      simp [Arg.flattenItem, convertLoop, Arg.spec, mapOk, Arg.isTagNode, Node.isTagNode_true, Stored.ofArg]
    | list xs => simpa [Arg.flattenItem, Arg.spec] using Args.convert_flatten xs
    | tuple xs => simpa [Arg.flattenItem, Arg.spec] using Args.convert_flatten xs
    | taglist xs => simpa [Arg.flattenItem, Arg.spec] using Args.convert_flatten xs
    | seqLike k xs => simp [Arg.flattenItem, convertLoop, Arg.spec, mapOk, Arg.isTagNode]
    | bad k => simp [Arg.flattenItem, convertLoop, Arg.spec, mapOk, Arg.isTagNode]
  theorem Args.convert_flatten (xs : Args) :
      convertLoop (xs.flattenInto []) = mapOk (List.map Stored.node) xs.spec := by
    cases xs with
    | nil => simp [Args.flattenInto, convertLoop, Args.spec, mapOk]
    | cons h t =>
      have e := flatten_cons h t
      simp only [flatten] at e
      rw [e, convertLoop_append, Arg.convert_flatten h, Args.convert_flatten t, Args.spec_cons, mapOk_both]
end

/-! ### specification algebra -/

theorem Args.spec_append (a b : List Arg) :
    (Args.ofList (a ++ b)).spec = both (Args.ofList a).spec (Args.ofList b).spec := by
  induction a with
  | nil => cases h : (Args.ofList b).spec <;> simp [Args.ofList, Args.spec, both, h]
  | cons x r ih =>
    simp only [List.cons_append, Args.ofList, Args.spec_cons, ih]
    cases x.spec <;> cases (Args.ofList r).spec <;> cases (Args.ofList b).spec <;> simp [both]

theorem spec_nodes (s : List Node) : (Args.ofList (s.map Arg.node)).spec = .ok s := by
  induction s with
  | nil => rfl
  | cons n r ih => simp [Args.ofList, Args.spec, Arg.spec, ih]

theorem toArgs_nodes (s : List Node) : TL.toArgs (s.map Stored.node) = Args.ofList (s.map Arg.node) := by
  simp [TL.toArgs, List.map_map, Function.comp_def, Stored.toArg]

theorem toArg_nodes (s : List Node) : TL.toArg (s.map Stored.node) = selfArg s := by
  simp [TL.toArg, selfArg, toArgs_nodes]

theorem resolve_nodes (s : List Node) (a : OArg) : a.resolve (s.map Stored.node) = a.resolveSpec s := by
  cases a <;> simp [OArg.resolve, OArg.resolveSpec, toArg_nodes]

/-- a list that satisfies the invariant is the image of its nodes -/
theorem Inv.eq_nodes {s : TL} (h : Inv s) : s = (TL.nodes s).map Stored.node := by
  induction s with
  | nil => rfl
  | cons x r ih =>
    have hx := h x (by simp)
    have hr : Inv r := fun y hy => h y (by simp [hy])
    cases x with
    | node n => simp only [TL.nodes, List.map_cons]; rw [← ih hr]
    | raw a => simp [Stored.isNode] at hx

theorem inv_nodes (s : List Node) : Inv (s.map Stored.node) := by
  intro x hx
  simp only [List.mem_map] at hx
  obtain ⟨n, _, rfl⟩ := hx
  rfl

theorem nodes_map (s : List Node) : TL.nodes (s.map Stored.node) = s := by
  induction s with
  | nil => rfl
  | cons n r ih => simp [TL.nodes, ih]

theorem invB_iff (s : TL) : invB s = true ↔ Inv s := by
  simp [invB, Inv, List.all_eq_true]

/-! ### Python index arithmetic -/

theorem clampIdx_le (len : Nat) (i : Int) : clampIdx len i ≤ len := by
  unfold clampIdx
  split <;> omega

theorem clampIdx_nonneg (len : Nat) (i : Nat) (h : i ≤ len) : clampIdx len (i : Int) = i := by
  unfold clampIdx
  split <;> omega

theorem clampIdx_neg (len : Nat) (k : Nat) (hk : 0 < k) : clampIdx len (-(k : Int)) = len - k := by
  unfold clampIdx
  split <;> omega

theorem mem_pySlice {α} (l : List α) (lo hi : Option Int) (st : Int) (x : α) (h : x ∈ pySlice l lo hi st) :
    x ∈ l := by
  simp only [pySlice, List.mem_filterMap] at h
  obtain ⟨i, _, hi⟩ := h
  exact List.mem_of_getElem? hi

theorem mem_rep {α} (n : Int) (l : List α) (x : α) (h : x ∈ rep n l) : x ∈ l := by
  simp only [rep, List.mem_flatten, List.mem_replicate] at h
  obtain ⟨l', ⟨_, rfl⟩, hx⟩ := h
  exact hx

theorem Arg.iter_error (a : Arg) (e : Err) (h : a.iter = .error e) : e = .typeError := by
  unfold Arg.iter at h
  split at h <;> cases h <;> rfl

/-! ### supported types -/

mutual
  theorem Arg.spec_of_supported (a : Arg) (h : a.supported = true) : ∃ ns, a.spec = .ok ns := by
    cases a with
    | none => exact ⟨_, rfl⟩
    | num k t => exact ⟨_, rfl⟩
    | node n => exact ⟨_, rfl⟩
    | list xs => simpa [Arg.spec] using Args.spec_of_supported xs (by simpa [Arg.supported] using h)
    | tuple xs => simpa [Arg.spec] using Args.spec_of_supported xs (by simpa [Arg.supported] using h)
    | taglist xs => simpa [Arg.spec] using Args.spec_of_supported xs (by simpa [Arg.supported] using h)
    | seqLike k xs => simp [Arg.supported] at h
    | bad k => simp [Arg.supported] at h
  theorem Args.spec_of_supported (xs : Args) (h : xs.supported = true) : ∃ ns, xs.spec = .ok ns := by
    cases xs with
    | nil => exact ⟨_, rfl⟩
    | cons x t =>
      simp only [Args.supported, Bool.and_eq_true] at h
      obtain ⟨a, ha⟩ := Arg.spec_of_supported x h.1
      obtain ⟨b, hb⟩ := Args.spec_of_supported t h.2
      exact ⟨a ++ b, by simp [Args.spec, ha, hb]⟩
end

mutual
  theorem Arg.spec_of_unsupported (a : Arg) (h : a.supported = false) : a.spec = .error .typeError := by
    cases a with
    | none => simp [Arg.supported] at h
    | num k t => simp [Arg.supported] at h
    | node n => simp [Arg.supported] at h
    | list xs => simpa [Arg.spec] using Args.spec_of_unsupported xs (by simpa [Arg.supported] using h)
    | tuple xs => simpa [Arg.spec] using Args.spec_of_unsupported xs (by simpa [Arg.supported] using h)
    | taglist xs => simpa [Arg.spec] using Args.spec_of_unsupported xs (by simpa [Arg.supported] using h)
    | seqLike k xs => rfl
    | bad k => rfl
  theorem Args.spec_of_unsupported (xs : Args) (h : xs.supported = false) : xs.spec = .error .typeError := by
    cases xs with
    | nil => simp [Args.supported] at h
    | cons x t =>
      cases hx : x.supported with
      | false => simp [Args.spec, Arg.spec_of_unsupported x hx]
      | true =>
        have ht : t.supported = false := by simpa [Args.supported, hx] using h
        obtain ⟨a, ha⟩ := Arg.spec_of_supported x hx
        simp [Args.spec, ha, Args.spec_of_unsupported t ht]
end

theorem Args.supported_ofList (l : List Arg) :
    (Args.ofList l).supported = true ↔ ∀ a ∈ l, a.supported = true := by
  induction l with
  | nil => simp [Args.ofList, Args.supported]
  | cons h t ih => simp [Args.ofList, Args.supported, ih]

/-! ### list primitives commute with the embedding of nodes -/

theorem pySlice_map {α β} (f : α → β) (l : List α) (lo hi : Option Int) (st : Int) :
    pySlice (l.map f) lo hi st = (pySlice l lo hi st).map f := by
  simp only [pySlice, List.length_map, List.map_filterMap, List.getElem?_map]

theorem rep_map {α β} (f : α → β) (n : Int) (l : List α) : rep n (l.map f) = (rep n l).map f := by
  simp [rep, List.map_flatten, List.map_replicate]

theorem flatSpec_self_cons (s : List Node) (r : List Arg) :
    flatSpec (selfArg s :: r) = mapOk (s ++ ·) (flatSpec r) := by
  simp only [flatSpec, Args.ofList, Args.spec_cons, selfArg, Arg.spec, spec_nodes]
  cases (Args.ofList r).spec <;> simp [both, mapOk]

theorem flatSpec_snoc_self (s : List Node) (r : List Arg) :
    flatSpec (r ++ [selfArg s]) = mapOk (· ++ s) (flatSpec r) := by
  have h1 : (Args.ofList [selfArg s]).spec = .ok s := by
    simp [Args.ofList, Args.spec, selfArg, Arg.spec, spec_nodes]
  simp only [flatSpec, Args.spec_append, h1]
  cases (Args.ofList r).spec <;> simp [both, mapOk]

theorem flatSpec_list_nodes (s : List Node) :
    flatSpec [.list (Args.ofList (s.map Arg.node))] = .ok s := by
  simp [flatSpec, Args.ofList, Args.spec, Arg.spec, spec_nodes]

end HtmlVerif
