import HtmlVerif.Model.Escape

namespace HtmlVerif

/-! ### html_escape as written = sequential replacement = per-character map -/

theorem replaceChar_append (k : Char) (v a b : Str) :
    replaceChar k v (a ++ b) = replaceChar k v a ++ replaceChar k v b := by
  simp [replaceChar]

theorem seqReplace_append (tbl : List (Char × Str)) (a b : Str) :
    seqReplace tbl (a ++ b) = seqReplace tbl a ++ seqReplace tbl b := by
  induction tbl generalizing a b with
  | nil => rfl
  | cons kv r ih => obtain ⟨k, v⟩ := kv; simp [seqReplace, replaceChar_append, ih]

@[simp] theorem seqReplace_nil_str (tbl : List (Char × Str)) : seqReplace tbl [] = [] := by
  induction tbl with
  | nil => rfl
  | cons kv r ih => obtain ⟨k, v⟩ := kv; simp [seqReplace, replaceChar, ih]

theorem replaceChar_of_not_mem (k : Char) (v s : Str) (h : k ∉ s) : replaceChar k v s = s := by
  induction s with
  | nil => rfl
  | cons c cs ih =>
    have hc : c ≠ k := fun e => h (by simp [e])
    have hcs : k ∉ cs := fun e => h (by simp [e])
    simp [replaceChar, hc] at ih ⊢
    exact ih hcs

/-- a string containing no key is left alone by every pass -/
theorem seqReplace_noKey (tbl : List (Char × Str)) (s : Str)
    (h : ∀ kv ∈ tbl, kv.1 ∉ s) : seqReplace tbl s = s := by
  induction tbl generalizing s with
  | nil => rfl
  | cons kv r ih =>
    obtain ⟨k, v⟩ := kv
    simp only [seqReplace]
    rw [replaceChar_of_not_mem k v s (h (k, v) (by simp))]
    exact ih s (fun kv hk => h kv (by simp [hk]))

theorem needsEscape_false_iff (tbl : List (Char × Str)) (s : Str) :
    needsEscape tbl s = false ↔ ∀ kv ∈ tbl, kv.1 ∉ s := by
  simp only [needsEscape, List.any_eq_false, List.any_eq_true, beq_iff_eq, not_exists, not_and]
  constructor
  · intro h kv hkv hmem; exact h kv.1 hmem kv hkv rfl
  · intro h c hc kv hkv e; exact h kv hkv (e ▸ hc)

/-- the regex guard is only an optimisation: html_escape is the sequential replacement, always -/
theorem htmlEscapeT_eq_seqReplace (tbl : List (Char × Str)) (s : Str) :
    htmlEscapeT tbl s = seqReplace tbl s := by
  unfold htmlEscapeT
  by_cases h : needsEscape tbl s = true
  · simp [h]
  · have h' : needsEscape tbl s = false := by simpa using h
    simp [h', seqReplace_noKey tbl s ((needsEscape_false_iff tbl s).mp h')]

/-- escaping distributes over concatenation (so escaping operands separately = escaping the whole) -/
theorem htmlEscapeT_append (tbl : List (Char × Str)) (a b : Str) :
    htmlEscapeT tbl (a ++ b) = htmlEscapeT tbl a ++ htmlEscapeT tbl b := by
  simp [htmlEscapeT_eq_seqReplace, seqReplace_append]

@[simp] theorem htmlEscapeT_nil (tbl : List (Char × Str)) : htmlEscapeT tbl [] = [] := by
  simp [htmlEscapeT_eq_seqReplace]

theorem htmlEscapeT_cons (tbl : List (Char × Str)) (c : Char) (s : Str) :
    htmlEscapeT tbl (c :: s) = htmlEscapeT tbl [c] ++ htmlEscapeT tbl s := by
  have := htmlEscapeT_append tbl [c] s
  simpa using this

theorem htmlEscapeT_flatMap (tbl : List (Char × Str)) (s : Str) :
    htmlEscapeT tbl s = s.flatMap (fun c => htmlEscapeT tbl [c]) := by
  induction s with
  | nil => simp
  | cons c cs ih => rw [htmlEscapeT_cons, ih]; simp

/-- side condition under which the *sequential* passes equal the per-character map: keys pairwise
    distinct, and no replacement text contains a key that is processed later -/
def TblOk : List (Char × Str) → Bool
  | [] => true
  | (k, v) :: r => r.all (fun kv => kv.1 != k && !v.contains kv.1) && TblOk r

theorem seqReplace_single (tbl : List (Char × Str)) (h : TblOk tbl = true) (c : Char) :
    seqReplace tbl [c] = escCharT tbl c := by
  induction tbl with
  | nil => simp [seqReplace, escCharT]
  | cons kv r ih =>
    obtain ⟨k, v⟩ := kv
    simp only [TblOk, Bool.and_eq_true, List.all_eq_true, bne_iff_ne, ne_eq, Bool.not_eq_true',
      List.contains_eq_mem, decide_eq_false_iff_not] at h
    obtain ⟨hr, hok⟩ := h
    by_cases hc : c = k
    · subst hc
      have hinert : seqReplace r v = v := seqReplace_noKey r v (fun kv hkv => (hr kv hkv).2)
      simp [seqReplace, replaceChar, escCharT, hinert]
    · have : (k == c) = false := by simpa using fun e => hc e.symm
      simp [seqReplace, replaceChar, hc, escCharT, List.find?, this, ih hok]

/-- `html_escape(text)` maps every character independently through the table -/
theorem htmlEscapeT_perChar (tbl : List (Char × Str)) (h : TblOk tbl = true) (s : Str) :
    htmlEscapeT tbl s = s.flatMap (escCharT tbl) := by
  rw [htmlEscapeT_flatMap]
  congr 1
  funext c
  rw [htmlEscapeT_eq_seqReplace, seqReplace_single tbl h c]

end HtmlVerif
