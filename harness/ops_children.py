"""Implementation side of the child-list ops (C14): realise argument terms as real Python values, run the
real TagList / Tag operations, canonicalise what the list then holds."""
from __future__ import annotations

import decimal
import fractions
import operator
import types

from adapters import HTML, Tag, TagList, canon, realize
from ops import op
from wire import (Toks, eb, elist, earg, enode, err_of, estored, p_arg, p_list, p_op)
import htmltools
from htmltools._core import _tagchilds_to_tagnodes, is_tag_child, is_tag_node
from htmltools._util import flatten

class Flex:
    """a class whose instances are tag nodes or not depending on the INSTANCE: one that carries a `_repr_html_`
    attribute is a self-rendering object, a bare one is an unsupported value (validity is a property of the value,
    not of its type)"""

    def __init__(self, s=None):
        if s is not None:
            self.s = s
            self._repr_html_ = lambda: s


# values that are neither iterable nor tag nodes (index = `bad k`)
BAD_POOL = [object(), 1j, decimal.Decimal("1.5"), len, Ellipsis, fractions.Fraction(1, 3), int, NotImplemented, Flex()]
BAD_SRC = ["object()", "1j", "decimal.Decimal('1.5')", "len", "Ellipsis", "fractions.Fraction(1, 3)", "int", "NotImplemented",
           "Flex()  # bare instance of a class whose other instances carry _repr_html_"]


# ------------------------------------------------------------------ realise
def realize_num(kind: str, txt: str):
    if kind == "i":
        v = int(txt)
    elif kind == "f":
        v = float(txt)
    else:
        v = {"True": True, "False": False}[txt]
    assert str(v) == txt, f"num term {kind} {txt!r} does not round-trip (str gives {str(v)!r})"
    return v


def realize_arg(a, this=None):
    k = a[0]
    if k == "none":
        return None
    if k == "num":
        return realize_num(a[1], a[2])
    if k == "node":
        if a[1][0] == "robj" and len(a[1][1]) % 2 == 0:
            return Flex(a[1][1])           # a valid instance of the same class as `bad 8`
        return realize(a[1])
    if k == "list":
        return [realize_arg(x) for x in a[1]]
    if k == "tuple":
        return tuple(realize_arg(x) for x in a[1])
    if k == "tl":
        t = TagList()
        t.data = [realize_arg(x) for x in a[1]]   # `.data` exactly as given, normalised or not
        return t
    if k == "seq":
        items = [realize_arg(x) for x in a[2]]
        kind = a[1]
        if kind == "bytes":
            return bytes(items)
        if kind == "range":
            assert items == list(range(len(items)))
            return range(len(items))
        if kind == "set":
            assert len(set(items)) == len(items)
            return set(items) if len(items) <= 1 else dict.fromkeys(items).keys()
        if kind == "dict":
            assert len(set(items)) == len(items)
            return {x: None for x in items}
        if kind == "gen":
            return (x for x in items)
        raise ValueError(kind)
    if k == "bad":
        return BAD_POOL[a[1] % len(BAD_POOL)]
    raise ValueError(a)


def realize_oarg(a, this: TagList):
    if a[0] == "v":
        return realize_arg(a[1])
    if a[0] == "self":
        return this
    return [realize_arg(x) for x in a[1]] + [this] + [realize_arg(x) for x in a[2]]


# ------------------------------------------------------------------ canonicalise
def canon_arg(x, _stack=()):
    """any Python value -> argument term; a container that (through a defect) contains itself is cut at the
    back-reference (`bad 98`), so a corrupted list can still be reported"""
    if x is None:
        return ("none",)
    if isinstance(x, bool):
        return ("num", "b", str(x))
    if isinstance(x, int):
        return ("num", "i", str(x))
    if isinstance(x, float):
        return ("num", "f", str(x))
    if isinstance(x, (TagList, list, tuple)):
        if id(x) in _stack or len(_stack) > 200:
            return ("bad", 98)
        st = _stack + (id(x),)
        if isinstance(x, TagList):
            return ("tl", [canon_arg(e, st) for e in x.data])
        return ("list" if isinstance(x, list) else "tuple", [canon_arg(e, st) for e in x])
    if isinstance(x, Flex):
        return ("node", ("robj", x.s)) if hasattr(x, "_repr_html_") else ("bad", len(BAD_POOL) - 1)
    c = canon(x)
    if c[0] != "raw":
        return ("node", c)
    if isinstance(x, (bytes, bytearray)):
        return ("seq", "bytes", [canon_arg(e) for e in x])
    if isinstance(x, range):
        return ("seq", "range", [canon_arg(e) for e in x])
    if isinstance(x, dict):
        return ("seq", "dict", [canon_arg(e) for e in x])
    if isinstance(x, (set, frozenset, type({}.keys()))):
        return ("seq", "set", [canon_arg(e) for e in x])
    if isinstance(x, types.GeneratorType):
        return ("seq", "gen", [canon_arg(e) for e in x])
    for i, b in enumerate(BAD_POOL):
        if x is b:
            return ("bad", i)
    return ("bad", 99)


def canon_stored(x):
    a = canon_arg(x)
    return ("n", a[1]) if a[0] == "node" else ("r", a)


def canon_state_elem(x, owner):
    a = canon_arg(x, (id(owner),))
    return ("n", a[1]) if a[0] == "node" else ("r", a)


def enc_state(tl, cache=None) -> str:
    """every element of `.data` with the real `is_tag_node` verdict; `cache` (id -> (object, text)) saves re-encoding
    elements that stay in the list from step to step (the object is kept referenced so its id stays its own)"""
    out = []
    for x in tl.data:
        hit = cache.get(id(x)) if cache is not None else None
        if hit is None or hit[0] is not x:
            hit = (x, estored(canon_state_elem(x, tl)) + " " + eb(bool(is_tag_node(x))))
            if cache is not None and not isinstance(x, (list, TagList)):   # mutable containers are re-encoded every time
                cache[id(x)] = hit
        out.append(hit[1])
    return elist(out)


# ------------------------------------------------------------------ the operations
def _preempts_radd(a) -> bool:
    """`a + x` would be answered by `type(a).__add__` (HTML's algebra, another TagList's `+`) and never reach
    `TagList.__radd__`; the reflected method is then called directly"""
    return isinstance(a, (HTML, TagList))


def apply_op(o, x: TagList, tag: Tag | None):
    """perform one operation on the receiver; returns the (possibly rebound) receiver pair (x, tag)"""
    k = o[0]
    if k == "init":
        args = [realize_arg(a) for a in o[1]]
        if tag is not None:
            tag = Tag(tag.name, *args)
            return tag.children, tag
        return TagList(*args), None
    if k == "extend":
        a = realize_oarg(o[1], x)
        (tag.extend if tag is not None else x.extend)(a)
        return x, tag
    if k == "append":
        args = [realize_oarg(a, x) for a in o[1]]
        (tag.append if tag is not None else x.append)(*args)
        return x, tag
    if k == "insert":
        a = realize_oarg(o[2], x)
        (tag.insert if tag is not None else x.insert)(o[1], a)
        return x, tag
    if k == "add":
        new = x + realize_oarg(o[1], x)
    elif k == "radd":
        a = realize_oarg(o[1], x)
        new = x.__radd__(a) if _preempts_radd(a) else a + x
    elif k == "iadd":
        new = operator.iadd(x, realize_oarg(o[1], x))
    elif k == "slice":
        new = x[o[1]:o[2]:o[3]]
    elif k == "mul":
        new = x * o[1]
    elif k == "rmul":
        new = o[1] * x
    elif k == "imul":
        new = operator.imul(x, o[1])
    else:
        raise ValueError(o)
    if tag is not None:
        tag.children = new
    return new, tag


class _Timeout(BaseException):
    pass


def _on_alarm(signum, frame):
    raise _Timeout()


HISTORY_LIMIT_S = 5.0          # CPU seconds of this process (not wall clock: a loaded machine must not look like a hang); a legitimate history takes milliseconds
HISTORY_LIMIT_AFTER_S = 0.5   # once several histories have timed out the tree is broken anyway: do not wait long for the rest
_timeouts = [0]


def run_history(is_tag: bool, ops):
    """[(outcome, encoded list right after the step)] — encoded at once because later steps mutate the list.
    Two guards keep a broken implementation from hanging the check: a wall-clock limit per history (a step that does
    not return is reported as `err timeout` and ends the trace), and a history stops after the first step that leaves a
    container *inside* the list (only a defect can do that; such lists can contain themselves and flatten without end).
    A shortened trace never passes: the executable statement and the model comparison both see the difference."""
    import signal
    tag = Tag("div") if is_tag else None
    x = tag.children if is_tag else TagList()
    out = []
    cache: dict = {}
    armed = False
    try:
        old = signal.signal(signal.SIGVTALRM, _on_alarm)
        signal.setitimer(signal.ITIMER_VIRTUAL, HISTORY_LIMIT_S if _timeouts[0] < 3 else HISTORY_LIMIT_AFTER_S)
        armed = True
    except ValueError:      # not in the main thread: no guard available
        pass
    try:
        for o in ops:
            try:
                x, tag = apply_op(o, x, tag)
                res = "ok"
            except _Timeout:
                raise
            except Exception as e:  # noqa: BLE001 - the outcome is what is being recorded
                res = err_of(e)
            cur = tag.children if tag is not None else x
            out.append((res, enc_state(cur, cache)))
            if any(isinstance(e, (list, tuple, TagList)) for e in cur.data):
                break
    except _Timeout:
        _timeouts[0] += 1
        out.append(("err timeout", "[ ]"))
    finally:
        if armed:
            signal.setitimer(signal.ITIMER_VIRTUAL, 0)
            signal.signal(signal.SIGVTALRM, old)
    return out


@op("c14_hist")
def _hist(t: Toks) -> str:
    is_tag = t.next() == "T"
    ops = p_list(t, p_op)
    return elist([res + " " + st for res, st in run_history(is_tag, ops)])


@op("c14_t2n")
def _t2n(t: Toks) -> str:
    a = realize_arg(p_arg(t))
    r = _tagchilds_to_tagnodes(a)
    return "ok " + elist([estored(canon_stored(x)) for x in r])


@op("c14_flatten")
def _flatten(t: Toks) -> str:
    a = realize_arg(p_arg(t))
    r = flatten(a)
    return "ok " + elist([earg(canon_arg(x)) for x in r])


@op("c14_pred")
def _pred(t: Toks) -> str:
    a = realize_arg(p_arg(t))
    return eb(bool(is_tag_child(a))) + " " + eb(bool(is_tag_node(a)))


# ------------------------------------------------------------------ Python source of a term (for replay files)
def py_node(n) -> str:
    k = n[0]
    if k == "text":
        return repr(n[1])
    if k == "html":
        return f"HTML({n[1]!r})"
    if k == "tag":
        kids = ", ".join(py_node(c) for c in n[4])
        return f"Tag({n[1]!r}{', ' if kids else ''}{kids})"
    if k == "meta":
        return f"Meta({n[1]})  # a MetadataNode subclass instance"
    if k == "robj":
        return f"ReprObj({n[1]!r})  # object with _repr_html_"
    if k == "dep":
        return f"HTMLDependency({n[1]['name']!r}, {n[1]['version']!r})"
    return f"<{k} object with tagify()>"


def py_arg(a) -> str:
    k = a[0]
    if k == "none":
        return "None"
    if k == "num":
        return a[2] if a[1] != "f" else f"float({a[2]!r})"
    if k == "node":
        return py_node(a[1])
    if k == "list":
        return "[" + ", ".join(py_arg(x) for x in a[1]) + "]"
    if k == "tuple":
        return "(" + "".join(py_arg(x) + ", " for x in a[1]) + ")"
    if k == "tl":
        return "TagList(" + ", ".join(py_arg(x) for x in a[1]) + ")"
    if k == "seq":
        items = "[" + ", ".join(py_arg(x) for x in a[2]) + "]"
        return {"bytes": f"bytes({items})", "range": f"range({len(a[2])})", "set": f"set({items})",
                "dict": f"dict.fromkeys({items})", "gen": f"(v for v in {items})"}[a[1]]
    if k == "bad":
        return BAD_SRC[a[1] % len(BAD_SRC)]
    return repr(a)


def py_oarg(a, me: str = "x") -> str:
    if a[0] == "v":
        return py_arg(a[1])
    if a[0] == "self":
        return me
    return "[" + ", ".join([py_arg(v) for v in a[1]] + [me] + [py_arg(v) for v in a[2]]) + "]"


def py_history(is_tag: bool, ops) -> str:
    """Python source replaying a history against the public API"""
    r = "t.children" if is_tag else "x"      # the child list
    o_ = "t" if is_tag else "x"              # the object whose extend / append / insert is called
    lines = ["from htmltools import *", "t = Tag('div')" if is_tag else "x = TagList()"]
    for o in ops:
        k = o[0]
        if k == "init":
            args = ", ".join(py_arg(a) for a in o[1])
            lines.append(f"t = Tag('div'{', ' if args else ''}{args})" if is_tag else f"x = TagList({args})")
        elif k == "extend":
            lines.append(f"{o_}.extend({py_oarg(o[1], r)})")
        elif k == "append":
            lines.append(f"{o_}.append({', '.join(py_oarg(a, r) for a in o[1])})")
        elif k == "insert":
            lines.append(f"{o_}.insert({o[1]}, {py_oarg(o[2], r)})")
        elif k == "add":
            lines.append(f"{r} = {r} + {py_oarg(o[1], r)}")
        elif k == "radd":
            lines.append(f"{r} = {py_oarg(o[1], r)} + {r}")
        elif k == "iadd":
            lines.append(f"{r} += {py_oarg(o[1], r)}")
        elif k == "slice":
            f = lambda v: "" if v is None else str(v)  # noqa: E731
            lines.append(f"{r} = {r}[{f(o[1])}:{f(o[2])}:{f(o[3])}]")
        elif k == "mul":
            lines.append(f"{r} = {r} * {o[1]}")
        elif k == "rmul":
            lines.append(f"{r} = {o[1]} * {r}")
        elif k == "imul":
            lines.append(f"{r} *= {o[1]}")
    lines.append(f"print(list({r}))")
    return "; ".join(lines)
