/-
`holds C10 <op> <args…> | <impl answer>` — the executable statement of C10, evaluated on the
implementation's answer for the same input the op line describes.
-/
import HtmlVerif.Ops.Base
import HtmlVerif.Ops.Deps
import HtmlVerif.Holds.C10

namespace HtmlVerif.Ops
open HtmlVerif HtmlVerif.Wire HtmlVerif.Holds

/-- `| ok <nodes>` (anything else: the implementation failed, which the statement never allows here) -/
def implNodes : P (Option (List Node)) := do
  expect "|"
  let t ← next
  if t == "ok" then do let ks ← nodes; pure (some ks.toList)
  else do set ([] : List String); pure none

def implDepInit : P (Option (Except Err DepInfo)) := do
  expect "|"
  let t ← next
  if t == "ok" then do
    match (← node) with
    | .dep d _ _ => pure (some (.ok d))
    | _ => pure none
  else if t == "err" then do
    let k ← next
    match k with
    | "typeError" => pure (some (.error .typeError))
    | "valueError" => pure (some (.error .valueError))
    | "keyError" => pure (some (.error .keyError))
    | "runtimeError" => pure (some (.error .runtimeError))
    | "notImplemented" => pure (some (.error .notImplemented))
    | _ => pure (some (.error .exception))
  else do set ([] : List String); pure none

private def verdict (fails : List String) : String :=
  if fails.isEmpty then "T" else "F " ++ ",".intercalate fails

def holdsC10 : OpTable
  | "deps_list" => some do
    let ks ← nodes; let dd ← bool
    match (← implNodes) with
    | some out => pure (verdict (failsC10List ks dd out))
    | none => pure "F implementation-did-not-return-its-own-dependency-objects"
  | "deps_tag" => some do
    let n ← node; let dd ← bool
    match (← implNodes) with
    | some out => pure (verdict (failsC10Tag n dd out))
    | none => pure "F implementation-did-not-return-its-own-dependency-objects"
  | "deps_twice" => some do
    let ks ← nodes
    match (← implNodes) with
    | some out => pure (verdict (failsC10List ks true out))
    | none => pure "F implementation-did-not-return-its-own-dependency-objects"
  | "deps_render" => some do
    let n ← node
    match (← implNodes) with
    | some out => pure (verdict (failsC10Tag n true out))
    | none => pure "F implementation-did-not-return-its-own-dependency-objects"
  | "dep_init" => some do
    let a ← depArg
    match (← implDepInit) with
    | some r => pure (verdict (failsDepInit a r))
    | none => pure "F malformed-arguments-accepted"
  | "vcmp" => some do
    let a ← listOf nat; let b ← listOf nat
    expect "|"
    let le ← bool; let gt ← bool
    pure (verdict (failsVcmp a b le gt))
  | "vparse" => some do
    -- parsing is not part of the statement: accept whatever was answered
    let _ ← str
    let _ ← implRaw
    pure "T"
  | _ => none

end HtmlVerif.Ops
