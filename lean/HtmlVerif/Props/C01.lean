/-
C01 — Rendered markup parses back to the same element tree.

The specification tokenizer / tree builder / normaliser (Spec/Html.lean) is independent of the renderer.
For every ordinary tag tree, every indent and every whitespace-only eol, the rendered string
tokenizes, builds and normalises to exactly `[expected t]`: same names, same nesting, end tag or (void
and childless) one self-closed tag, same attribute names in stored order with values that decode to
the stored values, each text run = concatenation of the adjacent text leaves up to whitespace at its ends.

Proof in three layers (Lemmas/Html*.lean):
  1. pieces → tokens, `serialize (toksOf (pieces t)) = render t`           (HtmlTree, from render_eq_pieces)
  2. renderer-free `tokenize (serialize ts) = some (mergeText ts)`          (HtmlTokenize)
  3. `build`, `normalise` on the tokens of a tree give `expected`           (HtmlBuild, HtmlExpected)
The escape tables enter only through `TextTblOk` / `AttrTblOk` (HtmlEscape), which are re-proved on the
tables regenerated from the source on every run.
-/
import HtmlVerif.Lemmas.HtmlExpected
import HtmlVerif.Generated.Tables

namespace HtmlVerif.C01
open HtmlVerif

/-! ### table side conditions (re-checked by the kernel against the regenerated tables) -/

/-- the 16 void names of the catalogue -/
def voidCatalogue : List Str :=
  ["area", "base", "br", "col", "command", "embed", "hr", "img", "input", "keygen", "link", "meta",
   "param", "source", "track", "wbr"].map String.toList

/-- `_VOID_TAG_NAMES` is exactly the 16 catalogue names -/
theorem C01_void_names :
    Generated.voidNames.length = 16 ∧ (∀ n ∈ Generated.voidNames, n ∈ voidCatalogue)
      ∧ (∀ n ∈ voidCatalogue, n ∈ Generated.voidNames) := by
  decide +kernel

/-- `HTML_ESCAPE_TABLE`: later passes never touch earlier output, every replacement is a reference that
    decodes to its key, `&` and `<` are keys, no replacement contains `<` -/
theorem C01_text_table_ok : TextTblOk Generated.textTbl := by decide +kernel

/-- `HTML_ATTRS_ESCAPE_TABLE`: the same with `"` as the character that would end the context -/
theorem C01_attr_table_ok : AttrTblOk Generated.attrTbl := by decide +kernel

/-- sequential `str.replace` passes = the per-character map (text table shape) -/
theorem C01_escape_as_written_text (tbl : List (Char × Str)) (h : TextTblOk tbl) (s : Str) :
    htmlEscapeT tbl s = s.flatMap (escCharT tbl) :=
  htmlEscapeT_eq_flatMap tbl (tblOk_seq h) s

/-- sequential `str.replace` passes = the per-character map (attribute table shape) -/
theorem C01_escape_as_written_attr (tbl : List (Char × Str)) (h : AttrTblOk tbl) (s : Str) :
    htmlEscapeT tbl s = s.flatMap (escCharT tbl) :=
  htmlEscapeT_eq_flatMap tbl (tblOk_seq h) s

/-- escaped text contains no `<` and decodes to the original -/
theorem C01_text_inert_decodes (tbl : List (Char × Str)) (h : TextTblOk tbl) (s : Str) :
    '<' ∉ htmlEscapeT tbl s ∧ decodeRefs (htmlEscapeT tbl s) = s := by
  rw [htmlEscapeT_eq_flatMap tbl (tblOk_seq h) s]
  refine ⟨esc_inert h s, ?_⟩
  have := esc_decodes h s []
  simpa [decodeRefs_nil] using this

/-- an escaped attribute value contains no `"` and decodes to the original -/
theorem C01_attr_inert_decodes (tbl : List (Char × Str)) (h : AttrTblOk tbl) (s : Str) :
    '"' ∉ htmlEscapeT tbl s ∧ decodeRefs (htmlEscapeT tbl s) = s := by
  rw [htmlEscapeT_eq_flatMap tbl (tblOk_seq h) s]
  refine ⟨esc_inert h s, ?_⟩
  have := esc_decodes h s []
  simpa [decodeRefs_nil] using this

/-! ### the three layers, as statements of their own -/

/-- Layer 1+2: the rendering of an ordinary tag tokenizes to the (text-merged) tokens of its pieces -/
theorem C01_tokenize (cfg : Cfg) (h1 : TextTblOk cfg.textTbl) (h2 : AttrTblOk cfg.attrTbl)
    (t : Node) (i : Nat) (eol : Str) (ho : Ordinary cfg t) (he : wsOnly eol = true) :
    tokenize (t.render cfg i eol) = some (mergeText (toksOf cfg (t.pieces cfg i eol))) := by
  rw [← render_eq_pieces, ← serialize_toksOf]
  apply tokenize_serialize
  intro tk htk
  simp only [toksOf, List.mem_map] at htk
  obtain ⟨p, hp, rfl⟩ := htk
  have hall := pieces_ok cfg t i eol ho.2 he
  exact tok_ok cfg h1 h2 p (List.all_eq_true.mp hall p hp)

/-- Layer 2 on its own (no renderer): the spec tokenizer inverts serialisation of well-formed tokens -/
theorem C01_tokenizer_inverts_serialize (ts : List Tok) (hok : ∀ t ∈ ts, t.ok = true) :
    tokenize (serialize ts) = some (mergeText ts) :=
  tokenize_serialize ts hok

/-! ### the property -/

theorem C01_tag (cfg : Cfg) (h1 : TextTblOk cfg.textTbl) (h2 : AttrTblOk cfg.attrTbl)
    (t : Node) (i : Nat) (eol : Str) (ho : Ordinary cfg t) (he : wsOnly eol = true) :
    ((tokenize (t.render cfg i eol)).bind build).map normalise = some [expected cfg.void t] := by
  rw [C01_tokenize cfg h1 h2 t i eol ho he]
  simp only [Option.bind_some, build_mergeText]
  have hall := pieces_ok cfg t i eol ho.2 he
  have hcl : ∀ tk ∈ toksOf cfg (t.pieces cfg i eol), tk.closed := by
    intro tk htk
    simp only [toksOf, List.mem_map] at htk
    obtain ⟨p, hp, rfl⟩ := htk
    exact tok_closed cfg h1 p (List.all_eq_true.mp hall p hp)
  unfold build
  rw [buildGo_norm _ [] [] [] closed_nil hcl]
  have := buildN_tag cfg h1 h2 t ho.1 ho.2 i eol he [] [] [] []
  simp only [List.append_nil] at this
  simp [decodeRefs_nil, this, buildN, flushN_nil, expected]

theorem C01_list (cfg : Cfg) (h1 : TextTblOk cfg.textTbl) (h2 : AttrTblOk cfg.attrTbl)
    (ks : Nodes) (i : Nat) (eol : Str) (aw : Bool) (ho : ks.ordinaryKids cfg.noesc = true)
    (he : wsOnly eol = true) :
    ((tokenize (renderList cfg ks i eol aw true)).bind build).map normalise
      = some (expectedKids cfg.void ks) := by
  unfold renderList
  rw [← renderKids_eq_pieces, ← serialize_toksOf]
  have hall := kids_ok cfg ks i eol true aw ho he
  have hok : ∀ tk ∈ toksOf cfg (ks.piecesKids cfg i eol true aw true), tk.ok = true := by
    intro tk htk
    simp only [toksOf, List.mem_map] at htk
    obtain ⟨p, hp, rfl⟩ := htk
    exact tok_ok cfg h1 h2 p (List.all_eq_true.mp hall p hp)
  have hcl : ∀ tk ∈ toksOf cfg (ks.piecesKids cfg i eol true aw true), tk.closed := by
    intro tk htk
    simp only [toksOf, List.mem_map] at htk
    obtain ⟨p, hp, rfl⟩ := htk
    exact tok_closed cfg h1 p (List.all_eq_true.mp hall p hp)
  rw [tokenize_serialize _ hok]
  simp only [Option.bind_some, build_mergeText]
  unfold build
  rw [buildGo_norm _ [] [] [] closed_nil hcl]
  have := buildN_kids cfg h1 h2 ks ho i eol he true aw [] [] (fun _ => rfl) [] []
  simp only [List.append_nil] at this
  have hfx := flushN_expStep cfg.void ks [] []
  simp [decodeRefs_nil, this, buildN, hfx, expectedKids]

/-- the property for the tables as they are in the source right now -/
def cfgNow : Cfg :=
  { void := Generated.voidNames, noesc := Generated.noescNames,
    textTbl := Generated.textTbl, attrTbl := Generated.attrTbl }

theorem C01_tag_now (t : Node) (i : Nat) (eol : Str) (ho : Ordinary cfgNow t) (he : wsOnly eol = true) :
    ((tokenize (t.render cfgNow i eol)).bind build).map normalise = some [expected cfgNow.void t] :=
  C01_tag cfgNow C01_text_table_ok C01_attr_table_ok t i eol ho he

theorem C01_list_now (ks : Nodes) (i : Nat) (eol : Str) (aw : Bool)
    (ho : ks.ordinaryKids cfgNow.noesc = true) (he : wsOnly eol = true) :
    ((tokenize (renderList cfgNow ks i eol aw true)).bind build).map normalise
      = some (expectedKids cfgNow.void ks) :=
  C01_list cfgNow C01_text_table_ok C01_attr_table_ok ks i eol aw ho he

/-! ### non-vacuity -/

/-- `div(class_='a"b', br(), " x ", "<&>", meta, span("y"))`: void child, metacharacters, adjacent text
    leaves, metadata, attribute that needs escaping -/
def sample : Node :=
  .tag "div".toList true [("class".toList, .plain "a\"b".toList)]
    (.cons (.tag "br".toList false [] .nil) (.cons (.text " x ".toList) (.cons (.text "<&>".toList)
      (.cons (.mnode 0) (.cons (.tag "span".toList false [] (.cons (.text "y".toList) .nil)) .nil)))))

example : Ordinary cfgNow sample ∧ wsOnly "\r\n".toList = true := by decide +kernel

example : (expected cfgNow.void sample).beq
    (.elem "div".toList [("class".toList, "a\"b".toList)] false
      [.elem "br".toList [] true [], .text "x <&>".toList, .elem "span".toList [] false [.text "y".toList]])
    = true := by
  decide +kernel

/-- and the statement itself evaluated on the sample (model output) -/
example : (parseHtml (sample.render cfgNow 1 "\r\n".toList)).map (PTree.beqList · [expected cfgNow.void sample])
    = some true := by
  decide +kernel

end HtmlVerif.C01
