"""C01 — Rendered markup parses back to the same element tree."""
from __future__ import annotations

import itertools
import os
import time

import core
import gen
from wire import enode, enodes, es, eb, ds, Toks, p_node, p_list

PID = "C01"
MANIFEST = dict(
    text="Lean theorems C01_tag / C01_list (and C01_tag_now / C01_list_now for the tables as they are in the source): for every "
         "ordinary tag tree (any depth, fan-out, whitespace flags, attributes, text over all Unicode scalars, metadata anywhere), "
         "every indent and every whitespace-only eol, a specification tokenizer + stack tree builder + reference decoder/normaliser "
         "that never mention the renderer map the rendered string to exactly [expected t] (names, nesting, end tag or self-closed "
         "void form, attributes in stored order decoding to the stored values, text runs = adjacent leaves up to end whitespace). "
         "Proved in three layers (pieces->tokens; renderer-free tokenize(serialize ts) = mergeText ts; build/normalise by mutual "
         "induction); escape tables enter only via TextTblOk/AttrTblOk, re-proved by decide +kernel on the tables regenerated "
         "from the source, as is C01_void_names (16 catalogue names). The same Lean definitions are evaluated by the driver on the "
         "REAL output of every generated case (exhaustive small scope, every tags/svg function, random deep Unicode trees), the model "
         "is tied to /repo on the observable (parse of the output), and html.parser cross-checks the spec tokenizer on every output.",
    design="DESIGN.md §6 C01",
    note="Modelled, not verified: that the spec tokenizer is a faithful fragment of the WHATWG tokenizer (cross-checked against "
         "html.parser on every generated output; RCDATA/foreign-content rules of tree construction are not modelled); names are "
         "compared case-preservingly (the oracle folds ASCII case); Python's str(number) for numeric leaves (exercised through "
         "render_tag_n, not modelled); eol is restricted to HTML whitespace (the statement's own 'up to whitespace').",
    technique="Lean 4 proof (three-layer tokenizer/parser round trip, mutual structural induction) + executable statement on the real "
              "output + differential correspondence on the parse + independent html.parser oracle",
)
PROP_FILES = ["HtmlVerif/Props/C01.lean", "HtmlVerif/Props/SrcRender.lean"]

ALPHA = ["&", "<", ">", '"', "'", "\r", "\n", ";", "#", "a"]
LEAVES = [("text", "a"), ("text", "<&>"), ("text", "&amp;"), ("text", ""), ("text", " x "), ("text", "7"), ("meta", 0)]
TAGS = [("div", True), ("span", False), ("br", False), ("hr", True), ("p", True), ("my-elem", False)]
CFGS = [(0, "\n"), (2, "\n"), (0, ""), (2, ""), (0, "\r\n"), (2, "\r\n"), (0, " "), (2, " ")]


def attr_configs():
    out = [[]]
    vals = list(ALPHA) + [a + b for a in ALPHA for b in ALPHA]
    out += [[("id", ("p", v))] for v in vals]
    out += [[("class", ("p", a)), ("data-x", ("p", b))] for a in ALPHA for b in ALPHA]
    return out


ATTRCFG = attr_configs()


def with_attrs(t, j):
    """tree number j gets attribute set j (mod) on its root and another on its first tag child"""
    root = ATTRCFG[j % len(ATTRCFG)]
    kids = list(t[4])
    for idx, c in enumerate(kids):
        if c[0] == "tag":
            kids[idx] = ("tag", c[1], c[2], ATTRCFG[(j // len(ATTRCFG) + 7 * j) % len(ATTRCFG)], c[4])
            break
    return ("tag", t[1], t[2], root, kids)


def ex_lines(bound, full_bound, shard, nshards, beyond=2):
    """exhaustive tag-rooted trees with <= bound nodes; all 8 (indent, eol) settings up to full_bound nodes,
    `beyond` of them (cycling) above that"""
    out = []
    j = -1
    for t in gen.trees_upto(bound, LEAVES, TAGS):
        if t[0] != "tag":
            continue
        j += 1
        if j % nshards != shard:
            continue
        ta = with_attrs(t, j)
        enc = enode(ta)
        if gen.count_nodes(t) <= full_bound:
            cfgs = CFGS
        else:
            cfgs = [CFGS[(beyond * j + d) % 8] for d in range(beyond)]
        for (i, e) in cfgs:
            out.append(f"render_tag_n {enc} {i} {es(e)}")
    return out


# ------------------------------------------------------------------ one chunk of work (runs in a worker process)
def _evaluate(lines, names):
    import ops
    import ops_html as oh
    impl = [ops.run_line(l) for l in lines]
    drv = core.Driver()
    q = []
    for l, im in zip(lines, impl):
        q.append(l)
        q.append(f"holds {PID} {l} | {im}")
        q.append("parse_html " + (im.split(" ", 1)[1] if im.startswith("ok ") else "-"))
    ans = drv.run(q)
    res = dict(n=len(lines), guard=0, exact=0, holds=0, tags={}, fails=[], pyfails=[], parser_diff_outside_guard=0,
               oracle_skipped=0, oracle_checked=0, samples=[])
    mismatch = []
    for k, (l, im) in enumerate(zip(lines, impl)):
        model, h, parsed = ans[3 * k], ans[3 * k + 1], ans[3 * k + 2]
        for a in (model, h, parsed):
            if a.startswith("bad-op"):
                raise core.Infra(f"driver rejected: {l[:200]} -> {a}")
        opn, rest = (l.rsplit(" ;; ", 1)[-1] if l.startswith("after ") else l).split(" ", 1)
        res["tags"]["after-history" if l.startswith("after ") else opn] = res["tags"].get("after-history" if l.startswith("after ") else opn, 0) + 1
        t = Toks(rest)
        if opn == "render_list":
            ks = p_list(t, p_node)
            t.next()
            eol = ds(t.next())
            t.next()
            esc = t.next() == "T"
            guard = all(oh.ordinary(c) for c in ks) and oh.ws_only(eol) and esc
            want = oh.expected_kids(ks) if guard else None
            in_scope = all(oh.oracle_in_scope(c, names) for c in ks)
        else:
            n = p_node(t)
            t.next()
            eol = ds(t.next())
            guard = n[0] == "tag" and oh.ordinary(n) and oh.ws_only(eol)
            want = [oh.expected_tag(n)] if guard else None
            in_scope = oh.oracle_in_scope(n, names)
        res["guard"] += guard
        if model == im:
            res["exact"] += 1
        else:
            mismatch.append(k)
        res["holds"] += 1
        if h != "T":
            res["fails"].append(("property", l, im, model, f"holds C01 = {h}: the real output does not parse to the expected tree "
                                                              f"(spec parse: {parsed[:300]})"))
        # independent oracle
        if im.startswith("ok "):
            out = ds(im.split(" ", 1)[1])
            pf = oh.py_parse(out)
            lean = oh.parse_answer(parsed)
            lean_f = oh.fold_forest(lean) if lean is not None else None
            if guard and in_scope:
                res["oracle_checked"] += 1
                if pf != want:
                    res["pyfails"].append((l, im, f"html.parser reads the real output as {pf!r}, the tree is {want!r}",
                                           f"markup = {out!r}"))
                elif lean_f != pf and h == "T":
                    # both parsers accept the statement yet differ: cannot happen (both equal `want` up to case)
                    res["pyfails"].append((l, im, f"spec tokenizer {lean_f!r} and html.parser {pf!r} disagree inside the guard",
                                           f"markup = {out!r}"))
            else:
                if not in_scope:
                    res["oracle_skipped"] += 1
                if lean_f != pf:
                    res["parser_diff_outside_guard"] += 1
        elif guard:
            res["pyfails"].append((l, im, "an ordinary tree failed to render", ""))
        if k < 3:
            res["samples"].append({"line": l[:400], "impl": im[:300], "spec_parse": parsed[:300]})
    # correspondence on the observable: where the strings differ, the parses must agree
    if mismatch:
        q2 = []
        for k in mismatch:
            m = ans[3 * k]
            q2.append("parse_html " + (m.split(" ", 1)[1] if m.startswith("ok ") else "-"))
        a2 = drv.run(q2)
        for k, pm in zip(mismatch, a2):
            im = impl[k]
            m = ans[3 * k]
            if (m.startswith("ok ") != im.startswith("ok ")) or (m.startswith("ok ") and pm != ans[3 * k + 2]) \
                    or (not m.startswith("ok ") and m != im):
                res["fails"].append(("correspondence", lines[k], im, m, "parse of the model's rendering differs from parse of the real one"))
    return res


def _task(task):
    kind, payload, names = task
    if kind == "ex":
        lines = ex_lines(*payload)
    else:
        lines = payload
    out = None
    for lo in range(0, len(lines), 20000):
        r = _evaluate(lines[lo:lo + 20000], names)
        if out is None:
            out = r
        else:
            for k in ("n", "guard", "exact", "holds", "parser_diff_outside_guard", "oracle_skipped", "oracle_checked"):
                out[k] += r[k]
            for k, v in r["tags"].items():
                out["tags"][k] = out["tags"].get(k, 0) + v
            out["fails"] += r["fails"]
            out["pyfails"] += r["pyfails"]
    if out is None:
        out = dict(n=0, guard=0, exact=0, holds=0, tags={}, fails=[], pyfails=[], parser_diff_outside_guard=0,
                   oracle_skipped=0, oracle_checked=0, samples=[])
    out["fails"] = sorted(out["fails"], key=lambda f: len(f[1]))[:50]
    out["pyfails"] = sorted(out["pyfails"], key=lambda f: len(f[0]))[:50]
    out["kind"] = kind
    return out


# ------------------------------------------------------------------ generators of the non-exhaustive part
def fn_lines(fns):
    lines = []
    a1 = [("id", ("p", 'q"<&>\'\r\n'))]
    for (nm, ws) in fns:
        for kids in ([], [("text", "t")], [("text", "a<"), ("tag", "span", False, [], [("text", "b")]), ("text", " &c ")],
                     [("tag", "div", True, [], [])], [("meta", 1)], [("tag", nm, ws, [], [])]):
            lines.append(f"render_tag {enode(('tag', nm, ws, [], kids))} 1 {es(chr(10))}")
        lines.append(f"render_tag {enode(('tag', nm, ws, a1, []))} 0 {es('')}")
        lines.append(f"render_tag {enode(('tag', nm, not ws, a1, [('text', 'x')]))} 2 {es(chr(13) + chr(10))}")
        for (pn, pws) in (("div", True), ("span", False)):
            lines.append(f"render_tag {enode(('tag', pn, pws, [], [('text', 'x'), ('tag', nm, ws, [], []), ('tag', nm, ws, [], [('text', 'y')]), ('text', 'z')]))} 0 {es(chr(10))}")
    return lines


def small_product(cfgs):
    lines = []
    n = 0
    for t in gen.trees_upto(2, LEAVES, TAGS):
        if t[0] != "tag":
            continue
        n += 1
        for a in ATTRCFG:
            enc = enode(("tag", t[1], t[2], a, t[4]))
            for (i, e) in cfgs:
                lines.append(f"render_tag_n {enc} {i} {es(e)}")
    return lines, n


def rand_lines(rng, n_tag, n_list, fns):
    lines = []
    for _ in range(n_tag):
        t = gen.rand_tag(rng, rng.randint(1, 12), leaves=("text", "text", "text", "meta"), all_names=fns, html_attrs=False,
                         fan=rng.choice([2, 3, 4]), near=("miss",))
        i = rng.choice([0, 0, 1, 2, 5])
        e = rng.choice(["\n", "\n", "", "\r\n", " ", "\t", "\n\n", "\x0c", "<!>"])
        lines.append(f"render_tag {enode(t)} {i} {es(e)}")
    for _ in range(n_list):
        ks = [gen.rand_node(rng, rng.randint(0, 5), leaves=("text", "text", "meta"), all_names=fns, html_attrs=False, near=("miss",))
              for _ in range(rng.randint(0, 6))]
        i = rng.choice([0, 1, 3])
        e = rng.choice(["\n", "", "\r\n", " "])
        lines.append(f"render_list {enodes(ks)} {i} {es(e)} {eb(rng.random() < 0.6)} {eb(rng.random() < 0.9)}")
    return lines


def forest_lines(bound, full_bound):
    """all top-level lists; add_ws x 2 settings up to full_bound nodes, one (cycling) combination above"""
    lines = []
    n = 0
    combos = [(aw, c) for aw in (True, False) for c in ((0, "\n"), (2, "\r\n"))]
    for f in gen.forests_upto(bound, LEAVES, TAGS):
        n += 1
        size = sum(gen.count_nodes(k) for k in f)
        for (aw, (i, e)) in (combos if size <= full_bound else [combos[n % 4]]):
            lines.append(f"render_list {enodes(f)} {i} {es(e)} {eb(aw)} T")
    return lines, n


def run(tier: str) -> int:
    ck = core.Check(PID, tier, PROP_FILES)
    ck.prepare()
    if ck.driver is None:
        return ck.finish()
    quick = tier != "thorough"
    ck.rule = ("a case is one rendering (tag tree or top-level list, indent, eol) whose REAL output is parsed by the Lean spec "
               "tokenizer and by html.parser; non-trivial = the guards of C01 hold (ordinary tree, whitespace-only eol), so the "
               "statement is actually evaluated; exhaustive cases are distinct by construction")
    fns = gen.fn_catalogue(ck.proof.translate_info)
    names = sorted({nm for nm, _ in fns} | {nm for nm, _ in TAGS} | set(gen.CUSTOM) | set(gen.NEAR_MISS)
                   | set(gen.BLOCK + gen.INLINE + gen.VOID_INLINE + gen.VOID_BLOCK))
    bound, full_bound = (4, 3) if quick else (5, 4)
    nshards = 16 if quick else 64
    tasks = [("ex", (bound, full_bound, s, nshards, 2 if quick else 1), names) for s in range(nshards)]
    sp, n_sp = small_product(CFGS[1::4] + CFGS[4:5] if quick else CFGS[1::2])
    fl, n_f = forest_lines(3 if quick else 4, 3)
    fnl = fn_lines(fns)
    rl = rand_lines(ck.rng, ck.budget(2500, 40000), ck.budget(600, 8000), fns)
    # width / near-name stream (case variants of raw-text names are left out here: html.parser, the independent oracle,
    # folds case and would read <Script> as raw text; C02/C04/C05/C06 render them)
    bl = gen.boundary_lines(ck.rng, leaves=("text", "meta"), near=("miss",), html_attrs=False, cfgs=((0, "\n"), (2, "\r\n")))
    # process history: a sample of the lines, each evaluated after its twin (the same characters as trusted markup)
    hl = gen.history_lines(ck.rng, rl + bl + fnl, ck.budget(400, 4000))
    rest = sp + fl + fnl + rl + bl + hl
    size = 4000 if quick else 12000
    tasks += [("lines", rest[lo:lo + size], names) for lo in range(0, len(rest), size)]
    n_trees = sum(1 for t in gen.trees_upto(bound, LEAVES, TAGS) if t[0] == "tag")
    ck.exhaustive_scopes += [
        {"scope": f"all tag-rooted trees with <= {bound} nodes over {len(TAGS)} tag kinds (block, inline, 2 void, p, custom name) x "
                  f"{len(LEAVES)} leaves (a, <&>, &amp;, empty, ' x ', number 7, metadata); all 8 (indent in {{0,2}}, eol in LF/''/CRLF/' ') "
                  f"settings up to {full_bound} nodes, {2 if quick else 1} cycling setting(s) beyond; attribute sets from the {len(ATTRCFG)} configurations "
                  f"(0-2 attributes, values of length <= 2 over & < > \" ' CR LF ; # a) cycling over root and first tag child",
         "trees": n_trees, "exhaustive": True},
        {"scope": f"all trees <= 2 nodes x all {len(ATTRCFG)} attribute configurations x {3 if quick else 4} (indent, eol) settings",
         "trees": n_sp, "exhaustive": True},
        {"scope": f"all top-level lists with <= {3 if quick else 4} nodes (add_ws x 2 settings up to 3 nodes, one cycling combination above)", "lists": n_f, "exhaustive": True},
        {"scope": "every tags/svg function (name, default flag): childless, 5 child patterns, with attributes, flag flipped, as child of block/inline parent",
         "functions": len(fns), "exhaustive": True},
        {"scope": "width stream: fan-out / attribute count in " + str(gen.WIDTHS) + " x 5 child kinds x 3 parents; text lengths "
                  + str(gen.ALIAS_LENGTHS) + "; near misses of void / no-escape names " + str(gen.NEAR_MISS), "cases": len(bl), "exhaustive": True},
    ]
    import multiprocessing as mp
    import ops  # noqa: F401  (import htmltools before forking)
    procs = min(16, os.cpu_count() or 1)
    tot = dict(n=0, guard=0, exact=0, holds=0, parser_diff_outside_guard=0, oracle_skipped=0, oracle_checked=0)
    fails, pyfails = [], []
    with mp.get_context("fork").Pool(procs) as pool:
        for r in pool.imap_unordered(_task, tasks):
            for k in tot:
                tot[k] += r[k]
            for k, v in r["tags"].items():
                ck.tagc(k, v)
            ck.tagc("exhaustive" if r["kind"] == "ex" else "catalogue+random", r["n"])
            fails += r["fails"]
            pyfails += r["pyfails"]
            if len(ck.samples) < 6:
                ck.samples += r["samples"][:2]
    # render – edit in place – render again histories on ordinary trees: the statement is evaluated on the output of the
    # edited, previously rendered object against the canonical form of what the object now is
    import histories
    hc = histories.render_history_cases(ck.rng, ck.budget(1500, 20000), plain=True)
    q = []
    for l, im in hc:
        q.append(f"holds {PID} {l} | {im}")
    hans = ck.driver.run(q)
    for (l, im), h in zip(hc, hans):
        tot["n"] += 1
        tot["holds"] += 1
        if h != "T":
            fails.append(("property", l, im, "", f"holds C01 = {h}: after in-place edits of an already rendered tag the real output does not "
                                                  f"parse to the tree the object now is"))
    ck.tagc("render_after_edits", len(hc))
    ck.exhaustive_scopes.append({"scope": "render – edit in place through the public API – render again histories (stale-state detection)", "exhaustive": False})
    ck.add_src(['Tag_get_html_string', 'TagList_get_html_string'], quick=250, thorough=2500)
    ck._src_validate()
    ck.holds_checked = tot["holds"]
    ck.distinct_nontrivial = tot["guard"]
    ck.extra_cov.update(extra_evaluations=tot["n"], exact_agree=tot["exact"], guard_true=tot["guard"],
                        htmlparser_oracle_checked=tot["oracle_checked"], htmlparser_oracle_out_of_scope=tot["oracle_skipped"],
                        parsers_differ_outside_guard=tot["parser_diff_outside_guard"],
                        catalogue_functions=len(fns))
    for (kind, l, im, m, d) in sorted(fails, key=lambda f: len(f[1])):
        ck.failures.append(core.Failure(kind, line=l, impl=im, model=m, detail=d, py=_py_of(l)))
    for (l, im, d, py) in sorted(pyfails, key=lambda f: len(f[0])):
        ck.py_violation(l, im, d, py=_py_of(l) + "   # " + py)
    return ck.finish()


def _py_of(line: str) -> str:
    """a snippet reproducing the case against the public API"""
    try:
        if line.startswith("after "):
            parts = line[6:].split(" ;; ")
            return "; ".join(_py_of(x) for x in parts[:-1]) + ";  # history, then:  " + _py_of(parts[-1])
        opn, rest = line.split(" ", 1)
        t = Toks(rest)
        if opn == "render_list":
            ks = p_list(t, p_node)
            i = t.next()
            e = ds(t.next())
            aw = t.next() == "T"
            return f"TagList(*{[_py_node(k) for k in ks]!r}).get_html_string({i}, {e!r}, add_ws={aw})".replace('"Tag(', "Tag(")
        n = p_node(t)
        i = t.next()
        e = ds(t.next())
        return f"{_py_node(n)}.get_html_string({i}, {e!r})"
    except Exception:
        return ""


def _py_node(n) -> str:
    if n[0] == "tag":
        kids = ", ".join(_py_node(c) for c in n[4])
        attrs = "{" + ", ".join(f"{k!r}: {v[1]!r}" for k, v in n[3]) + "}"
        parts = [repr(n[1])] + ([attrs] if n[3] else []) + ([kids] if kids else []) + [f"_add_ws={n[2]}"]
        return "Tag(" + ", ".join(parts) + ")"
    if n[0] == "text":
        return repr(n[1])
    if n[0] == "html":
        return f"HTML({n[1]!r})"
    if n[0] == "meta":
        return "MetadataNode()"
    return repr(n)


def replay(body: dict) -> int:
    import ops
    import ops_html as oh
    line = body.get("line")
    if not line:
        import json
        print(json.dumps(body, indent=1)[:4000])
        print("no concrete input in this replay file (no-failing-input-found)")
        return 1
    im = ops.run_line(line)
    drv = core.Driver()
    model, h, parsed = drv.run([line, f"holds {PID} {line} | {im}",
                                "parse_html " + (im.split(" ", 1)[1] if im.startswith("ok ") else "-")])
    print("line   :", line)
    print("python :", _py_of(line))
    print("impl   :", repr(ds(im.split(" ", 1)[1])) if im.startswith("ok ") else im)
    print("model  :", repr(ds(model.split(" ", 1)[1])) if model.startswith("ok ") else model)
    print("holds  :", h, "  spec parse:", parsed[:600])
    if im.startswith("ok "):
        print("html.parser:", oh.py_parse(ds(im.split(" ", 1)[1])))
    r = _evaluate([line], [])
    bad = bool(r["fails"] or r["pyfails"])
    for f in r["fails"]:
        print("FAIL:", f[0], f[4])
    for f in r["pyfails"]:
        print("FAIL: oracle", f[2])
    return 1 if bad else 0
