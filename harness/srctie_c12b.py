"""Translator validation for the file-system half of C12 (DESIGN §14): lines for the op `srcc12b` (harness/ops_src_c12b.py,
lean/HtmlVerif/Ops/SrcC12b.lean) — the regenerated `HTMLDependency.copy_to`, `HTMLDocument.save_html`, `Tag.save_html`,
`TagList.save_html` against the real ones, on a real temporary directory.

    srcc12b <function> <cwd> <fs> [ <argument>… ]

Everything lives under the virtual root `/V`.  Generated: source directories with plain, nested, dotted, non-ASCII and
oddly named files; dependencies that list their files (present, missing — every position —, directories, duplicates, a
directory after one of its files, items without their key), `all_files`, URL sources, absent sources, an empty `subdir`;
targets that do not exist, exist with stale files and sub-directories, *are* a regular file, lie below a regular file;
absolute and relative `path` / `file` (the working directory is part of the line); `include_version` and `libdir` of every
kind (None, "", text, nested, absolute, values of other types); renderings with zero to three dependencies, with something
that is not a dependency among them, without `html` / `dependencies`, with an `html` that is not a `str`; a `render()` that
raises; records made for other arguments (no verdict on either side); the file to write being a directory or lying below a
regular file.  A dependency's recorded `__realpath__` is what `os.path.realpath(subdir)` answers in the sandbox (the
working directory is known).
"""
from __future__ import annotations

import posixpath

from wire import es, elist
from srctie import S, H

NAMES = ["dep", "my-dep", "d_1.x", "my dep", "Dé", "a%41", "x&y"]
VERSIONS = ["1.0", "2.1.3", "1.0+local", "0.0"]
FILES = ["a.js", "b.css", "a b.js", "100%.css", "é.css", "sub/n.js", "sub/deep er/m#.css", ".hidden", "q?x.js", "sub/o.css",
         "x'y.js"]
CONTENTS = ["", "x", "alert(1)\n", "body{}\n", "\xe9\x00\xff", "same", "same", "// é"]
HTMLS = ["<!DOCTYPE html>\n<html></html>", "", "é<p>ü</p>\n", "<html>\n  <head></head>\n</html>\n", "x" * 40]


def _src_tree(rng, root: str):
    """files below a source directory: (relative names, fs entries)"""
    names = rng.sample(FILES, rng.choice([0, 1, 2, 3, 4, 6]))
    return names, [(root + "/" + n, rng.choice(CONTENTS)) for n in names]


def _item(rng, key: str, name: str) -> str:
    kv = [(key, S(name))]
    if rng.random() < 0.3:
        kv.append((rng.choice(["defer", "type", "media"]), S(rng.choice(["", "x", "text/css"]))))
    if rng.random() < 0.03:
        kv = kv[1:]                     # the key is missing: KeyError
    if rng.random() < 0.3:
        rng.shuffle(kv)
    return "M [ " + "".join(es(k) + " " + v + " " for k, v in kv) + "]"


def _dep(rng, cwd: str, k: int, fs: list, force_local: bool = False) -> str:
    """an HTMLDependency term; its source files are appended to `fs`"""
    name = rng.choice(NAMES)
    ver = rng.choice(VERSIONS)
    r = rng.random()
    scripts, sheets = [], []
    all_files = "F"
    realpath = ""
    if r < 0.08 and not force_local:
        src = "N"
    elif r < 0.16 and not force_local:
        src = "M [ " + es("href") + " " + S(rng.choice(["https://cdn.example/p", "/abs/url/", "rel"])) + " ]"
        scripts = [_item(rng, "src", "a.js")]
    else:
        root = f"/V/s{k}" + rng.choice(["", "", "/pkg", "/a b"])
        names, entries = _src_tree(rng, root)
        fs.extend(entries)
        rr = rng.random()
        if rr < 0.06:
            sub, realpath = "", posixpath.normpath(cwd)                      # realpath("") is the working directory
        elif rr < 0.2 and root.startswith(cwd.rstrip("/") + "/"):
            sub, realpath = root[len(cwd.rstrip("/")) + 1:], root            # relative to the working directory
        elif rr < 0.26:
            sub, realpath = root + "/", root
        else:
            sub, realpath = root, root
        src = "M [ " + es("subdir") + " " + S(sub) + " ]"
        tops = sorted({n.split("/")[0] for n in names})
        pool = names + [t for t in tops if t not in names]                    # files, and directories (copied as trees)
        listed = [rng.choice(pool) for _ in range(rng.choice([0, 1, 2, 3]))] if pool else []
        if rng.random() < 0.25:
            listed.insert(rng.randrange(len(listed) + 1), rng.choice(["missing.js", "sub/none.css", "nodir/x.js"]))
        if rng.random() < 0.1 and listed:
            listed.append(listed[0])                                          # a duplicate
        for n in listed:
            (scripts if rng.random() < 0.6 else sheets).append(n)
        scripts = [_item(rng, "src", n) for n in scripts]
        sheets = [_item(rng, "href", n) for n in sheets]
        if rng.random() < 0.3 and sub != "":      # (the working directory as source contains the target: the outcome would
            all_files = "T"                         #  depend on the unspecified order of the directory listing)
    af = all_files if rng.random() < 0.97 else rng.choice(["N", "I 1", S("")])
    return ("O HTMLDependency [ name " + S(name) + " version O Version [ __str__ " + S(ver) + " rank I 0 ] source " + src
            + " script L [ " + "".join(x + " " for x in scripts) + "] stylesheet L [ " + "".join(x + " " for x in sheets)
            + "] meta L [ ] all_files " + af + " head N __realpath__ " + S(realpath) + " __package_dir__ " + S("") + " ]"), name, ver


def _flag(rng) -> str:
    return rng.choice(["T", "F"] * 6 + ["N", "I 0", "I 1", S(""), S("x")])


def _clutter(rng, cwd: str, targets: list[str], fs: list):
    """pre-existing state at and around the places that will be written"""
    for t in targets:
        r = rng.random()
        if r < 0.25:
            fs.append((t + "/stale.js", "old"))
            if rng.random() < 0.5:
                fs.append((t + "/sub/old.css", "older"))
        elif r < 0.32:
            fs.append((t, "a regular file where the directory should be"))
        elif r < 0.38:
            fs.append((posixpath.dirname(t), "a regular file on the way"))
    if rng.random() < 0.3:
        fs.append(("/V/other/keep.txt", "frame"))


def _dedupe(fs: list, cwd: str = "/V") -> list:
    """a real directory tree: one content per path, no path below a regular file, the working directory a directory"""
    out, seen = [], {}
    for p, c in fs:
        if p == cwd or cwd.startswith(p + "/") or p == "/V":
            continue
        if p not in seen:
            seen[p] = c
            out.append((p, c))
    # "a regular file on the way" / "where the directory should be" wins over what would lie below it
    blockers = {p for p, c in out if c.startswith("a regular file")}
    out = [(p, c) for p, c in out if not any(p.startswith(b + "/") for b in blockers)]
    files = {p for p, _ in out}
    ok = []
    for p, c in out:
        if any(q.startswith(p + "/") for q in files):
            continue                                         # a regular file where others need a directory: drop the file
        ok.append((p, c))
    return ok


def _efs(fs: list) -> str:
    return elist([es(p) + " " + es(c) for p, c in fs])


def _copy_line(rng) -> str:
    cwd = rng.choice(["/V", "/V/w", "/V/w d"])
    fs: list = []
    dep, name, ver = _dep(rng, cwd, 1, fs)
    path = rng.choice(["/V/out", "/V/out/", "/V/o ut/lib", "/V/w/lib", "out", "lib/x", "/V", "", "/V/out//l"])
    base = posixpath.normpath(posixpath.join(cwd, path))
    _clutter(rng, cwd, [base + "/" + name + "-" + ver, base + "/" + name], fs)
    p = S(path) if rng.random() < 0.96 else rng.choice(["N", "I 1", H("/V/out"), "L [ ]"])
    return f"{es(cwd)} {_efs(_dedupe(fs, cwd))} [ {dep} {p} {_flag(rng)} ]"


def _record(rng, cwd: str, lp: str, iv: str, fs: list, deps_out: list) -> str:
    r = rng.random()
    if r < 0.08:
        out = "O Raises [ kind " + S(rng.choice(["RuntimeError", "TypeError", "KeyError", "ValueError", "Exception"])) + " ]"
    else:
        deps = []
        for k in range(rng.choice([0, 1, 1, 2, 3])):
            d, name, ver = _dep(rng, cwd, k + 1, fs)
            deps.append(d)
            deps_out.append((name, ver))
        if rng.random() < 0.06:
            deps.insert(rng.randrange(len(deps) + 1), rng.choice(["N", S("x"), "O Tag [ name S " + es("p") + " attrs M [ ] "
                        "children O TagList [ data L [ ] ] add_ws T ]"]))
        html = S(rng.choice(HTMLS)) if rng.random() < 0.95 else rng.choice(["N", H("x"), "I 3"])
        kv = [("dependencies", "L [ " + "".join(d + " " for d in deps) + "]"), ("html", html)]
        if rng.random() < 0.05:
            kv.pop(rng.randrange(2))
        out = "M [ " + "".join(es(k) + " " + v + " " for k, v in kv) + "]"
    if rng.random() < 0.04:
        lp = rng.choice(["N", S("lib"), S("other")])
    if rng.random() < 0.04:
        iv = rng.choice(["T", "F"])
    return f"O RenderRecord [ lib_prefix {lp} include_version {iv} outcome {out} ]"


def _save_args(rng, fs: list):
    cwd = rng.choice(["/V/w", "/V/w", "/V/w d", "/V"])
    fs.append((cwd + "/.keep", ""))
    file = rng.choice(["/V/w/index.html", "index.html", "out.html", "/V/w/é x.html", "/V/w/sub/i.html", "sub/i.html",
                       "/V/w/index.html", "./index.html"])
    fabs = posixpath.normpath(posixpath.join(cwd, file))
    fs.append((posixpath.dirname(fabs) + "/.keep", ""))
    r = rng.random()
    if r < 0.05:
        fs.append((fabs + "/inside.txt", "the file to write is a directory"))
    elif r < 0.09:
        fs.append((posixpath.dirname(fabs), "a regular file where the directory of the file should be"))
    elif r < 0.3:
        fs.append((fabs, "the old page"))
    libdir = rng.choice(["N", S(""), S("lib"), S("lib"), S("a/b"), S("a/b/"), S("my lib"), S("/V/abs lib"), S("lib"),
                         S("lib"), S("a/b"), "N", S("lib"), S("x y/z"), S("lib")] * 2 + [H("lib"), "I 0", "I 1", "F", "L [ ]"])
    iv = _flag(rng)
    return cwd, file, fabs, libdir, iv


def _libbase(fabs: str, libdir: str) -> str:
    d = posixpath.dirname(fabs)
    if libdir.startswith("S "):
        from wire import ds
        l = ds(libdir[2:])
        return posixpath.normpath(posixpath.join(d, l)) if l else d
    return d


def _doc_line(rng) -> str:
    fs: list = []
    cwd, file, fabs, libdir, iv = _save_args(rng, fs)
    deps: list = []
    rec = _record(rng, cwd, libdir, iv, fs, deps)
    _clutter(rng, cwd, [_libbase(fabs, libdir) + "/" + n + "-" + v for n, v in deps], fs)
    doc = ("O HTMLDocument [ _content O TagList [ data L [ ] ] _html_attr_args M [ ] "
           + ("__render__ " + rec + " " if rng.random() < 0.98 else "") + "]")
    return f"{es(cwd)} {_efs(_dedupe(fs, cwd))} [ {doc} {S(file)} {libdir} {iv} ]"


def _recv_line(kind: str):
    def g(rng) -> str:
        fs: list = []
        cwd, file, fabs, libdir, iv = _save_args(rng, fs)
        deps: list = []
        rec = _record(rng, cwd, libdir, iv, fs, deps)
        _clutter(rng, cwd, [_libbase(fabs, libdir) + "/" + n + "-" + v for n, v in deps], fs)
        extra = "__doc_render__ " + rec + " " if rng.random() < 0.98 else ""
        kids = "L [ " + rng.choice(["", S("text") + " ", H("<b>x</b>") + " "]) + "]"
        if kind == "Tag":
            recv = (f"O Tag [ name {S(rng.choice(['div', 'html', 'p']))} attrs M [ ] children O TagList [ data {kids} ] "
                    f"add_ws T {extra}]")
        else:
            recv = f"O TagList [ data {kids} {extra}]"
        return f"{es(cwd)} {_efs(_dedupe(fs, cwd))} [ {recv} {S(file)} {libdir} {iv} ]"
    return g


C12B_GENS = {
    "HTMLDependency_copy_toC12b": _copy_line,
    "HTMLDocument_save_htmlC12b": _doc_line,
    "Tag_save_htmlC12b": _recv_line("Tag"),
    "TagList_save_htmlC12b": _recv_line("TagList"),
}


def register(GENS):
    """nothing for the generic `src` op: the functions of this area are state-passing (op `srcc12b`, `add_src_c12b`)"""


def lines_c12b(rng, funcs: list[str], n: int) -> list[str]:
    out = []
    for f in funcs:
        seen = set()
        for _ in range(n):
            l = f"srcc12b {f} {C12B_GENS[f](rng)}"
            if l not in seen:
                seen.add(l)
                out.append(l)
    return out


def add_src_c12b(ck, funcs: list[str], quick: int = 120, thorough: int = 1200):
    """`Check.add_src` for the state-passing translations (op `srcc12b`)"""
    import core
    ls = lines_c12b(ck.rng, funcs, thorough if ck.tier == "thorough" else quick)
    ck.src_lines += list(zip(ls, core.impl_many(ls)))
