/-
Specification side of C08's equality clause.
-/
import HtmlVerif.Model.Equality

namespace HtmlVerif

def keysNodup {β} (a : List (Str × β)) : Prop := (a.map (·.1)).Nodup

def DepInfo.wf (d : DepInfo) : Prop :=
  (∀ x ∈ d.script, keysNodup x) ∧ (∀ x ∈ d.stylesheet, keysNodup x) ∧ (∀ x ∈ d.metas, keysNodup x)

mutual
  /-- a tree of plain library objects: attribute maps are dicts (distinct keys), dependency items are dicts, and no
      un-expanded tagifiable object occurs (those compare by identity only) -/
  inductive Node.Plain : Node → Prop
    | tag {n w a k} : keysNodup a → Nodes.PlainKids k → Node.Plain (.tag n w a k)
    | text {s} : Node.Plain (.text s)
    | html {s} : Node.Plain (.html s)
    | robj {s} : Node.Plain (.robj s)
    | mnode {n} : Node.Plain (.mnode n)
    | dep {d h k} : d.wf → Nodes.PlainKids k → Node.Plain (.dep d h k)
  inductive Nodes.PlainKids : Nodes → Prop
    | nil : Nodes.PlainKids .nil
    | cons {h t} : Node.Plain h → Nodes.PlainKids t → Nodes.PlainKids (.cons h t)
end

/-- the text of a leaf, if it is a text leaf (`str` or `HTML`) -/
def Node.leafText? : Node → Option Str
  | .text s => some s
  | .html s => some s
  | _ => none

/-- kind of object, as `isinstance` sees it -/
inductive Kind | tag | text | robj | mnode | dep | tobj
  deriving DecidableEq

def Node.kind : Node → Kind
  | .tag .. => .tag
  | .text _ => .text
  | .html _ => .text
  | .robj _ => .robj
  | .mnode _ => .mnode
  | .dep .. => .dep
  | .tobjL .. => .tobj
  | .tobj1 .. => .tobj

end HtmlVerif
