"""Render – mutate – render histories (second-round seeds showed caches that go stale only after an object that has
already been rendered is edited through a less common public path).  A case renders a tree, edits it in place through
the public API (attribute dict methods, class helpers, child-list item / slice assignment, append / insert / pop …),
renders again after every edit, and finally reports the rendering of the *edited, previously rendered* object together
with the canonical form of what the object now is.  The model (and every executable statement) is evaluated on that
canonical form, so a stale cache shows up as a difference."""
from __future__ import annotations

import random

import gen
from adapters import realize, canon, Tag, TagList, HTML
from wire import enode, es, ok_str, err_of


def _tags_in(obj, acc=None):
    acc = [] if acc is None else acc
    if isinstance(obj, Tag):
        acc.append(obj)
        for c in obj.children:
            _tags_in(c, acc)
    return acc


def _new_node(rng, plain: bool):
    leaves = ("text",) if plain else ("text", "html", "robj", "meta")
    return gen.rand_node(rng, rng.randint(0, 2), leaves=leaves, html_attrs=not plain)


def mutate(rng: random.Random, root: Tag, plain: bool):
    t = rng.choice(_tags_in(root))
    keys = list(t.attrs.keys())
    k = rng.randrange(18)
    if k == 0 and keys:
        t.attrs.pop(rng.choice(keys))
    elif k == 1 and keys:
        del t.attrs[rng.choice(keys)]
    elif k == 2:
        t.attrs.clear()
    elif k == 3:
        t.attrs.setdefault(rng.choice(["title", "id", "data-x"]), rng.choice(["v", 'q"', "a&b"]))
    elif k == 4 and keys:
        t.attrs.popitem()
    elif k == 5:
        t.attrs[rng.choice(["id", "title", "lang"])] = rng.choice(["w", "x<y", "é"])
    elif k == 6:
        t.attrs.update({"class": rng.choice(["c1", "c2 c3"])})
    elif k == 7:
        t.add_class(rng.choice(["k", "k2"]), prepend=rng.random() < 0.5)
    elif k == 8:
        cls = str(t.attrs.get("class") or "").split()
        t.remove_class(rng.choice(cls) if cls else "zz")
    elif k == 9:
        t.add_style(rng.choice(["color:red;", "a:b;"]))
    elif k == 10 and len(t.children):
        j = rng.randrange(len(t.children))
        t.children[j] = realize(_new_node(rng, plain))
    elif k == 11 and len(t.children) >= 2:
        a = rng.randrange(len(t.children))
        b = rng.randrange(a, len(t.children) + 1)
        t.children[a:b] = [realize(_new_node(rng, plain)) for _ in range(rng.randint(0, 3))]
    elif k == 12 and len(t.children):
        t.children.pop(rng.randrange(len(t.children)))
    elif k == 13 and len(t.children):
        del t.children[rng.randrange(len(t.children))]
    elif k == 14:
        t.append(realize(_new_node(rng, plain)))
    elif k == 15:
        t.insert(rng.randint(-2, 3), realize(_new_node(rng, plain)))
    elif k == 16:
        t.children.clear()
    else:
        t.extend([realize(_new_node(rng, plain)) for _ in range(rng.randint(1, 2))])


def render_history_cases(rng: random.Random, n: int, plain: bool = False, all_fns=None):
    """-> [(line, impl_answer)]: `render_tag <canonical form of the edited object> i eol` with the answer of the
    edited object that had been rendered (several times) before"""
    out = []
    for _ in range(n):
        t0 = gen.rand_tag(rng, rng.randint(1, 4), leaves=("text",) if plain else ("text", "html", "robj", "meta"),
                          html_attrs=not plain, all_names=all_fns, flip_ws=0.05 if plain else 0.15)
        if plain:
            t0 = _ordinary(t0)
        obj = realize(t0)
        i = rng.choice([0, 1, 2])
        e = rng.choice(["\n", "\n", "", "\r\n"] if plain else ["\n", "", "<!>", "\r\n"])
        try:
            obj.get_html_string(i, e)
            str(obj)
            for _k in range(rng.randint(1, 4)):
                mutate(rng, obj, plain)
                obj.get_html_string(i, e)
            ans = ok_str(str(obj.get_html_string(i, e)))
        except Exception as ex:  # noqa: BLE001
            ans = err_of(ex)
        out.append((f"render_tag {enode(canon(obj))} {i} {es(e)}", ans))
    return out


def _ordinary(n):
    """restrict a random tag term to C01's 'ordinary' trees: no script/style, plain attribute values, distinct names"""
    if n[0] != "tag":
        return n
    name = n[1] if n[1] not in ("script", "style") else "div"
    return ("tag", name, n[2], [(k, ("p", v[1])) for k, v in n[3]], [_ordinary(c) for c in n[4]])
