/-
Specification side of C08's tagify / independence clauses: the decidable guard "a tree of plain library objects"
(Boolean twin of `Node.Plain`, Spec/Equality.lean) used in theorem statements and by the executable statement.
-/
import HtmlVerif.Spec.Equality

namespace HtmlVerif.Ident
open HtmlVerif

/-- the keys of a dict are pairwise distinct -/
def keysNodupB {β} (a : List (Str × β)) : Bool := decide ((a.map (·.1)).Nodup)

def depWfB (d : DepInfo) : Bool :=
  d.script.all keysNodupB && d.stylesheet.all keysNodupB && d.metas.all keysNodupB

mutual
  /-- plain library objects only: attribute maps and dependency items are dicts (distinct keys) and no un-expanded
      tagifiable object occurs anywhere (dependency heads included) -/
  def plainB : Node → Bool
    | .tag _ _ a k => keysNodupB a && plainKidsB k
    | .text _ => true
    | .html _ => true
    | .robj _ => true
    | .mnode _ => true
    | .dep d _ k => depWfB d && plainKidsB k
    | .tobjL .. => false
    | .tobj1 .. => false
  def plainKidsB : Nodes → Bool
    | .nil => true
    | .cons h t => plainB h && plainKidsB t
end

end HtmlVerif.Ident
