import HtmlVerif.Model.Render

namespace HtmlVerif

theorem inlineChild?_some {v : List Node} {c : Str × Bool} (h : inlineChild? v = some c) :
    (c.2 = false ∧ v = [.text c.1]) ∨ (c.2 = true ∧ v = [.html c.1]) := by
  unfold inlineChild? at h
  split at h <;> simp_all
  · cases h; simp
  · cases h; simp

@[simp] theorem inlineChild?_nil : inlineChild? [] = none := rfl
@[simp] theorem inlineChild?_text (s : Str) : inlineChild? [.text s] = some (s, false) := rfl
@[simp] theorem inlineChild?_html (s : Str) : inlineChild? [.html s] = some (s, true) := rfl
@[simp] theorem inlineChild?_two (a b : Node) (r : List Node) : inlineChild? (a :: b :: r) = none := by
  cases a <;> rfl

@[simp] theorem indentStr_zero : indentStr 0 = [] := rfl

end HtmlVerif
