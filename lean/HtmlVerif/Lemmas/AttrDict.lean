/-
Helper lemmas about the association-list dictionary (`dictSet`, `alookup`, `dictUpdate`) and the
closed form of the accumulation loop of `TagAttrDict.update`.
-/
import HtmlVerif.Spec.AttrMerge

namespace HtmlVerif

/-! ### names -/

theorem dropOneTrailing_eq (c : Char) (x : Str) :
    dropOneTrailing c x = if x.getLast? = some c then x.dropLast else x := by
  fun_induction dropOneTrailing c x <;> simp_all [List.getLast?_cons_cons]
  split <;> simp

theorem normAttrName_eq_spec (x : Str) : normAttrName x = normNameSpec x := by
  simp [normAttrName, normNameSpec, dropOneTrailing_eq]

theorem underscore_not_mem_normAttrName (x : Str) : '_' ∉ normAttrName x := by
  simp only [normAttrName, List.mem_map, not_exists, not_and]
  intro c _
  split <;> simp_all

theorem normAttrName_of_no_underscore {y : Str} (h : '_' ∉ y) : normAttrName y = y := by
  have h1 : y.getLast? ≠ some '_' := fun hl => h (List.mem_of_getLast? hl)
  simp only [normAttrName, h1, if_false]
  conv => rhs; rw [← List.map_id y]
  apply List.map_congr_left
  intro c hc
  have : c ≠ '_' := fun e => h (e ▸ hc)
  simp [this]

theorem normAttrName_idem (x : Str) : normAttrName (normAttrName x) = normAttrName x :=
  normAttrName_of_no_underscore (underscore_not_mem_normAttrName x)

/-! ### alookup / dictSet -/

theorem keysOf_append (a b : Attrs) : keysOf (a ++ b) = keysOf a ++ keysOf b := by simp [keysOf]

@[simp] theorem keysOf_singleton (k : Str) (v : AttrVal) : keysOf [(k, v)] = [k] := rfl

@[simp] theorem keysOf_nil : keysOf [] = [] := rfl

theorem alookup_cons {β} (q k : Str) (v : β) (r : List (Str × β)) :
    alookup q ((k, v) :: r) = if k = q then some v else alookup q r := rfl

theorem alookup_eq_none_iff {β} (q : Str) (a : List (Str × β)) :
    alookup q a = none ↔ q ∉ a.map Prod.fst := by
  induction a with
  | nil => simp [alookup]
  | cons h t ih =>
    obtain ⟨k, v⟩ := h
    by_cases hk : k = q
    · simp [alookup, hk]
    · simp [alookup, hk, ih, Ne.symm hk]

theorem alookup_isSome_iff {β} (q : Str) (a : List (Str × β)) :
    (alookup q a).isSome ↔ q ∈ a.map Prod.fst := by
  cases h : alookup q a with
  | none => simpa using (alookup_eq_none_iff q a).mp h
  | some v =>
    simp only [Option.isSome_some, true_iff]
    apply Classical.byContradiction
    intro hn
    rw [(alookup_eq_none_iff q a).mpr hn] at h
    cases h

theorem alookup_append {β} (q : Str) (a b : List (Str × β)) :
    alookup q (a ++ b) = (alookup q a).or (alookup q b) := by
  induction a with
  | nil => simp [alookup]
  | cons h t ih =>
    obtain ⟨k, v⟩ := h
    by_cases hk : k = q <;> simp [alookup, hk, ih]

theorem dictSet_of_not_mem (k : Str) (v : AttrVal) (a : Attrs) (h : k ∉ keysOf a) :
    dictSet k v a = a ++ [(k, v)] := by
  induction a with
  | nil => rfl
  | cons hd t ih =>
    obtain ⟨k', v'⟩ := hd
    simp only [keysOf, List.map_cons, List.mem_cons, not_or] at h
    have := ih (by simpa [keysOf] using h.2)
    simp [dictSet, Ne.symm h.1, this]

theorem keysOf_dictSet_of_mem (k : Str) (v : AttrVal) (a : Attrs) (h : k ∈ keysOf a) :
    keysOf (dictSet k v a) = keysOf a := by
  induction a with
  | nil => simp [keysOf] at h
  | cons hd t ih =>
    obtain ⟨k', v'⟩ := hd
    by_cases hk : k' = k
    · simp [dictSet, hk, keysOf]
    · have : k ∈ keysOf t := by
        simp only [keysOf, List.map_cons, List.mem_cons] at h
        rcases h with h | h
        · exact absurd h.symm hk
        · exact h
      have := ih this
      simp_all [dictSet, keysOf]

theorem keysOf_dictSet (k : Str) (v : AttrVal) (a : Attrs) :
    keysOf (dictSet k v a) = if k ∈ keysOf a then keysOf a else keysOf a ++ [k] := by
  by_cases h : k ∈ keysOf a
  · simp [h, keysOf_dictSet_of_mem]
  · rw [if_neg h, dictSet_of_not_mem _ _ _ h]; simp [keysOf]

theorem nodup_dictSet (k : Str) (v : AttrVal) (a : Attrs) (h : (keysOf a).Nodup) :
    (keysOf (dictSet k v a)).Nodup := by
  rw [keysOf_dictSet]
  split
  · exact h
  · rename_i hk
    rw [List.nodup_append]
    refine ⟨h, by simp, ?_⟩
    intro x hx y hy
    simp only [List.mem_singleton] at hy
    subst hy
    exact fun e => hk (e ▸ hx)

theorem alookup_dictSet_self (k : Str) (v : AttrVal) (a : Attrs) : alookup k (dictSet k v a) = some v := by
  induction a with
  | nil => simp [dictSet, alookup]
  | cons hd t ih =>
    obtain ⟨k', v'⟩ := hd
    by_cases hk : k' = k <;> simp [dictSet, alookup, hk, ih]

theorem alookup_dictSet_ne (q k : Str) (v : AttrVal) (a : Attrs) (h : q ≠ k) :
    alookup q (dictSet k v a) = alookup q a := by
  induction a with
  | nil => simp [dictSet, alookup, Ne.symm h]
  | cons hd t ih =>
    obtain ⟨k', v'⟩ := hd
    by_cases hk : k' = k
    · subst hk; simp [dictSet, alookup, Ne.symm h]
    · by_cases hq : k' = q
      · subst hq; simp [dictSet, alookup, hk]
      · simp [dictSet, alookup, hk, hq, ih]

/-! ### groupVals / joinVals -/

theorem groupVals_cons_self (k : Str) (v : AttrVal) (r : List (Str × AttrVal)) :
    groupVals k ((k, v) :: r) = v :: groupVals k r := by simp [groupVals]

theorem groupVals_cons_ne (q k : Str) (v : AttrVal) (r : List (Str × AttrVal)) (h : k ≠ q) :
    groupVals q ((k, v) :: r) = groupVals q r := by simp [groupVals, h]

theorem groupVals_filter (q : Str) (p : Str → Bool) (r : List (Str × AttrVal)) (h : p q = true) :
    groupVals q (r.filter fun kv => p kv.1) = groupVals q r := by
  induction r with
  | nil => rfl
  | cons hd t ih =>
    obtain ⟨k, v⟩ := hd
    by_cases hk : k = q
    · subst hk; simp [List.filter, h, groupVals_cons_self, ih]
    · cases hp : p k <;> simp [List.filter, hp, groupVals_cons_ne _ _ _ _ hk, ih]

theorem joinVals_cons (cfg : Cfg) (v w : AttrVal) (g : List AttrVal) :
    joinVals cfg v (w :: g) = joinVals cfg (mergeVal cfg v w) g := rfl

/-! ### the accumulation loop on already-normalised pairs -/

/-- the body of `update`'s inner loop after normalisation: merge with the value accumulated so far, or set -/
def accumNorm (cfg : Cfg) : List (Str × AttrVal) → Attrs → Attrs
  | [], acc => acc
  | (k, v) :: r, acc =>
    accumNorm cfg r (dictSet k (match alookup k acc with
      | some old => mergeVal cfg old v
      | none => v) acc)

theorem normValSpec_of_ok {v : AttrArg} (h : v ≠ .bad) : normAttrValue v = .ok (normValSpec v) := by
  cases v <;> simp_all [normAttrValue, normValSpec]

theorem accumPairs_eq (cfg : Cfg) (pairs : List (Str × AttrArg)) (acc : Attrs)
    (h : ∀ kv ∈ pairs, kv.2 ≠ .bad) :
    accumPairs cfg pairs acc = .ok (accumNorm cfg (normPairs pairs) acc) := by
  induction pairs generalizing acc with
  | nil => rfl
  | cons hd t ih =>
    obtain ⟨k, v⟩ := hd
    have hv : v ≠ .bad := h (k, v) (by simp)
    have ht : ∀ kv ∈ t, kv.2 ≠ .bad := fun kv hkv => h kv (by simp [hkv])
    rw [accumPairs, normValSpec_of_ok hv]
    cases hn : normValSpec v with
    | none => simp [normPairs, hn, ih _ ht]
    | some val =>
      simp only [normPairs, List.filterMap_cons, hn, Option.map_some]
      rw [ih _ ht, accumNorm, normAttrName_eq_spec]
      rfl

theorem accumPairs_bad (cfg : Cfg) (pairs : List (Str × AttrArg)) (acc : Attrs)
    (h : ∃ kv ∈ pairs, kv.2 = .bad) : accumPairs cfg pairs acc = .error .typeError := by
  induction pairs generalizing acc with
  | nil => simp at h
  | cons hd t ih =>
    obtain ⟨k, v⟩ := hd
    by_cases hv : v = .bad
    · subst hv; simp [accumPairs, normAttrValue]
    · have ht : ∃ kv ∈ t, kv.2 = .bad := by
        obtain ⟨kv, hm, hb⟩ := h
        simp only [List.mem_cons] at hm
        rcases hm with rfl | hm
        · exact absurd hb hv
        · exact ⟨kv, hm, hb⟩
      rw [accumPairs, normValSpec_of_ok hv]
      cases normValSpec v <;> simp [ih _ ht]

theorem accumPairs_append (cfg : Cfg) (a b : List (Str × AttrArg)) (acc : Attrs) :
    accumPairs cfg (a ++ b) acc =
      match accumPairs cfg a acc with
      | .error e => .error e
      | .ok acc' => accumPairs cfg b acc' := by
  induction a generalizing acc with
  | nil => rfl
  | cons hd t ih =>
    obtain ⟨k, v⟩ := hd
    simp only [List.cons_append, accumPairs]
    cases normAttrValue v with
    | error e => rfl
    | ok o => cases o <;> simp [ih]

theorem accumDicts_eq_flatten (cfg : Cfg) (ds : List (List (Str × AttrArg))) (acc : Attrs) :
    accumDicts cfg ds acc = accumPairs cfg ds.flatten acc := by
  induction ds generalizing acc with
  | nil => rfl
  | cons d t ih =>
    rw [accumDicts, List.flatten_cons, accumPairs_append]
    cases accumPairs cfg d acc <;> simp [ih]

/-- how one `dictSet` on an existing key shows up in the per-entry closed form -/
theorem map_dictSet_merge (cfg : Cfg) (k : Str) (v old : AttrVal) (r : List (Str × AttrVal)) (acc : Attrs)
    (hnd : (keysOf acc).Nodup) (hl : alookup k acc = some old) :
    (dictSet k (mergeVal cfg old v) acc).map (fun kv => (kv.1, joinVals cfg kv.2 (groupVals kv.1 r)))
      = acc.map (fun kv => (kv.1, joinVals cfg kv.2 (groupVals kv.1 ((k, v) :: r)))) := by
  induction acc with
  | nil => simp [alookup] at hl
  | cons hd t ih =>
    obtain ⟨k', v'⟩ := hd
    simp only [keysOf, List.map_cons, List.nodup_cons] at hnd
    by_cases hk : k' = k
    · subst hk
      simp only [alookup, if_true, Option.some.injEq] at hl
      subst hl
      simp only [dictSet, if_true, List.map_cons, groupVals_cons_self, joinVals_cons, List.cons.injEq, true_and]
      apply List.map_congr_left
      intro kv hkv
      have : k' ≠ kv.1 := fun e => hnd.1 (e ▸ List.mem_map_of_mem hkv)
      rw [groupVals_cons_ne _ _ _ _ this]
    · simp only [alookup, hk, if_false] at hl
      have := ih (by simpa [keysOf] using hnd.2) hl
      simp only [dictSet, hk, if_false, List.map_cons, this,
        groupVals_cons_ne _ _ _ _ (Ne.symm hk)]

theorem map_groupVals_cons_of_not_mem (cfg : Cfg) (k : Str) (v : AttrVal) (r : List (Str × AttrVal))
    (acc : Attrs) (h : k ∉ keysOf acc) :
    acc.map (fun kv => (kv.1, joinVals cfg kv.2 (groupVals kv.1 ((k, v) :: r))))
      = acc.map (fun kv => (kv.1, joinVals cfg kv.2 (groupVals kv.1 r))) := by
  apply List.map_congr_left
  intro kv hkv
  have : k ≠ kv.1 := fun e => h (e ▸ List.mem_map_of_mem hkv)
  rw [groupVals_cons_ne _ _ _ _ this]

theorem mergeSpecN_cons (cfg : Cfg) (k : Str) (v : AttrVal) (r : List (Str × AttrVal)) :
    mergeSpecN cfg ((k, v) :: r)
      = (k, joinVals cfg v (groupVals k r)) :: mergeSpecN cfg (withoutKey k r) := by
  rw [mergeSpecN]

/-- closed form of the accumulation: existing entries absorb the values given for their names, new names
    follow in order of first appearance -/
theorem accumNorm_closed (cfg : Cfg) (np : List (Str × AttrVal)) (acc : Attrs) (hnd : (keysOf acc).Nodup) :
    accumNorm cfg np acc
      = acc.map (fun kv => (kv.1, joinVals cfg kv.2 (groupVals kv.1 np)))
        ++ mergeSpecN cfg (np.filter fun kv => !(keysOf acc).contains kv.1) := by
  induction np generalizing acc with
  | nil => simp [accumNorm, groupVals, joinVals, mergeSpecN]
  | cons hd t ih =>
    obtain ⟨k, v⟩ := hd
    rw [accumNorm]
    cases hl : alookup k acc with
    | some old =>
      have hmem : k ∈ keysOf acc := (alookup_isSome_iff k acc).mp (by simp [hl])
      rw [ih _ (nodup_dictSet _ _ _ hnd), keysOf_dictSet_of_mem _ _ _ hmem,
        map_dictSet_merge cfg k v old t acc hnd hl]
      simp [List.filter, hmem]
    | none =>
      have hnm : k ∉ keysOf acc := (alookup_eq_none_iff k acc).mp hl
      simp only
      rw [ih _ (nodup_dictSet _ _ _ hnd), dictSet_of_not_mem _ _ _ hnm,
        map_groupVals_cons_of_not_mem cfg k v t acc hnm]
      have hf : ((k, v) :: t).filter (fun kv => !(keysOf acc).contains kv.1)
          = (k, v) :: t.filter (fun kv => !(keysOf acc).contains kv.1) := by
        simp [List.filter, hnm]
      have hff : t.filter (fun kv => !(keysOf (acc ++ [(k, v)])).contains kv.1)
          = withoutKey k (t.filter (fun kv => !(keysOf acc).contains kv.1)) := by
        rw [withoutKey, List.filter_filter]
        apply List.filter_congr
        intro kv _
        by_cases h1 : kv.1 = k <;> by_cases h2 : kv.1 ∈ keysOf acc <;> simp [keysOf_append, h1, h2]
      rw [hf, mergeSpecN_cons, hff,
        groupVals_filter k (fun x => !(keysOf acc).contains x) t (by simpa using hnm)]
      simp

theorem accumNorm_nil (cfg : Cfg) (np : List (Str × AttrVal)) : accumNorm cfg np [] = mergeSpecN cfg np := by
  rw [accumNorm_closed cfg np [] (by simp [keysOf])]
  have : np.filter (fun _ => true) = np := List.filter_eq_self.mpr (by simp)
  simp [this]

/-! ### facts about the closed form -/

theorem keysOf_mergeSpecN (cfg : Cfg) (np : List (Str × AttrVal)) :
    keysOf (mergeSpecN cfg np) = (np.map Prod.fst).eraseDups := by
  induction np using mergeSpecN.induct with
  | case1 => simp [mergeSpecN, keysOf]
  | case2 k v r ih =>
    rw [mergeSpecN_cons]
    simp only [keysOf, List.map_cons, List.eraseDups_cons] at ih ⊢
    rw [ih, withoutKey, List.filter_map]
    rfl

theorem mem_keysOf_mergeSpecN (cfg : Cfg) (np : List (Str × AttrVal)) (q : Str) :
    q ∈ keysOf (mergeSpecN cfg np) ↔ q ∈ np.map Prod.fst := by
  induction np using mergeSpecN.induct with
  | case1 => simp [mergeSpecN, keysOf]
  | case2 k v r ih =>
    rw [mergeSpecN_cons]
    simp only [keysOf, List.map_cons, List.mem_cons] at ih ⊢
    rw [ih]
    by_cases hq : q = k
    · simp [hq]
    · simp [hq, withoutKey, List.mem_filter]

theorem nodup_keysOf_mergeSpecN (cfg : Cfg) (np : List (Str × AttrVal)) :
    (keysOf (mergeSpecN cfg np)).Nodup := by
  induction np using mergeSpecN.induct with
  | case1 => simp [mergeSpecN, keysOf]
  | case2 k v r ih =>
    rw [mergeSpecN_cons]
    simp only [keysOf, List.map_cons, List.nodup_cons]
    refine ⟨?_, ih⟩
    have := (mem_keysOf_mergeSpecN cfg (withoutKey k r) k)
    simp only [keysOf] at this
    rw [this]
    simp [withoutKey, List.mem_filter]

theorem alookup_mergeSpecN (cfg : Cfg) (np : List (Str × AttrVal)) (q : Str) :
    alookup q (mergeSpecN cfg np) =
      match groupVals q np with
      | [] => none
      | v :: vs => some (joinVals cfg v vs) := by
  induction np using mergeSpecN.induct with
  | case1 => simp [mergeSpecN, alookup, groupVals]
  | case2 k v r ih =>
    rw [mergeSpecN_cons, alookup_cons]
    by_cases hk : k = q
    · subst hk; simp [groupVals_cons_self]
    · rw [if_neg hk, ih, groupVals_cons_ne _ _ _ _ hk, withoutKey,
        groupVals_filter q (fun x => x != k) r (by simp [Ne.symm hk])]

/-! ### dict.update -/

theorem override_dictSet_mem (k : Str) (v : AttrVal) (r cur : Attrs)
    (hnd : (keysOf cur).Nodup) (hk : k ∈ keysOf cur) (hr : k ∉ keysOf r) :
    (dictSet k v cur).map (fun kv => (kv.1, (alookup kv.1 r).getD kv.2))
      = cur.map (fun kv => (kv.1, (alookup kv.1 ((k, v) :: r)).getD kv.2)) := by
  induction cur with
  | nil => simp [keysOf] at hk
  | cons hd t ih =>
    obtain ⟨k', v'⟩ := hd
    simp only [keysOf, List.map_cons, List.nodup_cons] at hnd
    by_cases hkk : k' = k
    · subst hkk
      have hn : alookup k' r = none := (alookup_eq_none_iff k' r).mpr hr
      simp only [dictSet, if_true, List.map_cons, hn, Option.getD_none, alookup_cons, Option.getD_some,
        List.cons.injEq, true_and]
      apply List.map_congr_left
      intro kv hkv
      have : k' ≠ kv.1 := fun e => hnd.1 (e ▸ List.mem_map_of_mem hkv)
      simp [this]
    · have hk' : k ∈ keysOf t := by
        simp only [keysOf, List.map_cons, List.mem_cons] at hk
        rcases hk with h | h
        · exact absurd h.symm hkk
        · exact h
      have := ih (by simpa [keysOf] using hnd.2) hk'
      simp only [dictSet, hkk, if_false, List.map_cons, this, alookup_cons, Ne.symm hkk]

theorem dictUpdate_eq_override (cur new : Attrs) (hc : (keysOf cur).Nodup) (hn : (keysOf new).Nodup) :
    dictUpdate cur new = overrideKeepOrder cur new := by
  induction new generalizing cur with
  | nil => simp [dictUpdate, overrideKeepOrder, alookup]
  | cons hd r ih =>
    obtain ⟨k, v⟩ := hd
    simp only [keysOf, List.map_cons, List.nodup_cons] at hn
    have hr : k ∉ keysOf r := hn.1
    have step : dictUpdate cur ((k, v) :: r) = dictUpdate (dictSet k v cur) r := by
      simp [dictUpdate]
    rw [step, ih _ (nodup_dictSet _ _ _ hc) (by simpa [keysOf] using hn.2)]
    unfold overrideKeepOrder
    by_cases hk : k ∈ keysOf cur
    · rw [override_dictSet_mem k v r cur hc hk hr, keysOf_dictSet_of_mem _ _ _ hk]
      simp [List.filter, hk]
    · rw [dictSet_of_not_mem _ _ _ hk]
      have h1 : cur.map (fun kv => (kv.1, (alookup kv.1 ((k, v) :: r)).getD kv.2))
          = cur.map (fun kv => (kv.1, (alookup kv.1 r).getD kv.2)) := by
        apply List.map_congr_left
        intro kv hkv
        have : k ≠ kv.1 := fun e => hk (e ▸ List.mem_map_of_mem hkv)
        simp [alookup_cons, this]
      have h2 : r.filter (fun kv => !(keysOf (cur ++ [(k, v)])).contains kv.1)
          = r.filter (fun kv => !(keysOf cur).contains kv.1) := by
        apply List.filter_congr
        intro kv hkv
        have : kv.1 ≠ k := fun e => hr (e ▸ List.mem_map_of_mem hkv)
        simp [keysOf, this]
      have hn' : alookup k r = none := (alookup_eq_none_iff k r).mpr hr
      rw [h1, h2]
      simp [List.filter, hk, hn']

theorem alookup_map_override (q : Str) (cur new : Attrs) :
    alookup q (cur.map fun kv => (kv.1, (alookup kv.1 new).getD kv.2))
      = (alookup q cur).map (fun v => (alookup q new).getD v) := by
  induction cur with
  | nil => simp [alookup]
  | cons hd t ih =>
    obtain ⟨k, v⟩ := hd
    by_cases hk : k = q
    · subst hk; simp [alookup]
    · simp [alookup, hk, ih]

theorem alookup_filter_notin (q : Str) (ks : List Str) (new : Attrs) :
    alookup q (new.filter fun kv => !ks.contains kv.1) = if q ∈ ks then none else alookup q new := by
  induction new with
  | nil => simp [alookup]
  | cons hd t ih =>
    obtain ⟨k, v⟩ := hd
    by_cases hk : k = q
    · subst hk
      by_cases hm : k ∈ ks <;> simp_all [List.filter, alookup]
    · by_cases hm : k ∈ ks <;> simp_all [List.filter, alookup]

theorem alookup_override (q : Str) (cur new : Attrs) :
    alookup q (overrideKeepOrder cur new) = (alookup q new).or (alookup q cur) := by
  unfold overrideKeepOrder
  rw [alookup_append, alookup_map_override, alookup_filter_notin]
  cases hc : alookup q cur with
  | none =>
    have : q ∉ keysOf cur := (alookup_eq_none_iff q cur).mp hc
    simp [this]
  | some v =>
    have : q ∈ keysOf cur := (alookup_isSome_iff q cur).mp (by simp [hc])
    cases alookup q new <;> simp [this]

end HtmlVerif
