/-
C20 — JSX components convert purely and surface all dependencies.

Model: Model/Jsx.lean (htmltools/_jsx.py).  `Discipline.demanded` is the copy discipline the property demands
(every object is copied, with its own containers, before the walk assigns into it; the walked copy is rendered);
`Discipline.pinned` is the pinned `_jsx.py` (defect F-C20).  All theorems hold for every component tree.

Two further defects of the pinned code are stated the same way (the model follows the property, a `…_fails_for_pinned`
theorem exhibits the pinned behaviour): F-C20b — `if allowedProps:` treats a declared empty allow-list as no restriction
(`propsAllowedPinned`, `C20_allowed_fails_for_pinned`; repair fixes/C20-empty-allowedprops.patch); F-C20c — non-finite
floats are written `inf` / `-inf` / `nan`, which are not JavaScript (`C20_numbers_fails_for_pinned`; `C20_numbers_finite`
is the statement under the guard `finite`; repair fixes/C20-nonfinite-numbers.patch).
-/
import HtmlVerif.Lemmas.Jsx
import HtmlVerif.Generated.Tables

namespace HtmlVerif.C20
open HtmlVerif HtmlVerif.JsxL

/-! ## purity -/

/-- tagify() leaves the component — props, children and everything below them, including what the tagifiable
    objects in it hold — exactly as it was -/
theorem C20_pure (vs : List (Str × Str)) (name : Str) (props : JProps) (kids : JNodes) :
    (jsxTagify .demanded vs name props kids).after = .comp name props kids := by
  simp only [jsxTagify]
  exact walk_orig _

/-- … for every node of a tree on which tagify() is called -/
theorem C20_pure_node (vs : List (Str × Str)) (x : JNode) : (x.tagify .demanded vs).after = x := by
  cases x <;> simp [JNode.tagify, C20_pure]

/-- converted any number of times: the component is unchanged and every conversion gives the same result -/
theorem C20_pure_iter (vs : List (Str × Str)) (x : JNode) (n : Nat) :
    (x.tagifyN .demanded vs n).after = x ∧ (x.tagifyN .demanded vs n).result = (x.tagify .demanded vs).result := by
  induction n with
  | zero => simp [JNode.tagifyN, C20_pure_node]
  | succ n ih => simpa [JNode.tagifyN, C20_pure_node] using ih

/-- the visited objects at every depth: no prop value and no child of any nested component, tag or expansion is replaced -/
theorem C20_pure_walk (x : JNode) : (x.walk .demanded).orig = x := walk_orig x

/-- F-C20: under the copy discipline of the pinned `_jsx.py` the property is false — `x = Foo(TD(), p=TD())` with
    `TD().tagify()` a `<span>`: afterwards `x.children[0]` and `x.attrs["p"]` are Tags -/
theorem C20_pure_fails_for_pinned :
    ∃ (name : Str) (props : JProps) (kids : JNodes), ∀ vs,
      (jsxTagify .pinned vs name props kids).after ≠ .comp name props kids :=
  ⟨['F', 'o', 'o'], .cons ['p'] (.node (.tobj (.tag ['s', 'p', 'a', 'n'] [] .nil))) .nil,
    .cons (.tobj (.tag ['s', 'p', 'a', 'n'] [] .nil)) .nil, by
      intro vs
      simp [jsxTagify, JNode.walk, JProps.walkProps, JVal.walkVal, JNodes.walkKids, JNode.walkExp]⟩

/-- … while the script it returns is the one the property describes: the defect is confined to purity -/
theorem C20_pinned_same_result (vs : List (Str × Str)) (name : Str) (props : JProps) (kids : JNodes) :
    (jsxTagify .pinned vs name props kids).result = (jsxTagify .demanded vs name props kids).result := by
  have h1 : ((JNode.comp name props kids).walk .pinned).orig = ((JNode.comp name props kids).walk .pinned).node := by
    simp [JNode.walk]
  simp only [jsxTagify, pinned_renderCopy, demanded_renderCopy, h1, walk_metas]
  rw [walk_node_indep .pinned .demanded]
  simp

/-! ## the script element -/

/-- the result is the script element built from the JavaScript of the *walked* copy (tagifiable descendants expanded),
    the two library dependencies and the collected metadata nodes; an exception of the renderer or a missing version
    is passed on -/
theorem C20_script (vs : List (Str × Str)) (name : Str) (props : JProps) (kids : JNodes) :
    (jsxTagify .demanded vs name props kids).result =
      match ((JNode.comp name props kids).walk .demanded).node.renderJs 2 ['\n'] with
      | .error e => .error e
      | .ok component => expectedScript vs name component (JNode.comp name props kids).metasIn := by
  simp only [jsxTagify, demanded_renderCopy, walk_metas, expectedScript]
  rfl

/-- shape: `<script type="text/javascript" data-needs-render="">` with children
    `HTML("\n" + js + "\n") :: react :: react-dom :: collected` -/
theorem C20_script_shape (vs : List (Str × Str)) (name component : Str) (ms : List JMeta) (r : Node)
    (h : expectedScript vs name component ms = .ok r) :
    ∃ react reactDom,
      libDependency vs (chars% "react") (chars% "react.production.min.js") = .ok react ∧
      libDependency vs (chars% "react-dom") (chars% "react-dom.production.min.js") = .ok reactDom ∧
      r = .tag (chars% "script") true
            [(chars% "type", .plain (chars% "text/javascript")), (chars% "data-needs-render", .plain [])]
            (.cons (.html ('\n' :: jsWrap name component ++ ['\n']))
              (.cons react (.cons reactDom (Nodes.ofList (ms.map JMeta.toNode))))) := by
  unfold expectedScript at h
  cases h1 : libDependency vs (chars% "react") (chars% "react.production.min.js") with
  | error e => simp [h1] at h
  | ok react =>
    cases h2 : libDependency vs (chars% "react-dom") (chars% "react-dom.production.min.js") with
    | error e => simp [h1, h2] at h
    | ok reactDom =>
      simp [h1, h2] at h
      exact ⟨react, reactDom, rfl, rfl, by rw [← h]; rfl⟩

/-- `str(component)`: the opening tag, the script body verbatim (it is `HTML`, and the metadata children leave no
    trace), the closing tag — for any tables, at indent 0 and any `eol` -/
theorem C20_script_text (cfg : Cfg)
    (vs : List (Str × Str)) (name component : Str) (ms : List JMeta) (r : Node) (eol : Str)
    (h : expectedScript vs name component ms = .ok r) :
    r.render cfg 0 eol =
      openTag cfg (chars% "script") scriptAttrs ++ '>' :: ('\n' :: jsWrap name component ++ ['\n'])
        ++ closeTag (chars% "script") := by
  unfold expectedScript at h
  unfold libDependency at h
  cases h1 : alookup (chars% "react") vs with
  | none => simp [h1] at h
  | some v1 =>
    cases h2 : alookup (chars% "react-dom") vs with
    | none => simp [h1, h2] at h
    | some v2 =>
      simp [h1, h2] at h
      subst h
      simp [scriptTag, Node.render, Nodes.visible, Node.isMeta, visible_metas, inlineChild?, inlineText, indentStr]

/-! ## collected metadata -/

/-- what the walk appends to `metadata_nodes`, in its order, is the list of metadata nodes found in the component
    in document order (for either discipline) -/
theorem C20_collected (d : Discipline) (x : JNode) : (x.walk d).metas = x.metasIn := walk_metas d x

/-- complete: every metadata node attached anywhere — on children, nested tags or components, props whose value is a
    tag, component or tagifiable object, the expansions of tagifiable descendants — is collected -/
theorem C20_collected_complete (x : JNode) (m : JMeta) (h : Attached x m) : m ∈ (x.walk .demanded).metas := by
  rw [walk_metas]; exact mem_of_attached x m h

/-- sound: nothing else is collected -/
theorem C20_collected_sound (x : JNode) (m : JMeta) (h : m ∈ (x.walk .demanded).metas) : Attached x m := by
  rw [walk_metas] at h; exact attached_of_mem x m h

/-- … and they are children of the returned script element, after the two library dependencies -/
theorem C20_collected_on_script (vs : List (Str × Str)) (name : Str) (props : JProps) (kids : JNodes) (r : Node)
    (h : (jsxTagify .demanded vs name props kids).result = .ok r) :
    ∃ n w a body react reactDom,
      r = .tag n w a (.cons body (.cons react (.cons reactDom
            (Nodes.ofList ((JNode.comp name props kids).metasIn.map JMeta.toNode))))) := by
  rw [C20_script] at h
  split at h
  · simp at h
  · obtain ⟨react, reactDom, _, _, hr⟩ := C20_script_shape _ _ _ _ _ h
    exact ⟨_, _, _, _, react, reactDom, hr⟩

/-! ## react / react-dom -/

/-- a library dependency carries the pinned version of its package, the package-relative source directory and one script -/
theorem C20_react (vs : List (Str × Str)) (pkg src : Str) (n : Node) (h : libDependency vs pkg src = .ok n) :
    ∃ v, alookup pkg vs = some v ∧
      n = .dep { name := pkg, version := v, vrank := 0,
                 source := .subdir (some (chars% "htmltools")) (chars% "lib/" ++ pkg) [],
                 script := [[(chars% "src", src)]], stylesheet := [], metas := [], allFiles := false } false .nil := by
  unfold libDependency at h
  cases hv : alookup pkg vs with
  | none => simp [hv] at h
  | some v => simp [hv] at h; exact ⟨v, rfl, h.symm⟩

/-- `_versions.py`, as it is in the source right now, pins both packages (so tagify never raises KeyError) -/
theorem C20_react_pinned :
    (alookup (chars% "react") Generated.reactVersions).isSome = true ∧
    (alookup (chars% "react-dom") Generated.reactVersions).isSome = true := by
  decide +kernel

/-! ## the createElement expression mirrors the component -/

/-- `_render_react_js` writes the layout of the mirrored expression tree (and raises exactly when there is none) -/
theorem C20_mirror (x : JNode) (i : Nat) (eol : Str) :
    x.renderJs i eol = x.mirror.map fun j => j.print i eol := mirror_node x i eol

/-- a component mirrors to `createElement(name, {props}, children…)` and a tag to `createElement('name', …)` -/
theorem C20_mirror_element (n : Str) (ps : JProps) (ks : JNodes) (j : Js) (h : (JNode.comp n ps ks).mirror = .ok j) :
    ∃ fs js, j = .create n fs ks.isEmpty js ∧ ps.mirrorFields true = .ok fs ∧
      (ks.isEmpty = false → ks.mirrorKids = .ok js) ∧ (ks.isEmpty = true → js = .nil) := by
  simp only [JNode.mirror, createMirror] at h
  cases hf : ps.mirrorFields true with
  | error e => simp [hf] at h
  | ok fs =>
    cases hk : ks.isEmpty with
    | true => simp [hf, hk] at h; exact ⟨fs, .nil, h.symm, rfl, by simp, by simp⟩
    | false =>
      cases hm : ks.mirrorKids with
      | error e => simp [hf, hk, hm] at h
      | ok js => simp [hf, hk, hm] at h; exact ⟨fs, js, h.symm, rfl, by simp, by simp⟩

/-- each prop once, under the name it is stored with, in stored order -/
theorem C20_mirror_props (top : Bool) (ps : JProps) (fs : JsFields) (h : ps.mirrorFields top = .ok fs) :
    fs.keys = ps.keys := mirrorFields_keys h

/-- each child that is not a metadata node once, in order, mirrored in turn (nested correspondingly) -/
theorem C20_mirror_children : (ks : JNodes) → (js : Jss) → ks.mirrorKids = .ok js →
    (ks.toList.filter fun k => match k with | .md _ => false | _ => true).map JNode.mirror = js.toList.map .ok
  | .nil, js, h => by simp [JNodes.mirrorKids] at h; subst h; simp [JNodes.toList, Jss.toList]
  | .cons x t, js, h => by
    by_cases hmd : ∃ m, x = .md m
    · have ⟨m, hm⟩ := hmd
      subst hm
      simp only [JNodes.mirrorKids] at h
      simpa [JNodes.toList] using C20_mirror_children t js h
    · have hx : ∀ m, x ≠ .md m := fun m hm => hmd ⟨m, hm⟩
      have hk : (JNodes.cons x t).mirrorKids =
          match x.mirror with
          | .error e => .error e
          | .ok j => match t.mirrorKids with
            | .error e => .error e
            | .ok js => .ok (.cons j js) := by
        cases x <;> first | (exact absurd rfl (hx _)) | (simp only [JNodes.mirrorKids]; rfl)
      rw [hk] at h
      cases hm : x.mirror with
      | error e => simp [hm] at h
      | ok j =>
        cases ht : t.mirrorKids with
        | error e => simp [hm, ht] at h
        | ok js' =>
          simp [hm, ht] at h; subst h
          simp only [JNodes.toList, List.filter_cons, if_true, Jss.toList, List.map_cons, hm]
          rw [C20_mirror_children t js' ht]

/-! ## props are stored once under their normalised names -/

/-- `JSXTagAttrDict(**kwargs)`: no name twice; a name is stored iff it is the normalised form of some keyword;
    its value is that of the last such keyword -/
theorem C20_props_normalised (kw : List (Str × JVal)) :
    (mkProps kw).keys.Nodup ∧
    (∀ k, k ∈ (mkProps kw).keys ↔ ∃ kv ∈ kw, normAttrName kv.1 = k) ∧
    (∀ k, (mkProps kw).lookup k = (kw.reverse.find? fun kv => normAttrName kv.1 = k).map (·.2)) := by
  have hmk : mkProps kw = foldProps .nil kw := rfl
  refine ⟨hmk ▸ foldProps_nodup kw .nil (by simp [JProps.keys]), fun k => ?_, fun k => ?_⟩
  · rw [hmk]; simpa [JProps.keys] using foldProps_mem kw .nil k
  · have := foldProps_lookup kw .nil k
    simp only [mkProps, foldProps] at this ⊢
    rw [this]
    cases kw.reverse.find? (fun kv => normAttrName kv.1 = k) <;> simp [JProps.lookup]

/-- … so the expression has each keyword's normalised name exactly once -/
theorem C20_mirror_props_once (kw : List (Str × JVal)) (fs : JsFields) (h : (mkProps kw).mirrorFields true = .ok fs) :
    fs.keys.Nodup ∧ ∀ k, k ∈ fs.keys ↔ ∃ kv ∈ kw, normAttrName kv.1 = k := by
  rw [mirrorFields_keys h]
  exact ⟨(C20_props_normalised kw).1, (C20_props_normalised kw).2.1⟩

/-! ## values -/

/-- None, booleans, numbers, strings, jsx() expressions, lists/tuples, dicts, tags and components are written as the
    corresponding JavaScript (lists and dicts element-wise, tags and components as nested createElement calls) -/
theorem C20_values :
    JVal.null.serialize = .ok (chars% "null") ∧
    (JVal.bool true).serialize = .ok (chars% "true") ∧
    (JVal.bool false).serialize = .ok (chars% "false") ∧
    (∀ t, (JVal.num t).serialize = .ok (numJs t)) ∧
    (∀ s, (JVal.str s).serialize = .ok (jsQuote s)) ∧
    (∀ s, (JVal.jsx s).serialize = .ok s) ∧
    (∀ tup vs ss, vs.serializeAll = .ok ss → (JVal.list tup vs).serialize = .ok (jsArr ss)) ∧
    (∀ fs ss, fs.fieldsJs false = .ok ss → (JVal.dict fs).serialize = .ok (jsObj ss)) ∧
    (∀ n p k, (JVal.node (.comp n p k)).serialize = (JNode.comp n p k).renderJs 0 ['\n']) ∧
    (∀ n a k, (JVal.node (.tag n a k)).serialize = (JNode.tag n a k).renderJs 0 ['\n']) := by
  refine ⟨rfl, rfl, rfl, fun _ => rfl, fun _ => rfl, fun _ => rfl, ?_, ?_, fun _ _ _ => rfl, fun _ _ _ => rfl⟩
  · intro tup vs ss h; simp [JVal.serialize, h]
  · intro fs ss h; simp [JVal.serialize, h]

/-- element-wise: one item per element / one `"key": value` per entry, in order -/
theorem C20_values_items (h : JVal) (t : JVals) (s : Str) (ss : List Str)
    (hh : h.serialize = .ok s) (ht : t.serializeAll = .ok ss) : (JVals.cons h t).serializeAll = .ok (s :: ss) := by
  simp [JVals.serializeAll, hh, ht]

theorem C20_values_fields (k : Str) (v : JVal) (t : JProps) (s : Str) (ss : List Str)
    (hv : v.serialize = .ok s) (ht : t.fieldsJs false = .ok ss) :
    (JProps.cons k v t).fieldsJs false = .ok (jsField k s :: ss) := by
  simp [JProps.fieldsJs, hv, ht]

/-- the `style` prop: a CSS string becomes an object of its declarations, a dict is written as a dict, None as `{}` -/
theorem C20_values_style :
    JVal.null.serializeStyle = .ok ['{', '}'] ∧
    (∀ s kvs, parseStyle s = .ok kvs →
      (JVal.str s).serializeStyle = .ok (jsObj (kvs.map fun kv => jsField kv.1 (jsQuote kv.2)))) ∧
    (∀ fs, (JVal.dict fs).serializeStyle = (JVal.dict fs).serialize) := by
  refine ⟨rfl, ?_, fun _ => rfl⟩
  intro s kvs h
  simp [JVal.serializeStyle, styleOfString, h]

/-! ## numbers -/

/-- `inf`, `-inf` and `nan` are not JavaScript numbers (nor is any other text that is not a decimal literal,
    `Infinity`, `-Infinity` or `NaN`) -/
theorem C20_python_nonfinite_text_is_not_js (v : PyNum) :
    jsNumberDenotes (chars% "inf") v = false ∧ jsNumberDenotes (chars% "-inf") v = false ∧
    jsNumberDenotes (chars% "nan") v = false := by
  have h1 : jsNumParse (chars% "inf") = none := by decide
  have h2 : jsNumParse (chars% "-inf") = none := by decide
  have h3 : jsNumParse (chars% "nan") = none := by decide
  simp [jsNumberDenotes, h1, h2, h3]

/-- a number is written as a JavaScript numeric expression that evaluates to it: `t` is what Python's `str()` gives
    for the number `v` (`pyStrOf`: the runtime's contribution — a decimal literal denoting `v` when `v` is finite,
    `inf`/`-inf`/`nan` otherwise) -/
theorem C20_numbers (t : Str) (v : PyNum) (h : pyStrOf t v = true) :
    (JVal.num t).serialize = .ok (numJs t) ∧ jsNumberDenotes (numJs t) v = true := by
  refine ⟨rfl, ?_⟩
  have hfin : ∀ w : PyNum, jsNumberDenotes t w = true → numJs t = t := by
    intro w hw
    have hn := C20_python_nonfinite_text_is_not_js w
    unfold numJs
    by_cases h1 : t = chars% "inf"
    · rw [h1, hn.1] at hw; cases hw
    · by_cases h2 : t = chars% "-inf"
      · rw [h2, hn.2.1] at hw; cases hw
      · by_cases h3 : t = chars% "nan"
        · rw [h3, hn.2.2] at hw; cases hw
        · simp [h1, h2, h3]
  cases v with
  | int i => rw [hfin _ h]; exact h
  | float n m e => rw [hfin _ h]; exact h
  | inf n =>
    cases n with
    | false =>
      have : t = chars% "inf" := by simpa [pyStrOf] using h
      subst this; decide
    | true =>
      have : t = chars% "-inf" := by simpa [pyStrOf] using h
      subst this; decide
  | nan =>
    have : t = chars% "nan" := by simpa [pyStrOf] using h
    subst this; decide

/-- under the guard `finite` the text is exactly Python's (true of the pinned code as well) -/
theorem C20_numbers_finite (t : Str) (v : PyNum) (hf : v.finite = true) (h : pyStrOf t v = true) :
    (JVal.num t).serialize = .ok t ∧ jsNumberDenotes t v = true := by
  have h' : jsNumberDenotes t v = true := by
    cases v <;> first | exact h | cases hf
  have hn := C20_python_nonfinite_text_is_not_js v
  have : numJs t = t := by
    unfold numJs
    by_cases h1 : t = chars% "inf"
    · rw [h1, hn.1] at h'; cases h'
    · by_cases h2 : t = chars% "-inf"
      · rw [h2, hn.2.1] at h'; cases h'
      · by_cases h3 : t = chars% "nan"
        · rw [h3, hn.2.2] at h'; cases h'
        · simp [h1, h2, h3]
  exact ⟨by show Except.ok (numJs t) = _; rw [this], h'⟩

/-- F-C20c: the guard is needed for a serialiser that writes `str(x)` for every number, as the pinned
    `_serialize_attr` does — `float("inf")`, `float("-inf")` and `float("nan")` come out as `inf`, `-inf`, `nan` -/
theorem C20_numbers_fails_for_pinned :
    ∃ t v, pyStrOf t v = true ∧ v.finite = false ∧ jsNumberDenotes t v = false :=
  ⟨chars% "inf", .inf false, by decide, rfl, by decide⟩

/-! ## strings -/

/-- a string free of backslashes and line breaks is written as a double-quoted literal that denotes the original text -/
theorem C20_strings (s : Str) (h : plainJsText s = true) : jsStringDenotes (jsQuote s) = some s := by
  simp only [jsQuote, jsStringDenotes]
  exact jsBody_quoted s h

/-- … as a prop value and (after the indentation) as a child -/
theorem C20_strings_positions (s : Str) (i : Nat) (eol : Str) :
    (JVal.str s).serialize = .ok (jsQuote s) ∧ (JNode.str .plain s).renderJs i eol = .ok (indentStr i ++ jsQuote s) :=
  ⟨rfl, rfl⟩

/-- the restriction is needed: with a backslash the literal denotes something else -/
theorem C20_strings_guard_needed : jsStringDenotes (jsQuote ['a', '\\']) ≠ some ['a', '\\'] := by decide

/-! ## construction -/

/-- a prop outside a declared allow-list is rejected at construction — also when the declared list is empty -/
theorem C20_allowed (upper : Str → Str) (name : Str) (ps : List Str) (kw : List (Str × JVal)) (kids : JNodes)
    (hout : ∃ kv ∈ kw, kv.1 ∉ ps) :
    jsxInit upper name (some ps) kw kids = .error .notImplemented := by
  unfold jsxInit
  split
  · rfl
  · have : propsAllowed (some ps) kw = false := by
      obtain ⟨kv, hkv, hn⟩ := hout
      simp only [propsAllowed]
      apply Bool.eq_false_iff.mpr
      intro hall
      rw [List.all_eq_true] at hall
      have := hall kv hkv
      exact hn (by simpa using this)
    simp [this]

/-- a declared empty allow-list admits no prop at all -/
theorem C20_allowed_empty (upper : Str → Str) (name : Str) (kv : Str × JVal) (kw : List (Str × JVal)) (kids : JNodes) :
    jsxInit upper name (some []) (kv :: kw) kids = .error .notImplemented :=
  C20_allowed upper name [] (kv :: kw) kids ⟨kv, by simp, by simp⟩

/-- conversely nothing is rejected for its props when no list is declared or every keyword is listed -/
theorem C20_allowed_iff (allowed : Option (List Str)) (kw : List (Str × JVal)) :
    propsAllowed allowed kw = true ↔ ∀ ps, allowed = some ps → ∀ kv ∈ kw, kv.1 ∈ ps := by
  cases allowed with
  | none => simp [propsAllowed]
  | some ps => simp [propsAllowed, List.all_eq_true]

/-- F-C20b: the pinned truthiness test `if allowedProps:` lets every prop through a declared empty list —
    `jsx_tag_create("Foo", allowedProps=[])(zzz=1)` is accepted; on non-empty lists (and `None`) it agrees -/
theorem C20_allowed_fails_for_pinned :
    propsAllowedPinned (some []) [(['z', 'z', 'z'], .num ['1'])] = true ∧
    propsAllowed (some []) [(['z', 'z', 'z'], .num ['1'])] = false ∧
    (∀ allowed kw, allowed ≠ some [] → propsAllowedPinned allowed kw = propsAllowed allowed kw) := by
  refine ⟨rfl, rfl, ?_⟩
  intro allowed kw h
  cases allowed with
  | none => rfl
  | some ps =>
    cases ps with
    | nil => exact absurd rfl h
    | cons p r => rfl

/-- a name whose last dotted piece does not start with a capital letter is rejected -/
theorem C20_lowercase_rejected (upper : Str → Str) (name : Str) (allowed : Option (List Str))
    (kw : List (Str × JVal)) (kids : JNodes) (h : nameInitial name ≠ upper (nameInitial name)) :
    jsxInit upper name allowed kw kids = .error .notImplemented := by
  simp [jsxInit, h]

/-- otherwise the component holds the normalised props and the children in the order given -/
theorem C20_init (upper : Str → Str) (name : Str) (allowed : Option (List Str)) (kw : List (Str × JVal)) (kids : JNodes)
    (hn : nameInitial name = upper (nameInitial name)) (ha : propsAllowed allowed kw = true) :
    jsxInit upper name allowed kw kids = .ok (.comp name (mkProps kw) kids) := by
  unfold jsxInit
  rw [if_neg (fun h => h hn)]
  simp [ha]

/-! ## non-vacuity -/

/-- a component with a tagifiable child expanding to a tag that holds a metadata node, and a tagifiable prop: the
    node is attached, hence collected, and the component is unchanged -/
example : Attached (.comp ['F'] (.cons ['p'] (.node (.tobj (.str .plain ['s']))) .nil)
      (.cons (.tobj (.tag ['i'] [] (.cons (.md (.mnode 7)) .nil))) .nil)) (.mnode 7) :=
  .compChild (.head (.expansion (.tagChild (.head (.here _)))))

example : ((JNode.comp ['F'] (.cons ['p'] (.node (.tobj (.str .plain ['s']))) .nil)
      (.cons (.tobj (.tag ['i'] [] (.cons (.md (.mnode 7)) .nil))) .nil)).walk .demanded).metas = [.mnode 7] := by
  rw [C20_collected]; rfl

/-- hypotheses of `C20_allowed` / `C20_strings` / `C20_numbers` are satisfiable -/
example : jsxInit id ['F'] (some [['a']]) [(['b'], .null)] .nil = .error .notImplemented :=
  C20_allowed id ['F'] [['a']] [(['b'], .null)] .nil ⟨(['b'], .null), by simp, by simp⟩

/-- `1e+22` = 4768371582031250 · 2^21 exactly; `-0.0` keeps its sign; `0.1` is not a double but the literal rounds to the
    double Python holds (and not to its neighbour); the smallest subnormal and the largest finite double; a power of two
    (nearer lower neighbour); a 30-digit int; a literal with leading zeros is not JavaScript -/
example : pyStrOf (chars% "1e+22") (.float false 4768371582031250 21) = true ∧
    pyStrOf (chars% "-0.0") (.float true 0 (-1074)) = true ∧
    pyStrOf (chars% "0.0") (.float true 0 (-1074)) = false ∧
    pyStrOf (chars% "0.1") (.float false 7205759403792794 (-56)) = true ∧
    pyStrOf (chars% "0.1") (.float false 7205759403792793 (-56)) = false ∧
    pyStrOf (chars% "5e-324") (.float false 1 (-1074)) = true ∧
    pyStrOf (chars% "1.7976931348623157e+308") (.float false 9007199254740991 971) = true ∧
    pyStrOf (chars% "4503599627370496.0") (.float false 4503599627370496 0) = true ∧
    pyStrOf (chars% "123456789012345678901234567890") (.int 123456789012345678901234567890) = true ∧
    pyStrOf (chars% "2.5") (.float false 5629499534213120 (-51)) = true ∧
    pyStrOf (chars% "007") (.int 7) = false ∧ pyStrOf (chars% "1e5") (.int 100000) = true := by decide +kernel

end HtmlVerif.C20
