/-
Helper lemmas for C20 (walk, collection, mirror, string literals, props dict).
-/
import HtmlVerif.Spec.Jsx

namespace HtmlVerif.JsxL
open HtmlVerif

@[simp] theorem demanded_jsxCopy : Discipline.demanded.jsxCopy = true := rfl
@[simp] theorem demanded_expCopy : Discipline.demanded.expCopy = true := rfl
@[simp] theorem demanded_renderCopy : Discipline.demanded.renderCopy = true := rfl
@[simp] theorem pinned_jsxCopy : Discipline.pinned.jsxCopy = false := rfl
@[simp] theorem pinned_expCopy : Discipline.pinned.expCopy = false := rfl
@[simp] theorem pinned_renderCopy : Discipline.pinned.renderCopy = false := rfl

/-! ### the walk under the demanded discipline leaves every visited object as it was -/

mutual
  theorem walk_orig (x : JNode) : (x.walk .demanded).orig = x := by
    cases x with
    | comp n ps ks => simp [JNode.walk, walkProps_orig ps, walkKids_orig ks]
    | tag n a ks => simp [JNode.walk, walkKids_orig ks]
    | str k s => simp [JNode.walk]
    | md m => simp [JNode.walk]
    | tobj e => simp [JNode.walk, walkExp_orig e]
    | tobjL es => simp [JNode.walk]
  theorem walkExp_orig (x : JNode) : (x.walkExp .demanded).orig = x := by
    cases x with
    | comp n ps ks => simp [JNode.walkExp, walkProps_orig ps, walkKids_orig ks]
    | tag n a ks => simp [JNode.walkExp, walkKids_orig ks]
    | str k s => simp [JNode.walkExp]
    | md m => simp [JNode.walkExp]
    | tobj e => simp [JNode.walkExp]
    | tobjL es => simp [JNode.walkExp]
  theorem walkKids_orig (ks : JNodes) : (ks.walkKids .demanded).orig = ks := by
    cases ks with
    | nil => simp [JNodes.walkKids]
    | cons h t => simp [JNodes.walkKids, walk_orig h, walkKids_orig t]
  theorem walkVal_orig (v : JVal) : (v.walkVal .demanded).orig = v := by
    cases v with
    | node n => simp [JVal.walkVal, walk_orig n]
    | _ => simp [JVal.walkVal]
  theorem walkProps_orig (ps : JProps) : (ps.walkProps .demanded).orig = ps := by
    cases ps with
    | nil => simp [JProps.walkProps]
    | cons k v t => simp [JProps.walkProps, walkVal_orig v, walkProps_orig t]
end

/-! ### the walked copy and the collected metadata do not depend on the discipline -/

mutual
  theorem walk_node_indep (d d' : Discipline) (x : JNode) : (x.walk d).node = (x.walk d').node := by
    cases x with
    | comp n ps ks => simp [JNode.walk, walkProps_node_indep d d' ps, walkKids_node_indep d d' ks]
    | tag n a ks => simp [JNode.walk, walkKids_node_indep d d' ks]
    | str k s => simp [JNode.walk]
    | md m => simp [JNode.walk]
    | tobj e => simp [JNode.walk, walkExp_node_indep d d' e]
    | tobjL es => simp [JNode.walk]
  theorem walkExp_node_indep (d d' : Discipline) (x : JNode) : (x.walkExp d).node = (x.walkExp d').node := by
    cases x with
    | comp n ps ks => simp [JNode.walkExp, walkProps_node_indep d d' ps, walkKids_node_indep d d' ks]
    | tag n a ks => simp [JNode.walkExp, walkKids_node_indep d d' ks]
    | str k s => simp [JNode.walkExp]
    | md m => simp [JNode.walkExp]
    | tobj e => simp [JNode.walkExp]
    | tobjL es => simp [JNode.walkExp]
  theorem walkKids_node_indep (d d' : Discipline) (ks : JNodes) : (ks.walkKids d).node = (ks.walkKids d').node := by
    cases ks with
    | nil => simp [JNodes.walkKids]
    | cons h t => simp [JNodes.walkKids, walk_node_indep d d' h, walkKids_node_indep d d' t]
  theorem walkVal_node_indep (d d' : Discipline) (v : JVal) : (v.walkVal d).node = (v.walkVal d').node := by
    cases v with
    | node n => simp [JVal.walkVal, walk_node_indep d d' n]
    | _ => simp [JVal.walkVal]
  theorem walkProps_node_indep (d d' : Discipline) (ps : JProps) : (ps.walkProps d).node = (ps.walkProps d').node := by
    cases ps with
    | nil => simp [JProps.walkProps]
    | cons k v t => simp [JProps.walkProps, walkVal_node_indep d d' v, walkProps_node_indep d d' t]
end

mutual
  theorem walk_metas (d : Discipline) (x : JNode) : (x.walk d).metas = x.metasIn := by
    cases x with
    | comp n ps ks => simp [JNode.walk, JNode.metasIn, walkProps_metas d ps, walkKids_metas d ks]
    | tag n a ks => simp [JNode.walk, JNode.metasIn, walkKids_metas d ks]
    | str k s => simp [JNode.walk, JNode.metasIn]
    | md m => simp [JNode.walk, JNode.metasIn]
    | tobj e => simp [JNode.walk, JNode.metasIn, walkExp_metas d e]
    | tobjL es => simp [JNode.walk, JNode.metasIn]
  theorem walkExp_metas (d : Discipline) (x : JNode) : (x.walkExp d).metas = x.metasInExp := by
    cases x with
    | comp n ps ks => simp [JNode.walkExp, JNode.metasInExp, walkProps_metas d ps, walkKids_metas d ks]
    | tag n a ks => simp [JNode.walkExp, JNode.metasInExp, walkKids_metas d ks]
    | str k s => simp [JNode.walkExp, JNode.metasInExp]
    | md m => simp [JNode.walkExp, JNode.metasInExp]
    | tobj e => simp [JNode.walkExp, JNode.metasInExp]
    | tobjL es => simp [JNode.walkExp, JNode.metasInExp]
  theorem walkKids_metas (d : Discipline) (ks : JNodes) : (ks.walkKids d).metas = ks.metasInKids := by
    cases ks with
    | nil => simp [JNodes.walkKids, JNodes.metasInKids]
    | cons h t => simp [JNodes.walkKids, JNodes.metasInKids, walk_metas d h, walkKids_metas d t]
  theorem walkVal_metas (d : Discipline) (v : JVal) : (v.walkVal d).metas = v.metasInVal := by
    cases v with
    | node n => simp [JVal.walkVal, JVal.metasInVal, walk_metas d n]
    | _ => simp [JVal.walkVal, JVal.metasInVal]
  theorem walkProps_metas (d : Discipline) (ps : JProps) : (ps.walkProps d).metas = ps.metasInProps := by
    cases ps with
    | nil => simp [JProps.walkProps, JProps.metasInProps]
    | cons k v t => simp [JProps.walkProps, JProps.metasInProps, walkVal_metas d v, walkProps_metas d t]
end

/-! ### `_render_react_js` is the layout of the mirrored expression -/

theorem printFields_styleFields (kvs : List (Str × Str)) :
    (styleFields kvs).printFields = kvs.map fun kv => jsField kv.1 (jsQuote kv.2) := by
  induction kvs with
  | nil => simp [styleFields, JsFields.printFields]
  | cons kv r ih => obtain ⟨k, v⟩ := kv; simp [styleFields, JsFields.printFields, Js.print, indentStr, ih]

theorem styleOfString_eq (s : Str) :
    styleOfString s = (parseStyle s).map fun kvs => (Js.obj (styleFields kvs)).print 0 ['\n'] := by
  unfold styleOfString
  cases parseStyle s <;> simp [Except.map, Js.print, printFields_styleFields]

theorem attrVal_mirror (k : Str) (v : AttrVal) :
    attrValJs k v = (attrValMirror k v).map fun j => j.print 0 ['\n'] := by
  unfold attrValJs attrValMirror
  split
  · cases v with
    | plain s => simp only [styleOfString_eq]; cases parseStyle s <;> simp [Except.map]
    | html s => simp [Except.map]
  · simp [Except.map, Js.print, indentStr]

theorem attrs_mirror (a : Attrs) : attrsJs a = (attrsMirror a).map fun fs => fs.printFields := by
  induction a with
  | nil => simp [attrsJs, attrsMirror, Except.map, JsFields.printFields]
  | cons kv r ih =>
    obtain ⟨k, v⟩ := kv
    simp only [attrsJs, attrsMirror, attrVal_mirror, ih]
    cases attrValMirror k v <;> simp [Except.map]
    cases attrsMirror r <;> simp [JsFields.printFields]

theorem attrsMirror_isEmpty {a : Attrs} {fs : JsFields} (h : attrsMirror a = .ok fs) : fs.isEmpty = a.isEmpty := by
  cases a with
  | nil => simp [attrsMirror] at h; subst h; rfl
  | cons kv r =>
    obtain ⟨k, v⟩ := kv
    simp only [attrsMirror] at h
    cases hv : attrValMirror k v <;> simp [hv] at h
    cases hr : attrsMirror r <;> simp [hr] at h
    subst h; rfl

theorem elem_mirror (i : Nat) (eol nm : Str) (noAttrs noKids : Bool)
    (mf : Except Err JsFields) (mk : Except Err Jss)
    (hnil : noAttrs = true → mf = .ok .nil)
    (hempty : ∀ fs, mf = .ok fs → fs.isEmpty = noAttrs) :
    elemJs i eol nm noAttrs noKids (mf.map fun fs => fs.printFields) (mk.map fun ks => ks.printKids (i + 1) eol)
      = (createMirror nm noKids mf mk).map fun j => j.print i eol := by
  cases mf with
  | error e =>
    cases noAttrs with
    | true => simp at hnil
    | false => simp [elemJs, createMirror, Except.map]
  | ok fs =>
    have he := hempty fs rfl
    cases noKids with
    | true => cases noAttrs <;> simp [elemJs, createMirror, Except.map, Js.print, he]
    | false =>
      cases mk with
      | error e => simp [elemJs, createMirror, Except.map]
      | ok ks => simp [elemJs, createMirror, Except.map, Js.print]

theorem jsQuote_ne_nil (s : Str) : jsQuote s ≠ [] := by simp [jsQuote]

theorem create_print_ne_nil (nm : Str) (fs : JsFields) (nk : Bool) (ks : Jss) (i : Nat) (eol : Str) :
    (Js.create nm fs nk ks).print i eol ≠ [] := by
  simp only [Js.print]
  split <;> (try split) <;> simp [sCreate]

theorem createMirror_print_ne_nil {nm : Str} {nk : Bool} {mf : Except Err JsFields} {mk : Except Err Jss} {j : Js}
    (h : createMirror nm nk mf mk = .ok j) (i : Nat) (eol : Str) : j.print i eol ≠ [] := by
  unfold createMirror at h
  cases mf with
  | error e => simp at h
  | ok fs =>
    cases nk with
    | true => simp at h; subst h; exact create_print_ne_nil _ _ _ _ _ _
    | false =>
      cases mk with
      | error e => simp at h
      | ok ks => simp at h; subst h; exact create_print_ne_nil _ _ _ _ _ _

theorem mirrorFields_isEmpty {top : Bool} {ps : JProps} {fs : JsFields} (h : ps.mirrorFields top = .ok fs) :
    fs.isEmpty = ps.isEmpty := by
  cases ps with
  | nil => simp [JProps.mirrorFields] at h; subst h; rfl
  | cons k v t =>
    simp only [JProps.mirrorFields] at h
    split at h
    · simp at h
    · split at h
      · simp at h
      · simp at h; subst h; rfl

theorem mirror_print_ne_nil {x : JNode} {j : Js} (hx : ∀ m, x ≠ .md m) (h : x.mirror = .ok j) (i : Nat) (eol : Str) :
    j.print i eol ≠ [] := by
  cases x with
  | md m => exact absurd rfl (hx m)
  | str k s => cases k <;> simp [JNode.mirror] at h <;> subst h <;> simp [Js.print, jsQuote]
  | comp n ps ks => simp only [JNode.mirror] at h; exact createMirror_print_ne_nil h i eol
  | tag n a ks => simp only [JNode.mirror] at h; exact createMirror_print_ne_nil h i eol
  | tobj e => simp [JNode.mirror] at h
  | tobjL es => simp [JNode.mirror] at h

mutual
  theorem mirror_node (x : JNode) (i : Nat) (eol : Str) :
      x.renderJs i eol = x.mirror.map fun j => j.print i eol := by
    cases x with
    | md m => simp [JNode.renderJs, JNode.mirror, Except.map, Js.print]
    | str k s => cases k <;> simp [JNode.renderJs, JNode.mirror, Except.map, Js.print]
    | comp n ps ks =>
      simp only [JNode.renderJs, JNode.mirror]
      rw [mirror_fields true ps, mirror_kids ks (i + 1) eol]
      exact elem_mirror i eol n ps.isEmpty ks.isEmpty _ _
        (by intro h; cases ps <;> simp_all [JProps.isEmpty, JProps.mirrorFields])
        (fun fs h => mirrorFields_isEmpty h)
    | tag n a ks =>
      simp only [JNode.renderJs, JNode.mirror]
      rw [attrs_mirror a, mirror_kids ks (i + 1) eol]
      exact elem_mirror i eol _ a.isEmpty ks.isEmpty _ _
        (by intro h; cases a <;> simp_all [attrsMirror])
        (fun fs h => attrsMirror_isEmpty h)
    | tobj e => simp [JNode.renderJs, JNode.mirror, Except.map]
    | tobjL es => simp [JNode.renderJs, JNode.mirror, Except.map]
  theorem mirror_kids (ks : JNodes) (i : Nat) (eol : Str) :
      ks.kidsJs i eol = ks.mirrorKids.map fun js => js.printKids i eol := by
    cases ks with
    | nil => simp [JNodes.kidsJs, JNodes.mirrorKids, Except.map, Jss.printKids]
    | cons h t =>
      by_cases hmd : ∃ m, h = .md m
      · obtain ⟨m, rfl⟩ := hmd
        simp only [JNodes.kidsJs, JNode.renderJs, JNodes.mirrorKids]
        rw [mirror_kids t i eol]
        cases t.mirrorKids <;> simp [Except.map]
      · have hx : ∀ m, h ≠ .md m := fun m hm => hmd ⟨m, hm⟩
        have hk : (JNodes.cons h t).mirrorKids =
            match h.mirror with
            | .error e => .error e
            | .ok j => match t.mirrorKids with
              | .error e => .error e
              | .ok js => .ok (.cons j js) := by
          cases h <;> first | (exact absurd rfl (hx _)) | (simp only [JNodes.mirrorKids]; rfl)
        rw [hk]
        simp only [JNodes.kidsJs]
        rw [mirror_node h i eol, mirror_kids t i eol]
        cases hm : h.mirror with
        | error e => simp [Except.map]
        | ok j =>
          have hne := mirror_print_ne_nil hx hm i eol
          cases t.mirrorKids <;> simp [Except.map, Jss.printKids, hne]
  theorem mirror_val (v : JVal) : v.serialize = v.mirrorVal.map fun j => j.print 0 ['\n'] := by
    cases v with
    | null => simp [JVal.serialize, JVal.mirrorVal, Except.map, Js.print]
    | bool b => cases b <;> simp [JVal.serialize, JVal.mirrorVal, Except.map, Js.print]
    | num t => simp [JVal.serialize, JVal.mirrorVal, Except.map, Js.print]
    | list tup vs =>
      simp only [JVal.serialize, JVal.mirrorVal]
      rw [mirror_vals vs]
      cases vs.mirrorVals <;> simp [Except.map, Js.print]
    | dict fs =>
      simp only [JVal.serialize, JVal.mirrorVal]
      rw [mirror_fields false fs]
      cases fs.mirrorFields false <;> simp [Except.map, Js.print]
    | node n =>
      cases n with
      | str k s => cases k <;> simp [JVal.serialize, JVal.mirrorVal, Except.map, Js.print, indentStr]
      | comp n p k => simp only [JVal.serialize, JVal.mirrorVal]; exact mirror_node _ 0 _
      | tag n a k => simp only [JVal.serialize, JVal.mirrorVal]; exact mirror_node _ 0 _
      | md m => simp [JVal.serialize, JVal.mirrorVal, Except.map]
      | tobj e => simp [JVal.serialize, JVal.mirrorVal, Except.map]
      | tobjL es => simp [JVal.serialize, JVal.mirrorVal, Except.map]
  theorem mirror_vals (vs : JVals) : vs.serializeAll = vs.mirrorVals.map fun js => js.printItems := by
    cases vs with
    | nil => simp [JVals.serializeAll, JVals.mirrorVals, Except.map, Jss.printItems]
    | cons h t =>
      simp only [JVals.serializeAll, JVals.mirrorVals]
      rw [mirror_val h, mirror_vals t]
      cases h.mirrorVal <;> simp [Except.map]
      cases t.mirrorVals <;> simp [Jss.printItems]
  theorem mirror_style (v : JVal) : v.serializeStyle = v.mirrorStyle.map fun j => j.print 0 ['\n'] := by
    cases v with
    | null => simp [JVal.serializeStyle, JVal.mirrorStyle, Except.map, Js.print, JsFields.printFields, jsObj, joinStr]
    | dict fs =>
      simp only [JVal.serializeStyle, JVal.mirrorStyle]
      rw [mirror_fields false fs]
      cases fs.mirrorFields false <;> simp [Except.map, Js.print]
    | node n =>
      cases n with
      | str k s =>
        cases k <;> simp only [JVal.serializeStyle, JVal.mirrorStyle, styleOfString_eq] <;>
          first | (cases parseStyle s <;> simp [Except.map]) | simp [Except.map]
      | _ => simp [JVal.serializeStyle, JVal.mirrorStyle, Except.map]
    | _ => simp [JVal.serializeStyle, JVal.mirrorStyle, Except.map]
  theorem mirror_fields (top : Bool) (ps : JProps) :
      ps.fieldsJs top = (ps.mirrorFields top).map fun fs => fs.printFields := by
    cases ps with
    | nil => simp [JProps.fieldsJs, JProps.mirrorFields, Except.map, JsFields.printFields]
    | cons k v t =>
      simp only [JProps.fieldsJs, JProps.mirrorFields]
      rw [mirror_fields top t]
      by_cases hs : (top && decide (k = chars% "style")) = true
      · rw [if_pos hs, if_pos hs, mirror_style v]
        cases v.mirrorStyle <;> simp [Except.map]
        cases t.mirrorFields top <;> simp [JsFields.printFields]
      · rw [if_neg hs, if_neg hs, mirror_val v]
        cases v.mirrorVal <;> simp [Except.map]
        cases t.mirrorFields top <;> simp [JsFields.printFields]
end

theorem mirrorFields_keys {top : Bool} : {ps : JProps} → {fs : JsFields} → ps.mirrorFields top = .ok fs →
    fs.keys = ps.keys
  | .nil, fs, h => by simp [JProps.mirrorFields] at h; subst h; rfl
  | .cons k v t, fs, h => by
    simp only [JProps.mirrorFields] at h
    split at h
    · simp at h
    · split at h
      · simp at h
      · rename_i js hjs
        simp at h; subst h
        simp [JsFields.keys, JProps.keys, mirrorFields_keys hjs]

/-! ### string literals -/

theorem jsEscChar_quote : jsEscChar '"' = some ['"'] := by decide

theorem jsBody_quoted (s : Str) (h : plainJsText s = true) :
    jsBody false (replaceChar '"' ['\\', '"'] s ++ ['"']) = some s := by
  induction s with
  | nil => simp [replaceChar, jsBody]
  | cons c r ih =>
    simp only [plainJsText, List.all_cons, Bool.and_eq_true, bne_iff_ne, ne_eq] at h
    obtain ⟨⟨⟨h1, h2⟩, h3⟩, hr⟩ := h
    have ihr := ih (by simpa [plainJsText] using hr)
    simp only [replaceChar, List.flatMap_cons] at ihr ⊢
    by_cases hq : c = '"'
    · subst hq
      simp [jsBody, jsEscChar_quote, ihr]
    · simp [hq, jsBody, h1, h2, h3, ihr]

/-! ### the props dict built from keyword arguments -/

theorem set_keys (k : Str) (v : JVal) : (ps : JProps) →
    (ps.set k v).keys = if k ∈ ps.keys then ps.keys else ps.keys ++ [k]
  | .nil => by simp [JProps.set, JProps.keys]
  | .cons k' v' t => by
    have ih := set_keys k v t
    by_cases h : k' = k
    · simp [JProps.set, JProps.keys, h]
    · have h' : ¬ k = k' := fun e => h e.symm
      simp only [JProps.set, h, if_false, JProps.keys, ih, List.mem_cons, h', false_or]
      split <;> simp

theorem set_nodup (k : Str) (v : JVal) (ps : JProps) (h : ps.keys.Nodup) : (ps.set k v).keys.Nodup := by
  rw [set_keys]
  split
  · exact h
  · rename_i hk
    exact List.nodup_append.mpr ⟨h, by simp, by
      intro a ha b hb
      simp at hb; subst hb
      exact fun e => hk (e ▸ ha)⟩

theorem set_lookup (k : Str) (v : JVal) (k' : Str) : (ps : JProps) →
    (ps.set k v).lookup k' = if k' = k then some v else ps.lookup k'
  | .nil => by
    by_cases h : k' = k
    · simp [JProps.set, JProps.lookup, h]
    · have h' : ¬ k = k' := fun e => h e.symm
      simp [JProps.set, JProps.lookup, h, h']
  | .cons k2 v2 t => by
    have ih := set_lookup k v k' t
    by_cases h2 : k2 = k
    · subst h2
      by_cases h : k' = k2
      · simp [JProps.set, JProps.lookup, h]
      · have h' : ¬ k2 = k' := fun e => h e.symm
        simp [JProps.set, JProps.lookup, h, h']
    · simp only [JProps.set, h2, if_false, JProps.lookup, ih]
      by_cases h : k2 = k'
      · subst h; simp [h2]
      · simp [h]

/-- the loop of `_update` from any accumulated dict -/
def foldProps (acc : JProps) (kw : List (Str × JVal)) : JProps :=
  kw.foldl (fun acc kv => acc.set (normAttrName kv.1) kv.2) acc

theorem foldProps_nodup (kw : List (Str × JVal)) (acc : JProps) (h : acc.keys.Nodup) :
    (foldProps acc kw).keys.Nodup := by
  induction kw generalizing acc with
  | nil => simpa [foldProps] using h
  | cons kv r ih => exact ih _ (set_nodup _ _ _ h)

theorem foldProps_mem (kw : List (Str × JVal)) (acc : JProps) (k : Str) :
    k ∈ (foldProps acc kw).keys ↔ k ∈ acc.keys ∨ ∃ kv ∈ kw, normAttrName kv.1 = k := by
  induction kw generalizing acc with
  | nil => simp [foldProps]
  | cons kv r ih =>
    have := ih (acc.set (normAttrName kv.1) kv.2)
    simp only [foldProps, List.foldl_cons] at this ⊢
    rw [this, set_keys]
    by_cases hm : normAttrName kv.1 ∈ acc.keys
    · simp only [hm, if_true, List.mem_cons, exists_eq_or_imp]
      constructor
      · rintro (h | h)
        · exact .inl h
        · exact .inr (.inr h)
      · rintro (h | h | h)
        · exact .inl h
        · exact .inl (h ▸ hm)
        · exact .inr h
    · simp only [hm, if_false, List.mem_append, List.mem_cons, List.not_mem_nil, or_false, exists_eq_or_imp]
      constructor
      · rintro ((h | h) | h)
        · exact .inl h
        · exact .inr (.inl h.symm)
        · exact .inr (.inr h)
      · rintro (h | h | h)
        · exact .inl (.inl h)
        · exact .inl (.inr h.symm)
        · exact .inr h

/-- the value found under `k`: that of the last keyword argument whose normalised name is `k` -/
theorem foldProps_lookup (kw : List (Str × JVal)) (acc : JProps) (k : Str) :
    (foldProps acc kw).lookup k =
      match kw.reverse.find? (fun kv => normAttrName kv.1 = k) with
      | some kv => some kv.2
      | none => acc.lookup k := by
  induction kw generalizing acc with
  | nil => simp [foldProps]
  | cons kv r ih =>
    have := ih (acc.set (normAttrName kv.1) kv.2)
    simp only [foldProps, List.foldl_cons] at this ⊢
    rw [this, List.reverse_cons, List.find?_append]
    cases hf : r.reverse.find? (fun kv => normAttrName kv.1 = k) with
    | some x => simp
    | none =>
      by_cases hk : normAttrName kv.1 = k
      · simp [set_lookup _ _ _ _, hk]
      · have hk' : ¬ k = normAttrName kv.1 := fun e => hk e.symm
        simp [set_lookup _ _ _ _, hk, hk']

/-! ### `metasIn` lists exactly the attached metadata nodes -/

mutual
  theorem attached_of_mem (x : JNode) (m : JMeta) (h : m ∈ x.metasIn) : Attached x m := by
    cases x with
    | comp n ps ks =>
      simp only [JNode.metasIn, List.mem_append] at h
      rcases h with h | h
      · exact .compProp (attachedProps_of_mem ps m h)
      · exact .compChild (attachedKids_of_mem ks m h)
    | tag n a ks => exact .tagChild (attachedKids_of_mem ks m (by simpa [JNode.metasIn] using h))
    | str k s => simp [JNode.metasIn] at h
    | md m' => simp [JNode.metasIn] at h; subst h; exact .here _
    | tobj e => exact .expansion (attachedExp_of_mem e m (by simpa [JNode.metasIn] using h))
    | tobjL es => simp [JNode.metasIn] at h
  theorem attachedExp_of_mem (x : JNode) (m : JMeta) (h : m ∈ x.metasInExp) : AttachedExp x m := by
    cases x with
    | comp n ps ks =>
      simp only [JNode.metasInExp, List.mem_append] at h
      rcases h with h | h
      · exact .compProp (attachedProps_of_mem ps m h)
      · exact .compChild (attachedKids_of_mem ks m h)
    | tag n a ks => exact .tagChild (attachedKids_of_mem ks m (by simpa [JNode.metasInExp] using h))
    | str k s => simp [JNode.metasInExp] at h
    | md m' => simp [JNode.metasInExp] at h; subst h; exact .here _
    | tobj e => simp [JNode.metasInExp] at h
    | tobjL es => simp [JNode.metasInExp] at h
  theorem attachedKids_of_mem (ks : JNodes) (m : JMeta) (h : m ∈ ks.metasInKids) : AttachedKids ks m := by
    cases ks with
    | nil => simp [JNodes.metasInKids] at h
    | cons x t =>
      simp only [JNodes.metasInKids, List.mem_append] at h
      rcases h with h | h
      · exact .head (attached_of_mem x m h)
      · exact .tail (attachedKids_of_mem t m h)
  theorem attachedProps_of_mem (ps : JProps) (m : JMeta) (h : m ∈ ps.metasInProps) : AttachedProps ps m := by
    cases ps with
    | nil => simp [JProps.metasInProps] at h
    | cons k v t =>
      simp only [JProps.metasInProps, List.mem_append] at h
      rcases h with h | h
      · cases v with
        | node n => exact .head (attached_of_mem n m (by simpa [JVal.metasInVal] using h))
        | _ => simp [JVal.metasInVal] at h
      · exact .tail (attachedProps_of_mem t m h)
end

mutual
  theorem mem_of_attached (x : JNode) (m : JMeta) (h : Attached x m) : m ∈ x.metasIn := by
    cases x with
    | comp n ps ks =>
      simp only [JNode.metasIn, List.mem_append]
      cases h with
      | compChild hk => exact .inr (mem_of_attachedKids ks m hk)
      | compProp hp => exact .inl (mem_of_attachedProps ps m hp)
    | tag n a ks => cases h with | tagChild hk => simpa [JNode.metasIn] using mem_of_attachedKids ks m hk
    | str k s => cases h
    | md m' => cases h; simp [JNode.metasIn]
    | tobj e => cases h with | expansion he => simpa [JNode.metasIn] using mem_of_attachedExp e m he
    | tobjL es => cases h
  theorem mem_of_attachedExp (x : JNode) (m : JMeta) (h : AttachedExp x m) : m ∈ x.metasInExp := by
    cases x with
    | comp n ps ks =>
      simp only [JNode.metasInExp, List.mem_append]
      cases h with
      | compChild hk => exact .inr (mem_of_attachedKids ks m hk)
      | compProp hp => exact .inl (mem_of_attachedProps ps m hp)
    | tag n a ks => cases h with | tagChild hk => simpa [JNode.metasInExp] using mem_of_attachedKids ks m hk
    | str k s => cases h
    | md m' => cases h; simp [JNode.metasInExp]
    | tobj e => cases h
    | tobjL es => cases h
  theorem mem_of_attachedKids (ks : JNodes) (m : JMeta) (h : AttachedKids ks m) : m ∈ ks.metasInKids := by
    cases ks with
    | nil => cases h
    | cons x t =>
      simp only [JNodes.metasInKids, List.mem_append]
      cases h with
      | head hh => exact .inl (mem_of_attached x m hh)
      | tail ht => exact .inr (mem_of_attachedKids t m ht)
  theorem mem_of_attachedProps (ps : JProps) (m : JMeta) (h : AttachedProps ps m) : m ∈ ps.metasInProps := by
    cases ps with
    | nil => cases h
    | cons k v t =>
      simp only [JProps.metasInProps, List.mem_append]
      cases h with
      | head hh => exact .inl (by simpa [JVal.metasInVal] using mem_of_attached _ m hh)
      | tail ht => exact .inr (mem_of_attachedProps t m ht)
end

/-! ### text of the script element -/

theorem visible_metas (ms : List JMeta) : (Nodes.ofList (ms.map JMeta.toNode)).visible = [] := by
  induction ms with
  | nil => simp [Nodes.ofList, Nodes.visible]
  | cons m r ih => cases m <;> simp [Nodes.ofList, Nodes.visible, JMeta.toNode, Node.isMeta, ih]

end HtmlVerif.JsxL
