/-
Source tie (DESIGN §14) for C13 — serialised dependencies round-trip through HTML text.
-/
import HtmlVerif.Generated.Src
import HtmlVerif.Lemmas.SrcC13
import HtmlVerif.Props.SrcC10b

set_option linter.unusedVariables false
set_option linter.unusedSimpArgs false

namespace HtmlVerif.SrcTie
open HtmlVerif HtmlVerif.Py HtmlVerif.Generated.Src

/-- `_static_extract_serialized_html_deps(html)` as the source has it, for **every** text: the text that remains and the
    bodies are the model's `scan` (the two `re` calls are stated through it: Py/PrimC13.lean); the loop rebuilds exactly the
    bodies `tdDedupKeepFirst` keeps (first occurrence of each distinct text), in order, each with
    `HTMLDependency(**json.loads(body))` (`rebuildC13`), the first failure deciding; the answer is the pair
    `(remaining text, list of dependencies)`. -/
theorem src_static_extractC13 (h : HTMLTextDocument_static_extract_available = true) (G : Globals) (html : Str) :
    HTMLTextDocument_static_extract G (.str html)
      = (rebuildAllC13 (rebuildC13 G) (tdDedupKeepFirst (scan html.length html).2) >>= fun ds =>
          .ok (.tuple [.str (scan html.length html).1, .list ds])) := by
  first
  | exact absurd h (by decide)
  | skip
  all_goals (
    unfold HTMLTextDocument_static_extract
    simp only [ok_bind, pure_eq_ok, truthy_bool, reFindallC13_str _ _ rfl, reSubC13_str _ _ rfl, pyIter_list, pySetNewC13_eq]
    refine (extract_loop_kC13 (fun s => s.1) (fun s => s.2.1) (rebuildC13 G) _ _ ?step _ (fun ds => .ok (.tuple [.str (scan html.length html).1, .list ds])) ?k _ [] [] rfl rfl).trans ?_
    case k =>
      intro s ds hs
      obtain ⟨s1, s2, s3⟩ := s
      simp only at hs
      simp only [hs]
    case step =>
      intro b s seen acc hs hd
      obtain ⟨s1, s2, s3⟩ := s
      simp only at hs hd
      subst hs hd
      constructor
      · intro hc
        simp only [pyInC13_set, hc, ok_bind, truthy_bool, if_true]
        exact ⟨_, rfl, rfl, rfl⟩
      · intro hc
        simp only [pyInC13_set, hc, ok_bind, truthy_bool, Bool.false_eq_true, if_false, pyListAppendC13_list, pySetAddC13_set _ _ hc]
        constructor
        · intro e he
          exact bind2_errorC13 he
        · intro d hd
          exact bind2_okC13 hd (fun a => ⟨_, rfl, rfl, rfl⟩)
    simp only [List.nil_append]
    rfl)


/-- one serialised body, through `json.loads` (`jsonParse`), the keyword call and the constructor **as the source has it**
    (`src_init`, Props/SrcC10b.lean): `HTMLDependency(**json.loads(serBody indent d))` is the dependency `d` again — name,
    version (what `packaging` makes of the text: `hver`), source, script, stylesheet, meta, all_files, and head as
    `TagList(HTML(markup))` — for every well-formed record whose dicts have pairwise distinct keys, and any indent -/
theorem src_rebuild_serBodyC13 (h : HTMLDependency_init_available = true) (h1 : HTMLDependency_validate_dicts_available = true)
    (h2 : HTMLDependency_validate_dict_available = true) (G : Globals) (ind : Option Nat) (d : SDep) (rk : Nat)
    (hw : d.wellFormed = true) (hnd : SDepNodupC13 d)
    (hver : G.mkVersion d.info.version = some (versionObjC10b rk d.info.version)) :
    projDepC10b <$> rebuildC13 G (serBody ind d) = .ok (embSDepC13 rk d) := by
  first
  | exact absurd h (by decide)
  | skip
  all_goals (
    have hi := src_init h h1 h2 G "HTMLDependency" (depArgVC13 rk d) (.str d.info.version)
      (.inl ⟨d.info.version, rfl, by simpa [depArgVC13] using hver⟩) (headVC13 d.head)
    rw [depInit_recordC13 rk d hw] at hi
    simp only [rebuildC13, pyJsonLoadsC13, jsonParse_serBody, pure_eq_ok, ok_bind, embJson_depToJsonC13 d hnd, callKw_recordC13,
      newDepC13]
    refine hi.trans ?_
    cases hh : d.head <;> simp [headVC13, HeadV.res, embSDepC13, depArgVC13, hh, embDepObjC10b])


/-- … against the model: if rebuilding each body that is kept does what the model's `recover` says (`hrec`: discharged for
    serialised bodies by `src_rebuild_serBodyC13`, for texts that are not JSON / not a record by `src_rebuild_*C13` below),
    the function computes the model's `extract` — remaining text, one dependency per distinct body in order of first
    appearance, or the error of the first body that fails.  `rk`: the rank `packaging` gives a version text. -/
theorem src_static_extract_modelC13 (h : HTMLTextDocument_static_extract_available = true) (G : Globals) (html : Str)
    (rk : Str → Nat)
    (hrec : ∀ b ∈ tdDedupKeepFirst (scan html.length html).2,
      projDepC10b <$> rebuildC13 G b = embRes (fun d => embSDepC13 (rk d.info.version) d) (recover b)) :
    projExtractC13 <$> HTMLTextDocument_static_extract G (.str html)
      = embRes (embExtractC13 fun d => embSDepC13 (rk d.info.version) d) (extract html) := by
  have hA := rebuildAll_recoverAllC13 (rebuildC13 G) (fun d => embSDepC13 (rk d.info.version) d) _ hrec
  rw [src_static_extractC13 h G html, extract]
  cases hr : recoverAll (tdDedupKeepFirst (scan html.length html).2) with
  | error er =>
    rw [hr] at hA
    cases hB : rebuildAllC13 (rebuildC13 G) (tdDedupKeepFirst (scan html.length html).2) with
    | error e' => rw [hB] at hA; simp only [map_error, Except.error.injEq] at hA; simp [embRes, hA]
    | ok vs => rw [hB] at hA; simp at hA
  | ok ds =>
    rw [hr] at hA
    cases hB : rebuildAllC13 (rebuildC13 G) (tdDedupKeepFirst (scan html.length html).2) with
    | error e' => rw [hB] at hA; simp at hA
    | ok vs =>
      rw [hB] at hA
      simp only [map_ok, Except.ok.injEq] at hA
      simp [embRes, embExtractC13, projExtractC13, hA]

/-- **round trip through text, as the source has it**: for text chunks without the OPEN marker around serialised copies
    (any indents) of well-formed dependencies, `_static_extract_serialized_html_deps` returns the text with exactly the
    serialised elements removed and, once per distinct serialisation in order of first appearance, the dependency that
    was serialised (every field; head as `TagList(HTML(markup))`) — this is `C13_extract_spec` said about the source
    text of the extraction *and* of `HTMLDependency.__init__` -/
theorem src_extract_roundtripC13 (h : HTMLTextDocument_static_extract_available = true)
    (hi0 : HTMLDependency_init_available = true) (h1 : HTMLDependency_validate_dicts_available = true)
    (h2 : HTMLDependency_validate_dict_available = true) (G : Globals) (t0 : Str) (items : List Item) (rk : Str → Nat)
    (h0 : ¬ openMarker <:+: t0) (hi : ∀ it ∈ items, ¬ openMarker <:+: it.2.2)
    (hw : ∀ it ∈ items, it.2.1.wellFormed = true) (hnd : ∀ it ∈ items, SDepNodupC13 it.2.1)
    (hver : ∀ it ∈ items, G.mkVersion it.2.1.info.version
      = some (versionObjC10b (rk it.2.1.info.version) it.2.1.info.version)) :
    projExtractC13 <$> HTMLTextDocument_static_extract G (.str (interleave t0 items))
      = .ok (.tuple [.str (remText t0 items),
          .list ((dedupOn Item.body items).map fun it => embSDepC13 (rk it.2.1.info.version) it.2.1)]) := by
  have hlen : items.length ≤ (interleave t0 items).length := by
    rw [interleave_eq]; simpa using length_interleaveB t0 (items.map fun it => (it.body, it.2.2))
  have hs := scan_interleave t0 items _ hlen h0 hi
  rw [src_static_extract_modelC13 h G _ rk, extract_interleave t0 items h0 hi hw]
  · simp only [embRes, embExtractC13, List.map_map, Function.comp_def, norm_versionC13, embSDep_normC13]
  · intro b hb
    rw [hs] at hb
    have hb' := mem_dedupGoC13 _ _ _ hb
    simp only [List.mem_map] at hb'
    obtain ⟨it, hit, rfl⟩ := hb'
    rw [show it.body = serBody it.1 it.2.1 from rfl, recover_serBody _ _ (hw it hit),
      src_rebuild_serBodyC13 hi0 h1 h2 G it.1 it.2.1 _ (hw it hit) (hnd it hit) (hver it hit)]
    simp only [embRes, norm_versionC13, embSDep_normC13]


/-- `_extract_serialized_html_deps()` as the source has it, on any instance whose `_html` is a `str` and whose `_deps` is a
    list (of anything): `_html` becomes the remaining text, the rebuilt dependencies are appended to `_deps`; a failing
    body leaves an exception (the instance is not returned) -/
theorem src_extractC13 (h : HTMLTextDocument_extract_available = true) (h' : HTMLTextDocument_static_extract_available = true)
    (G : Globals) (cls : String) (fs : List (String × PVal)) (html : Str) (given : List PVal)
    (hh : fieldGet? "_html" fs = some (.str html)) (hd : fieldGet? "_deps" fs = some (.list given)) :
    HTMLTextDocument_extract G (.obj cls fs)
      = (rebuildAllC13 (rebuildC13 G) (tdDedupKeepFirst (scan html.length html).2) >>= fun ds =>
          .ok (.obj cls (fieldSet "_deps" (.list (given ++ ds)) (fieldSet "_html" (.str (scan html.length html).1) fs)))) := by
  first
  | exact absurd h (by decide)
  | skip
  all_goals (
    unfold HTMLTextDocument_extract
    simp only [pyGetAttr_objC10b _ _ _ _ hh, ok_bind, src_static_extractC13 h' G html]
    cases rebuildAllC13 (rebuildC13 G) (tdDedupKeepFirst (scan html.length html).2) with
    | error e => rfl
    | ok ds =>
      have hd' : fieldGet? "_deps" (fieldSet "_html" (PVal.str (scan html.length html).1) fs) = some (.list given) := by
        rw [fieldGet?_fieldSet_otherC13 _ _ _ _ (by decide)]; exact hd
      simp only [ok_bind, pyUnpack2_tuple, pySetAttr_objC10b, pyGetAttr_objC10b _ _ _ _ hd', pyListExtendC13_list, pure_eq_ok])

/-- `HTMLTextDocument.__init__` as the source has it, for every text, `deps=` None or a list (of anything) and any
    `deps_replace_pattern=`: ValueError when a list is given without a placeholder; otherwise the instance holds the
    remaining text, the given list followed by the rebuilt dependencies, and the placeholder -/
theorem src_textdoc_initC13 (h : HTMLTextDocument_init_available = true) (h' : HTMLTextDocument_extract_available = true)
    (h'' : HTMLTextDocument_static_extract_available = true) (G : Globals) (cls : String) (html : Str)
    (given : Option (List PVal)) (ph : PVal) :
    HTMLTextDocument_init G (.obj cls []) (.str html) (optListC13 given) ph
      = if isNone ph && given.isSome then .error .valueError else
        (rebuildAllC13 (rebuildC13 G) (tdDedupKeepFirst (scan html.length html).2) >>= fun ds =>
          .ok (textDocObjC13 cls (scan html.length html).1 (given.getD [] ++ ds) ph)) := by
  first
  | exact absurd h (by decide)
  | skip
  all_goals (
    unfold HTMLTextDocument_init
    have hex := fun fs given hh hd => src_extractC13 h' h'' G cls fs html given hh hd
    have hand : ∀ b c : Bool, pyAnd (Except.ok (PVal.bool b)) (Except.ok (PVal.bool c)) = .ok (.bool (b && c)) := by
      intro b c; cases b <;> rfl
    cases given with
    | none =>
      simp only [optListC13, isNone_noneC10b, Bool.not_true, hand, pure_eq_ok, ok_bind, truthy_bool, Bool.and_false,
        Bool.false_eq_true, if_false, if_true, pySetAttr_objC10b, fieldSet, Option.isSome_none, Option.getD_none]
      rw [hex _ [] (by simp [fieldGet?, fieldSet]) (by simp [fieldGet?, fieldSet])]
      cases rebuildAllC13 (rebuildC13 G) (tdDedupKeepFirst (scan html.length html).2) <;> rfl
    | some l =>
      simp only [optListC13, isNone_listC10b, Bool.not_false, hand, pure_eq_ok, ok_bind, truthy_bool, Bool.and_true,
        Option.isSome_some, Option.getD_some]
      cases hn : isNone ph
      · simp only [Bool.false_eq_true, if_false, ok_bind, pure_eq_ok, pySetAttr_objC10b, fieldSet]
        rw [hex _ l (by simp [fieldGet?, fieldSet]) (by simp [fieldGet?, fieldSet])]
        cases rebuildAllC13 (rebuildC13 G) (tdDedupKeepFirst (scan html.length html).2) <;> rfl
      · simp only [if_true]
        rfl)

/-- … against the model (`textDocInit`), under the same hypothesis about the bodies as `src_static_extract_modelC13`:
    given dependencies `gs` (embedded like the rebuilt ones), placeholder None or a `str` -/
theorem src_textdoc_init_modelC13 (h : HTMLTextDocument_init_available = true) (h' : HTMLTextDocument_extract_available = true)
    (h'' : HTMLTextDocument_static_extract_available = true) (G : Globals) (cls : String) (html : Str)
    (gs : Option (List SDep)) (ph : Option Str) (rk : Str → Nat)
    (hrec : ∀ b ∈ tdDedupKeepFirst (scan html.length html).2,
      projDepC10b <$> rebuildC13 G b = embRes (fun d => embSDepC13 (rk d.info.version) d) (recover b)) :
    projDocC13 <$> HTMLTextDocument_init G (.obj cls []) (.str html)
        (optListC13 (gs.map fun l => l.map fun d => embSDepC13 (rk d.info.version) d)) (optStrC13 ph)
      = embRes (fun p => textDocObjC13 cls p.1 (p.2.map fun d => embSDepC13 (rk d.info.version) d) (optStrC13 ph))
          (textDocInit html gs ph) := by
  have hA := rebuildAll_recoverAllC13 (rebuildC13 G) (fun d => embSDepC13 (rk d.info.version) d) _ hrec
  have hn : isNone (optStrC13 ph) = ph.isNone := by cases ph <;> rfl
  rw [src_textdoc_initC13 h h' h'' G cls html, textDocInit, hn, extract]
  cases hc : (ph.isNone && gs.isSome)
  · have hc' : (ph.isNone && (Option.map (fun l => List.map (fun d => embSDepC13 (rk d.info.version) d) l) gs).isSome) = false := by
      simpa using hc
    simp only [hc', Bool.false_eq_true, if_false]
    cases hr : recoverAll (tdDedupKeepFirst (scan html.length html).2) with
    | error er =>
      rw [hr] at hA
      cases hB : rebuildAllC13 (rebuildC13 G) (tdDedupKeepFirst (scan html.length html).2) with
      | error e' => rw [hB] at hA; simp only [map_error, Except.error.injEq] at hA; simp [embRes, hA]
      | ok vs => rw [hB] at hA; simp at hA
    | ok ds =>
      rw [hr] at hA
      cases hB : rebuildAllC13 (rebuildC13 G) (tdDedupKeepFirst (scan html.length html).2) with
      | error e' => rw [hB] at hA; simp at hA
      | ok vs =>
        rw [hB] at hA
        simp only [map_ok, Except.ok.injEq] at hA
        cases gs <;>
          simp [embRes, textDocObjC13, projDocC13, hA, projDep_embSDepC13, Function.comp_def]
  · have hc' : (ph.isNone && (Option.map (fun l => List.map (fun d => embSDepC13 (rk d.info.version) d) l) gs).isSome) = true := by
      simpa using hc
    simp only [hc', if_true, map_error, embRes, embErr]


end HtmlVerif.SrcTie
